/* C14 tier 2: the REAL communication engine (parsec_mpi_funnelled.c, compiled twice: eng_r0.c / eng_r1.c) for 2 virtual ranks in
 * one process over the virtual MPI (vmpi.c), searched explicitly.
 *
 * Transitions of the searched system (all other nondeterminism of an MPI run reduces to these, see NOTES.md):
 *   A(r)  rank r makes the next call of its script (send_am / put request / get offer); not enabled while a rendezvous-size
 *         send_am could not be matched (the rank would sit in MPI_Send);
 *   P(r)  rank r calls progress() once (then serves deferred puts while can_serve(), as remote_dep_mpi.c does); enabled only
 *         when the call would do something (a completed request sits in the engine's MPI_Testsome array, or a queued request can
 *         be installed) - a call that would do nothing leaves the state unchanged;
 *   inside P(r), every MPI_Testsome call that finds k >= 1 completed requests chooses which subset it reports (vmpi.c).
 * Search: depth-first over choice sequences, every run replayed from fresh engines (mpi_funnelled_init .. fini of the real
 * code); states are identified by the pair of per-rank OBSERVATION HASHES (everything a rank did and everything MPI told it,
 * address-free; vmpi.h) - two histories with the same pair differ only in the interleaving of steps that did not observe each
 * other, so the engines (deterministic, sequential) and the virtual MPI are in the same state; a state seen before (with at
 * least the same remaining deviation budget) is not expanded again.  mode "full": no bound, the search closes = every
 * interleaving and every reporting order of the script; mode "dN": at most N choices differ from the default (= deliver
 * everything at once, in order: choice 0 everywhere).
 * Oracle: tier 1's (c14_script.h) + the virtual MPI's usage checks + assertions of the engine + no terminal state with an
 * unfinished script + nothing left in the virtual MPI at the end.
 */
#define H_NR 2
#include "vmpi.h"
#include "eng_api.h"
static parsec_comm_engine_t *g_ce[2];
#define H_CE(r) (g_ce[r])
#define H_CUR() vm_rank()
#define H_ENTER(r) do { vm_set_rank(r); vm_step_begin(); } while (0)
#define H_OBS(r, x) vm_obs((r), (uint64_t)(x))
#include "c14_script.h"
#include "vranks.h"
#include "parsec/utils/mca_param.h"
#include "parsec/execution_stream.h"
#include "parsec/parsec_internal.h"
#include "parsec/remote_dep.h"
#include <sys/wait.h>
#include <sys/mman.h>
#include <malloc.h>
#include <errno.h>

#define PROPERTY "C14"
#define KF1 "C14-get-recv-window-deadlock"
#define KF2 "C14-get-put-data-tag-collision"
static const eng_api_t *g_api[2] = { &eng_api_vr0, &eng_api_vr1 };
static parsec_context_t *g_ctx[2];
static parsec_vp_t *g_vp;
static int known1 = 0, known2 = 0;           /* the ids are recorded in known_findings.json (told by check.py) */
static int o_verbose = 0;

/* ------------------------------------------------------------------ the world */
static void harness_broken(const char *fmt, ...)
{
    va_list ap; va_start(ap, fmt); fprintf(stderr, "c14_v: BROKEN: "); vfprintf(stderr, fmt, ap); fprintf(stderr, "\n"); va_end(ap);
    fflush(NULL); _exit(2);
}
static void on_fatal(const char *msg)
{
    if (!strncmp(msg, "HARNESS:", 8)) harness_broken("%s (scenario %s)", msg, SC.text);
    if (vr_armed) { vr_armed = 0; vr_fail("%s", msg); siglongjmp(vr_jb, 1); }
    harness_broken("virtual MPI error outside a guarded step: %s", msg);
}
/* watchdog: an engine call that does not come back (a loop that does not go through MPI_Testsome) */
static void on_alarm(int sig) { (void)sig; if (vr_armed) { vr_armed = 0; vr_fail("an engine call did not return within 20 s (endless loop inside the engine)"); siglongjmp(vr_jb, 1); } }
static const char *win_env[4] = { "PARSEC_MCA_runtime_comm_mpi_am_posted_requests", "PARSEC_MCA_runtime_comm_mpi_am_tested_requests",
                                   "PARSEC_MCA_runtime_comm_mpi_dynamic_requests", "PARSEC_MCA_runtime_comm_mpi_dynamic_recv_requests" };
static int g_world_up = 0;
/* per scenario: the window parameters travel through the environment, mpi_funnelled_init registers and reads them again at every
 * initialisation (checked against the instance's effective values in run_begin) */
static void world_config(void)
{
    for (int i = 0; i < 4; i++) { char v[16]; snprintf(v, sizeof(v), "%d", SC.cfg[i]); setenv(win_env[i], v, 1); }
    vm_eager_limit = SC.eager;
}
static void world_init(void)
{
    world_config();
    if (g_world_up) return;
    g_world_up = 1;
    setenv("PARSEC_MCA_comm_verbose", "-1", 1);
    parsec_mca_param_init();
    g_vp = (parsec_vp_t *)calloc(1, sizeof(parsec_vp_t) + 4 * sizeof(void *));
    for (int r = 0; r < 2; r++) {
        g_ctx[r] = (parsec_context_t *)calloc(1, sizeof(parsec_context_t) + 4 * sizeof(void *));
        g_ctx[r]->nb_vp = 1; g_ctx[r]->virtual_processes[0] = g_vp; g_ctx[r]->comm_ctx = -1;
    }
    g_vp->parsec_context = g_ctx[0];
    parsec_comm_es.virtual_process = g_vp;          /* next_tag() reads the context flags through it (no COMM_MT: plain counter) */
    vm_choose = NULL; vm_on_fatal = on_fatal;
    vr_install_guard();
    struct sigaction sa; memset(&sa, 0, sizeof(sa)); sa.sa_handler = on_alarm; sa.sa_flags = SA_NODEFER; sigaction(SIGALRM, &sa, NULL);
}
static int g_engines_up = 0;
static void run_begin_unguarded(void)
{
    vm_reset();
    for (int r = 0; r < 2; r++) {
        vm_set_rank(r); vm_step_begin();
        g_api[r]->reset_hidden();
        g_ctx[r]->comm_ctx = -1; g_ctx[r]->nb_nodes = 0; g_ctx[r]->my_rank = -1;
        g_ce[r] = g_api[r]->init(g_ctx[r]);
        if (!g_ce[r]) harness_broken("mpi_funnelled_init failed");
        /* tags are registered before enable(): the request arrays are only built there (tier 1 NOTES) */
        for (int s = 0; s < NSTREAM; s++) if (PARSEC_SUCCESS != g_ce[r]->tag_register(stream_tag[s], am_cb, (void *)(intptr_t)s, stream_len[s])) harness_broken("tag %u not free", stream_tag[s]);
        if (PARSEC_SUCCESS != g_ce[r]->tag_register(TAG_C, ctl_cb, (void *)ctl_cb, LEN_C)) harness_broken("tag %u not free", TAG_C);
        g_ce[r]->enable(g_ce[r]);
        if (g_ctx[r]->my_rank != r || g_ctx[r]->nb_nodes != 2) harness_broken("rank %d sees rank %d of %d", r, g_ctx[r]->my_rank, g_ctx[r]->nb_nodes);
        rank_state_reset(r, g_ce[r]->get_mem_handle_size());
        eng_probe_t pb; g_api[r]->probe(&pb);
        int et = SC.cfg[1] < SC.cfg[0] ? SC.cfg[1] : SC.cfg[0], er = SC.cfg[3] < SC.cfg[2] ? SC.cfg[3] : SC.cfg[2];
        if (pb.posted != SC.cfg[0] || pb.tested != et || pb.dyn != SC.cfg[2] || pb.dynrecv != er) harness_broken("window parameters %d,%d,%d,%d not in effect on rank %d (engine says %d,%d,%d,%d)", SC.cfg[0], SC.cfg[1], SC.cfg[2], SC.cfg[3], r, pb.posted, pb.tested, pb.dyn, pb.dynrecv);
        if (S(r)->handle_size > 256 || sizeof(ctl_hdr_t) + S(r)->handle_size > LEN_C) harness_broken("handle size %d", S(r)->handle_size);
    }
    g_engines_up = 1;
}
static void run_end_unguarded(void)
{
    for (int r = 0; r < 2 && g_engines_up; r++) {
        vm_set_rank(r); vm_step_begin();
        for (int k = 0; k < 4; k++) for (int id = 0; id < MAXX; id++) if (S(r)->xf[k][id].used) unreg(r, &S(r)->xf[k][id]);
        g_api[r]->teardown_drain();
        for (int s = 0; s < NSTREAM; s++) g_ce[r]->tag_unregister(stream_tag[s]);
        g_ce[r]->tag_unregister(TAG_C);
        g_ce[r]->fini(g_ce[r]);
    }
    g_engines_up = 0;
}

/* ------------------------------------------------------------------ transitions */
enum { T_P0 = 0, T_P1, T_A0, T_A1 };
static const char *tr_name[4] = { "P0", "P1", "A0", "A1" };
static eng_probe_t g_probe[2];
static long seen_sendfifo, seen_recvfifo, seen_deferred;
static int enabled_list(int *E)
{
    int n = 0;
    for (int r = 0; r < 2; r++) { g_api[r]->probe(&g_probe[r]); if (g_probe[r].sendfifo) seen_sendfifo++; if (g_probe[r].recvfifo) seen_recvfifo++; }
    for (int r = 0; r < 2; r++) {
        rank_state_t *st = S(r);
        int can_serve = g_probe[r].last_active < g_probe[r].cur_size;
        if (g_probe[r].reportable || g_probe[r].feedable || (st->pend_head != st->pend_tail && can_serve)) E[n++] = T_P0 + r;
    }
    for (int r = 0; r < 2; r++) {
        rank_state_t *st = S(r);
        if (st->next_op >= SC.nops[r]) continue;
        const sop_t *o = &SC.ops[r][st->next_op];
        if (o->kind == OP_AM && o->size > vm_eager_limit && !vm_posted_recv_exists(1 - r, (int)stream_tag[o->stream])) continue;   /* would block in MPI_Send */
        E[n++] = T_A0 + r;
    }
    return n;
}
static void fire(int t) { if (t <= T_P1) step_progress(t - T_P0); else step_op(t - T_A0); }

/* ------------------------------------------------------------------ the search */
#define MAXPATH 400
typedef struct { uint8_t ch, n, inner; uint64_t d0, d1; } cp_t;
static cp_t path[MAXPATH]; static int path_len, prefix_len, pos, devs, max_devs = 127, external_replay = 0, no_dedup = 0;
static int choose_cb(int n, int inner)
{
    int c;
    if (n <= 1) return 0;
    if (n > 255) harness_broken("choice of arity %d", n);
    if (pos < prefix_len) {
        if (!external_replay && (path[pos].n != n || path[pos].inner != inner)) harness_broken("nondeterministic replay in %s: choice point %d had arity %d (%s), now %d (%s)", SC.text, pos, path[pos].n, path[pos].inner ? "Testsome" : "transition", n, inner ? "Testsome" : "transition");
        c = path[pos].ch;
        if (c >= n) harness_broken("replay: choice %d of %d at point %d does not apply to this tree", c, n, pos);
        path[pos].n = (uint8_t)n; path[pos].inner = (uint8_t)inner;
    } else {
        if (pos >= MAXPATH) harness_broken("path longer than %d choice points", MAXPATH);
        path[pos].ch = 0; path[pos].n = (uint8_t)n; path[pos].inner = (uint8_t)inner; path[pos].d0 = path[pos].d1 = 0; c = 0; path_len = pos + 1;
    }
    if (c) devs++;
    pos++;
    return c;
}
static int backtrack(void)
{
    int nz = 0;
    for (int i = 0; i < path_len; i++) nz += path[i].ch != 0;
    for (int p = path_len - 1; p >= 0; p--) {
        if (path[p].ch) nz--;                       /* nz = deviations strictly before p */
        if (path[p].ch + 1 < path[p].n && (path[p].ch > 0 || nz + 1 <= max_devs)) { path[p].ch++; path_len = prefix_len = p + 1; return 1; }
    }
    return 0;
}
/* visited states: (d0, d1) -> largest remaining deviation budget seen */
typedef struct { uint64_t a, b; int8_t budget; } vis_t;
static vis_t *vis; static size_t vis_cap, vis_n;
static int visited_check(uint64_t a, uint64_t b, int budget)       /* 1 = seen with at least this budget (prune) */
{
    if (!a && !b) a = 1;
    if (vis_n * 2 >= vis_cap) {
        size_t nc = vis_cap ? vis_cap * 2 : 1 << 14; vis_t *nv = (vis_t *)calloc(nc, sizeof(vis_t));
        for (size_t i = 0; i < vis_cap; i++) if (vis[i].a || vis[i].b) { size_t j = (vis[i].a ^ vis[i].b * 0x9e3779b97f4a7c15ull) & (nc - 1); while (nv[j].a || nv[j].b) j = (j + 1) & (nc - 1); nv[j] = vis[i]; }
        free(vis); vis = nv; vis_cap = nc;
    }
    size_t j = (a ^ b * 0x9e3779b97f4a7c15ull) & (vis_cap - 1);
    while (vis[j].a || vis[j].b) {
        if (vis[j].a == a && vis[j].b == b) { if (vis[j].budget >= budget) return 1; vis[j].budget = (int8_t)budget; return 0; }
        j = (j + 1) & (vis_cap - 1);
    }
    vis[j].a = a; vis[j].b = b; vis[j].budget = (int8_t)budget; vis_n++;
    return 0;
}
static void state_digest(uint64_t *a, uint64_t *b)
{
    uint64_t d[2];
    for (int r = 0; r < 2; r++) { rank_state_t *st = S(r); d[r] = mix64(vm_T(r) ^ mix64(((uint64_t)st->next_op << 40) ^ ((uint64_t)(st->pend_tail - st->pend_head) << 20) ^ (uint64_t)st->nev)); }
    *a = d[0]; *b = d[1];
}

/* ------------------------------------------------------------------ one scenario */
typedef struct {
    long states, transitions, executions, terminals, goals, nontrivial_goals, pruned, stuck_known, fail_known, violations, inversions_runs, testsome_alt_runs, max_K, max_depth;
    long sum_sendfifo, sum_recvfifo, sum_deferred, xcheck_plain_runs;
    int exhaustive, aborted; double wall;
    char sample[3][400]; int nsamples; char first_known[2][500];
} scen_stats_t;
static scen_stats_t ST;
static sx_set_t outcomes, goal_states;
static double scen_deadline = 0;

static void choices_str(char *b, size_t cap, int upto)
{
    size_t o = 0; b[0] = 0;
    for (int i = 0; i < upto && o + 8 < cap; i++) o += snprintf(b + o, cap - o, "%s%d", i ? " " : "", path[i].ch);
}
static void trace_str(char *b, size_t cap, const int *tr, int ntr)
{
    size_t o = 0; b[0] = 0;
    for (int i = 0; i < ntr && o + 6 < cap; i++) o += snprintf(b + o, cap - o, "%s%s", i ? " " : "", tr_name[tr[i]]);
}
static void events_str(char *b, size_t cap)
{
    size_t o = 0; b[0] = 0;
    for (int r = 0; r < 2; r++) { o += snprintf(b + o, o < cap ? cap - o : 0, "%srank %d saw [", r ? " " : "", r); for (int i = 0; i < S(r)->nev && o + EVLEN + 4 < cap; i++) o += snprintf(b + o, cap - o, "%s%s", i ? " " : "", S(r)->ev[i]); o += snprintf(b + o, o < cap ? cap - o : 0, "]"); }
}
static void write_replay(const char *kind, const char *msg, char *path_out, size_t cap)
{
    static int seq = 0; char dir[600], ch[1600], h[24];
    snprintf(dir, sizeof(dir), "%s/replay", sx_outdir); mkdir(sx_outdir, 0777); mkdir(dir, 0777);
    snprintf(h, sizeof(h), "%08x", (unsigned)(mix64(sx_hash(SC.text, strlen(SC.text)).a) & 0xffffffffu));
    snprintf(path_out, cap, "%s/%s-vmpi-%s-%d.json", dir, PROPERTY, h, seq++);
    choices_str(ch, sizeof(ch), pos);
    FILE *f = fopen(path_out, "w");
    if (!f) return;
    fprintf(f, "{\"property\":\"%s\",\"engine\":\"vmpi\",\"scenario\":", PROPERTY); sx_json_str(f, SC.text);
    fprintf(f, ",\n \"mode\":\"d%d\",\"strict_dup\":%d,\"kind\":\"%s\",\"choices\":\"%s\",\n \"message\":", max_devs, vm_strict_dup, kind, ch); sx_json_str(f, msg); fprintf(f, "}\n"); fclose(f);
}

/* one run from fresh engines along path[0..prefix_len) and then default choices; returns 0 = ended normally (terminal / pruned),
 * 1 = violation reported, 2 = failure attributed to a known finding */
static int tr_log[MAXPATH * 2], ntr; static int ev_mark[MAXPATH * 2][2];
static int run_once(int verbose)
{
    int E[4], rc = 0; char msg[1400], where[1700];
    vr_failed = 0; vr_failmsg[0] = 0; pos = 0; devs = 0; ntr = 0; seen_sendfifo = seen_recvfifo = 0;
    VR_GUARDED(run_begin_unguarded());
    if (vr_failed) harness_broken("engine initialisation failed: %s", vr_failmsg);
    vm_choose = choose_cb;
    ST.executions++;
    for (;;) {
        int ne = enabled_list(E);
        if (ne == 0) {                         /* terminal state */
            ST.terminals++;
            int fin = rank_finished(0) && rank_finished(1);
            if (fin) {
                final_audit(0); final_audit(1);
                char why[300];
                if (!S(0)->nfail && !S(1)->nfail && !vm_quiescent(why, sizeof(why))) h_fail(0, "at the end of the run the virtual MPI is not quiescent: %s", why);
                if (S(0)->nfail || S(1)->nfail) { snprintf(msg, sizeof(msg), "%s", S(0)->nfail ? S(0)->fail : S(1)->fail); goto failed; }
                ST.goals++;
                uint64_t a, b; state_digest(&a, &b); sx_h128_t g = { a, b };
                if (sx_set_add(&goal_states, g)) {
                    int inv = S(0)->am_inversions + S(1)->am_inversions;
                    if (inv || vm_stats.testsome_choices || seen_sendfifo || seen_recvfifo || S(0)->deferred_puts || S(1)->deferred_puts) ST.nontrivial_goals++;
                    if (inv) ST.inversions_runs++;
                    if (vm_stats.testsome_choices) ST.testsome_alt_runs++;
                }
                char evs[700]; events_str(evs, sizeof(evs)); sx_h128_t h = sx_hash(evs, strlen(evs));
                if (sx_set_add(&outcomes, h) && ST.nsamples < 3 && (outcomes.n == 1 || outcomes.n == 2 || outcomes.n == 12)) {
                    char tr[500]; trace_str(tr, sizeof(tr), tr_log, ntr);
                    snprintf(ST.sample[ST.nsamples++], sizeof(ST.sample[0]), "%s | %.150s => %.200s", SC.text, tr, evs);
                }
                if (verbose) printf("  terminal: both scripts finished, oracle holds: %s\n", evs);
            } else {
                char d0[300], d1[300], vd[300]; describe_rank(0, d0, sizeof(d0)); describe_rank(1, d1, sizeof(d1)); vm_describe(vd, sizeof(vd));
                if (S(0)->nfail || S(1)->nfail) { snprintf(msg, sizeof(msg), "%s", S(0)->nfail ? S(0)->fail : S(1)->fail); goto failed; }
                /* predicate of the known finding C14-get-recv-window-deadlock, computed from this terminal state */
                int kf1 = SC.n_get[0] > 0 && SC.n_get[1] > 0;
                for (int r = 0; r < 2; r++) kf1 = kf1 && g_probe[r].dynrecv == g_probe[r].dyn && g_probe[r].dyn_get_recv_slots == g_probe[r].dyn && g_probe[r].sendfifo > 0 && g_probe[r].reportable == 0;
                snprintf(msg, sizeof(msg), "DEADLOCK: no transition is enabled (no completed request to report, nothing queued can be installed, no script call possible) but the scripts are not finished: %s; %s; engines: rank 0 dynamic slots %d get-receives + %d sends of %d, send queue %d, receive queue %d; rank 1 dynamic slots %d get-receives + %d sends of %d, send queue %d, receive queue %d; virtual MPI: %s",
                         d0, d1, g_probe[0].dyn_get_recv_slots, g_probe[0].dyn_send_slots, g_probe[0].dyn, g_probe[0].sendfifo, g_probe[0].recvfifo,
                         g_probe[1].dyn_get_recv_slots, g_probe[1].dyn_send_slots, g_probe[1].dyn, g_probe[1].sendfifo, g_probe[1].recvfifo, vd);
                if (kf1 && known1) {
                    ST.stuck_known++; rc = 2;
                    if (!ST.first_known[0][0]) { char ch[300]; choices_str(ch, sizeof(ch), pos); snprintf(ST.first_known[0], sizeof(ST.first_known[0]), "scenario %s choices [%s]: every dynamic slot of both ranks holds the receive of a get, both serving sends are queued behind them (dynamic_recv_requests == dynamic_requests == %d)", SC.text, ch, g_probe[0].dyn); }
                    if (verbose) printf("  terminal: %s\n  -> attributed to known finding %s\n", msg, KF1);
                } else { snprintf(where, sizeof(where), "%s%s", msg, kf1 ? " [matches the predicate of " KF1 ", which is not recorded in known_findings.json]" : ""); snprintf(msg, sizeof(msg), "%.1390s", where); goto failed_no_kf2; }
            }
            break;
        }
        if (pos >= prefix_len && !external_replay) {
            uint64_t a, b; state_digest(&a, &b);
            if (visited_check(a, b, max_devs >= 127 ? 127 : max_devs - devs) && !no_dedup) { ST.pruned++; break; }
            ST.states = (long)vis_n;
        }
        int c = 0;
        if (ne > 1) {
            int at = pos; uint64_t a, b; state_digest(&a, &b);
            c = choose_cb(ne, 0);
            if (at < prefix_len && !external_replay) { if (path[at].d0 != a || path[at].d1 != b) harness_broken("nondeterministic replay in %s: the state at choice point %d differs from the one recorded (hidden state survives the engine's fini/init cycle?)", SC.text, at); }
            else { path[at].d0 = a; path[at].d1 = b; }
        }
        if (pos >= prefix_len) ST.transitions++;
        if (pos > ST.max_depth) ST.max_depth = pos;
        int t = E[c], r = t & 1; int ev0 = S(r)->nev;
        if (ntr < MAXPATH * 2) { tr_log[ntr] = t; ev_mark[ntr][0] = ev0; }
        alarm(20); VR_GUARDED(fire(t)); alarm(0);
        if (ntr < MAXPATH * 2) { ev_mark[ntr][1] = S(r)->nev; ntr++; }
        if (verbose) { printf("  step %2d: %s ->", ntr, tr_name[t]); for (int i = ev0; i < S(r)->nev; i++) printf(" %s", S(r)->ev[i]); if (ev0 == S(r)->nev) printf(" -"); printf("\n"); }
        if (vr_failed) { snprintf(msg, sizeof(msg), "%s", vr_failmsg); ST.aborted = 1; goto failed; }
        if (S(0)->nfail || S(1)->nfail) { snprintf(msg, sizeof(msg), "%s", S(0)->nfail ? S(0)->fail : S(1)->fail); goto failed; }
        if (S(0)->ev_overflow || S(1)->ev_overflow) harness_broken("event log overflow");
        if (vm_stats.max_K > ST.max_K) ST.max_K = vm_stats.max_K;
        continue;
    failed: {
            char why[500];
            if (tag_collision_predicate(why, sizeof(why)) && known2) {     /* predicate of C14-get-put-data-tag-collision, from the log of this very run */
                ST.fail_known++; rc = 2;
                if (!ST.first_known[1][0]) { char ch[300]; choices_str(ch, sizeof(ch), pos); snprintf(ST.first_known[1], sizeof(ST.first_known[1]), "scenario %s choices [%s]: %s; symptom: %.200s", SC.text, ch, why, msg); }
                if (verbose) printf("  FAILED: %s\n  -> attributed to known finding %s: %s\n", msg, KF2, why);
                break;
            }
            if (tag_collision_predicate(why, sizeof(why))) { snprintf(where, sizeof(where), "%s [matches the predicate of " KF2 " (%s), which is not recorded in known_findings.json]", msg, why); snprintf(msg, sizeof(msg), "%.1390s", where); }
        }
    failed_no_kf2: {
            char rp[900], tr[600]; trace_str(tr, sizeof(tr), tr_log, ntr);
            ST.violations++; rc = 1;
            if (!external_replay) {
                write_replay(ne ? "safety" : "terminal", msg, rp, sizeof(rp));
                printf("VIOLATION property=%s replay=%s\n", PROPERTY, rp);
                printf("  scenario=%s transitions=[%s]: %s\n", SC.text, tr, msg);
            } else printf("  FAILED after [%s]: %s\n", tr, msg);
            fflush(stdout);
            break;
        }
    }
    vm_choose = NULL;
    ST.sum_sendfifo += seen_sendfifo; ST.sum_recvfifo += seen_recvfifo; ST.sum_deferred += S(0)->deferred_puts + S(1)->deferred_puts;
    vr_failed = 0;
    VR_GUARDED(run_end_unguarded());
    if (vr_failed) { ST.aborted = 1; vr_failed = 0; }
    return rc;
}

static void explore_one(const char *mode)
{
    memset(&ST, 0, sizeof(ST)); double t0 = sx_now();
    no_dedup = !strcmp(mode, "plain");
    max_devs = (!strcmp(mode, "full") || no_dedup) ? 127 : atoi(mode + 1);
    path_len = prefix_len = 0; ST.exhaustive = 1;
    for (;;) {
        int rc = run_once(0);
        if (rc == 1) { ST.exhaustive = 0; break; }              /* stop this scenario at its first violation */
        if (ST.aborted) { ST.exhaustive = 0; break; }           /* an engine call was left through longjmp: the instances are not trusted any more */
        if (!backtrack()) break;
        if (scen_deadline > 0 && (ST.executions & 63) == 0 && sx_now() > scen_deadline) { ST.exhaustive = 0; break; }
    }
    ST.states = (long)vis_n; ST.wall = sx_now() - t0;
}
/* mode "xcheck": self-check of the state identification - the search with dedup (mode full) and the plain depth-first
 * enumeration of ALL choice sequences (no state is ever skipped) must reach the same set of goal states and the same set of
 * callback sequences, and agree on violations and attributed failures being present */
static void explore(const char *mode)
{
    if (strcmp(mode, "xcheck")) { explore_one(mode); return; }
    explore_one("full");
    scen_stats_t a = ST; size_t na = outcomes.n, ga = goal_states.n; sx_set_t oa = outcomes, gs = goal_states;
    memset(&outcomes, 0, sizeof(outcomes)); memset(&goal_states, 0, sizeof(goal_states)); free(vis); vis = NULL; vis_cap = vis_n = 0;
    if (!a.exhaustive) { outcomes = oa; goal_states = gs; ST = a; return; }
    explore_one("plain");
    if (ST.exhaustive) {
        int same = outcomes.n == na && goal_states.n == ga && (ST.stuck_known > 0) == (a.stuck_known > 0) && (ST.fail_known > 0) == (a.fail_known > 0);
        for (size_t i = 0; same && i < oa.cap; i++) if ((oa.v[i].a || oa.v[i].b) && sx_set_add(&outcomes, oa.v[i])) same = 0;
        for (size_t i = 0; same && i < gs.cap; i++) if ((gs.v[i].a || gs.v[i].b) && sx_set_add(&goal_states, gs.v[i])) same = 0;
        if (!same) harness_broken("state identification is unsound on %s: with dedup %zu callback sequences / %zu goal states, plain enumeration %zu / %zu", SC.text, na, ga, outcomes.n, goal_states.n);
        a.executions += ST.executions; a.terminals += ST.terminals; a.goals += ST.goals; a.transitions += ST.transitions; a.xcheck_plain_runs = ST.executions; a.wall += ST.wall;
    } else a.exhaustive = 0;
    free(oa.v); free(gs.v);
    ST = a; ST.states = a.states;
}

/* ------------------------------------------------------------------ child / parent protocol */
static void res_write(const char *fn, const char *leg, const char *mode)
{
    FILE *f = fopen(fn, "w"); if (!f) _exit(2);
    fprintf(f, "%s %s %ld %ld %ld %ld %ld %ld %ld %ld %ld %ld %ld %ld %ld %ld %d %d %.3f %ld %ld %ld %zu\n", leg, mode, ST.states, ST.transitions, ST.executions, ST.terminals, ST.goals,
            ST.nontrivial_goals, ST.pruned, ST.stuck_known, ST.fail_known, ST.violations, ST.inversions_runs, ST.testsome_alt_runs, ST.max_K, ST.max_depth, ST.exhaustive, ST.aborted, ST.wall,
            ST.sum_sendfifo, ST.sum_recvfifo, ST.sum_deferred, outcomes.n);
    fprintf(f, "%zu\n", goal_states.n);
    for (int i = 0; i < 3; i++) fprintf(f, "%s\n", i < ST.nsamples ? ST.sample[i] : "");
    for (int i = 0; i < 2; i++) fprintf(f, "%s\n", ST.first_known[i]);
    fclose(f);
}
typedef struct { char leg[48], mode[8], scen[160]; } job_t;
typedef struct {
    char name[48]; long scenarios, done, states, transitions, executions, terminals, goals, nontrivial, pruned, stuck_known, fail_known, violations, inv_runs, alt_runs, max_K, max_depth, outcomes, goal_states, cut, aborted;
    long sendfifo, recvfifo, deferred; double wall; char sample[3][400]; int nsamples; char mode[32];
} leg_t;
static leg_t legs[32]; static int nlegs;
static leg_t *leg_of(const char *name) { for (int i = 0; i < nlegs; i++) if (!strcmp(legs[i].name, name)) return &legs[i]; if (nlegs == 32) harness_broken("too many legs"); memset(&legs[nlegs], 0, sizeof(leg_t)); snprintf(legs[nlegs].name, sizeof(legs[0].name), "%s", name); return &legs[nlegs++]; }
static char first_known_line[2][600]; static long known_scen[2];

static void scenario_reset(void)
{
    free(vis); vis = NULL; vis_cap = vis_n = 0;
    free(outcomes.v); memset(&outcomes, 0, sizeof(outcomes)); free(goal_states.v); memset(&goal_states, 0, sizeof(goal_states));
    memset(&ST, 0, sizeof(ST)); path_len = prefix_len = 0; external_replay = 0;
}
/* shared between the parent and its workers */
typedef struct { volatile int next, stop; volatile int current[64]; } shared_t;
static shared_t *SH;
/* a worker claims scenarios until none is left; it leaves (exit code 3 = "start another worker") as soon as one of its engine
 * instances was left through longjmp or reported a violation: those instances are not trusted any more */
static int worker_main(int w, const job_t *J, int nj, const char *tmpd, double per_scen)
{
    for (;;) {
        if (SH->stop || (sx_deadline > 0 && sx_now() > sx_deadline)) return 0;
        int i = __sync_fetch_and_add(&SH->next, 1);
        if (i >= nj) return 0;
        SH->current[w] = i;
        char rf[300], tmp[320]; snprintf(rf, sizeof(rf), "%s/%d.res", tmpd, i); snprintf(tmp, sizeof(tmp), "%s.tmp", rf);
        double lim = per_scen > 0 ? per_scen : 1e9; if (sx_deadline > 0 && sx_deadline - sx_now() < lim) lim = sx_deadline - sx_now();
        scen_deadline = sx_now() + (lim > 0.05 ? lim : 0.05);
        scenario_reset();
        if (scenario_parse(J[i].scen, &SC)) harness_broken("bad scenario %s", J[i].scen);
        world_init();
        explore(J[i].mode);
        res_write(tmp, J[i].leg, J[i].mode); rename(tmp, rf);
        fflush(NULL);
        SH->current[w] = -1;
        if (ST.violations || ST.aborted) return 3;
    }
}
static int absorb(const job_t *j, const char *resfile)
{
    FILE *f = fopen(resfile, "r");
    if (!f) return 0;
    leg_t *L = leg_of(j->leg); L->done++;
    char leg[48], mode[8]; long v[16]; int exh, ab; double wall; long sf, rf, df; size_t no, ng; char line[700];
    if (fscanf(f, "%47s %7s %ld %ld %ld %ld %ld %ld %ld %ld %ld %ld %ld %ld %ld %ld %d %d %lf %ld %ld %ld %zu\n%zu\n", leg, mode, &v[0], &v[1], &v[2], &v[3], &v[4], &v[5], &v[6], &v[7], &v[8], &v[9], &v[10], &v[11], &v[12], &v[13], &exh, &ab, &wall, &sf, &rf, &df, &no, &ng) != 24)
    { fprintf(stderr, "c14_v: unreadable result of scenario %s\n", j->scen); sx_total_broken++; fclose(f); return 1; }
    L->states += v[0]; L->transitions += v[1]; L->executions += v[2]; L->terminals += v[3]; L->goals += v[4]; L->nontrivial += v[5]; L->pruned += v[6]; L->stuck_known += v[7]; L->fail_known += v[8];
    L->violations += v[9]; L->inv_runs += v[10]; L->alt_runs += v[11]; if (v[12] > L->max_K) L->max_K = v[12]; if (v[13] > L->max_depth) L->max_depth = v[13];
    L->outcomes += (long)no; L->goal_states += (long)ng; if (!exh) L->cut++; L->aborted += ab; L->wall += wall; L->sendfifo += sf; L->recvfifo += rf; L->deferred += df; if (!strstr(L->mode, mode) && strlen(L->mode) + strlen(mode) + 2 < sizeof(L->mode)) { if (L->mode[0]) strcat(L->mode, "+"); strcat(L->mode, mode); }
    for (int i = 0; i < 3; i++) { if (!fgets(line, sizeof(line), f)) break; line[strcspn(line, "\n")] = 0; if (line[0] && L->nsamples < 3 && ((L->nsamples == 0 && i == 0) || (L->nsamples > 0 && i == L->nsamples && (L->done % 5) == 2))) snprintf(L->sample[L->nsamples++], sizeof(L->sample[0]), "%.399s", line); }
    for (int i = 0; i < 2; i++) { if (!fgets(line, sizeof(line), f)) break; line[strcspn(line, "\n")] = 0; if (line[0]) { known_scen[i]++; if (!first_known_line[i][0]) snprintf(first_known_line[i], sizeof(first_known_line[0]), "%.599s", line); } }
    fclose(f);
    if (o_verbose) fprintf(stderr, "  %-8s %-5s %-44s states=%-8ld runs=%-8ld outcomes=%-5zu K=%ld exhaustive=%d known=%ld/%ld %.2fs\n", leg, mode, j->scen, v[0], v[2], no, v[12], exh, v[7], v[8], wall);
    if (v[9]) sx_total_violations += (int)v[9];
    return 1;
}

/* ------------------------------------------------------------------ single-scenario modes */
static int replay_main(const char *file)
{
    static char buf[1 << 16]; char scen[200], choices[2000] = "", mode[16] = "full";
    FILE *f = fopen(file, "r"); if (!f) { perror(file); return 2; }
    size_t n = fread(buf, 1, sizeof(buf) - 1, f); buf[n] = 0; fclose(f);
    char *s = strstr(buf, "\"scenario\":\""), *e; if (!s) return 2; s += 12; e = strchr(s, '"'); snprintf(scen, sizeof(scen), "%.*s", (int)(e - s), s);
    if ((s = strstr(buf, "\"choices\":\""))) { s += 11; e = strchr(s, '"'); snprintf(choices, sizeof(choices), "%.*s", (int)(e - s), s); }
    if ((s = strstr(buf, "\"mode\":\""))) { s += 8; e = strchr(s, '"'); snprintf(mode, sizeof(mode), "%.*s", (int)(e - s), s); }
    if (scenario_parse(scen, &SC)) { fprintf(stderr, "bad scenario in %s\n", file); return 2; }
    if (strstr(buf, "\"strict_dup\":1")) vm_strict_dup = 1;
    world_init();
    memset(&ST, 0, sizeof(ST)); path_len = 0;
    for (char *tok = strtok(choices, " "); tok; tok = strtok(NULL, " ")) { path[path_len].ch = (uint8_t)atoi(tok); path[path_len].n = 0; path_len++; }
    prefix_len = path_len; external_replay = 1; max_devs = 127;
    printf("replay: scenario %s, %d recorded choices (P = progress(), A = next script call; events: a<tag>.<seq>.<size> AM delivered, c<op>.<id>.<seq> control AM, PT/PS put done at target/source, GS/GT get served / done)\n", scen, path_len);
    int rc = run_once(1);
    if (rc == 1) { printf("VIOLATION property=%s replay=%s\n", PROPERTY, file); return 1; }
    printf(rc == 2 ? "replay: the failure is attributed to a known finding\n" : "replay: no violation reproduced\n");
    return 0;
}
static int trace_main(const char *scen)
{   /* the deviation-free run, step by step, as JSON on stdout (input of the real-MPI conformance run) */
    if (scenario_parse(scen, &SC)) { fprintf(stderr, "bad scenario %s\n", scen); return 2; }
    world_init(); memset(&ST, 0, sizeof(ST)); path_len = prefix_len = 0; external_replay = 1; max_devs = 127;
    /* run_once resets the rank states at its end only through run_begin of the next run: the events are still there */
    int rc = run_once(0);
    printf("{\"scenario\":\"%s\",\"rc\":%d,\"steps\":[", scen, rc);
    for (int i = 0; i < ntr; i++) {
        int r = tr_log[i] & 1;
        printf("%s{\"k\":\"%c\",\"r\":%d,\"ev\":[", i ? "," : "", tr_log[i] <= T_P1 ? 'P' : 'A', r);
        for (int k = ev_mark[i][0]; k < ev_mark[i][1]; k++) printf("%s\"%s\"", k > ev_mark[i][0] ? "," : "", S(r)->ev[k]);
        printf("]}");
    }
    printf("]}\n");
    return rc == 0 ? 0 : 1;
}

int main(int argc, char **argv)
{
    const char *scenfile = NULL, *one = NULL, *mode = "full", *trace = NULL; int jobs = 4; double per_scen = 0;
    /* every malloc'ed block starts with the same byte pattern and every freed block is overwritten: a read of uninitialised or
     * stale heap memory by the engine (e.g. a recycled request record) gives the same value in the search and in a replay */
    mallopt(M_PERTURB, 0x5A);
    sx_init(argc, argv, PROPERTY);
    for (int i = 1; i < argc; i++) {
        if (!strcmp(argv[i], "--scen-file") && i + 1 < argc) scenfile = argv[++i];
        else if (!strcmp(argv[i], "--scenario") && i + 1 < argc) one = argv[++i];
        else if (!strcmp(argv[i], "--mode") && i + 1 < argc) mode = argv[++i];
        else if (!strcmp(argv[i], "--jobs") && i + 1 < argc) jobs = atoi(argv[++i]);
        else if (!strcmp(argv[i], "--scen-deadline") && i + 1 < argc) per_scen = atof(argv[++i]);
        else if (!strcmp(argv[i], "--known") && i + 1 < argc) { const char *k = argv[++i]; known1 = strstr(k, KF1) != NULL; known2 = strstr(k, KF2) != NULL; }
        else if (!strcmp(argv[i], "--emit-trace") && i + 1 < argc) trace = argv[++i];
        else if (!strcmp(argv[i], "-v")) o_verbose = 1;
        else if (!strcmp(argv[i], "--strict-dup")) vm_strict_dup = 1;
    }
    if (sx_replay_file) return replay_main(sx_replay_file);
    if (trace) return trace_main(trace);
    if (one) {          /* one scenario in this process, human-readable summary */
        job_t j; memset(&j, 0, sizeof(j)); snprintf(j.leg, sizeof(j.leg), "one"); snprintf(j.mode, sizeof(j.mode), "%s", mode); snprintf(j.scen, sizeof(j.scen), "%s", one);
        if (per_scen > 0) scen_deadline = sx_now() + per_scen;
        if (scenario_parse(j.scen, &SC)) harness_broken("bad scenario %s", j.scen);
        scenario_reset(); world_init(); explore(j.mode);
        printf("%s mode %s: states=%ld transitions=%ld executions=%ld terminals=%ld goals=%ld goal_states=%zu nontrivial=%ld outcomes=%zu pruned=%ld known(deadlock)=%ld known(tags)=%ld violations=%ld maxK=%ld depth=%ld exhaustive=%d %.2fs (%.0f runs/s)\n",
               SC.text, mode, ST.states, ST.transitions, ST.executions, ST.terminals, ST.goals, goal_states.n, ST.nontrivial_goals, outcomes.n, ST.pruned, ST.stuck_known, ST.fail_known, ST.violations, ST.max_K, ST.max_depth, ST.exhaustive, ST.wall, ST.executions / (ST.wall + 1e-9));
        for (int i = 0; i < ST.nsamples; i++) printf("  sample: %s\n", ST.sample[i]);
        for (int i = 0; i < 2; i++) if (ST.first_known[i][0]) printf("  known: %s\n", ST.first_known[i]);
        return ST.violations ? 1 : 0;
    }
    if (!scenfile) { fprintf(stderr, "usage: c14_v --scen-file F [--jobs J] [--scen-deadline S] [--known ids] | --scenario S --mode full|dN | --emit-trace S | --replay F\n"); return 2; }

    /* ---- parent: `jobs` forked workers claim scenarios from a shared counter (a crash or a corrupted engine instance stays
     * inside its worker, which is then replaced) ---- */
    FILE *f = fopen(scenfile, "r"); if (!f) { perror(scenfile); return 2; }
    job_t *J = NULL; int nj = 0, cj = 0; char line[400];
    while (fgets(line, sizeof(line), f)) {
        if (line[0] == '#' || line[0] == '\n') continue;
        if (nj == cj) { cj = cj ? cj * 2 : 256; J = (job_t *)realloc(J, cj * sizeof(job_t)); }
        if (sscanf(line, "%47s %7s %159s", J[nj].leg, J[nj].mode, J[nj].scen) != 3) harness_broken("bad line in %s: %s", scenfile, line);
        leg_of(J[nj].leg)->scenarios++; nj++;
    }
    fclose(f);
    if (jobs < 1) jobs = 1;
    if (jobs > 64) jobs = 64;
    /* one throw-away run in the parent: the lazy one-time initialisations (class system, MCA registry, output streams, symbol
     * binding) happen once and are inherited by every forked worker */
    scenario_parse("1,1,1,1:4000:a1/a1", &SC); world_init(); external_replay = 1; path_len = prefix_len = 0; run_once(0); scenario_reset();
    char tmpd[200]; snprintf(tmpd, sizeof(tmpd), "/tmp/c14v-%d", (int)getpid()); mkdir(tmpd, 0700);
    SH = (shared_t *)mmap(NULL, sizeof(shared_t), PROT_READ | PROT_WRITE, MAP_SHARED | MAP_ANONYMOUS, -1, 0);
    if (SH == MAP_FAILED) harness_broken("mmap: %s", strerror(errno));
    memset((void *)SH, 0, sizeof(*SH)); for (int w = 0; w < 64; w++) SH->current[w] = -1;
    pid_t pids[64]; int running = 0, restarts = 0; double t0 = sx_now();
    for (int w = 0; w < jobs; w++) pids[w] = 0;
    for (;;) {
        for (int w = 0; w < jobs; w++)
            if (!pids[w] && SH->next < nj && !SH->stop && !(sx_deadline > 0 && sx_now() > sx_deadline)) {
                fflush(NULL);
                pid_t p = fork();
                if (p < 0) harness_broken("fork: %s", strerror(errno));
                if (p == 0) { if (sx_json) { fclose(sx_json); sx_json = NULL; } _exit(worker_main(w, J, nj, tmpd, per_scen)); }
                pids[w] = p; running++;
            }
        if (!running) break;
        int status; pid_t p = wait(&status);
        if (p < 0) break;
        for (int w = 0; w < jobs; w++) if (pids[w] == p) {
            pids[w] = 0; running--;
            int cur = SH->current[w]; SH->current[w] = -1;
            if (WIFEXITED(status) && (WEXITSTATUS(status) == 0 || WEXITSTATUS(status) == 3)) { if (WEXITSTATUS(status) == 3) restarts++; }
            else { fprintf(stderr, "c14_v: worker %d ended with status 0x%x while running scenario %s\n", w, status, cur >= 0 ? J[cur].scen : "(none)"); sx_total_broken++; }
            break;
        }
        /* violations so far (the workers print them themselves): stop handing out scenarios after three */
        int nv = 0; for (int i = 0; i < nj && i < SH->next; i++) { char rf[300]; snprintf(rf, sizeof(rf), "%s/%d.res", tmpd, i); FILE *g = fopen(rf, "r"); if (g) { char l2[48], m2[8]; long v[10]; if (fscanf(g, "%47s %7s %ld %ld %ld %ld %ld %ld %ld %ld %ld %ld", l2, m2, &v[0], &v[1], &v[2], &v[3], &v[4], &v[5], &v[6], &v[7], &v[8], &v[9]) == 12) nv += v[9] > 0; fclose(g); } }
        if (nv >= 3) SH->stop = 1;
    }
    for (int i = 0; i < nj; i++) { char rf[300]; snprintf(rf, sizeof(rf), "%s/%d.res", tmpd, i); absorb(&J[i], rf); unlink(rf); snprintf(rf, sizeof(rf), "%s/%d.res.tmp", tmpd, i); unlink(rf); }
    rmdir(tmpd);
    static const char *kid[2] = { KF1, KF2 };
    for (int i = 0; i < 2; i++) if (known_scen[i]) sx_known_finding("id=%s reproduced on the virtual MPI in %ld scenario(s); first: %.150s", kid[i], known_scen[i], first_known_line[i]);
    for (int i = 0; i < nlegs; i++) {
        leg_t *L = &legs[i]; const char *sp[3] = { L->sample[0], L->sample[1], L->sample[2] }; char extra[900];
        int exhaustive = L->done == L->scenarios && L->cut == 0 && L->violations == 0;
        snprintf(extra, sizeof(extra), "\"mode\":\"%s\",\"scenarios\":%ld,\"scenarios_completed\":%ld,\"scenarios_cut_by_deadline\":%ld,\"terminal_states_reached\":%ld,\"goal_runs\":%ld,\"distinct_goal_states\":%ld,"
                 "\"runs_pruned_at_a_visited_state\":%ld,\"distinct_delivery_sequences\":%ld,\"goal_states_with_am_order_inversion\":%ld,\"goal_states_with_partial_testsome_report\":%ld,\"max_completed_requests_in_one_testsome\":%ld,"
                 "\"max_choice_points_in_a_run\":%ld,\"states_with_send_queue_nonempty\":%ld,\"states_with_recv_queue_nonempty\":%ld,\"puts_deferred\":%ld,\"stuck_terminals_attributed_to_%s\":%ld,\"failed_runs_attributed_to_%s\":%ld,\"worker_seconds\":%.1f",
                 L->mode, L->scenarios, L->done, L->cut + (L->scenarios - L->done), L->terminals, L->goals, L->goal_states, L->pruned, L->outcomes, L->inv_runs, L->alt_runs, L->max_K, L->max_depth,
                 L->sendfifo, L->recvfifo, L->deferred, "C14_get_recv_window_deadlock", L->stuck_known, "C14_get_put_data_tag_collision", L->fail_known, L->wall);
        vr_report(L->name, L->states, L->transitions, L->executions, L->nontrivial, L->outcomes, exhaustive, (int)L->violations, sx_now() - t0, extra, sp, L->nsamples);
    }
    return sx_finish();
}
