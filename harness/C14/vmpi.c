/* vmpi.c: the virtual MPI of C14 tier 2 (see vmpi.h for the model).  Boring on purpose. */
#include "vmpi.h"
#include <stdio.h>
#include <stdlib.h>
#include <string.h>
#include <stdarg.h>

#define VM_REQ_MAGIC  0x564d5251u
#define VM_COMM_MAGIC 0x564d434fu
#define VM_INFO_MAGIC 0x564d494eu
enum { VM_SEND = 1, VM_RECV = 2 };

typedef struct vm_comm_s { uint32_t magic; int owner, ctx, freed; struct vm_comm_s *all_next; } vm_comm_t;
typedef struct vm_req_s {
    uint32_t magic; int owner, kind, persistent, active, complete, released, cancelled, matched;
    int ctx, tag, peer;                 /* receive: peer = source or MPI_ANY_SOURCE; send: peer = destination */
    void *buf; size_t cap;              /* receive buffer and its capacity in bytes / send: length */
    uint32_t serial;                    /* k-th request created by its owner in this run (address-free name) */
    MPI_Status st; uint32_t msg_seq; uint64_t msg_T;
    long t_post, t_match, t_report;     /* logical times (0 = not yet) */
    struct vm_req_s *qnext, *all_next;
} vm_req_t;
typedef struct vm_msg_s {
    int src, dst, ctx, tag; size_t len;
    uint8_t *payload;                   /* eager: private copy made at the send call; rendezvous: NULL, data read from sbuf at the match */
    const void *sbuf; vm_req_t *sreq;   /* rendezvous: request completed by the match (NULL for a blocking send) */
    uint32_t seq; uint64_t sender_T;    /* identity of the message: k-th send of src, observation hash of src at the send */
    struct vm_msg_s *qnext, *all_next;
} vm_msg_t;
typedef struct { uint32_t magic; int allow_overtaking; } vm_info_t;

static struct vm_rank_s {
    vm_req_t *posted_head, *posted_tail;       /* active, unmatched receives in posting order */
    vm_msg_t *unex_head, *unex_tail;           /* messages for this rank that found no receive, in send order */
    uint64_t T; uint32_t nreq, nsend; int next_ctx;
} VR[VM_NRANKS];
static vm_req_t *all_reqs; static vm_msg_t *all_msgs; static vm_comm_t *all_comms;
static int vm_cur = 0; static long vm_clock = 0; static int testsome_in_step = 0;
static int tag_ub_value = 0x7fffff;

size_t vm_eager_limit = 4000;
int vm_strict_dup = 0;
int (*vm_choose)(int n, int inner) = NULL;
void (*vm_on_fatal)(const char *msg) = NULL;
vm_stats_t vm_stats;

static inline uint64_t mix(uint64_t h, uint64_t x)
{
    h ^= x + 0x9e3779b97f4a7c15ull + (h << 6) + (h >> 2);
    h *= 0xbf58476d1ce4e5b9ull; h ^= h >> 29; h *= 0x94d049bb133111ebull; h ^= h >> 32;
    return h;
}
void vm_obs(int r, uint64_t x) { VR[r].T = mix(VR[r].T, x); }
uint64_t vm_T(int r) { return VR[r].T; }
#define OBS4(a, b, c, d) do { vm_obs(vm_cur, ((uint64_t)(a) << 48) ^ ((uint64_t)(uint32_t)(b) << 24) ^ (uint64_t)(uint32_t)(c)); vm_obs(vm_cur, (uint64_t)(d)); } while (0)
enum { O_DUP = 1, O_FREE, O_RECVINIT, O_START, O_IRECV, O_ISEND, O_SEND, O_TESTSOME, O_REPORT, O_TEST, O_CANCEL, O_REQFREE, O_MATCHED };

void vm_fatal(const char *fmt, ...)
{
    char b[900]; va_list ap; va_start(ap, fmt); vsnprintf(b, sizeof(b), fmt, ap); va_end(ap);
    if (vm_on_fatal) vm_on_fatal(b);
    fprintf(stderr, "vmpi: %s\n", b); abort();
}

void vm_reset(void)
{
    for (vm_req_t *r = all_reqs, *n; r; r = n) { n = r->all_next; r->magic = 0; free(r); }
    for (vm_msg_t *m = all_msgs, *n; m; m = n) { n = m->all_next; free(m->payload); free(m); }
    for (vm_comm_t *c = all_comms, *n; c; c = n) { n = c->all_next; c->magic = 0; free(c); }
    all_reqs = NULL; all_msgs = NULL; all_comms = NULL;
    memset(VR, 0, sizeof(VR)); memset(&vm_stats, 0, sizeof(vm_stats));
    for (int r = 0; r < VM_NRANKS; r++) VR[r].T = 0x1234567ull + r;
    vm_clock = 0; vm_cur = 0; testsome_in_step = 0;
}
void vm_set_rank(int r) { vm_cur = r; }
int vm_rank(void) { return vm_cur; }
void vm_step_begin(void) { testsome_in_step = 0; }

/* ---------------- communicators, info ---------------- */
static int comm_ctx(MPI_Comm c, const char *fn)
{
    if (c == MPI_COMM_WORLD) return 0;
    if (c == MPI_COMM_SELF) return -1;
    if (c == MPI_COMM_NULL || c == NULL) vm_fatal("%s: null communicator (rank %d)", fn, vm_cur);
    vm_comm_t *v = (vm_comm_t *)c;
    if (v->magic != VM_COMM_MAGIC) vm_fatal("%s: invalid communicator handle (rank %d)", fn, vm_cur);
    if (v->freed) vm_fatal("%s: communicator was freed (rank %d)", fn, vm_cur);
    if (v->owner != vm_cur) vm_fatal("%s: rank %d uses a communicator handle of rank %d", fn, vm_cur, v->owner);
    return v->ctx;
}
int vmpi_Comm_dup(MPI_Comm comm, MPI_Comm *newcomm)
{
    int ctx = comm_ctx(comm, "MPI_Comm_dup");
    vm_comm_t *v = (vm_comm_t *)calloc(1, sizeof(*v));
    v->magic = VM_COMM_MAGIC; v->owner = vm_cur;
    /* collective: both ranks duplicate in the same order, so the k-th duplicate gets context k on both (duplicates of
     * MPI_COMM_SELF get a negative, rank-private context) */
    v->ctx = ctx < 0 ? -(++VR[vm_cur].next_ctx) - 1 : ++VR[vm_cur].next_ctx;
    v->all_next = all_comms; all_comms = v;
    *newcomm = (MPI_Comm)v;
    OBS4(O_DUP, ctx, v->ctx, 0);
    return MPI_SUCCESS;
}
int vmpi_Comm_dup_with_info(MPI_Comm comm, MPI_Info info, MPI_Comm *newcomm)
{   /* mpi_assert_allow_overtaking is accepted and ignored: ordered matching is one of the behaviours it allows */
    (void)info; return vmpi_Comm_dup(comm, newcomm);
}
int vmpi_Comm_free(MPI_Comm *comm)
{
    int ctx = comm_ctx(*comm, "MPI_Comm_free");
    if (*comm == MPI_COMM_WORLD || *comm == MPI_COMM_SELF) vm_fatal("MPI_Comm_free of a predefined communicator (rank %d)", vm_cur);
    ((vm_comm_t *)*comm)->freed = 1; *comm = MPI_COMM_NULL;
    OBS4(O_FREE, ctx, 0, 0);
    return MPI_SUCCESS;
}
int vmpi_Comm_rank(MPI_Comm comm, int *rank) { *rank = comm_ctx(comm, "MPI_Comm_rank") < 0 ? 0 : vm_cur; return MPI_SUCCESS; }
int vmpi_Comm_size(MPI_Comm comm, int *size) { *size = comm_ctx(comm, "MPI_Comm_size") < 0 ? 1 : VM_NRANKS; return MPI_SUCCESS; }
int vmpi_Comm_get_attr(MPI_Comm comm, int keyval, void *attr, int *flag)
{
    (void)comm;
    if (keyval == MPI_TAG_UB) { *(int **)attr = &tag_ub_value; *flag = 1; } else *flag = 0;
    return MPI_SUCCESS;
}
int vmpi_Info_create(MPI_Info *info) { vm_info_t *i = (vm_info_t *)calloc(1, sizeof(*i)); i->magic = VM_INFO_MAGIC; *info = (MPI_Info)i; return MPI_SUCCESS; }
int vmpi_Info_set(MPI_Info info, const char *key, const char *value)
{
    vm_info_t *i = (vm_info_t *)info;
    if (info == MPI_INFO_NULL || i->magic != VM_INFO_MAGIC) vm_fatal("MPI_Info_set: invalid info handle");
    if (!strcmp(key, "mpi_assert_allow_overtaking") && !strcmp(value, "true")) i->allow_overtaking = 1;
    return MPI_SUCCESS;
}
int vmpi_Info_free(MPI_Info *info)
{
    vm_info_t *i = (vm_info_t *)*info;
    if (*info == MPI_INFO_NULL || i->magic != VM_INFO_MAGIC) vm_fatal("MPI_Info_free: invalid info handle");
    i->magic = 0; free(i); *info = MPI_INFO_NULL; return MPI_SUCCESS;
}

/* ---------------- datatypes: contiguous byte-like types only ---------------- */
static size_t dt_size(MPI_Datatype dt, const char *fn)
{
    if (dt == MPI_BYTE || dt == MPI_PACKED || dt == MPI_CHAR || dt == MPI_UNSIGNED_CHAR || dt == MPI_SIGNED_CHAR) return 1;
    if (dt == MPI_INT || dt == MPI_UNSIGNED || dt == MPI_FLOAT) return 4;
    if (dt == MPI_DOUBLE || dt == MPI_LONG || dt == MPI_UNSIGNED_LONG) return 8;
    vm_fatal("HARNESS: %s: datatype not modelled by the virtual MPI", fn);
    return 0;
}

/* ---------------- requests ---------------- */
static vm_req_t *new_req(int kind, int persistent)
{
    vm_req_t *r = (vm_req_t *)calloc(1, sizeof(*r));
    r->magic = VM_REQ_MAGIC; r->owner = vm_cur; r->kind = kind; r->persistent = persistent; r->serial = ++VR[vm_cur].nreq;
    r->all_next = all_reqs; all_reqs = r;
    return r;
}
static vm_req_t *req_check(MPI_Request h, const char *fn)
{
    vm_req_t *r = (vm_req_t *)h;
    if (h == MPI_REQUEST_NULL || h == NULL) vm_fatal("%s: null request (rank %d)", fn, vm_cur);
    if (r->magic != VM_REQ_MAGIC) vm_fatal("%s: invalid request handle (rank %d)", fn, vm_cur);
    if (r->released) vm_fatal("%s: request #%u of rank %d was already completed and released (stale handle)", fn, r->serial, r->owner);
    if (r->owner != vm_cur) vm_fatal("%s: rank %d uses request #%u of rank %d", fn, vm_cur, r->serial, r->owner);
    return r;
}
static void posted_remove(int rank, vm_req_t *r)
{
    vm_req_t **pp = &VR[rank].posted_head, *prev = NULL;
    for (; *pp; prev = *pp, pp = &(*pp)->qnext) if (*pp == r) { *pp = r->qnext; if (VR[rank].posted_tail == r) VR[rank].posted_tail = prev; r->qnext = NULL; return; }
}
static int matches(const vm_req_t *r, const vm_msg_t *m)
{
    return r->ctx == m->ctx && (r->tag == MPI_ANY_TAG || r->tag == m->tag) && (r->peer == MPI_ANY_SOURCE || r->peer == m->src);
}
static void do_match(vm_msg_t *m, vm_req_t *r)
{
    if (m->len > r->cap)
        vm_fatal("MPI_ERR_TRUNCATE: message of %zu bytes from rank %d (communicator %d, tag %d) matched a receive of %zu bytes posted by rank %d (a real MPI aborts: MPI_ERRORS_ARE_FATAL)",
                 m->len, m->src, m->ctx, m->tag, r->cap, r->owner);
    if (m->len) memcpy(r->buf, m->payload ? (const void *)m->payload : m->sbuf, m->len);     /* the data lands now */
    memset(&r->st, 0, sizeof(r->st));
    r->st.MPI_SOURCE = m->src; r->st.MPI_TAG = m->tag; r->st.MPI_ERROR = MPI_SUCCESS; r->st._ucount = m->len; r->st._cancelled = 0;
    r->complete = 1; r->matched = 1; r->msg_seq = m->seq; r->msg_T = m->sender_T; r->t_match = ++vm_clock;
    if (m->sreq) { m->sreq->complete = 1; m->sreq->t_match = vm_clock; }
    free(m->payload); m->payload = NULL; m->sbuf = NULL;
    vm_stats.matches++;
}
static void post_recv(vm_req_t *r)
{
    struct vm_rank_s *me = &VR[r->owner];
    r->active = 1; r->complete = 0; r->matched = 0; r->cancelled = 0; r->t_post = ++vm_clock; r->t_match = r->t_report = 0;
    vm_stats.recvs_posted++;
    vm_msg_t **pp = &me->unex_head, *prev = NULL;
    for (; *pp; prev = *pp, pp = &(*pp)->qnext)
        if (matches(r, *pp)) {
            vm_msg_t *m = *pp; *pp = m->qnext; if (me->unex_tail == m) me->unex_tail = prev; m->qnext = NULL;
            do_match(m, r);
            /* the poster can tell (through the buffer) that the message was already there: part of its observations */
            OBS4(O_MATCHED, r->serial, m->seq, m->sender_T);
            return;
        }
    r->qnext = NULL;
    if (me->posted_tail) me->posted_tail->qnext = r; else me->posted_head = r;
    me->posted_tail = r;
}
static void do_send(const void *buf, size_t len, int dest, int tag, int ctx, vm_req_t *sreq, const char *fn)
{
    if (dest < 0 || dest >= VM_NRANKS) vm_fatal("%s: destination rank %d does not exist (rank %d)", fn, dest, vm_cur);
    if (tag < 0 || tag > tag_ub_value) vm_fatal("%s: MPI_ERR_TAG: tag %d (rank %d)", fn, tag, vm_cur);
    if (ctx < 0) vm_fatal("HARNESS: %s on a duplicate of MPI_COMM_SELF is not modelled", fn);
    vm_msg_t *m = (vm_msg_t *)calloc(1, sizeof(*m));
    m->src = vm_cur; m->dst = dest; m->ctx = ctx; m->tag = tag; m->len = len; m->seq = ++VR[vm_cur].nsend; m->sender_T = VR[vm_cur].T;
    m->all_next = all_msgs; all_msgs = m;
    vm_stats.sends++;
    if (len <= vm_eager_limit) {       /* eager: buffered now, the send is complete */
        m->payload = (uint8_t *)malloc(len ? len : 1); if (len) memcpy(m->payload, buf, len);
        if (sreq) { sreq->complete = 1; sreq->t_match = ++vm_clock; }
        vm_stats.eager++;
    } else { m->sbuf = buf; m->sreq = sreq; vm_stats.rendezvous++; }
    for (vm_req_t *r = VR[dest].posted_head; r; r = r->qnext)
        if (matches(r, m)) { posted_remove(dest, r); do_match(m, r); return; }
    if (len > vm_eager_limit && !sreq)
        vm_fatal("HARNESS: blocking %s of a rendezvous message (%zu bytes, tag %d) that no posted receive of rank %d matches: the caller should not have been enabled", fn, len, tag, dest);
    if (VR[dest].unex_tail) VR[dest].unex_tail->qnext = m; else VR[dest].unex_head = m;
    VR[dest].unex_tail = m; vm_stats.unexpected++;
}

int vmpi_Recv_init(void *buf, int count, MPI_Datatype dt, int source, int tag, MPI_Comm comm, MPI_Request *req)
{
    vm_req_t *r = new_req(VM_RECV, 1);
    r->ctx = comm_ctx(comm, "MPI_Recv_init"); r->tag = tag; r->peer = source; r->buf = buf; r->cap = (size_t)count * dt_size(dt, "MPI_Recv_init");
    *req = (MPI_Request)r;
    OBS4(O_RECVINIT, r->serial, r->ctx, ((uint64_t)(uint32_t)tag << 32) | (uint32_t)r->cap);
    return MPI_SUCCESS;
}
int vmpi_Start(MPI_Request *req)
{
    vm_req_t *r = req_check(*req, "MPI_Start");
    if (!r->persistent) vm_fatal("MPI_Start: request #%u of rank %d is not persistent", r->serial, vm_cur);
    if (r->active) vm_fatal("MPI_Start: persistent request #%u of rank %d is still active (erroneous: it was not completed by a test/wait call)", r->serial, vm_cur);
    OBS4(O_START, r->serial, 0, 0);
    post_recv(r);
    return MPI_SUCCESS;
}
int vmpi_Startall(int count, MPI_Request *reqs) { for (int i = 0; i < count; i++) vmpi_Start(&reqs[i]); return MPI_SUCCESS; }
int vmpi_Irecv(void *buf, int count, MPI_Datatype dt, int source, int tag, MPI_Comm comm, MPI_Request *req)
{
    vm_req_t *r = new_req(VM_RECV, 0);
    r->ctx = comm_ctx(comm, "MPI_Irecv"); r->tag = tag; r->peer = source; r->buf = buf; r->cap = (size_t)count * dt_size(dt, "MPI_Irecv");
    if (source != MPI_ANY_SOURCE && (source < 0 || source >= VM_NRANKS)) vm_fatal("MPI_Irecv: source rank %d does not exist (rank %d)", source, vm_cur);
    if (tag != MPI_ANY_TAG && (tag < 0 || tag > tag_ub_value)) vm_fatal("MPI_Irecv: MPI_ERR_TAG: tag %d (rank %d)", tag, vm_cur);
    *req = (MPI_Request)r;
    OBS4(O_IRECV, r->serial, r->ctx, ((uint64_t)(uint32_t)tag << 40) ^ ((uint64_t)(uint32_t)source << 32) ^ (uint32_t)r->cap);
    post_recv(r);
    return MPI_SUCCESS;
}
int vmpi_Isend(const void *buf, int count, MPI_Datatype dt, int dest, int tag, MPI_Comm comm, MPI_Request *req)
{
    vm_req_t *r = new_req(VM_SEND, 0);
    r->ctx = comm_ctx(comm, "MPI_Isend"); r->tag = tag; r->peer = dest; r->cap = (size_t)count * dt_size(dt, "MPI_Isend");
    r->active = 1; r->t_post = ++vm_clock;
    *req = (MPI_Request)r;
    OBS4(O_ISEND, r->serial, r->ctx, ((uint64_t)(uint32_t)tag << 40) ^ ((uint64_t)(uint32_t)dest << 32) ^ (uint32_t)r->cap);
    do_send(buf, r->cap, dest, tag, r->ctx, r, "MPI_Isend");
    return MPI_SUCCESS;
}
int vmpi_Send(const void *buf, int count, MPI_Datatype dt, int dest, int tag, MPI_Comm comm)
{
    int ctx = comm_ctx(comm, "MPI_Send"); size_t len = (size_t)count * dt_size(dt, "MPI_Send");
    OBS4(O_SEND, 0, ctx, ((uint64_t)(uint32_t)tag << 40) ^ ((uint64_t)(uint32_t)dest << 32) ^ (uint32_t)len);
    do_send(buf, len, dest, tag, ctx, NULL, "MPI_Send");
    return MPI_SUCCESS;
}

static void report(vm_req_t *r, MPI_Request *slot, MPI_Status *st)
{
    if (st && st != MPI_STATUS_IGNORE) { if (r->kind == VM_RECV) *st = r->st; else { memset(st, 0, sizeof(*st)); st->MPI_SOURCE = MPI_ANY_SOURCE; st->MPI_TAG = MPI_ANY_TAG; } }
    r->complete = 0; r->active = 0; r->t_report = ++vm_clock;
    if (r->kind == VM_RECV) OBS4(O_REPORT, r->serial, r->msg_seq, r->msg_T ^ ((uint64_t)r->st._ucount << 20) ^ (uint64_t)r->cancelled);
    else OBS4(O_REPORT, r->serial, 0, 0);
    if (!r->persistent) { r->released = 1; *slot = MPI_REQUEST_NULL; }
    vm_stats.reported++;
}
int vmpi_Testsome(int incount, MPI_Request *reqs, int *outcount, int *indices, MPI_Status *statuses)
{
    int K[64], nk = 0, nactive = 0;
    vm_stats.testsome_calls++;
    if (++testsome_in_step > 2000)
        vm_fatal("MPI_Testsome called %d times by one progress() call of rank %d that does not return (a real MPI would spin here for ever: outcount is MPI_UNDEFINED when no request of the array is active)", testsome_in_step, vm_cur);
    for (int i = 0; i < incount; i++) {
        if (reqs[i] == MPI_REQUEST_NULL) continue;
        vm_req_t *r = req_check(reqs[i], "MPI_Testsome");
        if (!r->active) continue;                       /* inactive persistent request: ignored */
        nactive++;
        if (r->complete) {
            for (int j = 0; j < nk; j++) if (reqs[K[j]] == reqs[i]) {      /* the same request listed twice: completed once (what Open MPI does) */
                if (vm_strict_dup) vm_fatal("MPI_Testsome: the active request #%u of rank %d is listed twice in array_of_requests (indices %d and %d)", r->serial, vm_cur, K[j], i);
                r = NULL; break; }
            if (r && nk < 64) K[nk++] = i;
        }
    }
    OBS4(O_TESTSOME, incount, nactive, nk);
    if (nactive == 0) { *outcount = MPI_UNDEFINED; return MPI_SUCCESS; }
    if (nk == 0) { *outcount = 0; return MPI_SUCCESS; }
    if (nk > vm_stats.max_K) vm_stats.max_K = nk;
    /* which of the completed requests are reported now: any non-empty subset at the first call of a progress(), any subset later.
     * Up to 4 completed requests: all subsets; more: everything, every single one, everything but one (and nothing). */
    int first = (testsome_in_step == 1);
    uint64_t full = (nk >= 64) ? ~0ull : ((1ull << nk) - 1), mask = full;
    int nalt = nk <= 4 ? (int)full + (first ? 0 : 1) : 1 + 2 * nk + (first ? 0 : 1);
    int c = (vm_choose && nalt > 1) ? vm_choose(nalt, 1) : 0;
    if (c) vm_stats.testsome_choices++;
    if (nk <= 4) mask = full - (uint64_t)c;
    else if (c == 0) mask = full;
    else if (c <= nk) mask = 1ull << (c - 1);
    else if (c <= 2 * nk) mask = full & ~(1ull << (c - nk - 1));
    else mask = 0;
    int n = 0;
    for (int j = 0; j < nk; j++)
        if (mask >> j & 1) { int i = K[j]; indices[n] = i; report((vm_req_t *)reqs[i], &reqs[i], statuses == MPI_STATUSES_IGNORE ? NULL : &statuses[n]); n++; }
    *outcount = n;
    return MPI_SUCCESS;
}
int vmpi_Test(MPI_Request *req, int *flag, MPI_Status *status)
{
    if (*req == MPI_REQUEST_NULL) { *flag = 1; return MPI_SUCCESS; }
    vm_req_t *r = req_check(*req, "MPI_Test");
    OBS4(O_TEST, r->serial, r->active, r->complete);
    if (!r->active) { *flag = 1; if (status != MPI_STATUS_IGNORE) { memset(status, 0, sizeof(*status)); status->MPI_SOURCE = MPI_ANY_SOURCE; status->MPI_TAG = MPI_ANY_TAG; } return MPI_SUCCESS; }
    if (!r->complete) { *flag = 0; return MPI_SUCCESS; }
    *flag = 1; report(r, req, status);
    return MPI_SUCCESS;
}
int vmpi_Cancel(MPI_Request *req)
{
    vm_req_t *r = req_check(*req, "MPI_Cancel");
    OBS4(O_CANCEL, r->serial, r->active, r->complete);
    if (r->kind == VM_RECV && r->active && !r->matched) { posted_remove(r->owner, r); r->complete = 1; r->cancelled = 1; memset(&r->st, 0, sizeof(r->st)); r->st._cancelled = 1; r->st.MPI_SOURCE = MPI_ANY_SOURCE; r->st.MPI_TAG = MPI_ANY_TAG; }
    return MPI_SUCCESS;
}
int vmpi_Request_free(MPI_Request *req)
{
    vm_req_t *r = req_check(*req, "MPI_Request_free");
    OBS4(O_REQFREE, r->serial, r->active, r->complete);
    if (r->kind == VM_RECV && r->active && !r->matched) posted_remove(r->owner, r);
    r->released = 1; r->active = 0; *req = MPI_REQUEST_NULL;
    return MPI_SUCCESS;
}
int vmpi_Get_count(const MPI_Status *status, MPI_Datatype dt, int *count)
{
    size_t s = dt_size(dt, "MPI_Get_count");
    *count = (status->_ucount % s) ? MPI_UNDEFINED : (int)(status->_ucount / s);
    return MPI_SUCCESS;
}
int vmpi_Pack(const void *inbuf, int incount, MPI_Datatype dt, void *outbuf, int outsize, int *position, MPI_Comm comm)
{
    size_t n = (size_t)incount * dt_size(dt, "MPI_Pack"); (void)comm;
    if (*position + (long)n > outsize) vm_fatal("MPI_Pack: MPI_ERR_TRUNCATE (%zu bytes at %d into %d)", n, *position, outsize);
    memcpy((char *)outbuf + *position, inbuf, n); *position += (int)n; return MPI_SUCCESS;
}
int vmpi_Unpack(const void *inbuf, int insize, int *position, void *outbuf, int outcount, MPI_Datatype dt, MPI_Comm comm)
{
    size_t n = (size_t)outcount * dt_size(dt, "MPI_Unpack"); (void)comm;
    if (*position + (long)n > insize) vm_fatal("MPI_Unpack: MPI_ERR_TRUNCATE (%zu bytes at %d of %d)", n, *position, insize);
    memcpy(outbuf, (const char *)inbuf + *position, n); *position += (int)n; return MPI_SUCCESS;
}
int vmpi_Pack_size(int incount, MPI_Datatype dt, MPI_Comm comm, int *size) { (void)comm; *size = (int)((size_t)incount * dt_size(dt, "MPI_Pack_size")); return MPI_SUCCESS; }
int vmpi_Barrier(MPI_Comm comm) { (void)comm; vm_fatal("HARNESS: MPI_Barrier is not modelled (ce.sync is not driven)"); return MPI_SUCCESS; }
int vmpi_Sendrecv(const void *sbuf, int scount, MPI_Datatype sdt, int dest, int stag, void *rbuf, int rcount, MPI_Datatype rdt,
                  int source, int rtag, MPI_Comm comm, MPI_Status *status)
{
    (void)sbuf; (void)scount; (void)sdt; (void)dest; (void)stag; (void)rbuf; (void)rcount; (void)rdt; (void)source; (void)rtag; (void)comm; (void)status;
    vm_fatal("HARNESS: MPI_Sendrecv is not modelled (ce.reshape is not driven)"); return MPI_SUCCESS;
}

/* ---------------- harness queries ---------------- */
int vm_posted_recv_exists(int dst, int tag)
{
    for (vm_req_t *r = VR[dst].posted_head; r; r = r->qnext) if (r->persistent && r->tag == tag) return 1;
    return 0;
}
int vm_req_reportable(MPI_Request h)
{
    vm_req_t *r = (vm_req_t *)h;
    if (h == MPI_REQUEST_NULL || h == NULL || r->magic != VM_REQ_MAGIC || r->released) return 0;
    return r->active && r->complete;
}
int vm_quiescent(char *why, size_t cap)
{
    for (int k = 0; k < VM_NRANKS; k++)
        if (VR[k].unex_head) { vm_msg_t *m = VR[k].unex_head; snprintf(why, cap, "a message of %zu bytes sent by rank %d to rank %d (communicator %d, tag %d) was never matched by a receive", m->len, m->src, m->dst, m->ctx, m->tag); return 0; }
    for (vm_req_t *r = all_reqs; r; r = r->all_next) {
        if (r->released || !r->active) continue;
        if (r->complete) { snprintf(why, cap, "%s request #%u of rank %d (communicator %d, tag %d) completed but was never reported to the engine", r->kind == VM_RECV ? "receive" : "send", r->serial, r->owner, r->ctx, r->tag); return 0; }
        if (!r->persistent) { snprintf(why, cap, "%s request #%u of rank %d (communicator %d, tag %d, peer %d) never completed", r->kind == VM_RECV ? "receive" : "send", r->serial, r->owner, r->ctx, r->tag, r->peer); return 0; }
    }
    return 1;
}
int vm_describe(char *buf, size_t cap)
{
    int o = 0;
    for (int k = 0; k < VM_NRANKS; k++) {
        int np = 0, nu = 0, nc = 0, na = 0;
        for (vm_req_t *r = VR[k].posted_head; r; r = r->qnext) np++;
        for (vm_msg_t *m = VR[k].unex_head; m; m = m->qnext) nu++;
        for (vm_req_t *r = all_reqs; r; r = r->all_next) if (r->owner == k && r->active && !r->released) { if (r->complete) nc++; else if (!r->persistent) na++; }
        o += snprintf(buf + o, o < (int)cap ? cap - o : 0, "%srank %d: %d receives posted, %d unexpected messages, %d completed-unreported, %d pending non-persistent", k ? "; " : "", k, np, nu, nc, na);
    }
    return o;
}
