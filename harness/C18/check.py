import os, sys, subprocess, hashlib, threading, glob, re, shutil, time
from concurrent.futures import ThreadPoolExecutor

sys.path.insert(0, os.path.dirname(os.path.abspath(__file__)))
import gen          # noqa: E402
import vlib         # noqa: E402

META = dict(
    engine='mp',
    technique='enumerated JDF family (generated, compiled by the freshly built ptgpp: every declaration order of the deps of one output flow, every sharing of local type names among them) x exhaustive box of type bindings, tile sizes, consumer placements and short-message setting, executed on the real runtime under 1..3 MPI ranks; reference model of the documented pack/unpack semantics as oracle',
    level_text='Every program of the family (one producer of a full m x m int tile whose output flow has 1-3 deps in every declaration order: consumer tasks annotated with [type], [type_remote], both, or reading the collection with [type_data]/[type], on the output dep, the input dep or both, and write-backs of the flow to an element of a second collection with [type]/[type_data] in the four documented combinations; the typed output deps use the same or different type names in every possible way) is run for every binding of the type names to FULL/LOWER/UPPER with matching packed sizes, m in {2,3,4}, every placement of the consumers on the ranks, with and without short messages. Each consumer snapshots the copy it receives (selected elements must equal the producer\'s values moved by the pack/unpack order, unselected elements must keep the arena fill pattern), then all consumers overwrite their copies with their own marker and every consumer and the producer\'s tile are re-read: a copy may only carry the marker of a consumer that legitimately shares it. Every written-back collection element must hold the producer\'s values packed with [type] and unpacked with [type_data], all other elements untouched.',
    level_note='Real MPI between real processes: message timing is not enumerated. The documented unsupported case (one output flow with several different remote types to the same rank inside short messages) is not generated. Conversions between types of different packed size are not generated (the runtime warns about them). One execution stream per process. Triples of deps are enumerated over reduced kind sets (see NOTES.md). A write-back is executed asynchronously from the producer\'s copy: when a local consumer without conversion shares and overwrites that copy, the written-back elements may hold that consumer\'s marker (accepted: the program itself races).',
)
RULE = ("one state = one program instance (structure = ordered deps + naming of the local output types, m, placement, type binding, ranks, short-message setting), all instances enumerated; "
        "transitions = tile elements compared with the reference model; an instance is non-trivial when at least one consumer receives a converted copy or a write-back converts; "
        "outcomes = distinct hashes of all observed snapshots and written-back elements")

ENV = dict(os.environ, OMPI_ALLOW_RUN_AS_ROOT='1', OMPI_ALLOW_RUN_AS_ROOT_CONFIRM='1', PARSEC_MCA_bind_threads='0')
HDIR = os.path.dirname(os.path.abspath(__file__))


def sha(b):
    return hashlib.sha1(b).hexdigest()


def header_state(b):
    """hash of every header the generated code can see (repo + build dir)"""
    h = hashlib.sha1()
    for root in ('/repo/parsec', os.path.join(b, 'parsec', 'include'), '/verif/engine/rt'):
        for dp, dn, fn in sorted(os.walk(root)):
            for f in sorted(fn):
                if f.endswith('.h'):
                    p = os.path.join(dp, f)
                    h.update(p.encode()); h.update(open(p, 'rb').read())
    return h.hexdigest()


def build(ctx, tier):
    b = ctx.build('hk-mpi')
    inc, defs, cf, ld = ctx.flags('hk-mpi')
    gdir = os.path.join(vlib.OUT, 'c18-%s' % tier)
    cache = os.path.join(vlib.OUT, 'c18-cache')
    os.makedirs(gdir, exist_ok=True); os.makedirs(cache, exist_ok=True)
    ptgpp = os.path.join(b, 'parsec/interfaces/ptg/ptg-compiler/parsec-ptgpp')
    structs = gen.structures(tier)
    names = [('s%03d' % i, s) for i, s in enumerate(structs)]
    for f in glob.glob(os.path.join(gdir, '*')):
        os.unlink(f)
    open(os.path.join(gdir, 'c18.h'), 'w').write(gen.header_text())
    open(os.path.join(gdir, 'glue.c'), 'w').write(gen.glue_text(names))
    hs = header_state(b) + sha(gen.header_text().encode())
    for f in ('/verif/engine/seqx/seqx.h',):
        hs += sha(open(f, 'rb').read())
    cc = ['/usr/bin/mpicc', '-std=gnu11', '-O0', '-w', '-mcx16'] + defs + inc + ['-I' + gdir, '-I/verif/engine/rt', '-I/repo/parsec']

    ptgpp_id = sha(open(ptgpp, 'rb').read())

    def compile_cached(key, cmd, obj_name, what):
        obj = os.path.join(cache, key + '.o')
        if not os.path.exists(obj):
            r = subprocess.run(cmd + ['-o', obj + '.tmp%d' % os.getpid()], cwd=gdir, capture_output=True, text=True)
            if r.returncode != 0:
                return 'compilation of %s failed:\n%s' % (what, (r.stdout + r.stderr)[-3000:])
            os.replace(obj + '.tmp%d' % os.getpid(), obj)
        else:
            os.utime(obj)
        return obj

    def one(ns):
        if isinstance(ns, str):          # the driver and the table of structures
            src = ns
            return compile_cached(sha((open(src, 'rb').read().decode() + hs + ' '.join(cc)).encode()), cc + ['-O1', '-g', '-I/verif/engine/seqx', '-c', src], None, src)
        name, (skey, s, to) = ns
        text = gen.jdf_text(name, s, to)
        open(os.path.join(gdir, name + '.jdf'), 'w').write(text)
        gkey = sha((name + '|' + text + ptgpp_id).encode())
        gc, gh = os.path.join(cache, 'gen-' + gkey + '.c'), os.path.join(cache, 'gen-' + gkey + '.h')
        if not (os.path.exists(gc) and os.path.exists(gh)):      # generated code is cached per (jdf text, ptgpp binary)
            r = subprocess.run([ptgpp, '-E', '--noline', '--Wremoteref', '-i', name + '.jdf', '-o', name, '-f', name], cwd=gdir, capture_output=True, text=True)
            if r.returncode != 0 or not os.path.exists(os.path.join(gdir, name + '.c')):
                return 'ptgpp failed on structure %s:\n%s' % (skey, r.stdout + r.stderr)
            shutil.copy(os.path.join(gdir, name + '.h'), gh + '.tmp%d' % os.getpid()); os.replace(gh + '.tmp%d' % os.getpid(), gh)
            shutil.copy(os.path.join(gdir, name + '.c'), gc + '.tmp%d' % os.getpid()); os.replace(gc + '.tmp%d' % os.getpid(), gc)
        else:
            shutil.copy(gc, os.path.join(gdir, name + '.c')); shutil.copy(gh, os.path.join(gdir, name + '.h'))
            os.utime(gc); os.utime(gh)
        wtext = gen.wrapper_text(name, s, to)                  # one TU per structure: generated code + constructor binding the slots
        open(os.path.join(gdir, name + '_w.c'), 'w').write(wtext)
        key = sha(open(gc, 'rb').read() + open(gh, 'rb').read() + wtext.encode() + hs.encode())
        return compile_cached(key, cc + ['-c', name + '_w.c'], None, 'generated code for structure %s' % skey)
    with ThreadPoolExecutor(max_workers=8) as ex:
        objs = list(ex.map(one, [os.path.join(HDIR, 'reshape_h.c'), os.path.join(gdir, 'glue.c')] + names))
    for o in objs:
        if not o.endswith('.o'):
            sys.stderr.write(o + '\n'); raise vlib.Broken('generation of the JDF family failed')
    exe = os.path.join(vlib.OUT, 'bin', 'C18-reshape-%s' % tier)
    r = subprocess.run(['/usr/bin/mpicc'] + objs + ['-o', exe] + ld, capture_output=True, text=True)
    if r.returncode != 0:
        sys.stderr.write(r.stdout + r.stderr); raise vlib.Broken('link failed')
    now = time.time()
    for f in glob.glob(os.path.join(cache, '*')):           # keep the cache small
        try:
            if now - os.path.getatime(f) > 2 * 86400 and now - os.path.getmtime(f) > 2 * 86400:
                os.unlink(f)
        except OSError:
            pass
    return exe, len(names)


def wrapped(exe, n):
    if n == 1:
        return exe
    p = exe + '-np%d.sh' % n
    open(p, 'w').write('#!/bin/sh\nexec mpiexec -n %d --oversubscribe %s "$@"\n' % (n, exe))
    os.chmod(p, 0o755)
    return p


def run_parallel(ctx, jobs, maxprocs=8):
    """run the legs concurrently, never more than `maxprocs` harness processes (ranks) at a time"""
    cv = threading.Condition(); used = [0]

    def go(exe, args, label, tmo):
        n = int(re.search(r'-np(\d+)\.sh$', exe).group(1)) if exe.endswith('.sh') else 1
        with cv:
            while used[0] + n > maxprocs:
                cv.wait()
            used[0] += n
        try:
            ctx.run_engine(exe, args, label=label, timeout=tmo, env=ENV)
        finally:
            with cv:
                used[0] -= n; cv.notify_all()
    ths = [threading.Thread(target=go, args=j) for j in jobs]
    for t in ths:
        t.start()
    for t in ths:
        t.join()


def check(ctx):
    exe, nstruct = build(ctx, ctx.tier)
    ctx.notes.append('%d generated JDF structures' % nstruct)
    quick = ctx.tier == 'quick'
    out = ['--outdir', '/verif/out']
    jobs = []
    if quick:
        dl = ['--deadline', '55']
        jobs.append((exe, ['--minm', '2', '--maxm', '4', '--minc', '1', '--maxc', '3'] + dl + out, 'np1', 600))
        for sh in (0, 1):
            for k in range(2):
                jobs.append((wrapped(exe, 2), ['--minm', '3', '--maxm', '3', '--minc', '1', '--maxc', '2', '--short', str(sh), '--skip-all-local', '--shard', '%d/2' % k] + dl + out, 'np2-short%d-%d' % (sh, k), 600))
        run_parallel(ctx, jobs)
    else:
        dl = ['--deadline', '600']
        jobs.append((exe, ['--minm', '2', '--maxm', '4', '--minc', '1', '--maxc', '3'] + dl + out, 'np1', 1500))
        for sh in (1, 0):
            for k in range(2):
                jobs.append((wrapped(exe, 2), ['--minm', '2', '--maxm', '4', '--minc', '1', '--maxc', '3', '--short', str(sh), '--shard', '%d/2' % k] + dl + out, 'np2-short%d-%d' % (sh, k), 1500))
            jobs.append((wrapped(exe, 3), ['--minm', '3', '--maxm', '3', '--minc', '1', '--maxc', '2', '--short', str(sh), '--skip-all-local'] + dl + out, 'np3-short%d' % sh, 1500))
        run_parallel(ctx, jobs)
    return ctx.finish(RULE, ["message timing between MPI ranks is not controlled (real MPI)",
                             "the type names are bound at run time to FULL/LOWER/UPPER (diagonal included) int tiles of m x m, m in {2,3,4}; arenas are given a filling allocator and no cache so that untouched elements are recognisable",
                             "documented unsupported case (several different remote types of one flow to one rank inside short messages) excluded; conversions between types of different packed size excluded",
                             "write-backs ([type]/[type_data] on a dep to a collection element) are checked against CHANGELOG.ptg.md 'Writing to matrix' cases 1-4 with equal packed sizes; the target element lives on the producer's rank; "
                             "when a local consumer without conversion shares the producer's copy its marker is accepted in the written-back elements (asynchronous write-back, race of the program itself)"])


def replay(ctx, path, obj):
    h = obj['history']
    np_ = int(re.search(r'np=(\d+)', h).group(1))
    key = re.search(r' s=(\S+)', h).group(1)
    tier = 'quick' if key in [k for k, _, _ in gen.structures('quick')] else 'thorough'
    exe, _ = build(ctx, tier)
    return subprocess.call((['mpiexec', '-n', str(np_), '--oversubscribe'] if np_ > 1 else []) + [exe, '--replay', path], env=ENV)
