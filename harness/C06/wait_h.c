/* C06: parsec_context_wait / parsec_taskpool_wait / parsec_taskpool_test and completion callbacks return / run
 * exactly when the work is done; any number of start/wait epochs.   E4 / rt engine, real runtime.
 *
 * A HISTORY is a sequence of main-thread operations over <= 3 tiny taskpools and <= 3 epochs:
 *     S        parsec_context_start
 *     W        parsec_context_wait
 *     A<k>     parsec_context_add_taskpool(tp_k)            (tp_k is the root of a link tree, see L)
 *     T<k>     parsec_taskpool_wait(tp_k)
 *     Q<k>     parsec_taskpool_test(tp_k)
 *     I<k>     insert one more batch of 2 tasks into the DTD pool tp_k
 *     Lt<i><j> "the first task of tp_i adds tp_j",  Lc<i><j> "the completion callback of tp_i adds tp_j"
 *              (harness-side configuration, no runtime call: the L operations of a tree stand directly before
 *              the A of its root - they commute with everything else)
 * Pool kinds: a = PTG 1 task, b = PTG 2 independent tasks, c = PTG chain of 2 tasks, d = DTD (batches of 2 tasks).
 * All COMPLETE histories (ending in W with the context idle) of length <= N are enumerated, only with calls that
 * are legal in the state they are issued in (see NOTES.md for the legality table derived from scheduling.c).
 * Each history is run (leg "orders") under hsched on ONE stream with EVERY task-level order, and (leg "threads")
 * free running on threads {1,2,4} x schedulers {default, ap, ll}.
 */
#include "hsched.h"
#include "vdc.h"
#include "waitrt.h"
#include "parsec/interfaces/dtd/insert_function.h"
#include "chain.h"

#define MAXPOOL 3
#define MAXOPS 12
#define MAXT 8            /* tasks per pool (PTG <= 2, DTD <= 2 * 4 batches) */
#define MAXEV 256

typedef struct { char type, sub; int a, b; } op_t;
typedef struct { int nops; op_t ops[MAXOPS]; int npools; char kind[MAXPOOL]; int parent[MAXPOOL]; char ltype[MAXPOOL]; } hist_t;

/* ---------- run-time state of one execution ---------- */
typedef struct {
    parsec_taskpool_t *tp; int is_dtd, W, L, nbatch, ntasks;
    int cnt[MAXT]; long ent[MAXT], ext[MAXT];
    int cb_count; long cb_last; int added; long add_stamp; int add_rc;
} rpool_t;
static rpool_t rp[MAXPOOL];
static const hist_t *cur_h;
static parsec_context_t *g_ctx;
static vdc_t *g_A;
static int idle_selects = 0;
static int use_hsched = 0;
typedef struct { long s; char txt[12]; } ev_t;
static ev_t evlog[MAXEV]; static int nev;
static void ev(const char *fmt, ...) { int i = __sync_fetch_and_add(&nev, 1); if (i >= MAXEV) return; va_list ap; va_start(ap, fmt); vsnprintf(evlog[i].txt, sizeof(evlog[i].txt), fmt, ap); va_end(ap); evlog[i].s = wr_stamp(); }

static int pool_cb(parsec_taskpool_t *tp, void *d);
static void add_pool(int j)
{
    rp[j].added++;
    rp[j].add_rc = parsec_context_add_taskpool(g_ctx, rp[j].tp);
    rp[j].add_stamp = wr_stamp();
}
static void task_enter(int p, int idx)
{
    ev("%d.%d", p, idx);
    if (idx < MAXT) { rp[p].ent[idx] = wr_stamp(); __sync_add_and_fetch(&rp[p].cnt[idx], 1); }
    if (idx == 0) for (int j = 0; j < cur_h->npools; j++) if (cur_h->parent[j] == p && cur_h->ltype[j] == 't') add_pool(j);
}
static void task_exit(int p, int idx) { if (idx < MAXT) rp[p].ext[idx] = wr_stamp(); }
void vt_enter(int p, int w, int k) { task_enter(p, w * rp[p].L + k); }
void vt_exit(int p, int w, int k) { task_exit(p, w * rp[p].L + k); }
static int dtd_body(parsec_execution_stream_t *es, parsec_task_t *t)
{
    (void)es; int p, idx; parsec_dtd_unpack_args(t, &p, &idx);
    task_enter(p, idx); task_exit(p, idx);
    return PARSEC_HOOK_RETURN_DONE;
}
static int pool_cb(parsec_taskpool_t *tp, void *d)
{
    (void)tp; int p = (int)(intptr_t)d;
    ev("C%d", p);
    rp[p].cb_last = wr_stamp(); __sync_add_and_fetch(&rp[p].cb_count, 1);
    for (int j = 0; j < cur_h->npools; j++) if (cur_h->parent[j] == p && cur_h->ltype[j] == 'c' && !rp[j].added) add_pool(j);
    return 0;
}

/* ---------- history <-> string ---------- */
static void hist_str(const hist_t *h, char *b, size_t n)
{
    int o = snprintf(b, n, "kinds=");
    for (int i = 0; i < h->npools; i++) o += snprintf(b + o, n - o, "%c", h->kind[i]);
    if (!h->npools) o += snprintf(b + o, n - o, "-");
    o += snprintf(b + o, n - o, " ops=");
    for (int i = 0; i < h->nops; i++) {
        const op_t *p = &h->ops[i];
        if (i) o += snprintf(b + o, n - o, ".");
        if (p->type == 'S' || p->type == 'W') o += snprintf(b + o, n - o, "%c", p->type);
        else if (p->type == 'L') o += snprintf(b + o, n - o, "L%c%d%d", p->sub, p->a, p->b);
        else o += snprintf(b + o, n - o, "%c%d", p->type, p->a);
    }
}
static int hist_parse(const char *cas, hist_t *h)
{
    char v[512]; memset(h, 0, sizeof(*h)); for (int i = 0; i < MAXPOOL; i++) h->parent[i] = -1;
    if (!wr_case_get(cas, "kinds", v, sizeof(v))) return -1;
    if (strcmp(v, "-")) { h->npools = (int)strlen(v); if (h->npools > MAXPOOL) return -1; memcpy(h->kind, v, h->npools); }
    if (!wr_case_get(cas, "ops", v, sizeof(v))) return -1;
    for (char *t = strtok(v, "."); t; t = strtok(NULL, ".")) {
        op_t *p = &h->ops[h->nops++]; if (h->nops > MAXOPS) return -1;
        p->type = t[0];
        if (t[0] == 'L') { p->sub = t[1]; p->a = t[2] - '0'; p->b = t[3] - '0'; if (p->b < 0 || p->b >= MAXPOOL) return -1; h->parent[p->b] = p->a; h->ltype[p->b] = p->sub; }
        else if (t[0] != 'S' && t[0] != 'W') p->a = t[1] - '0';
    }
    return 0;
}

/* ---------- one execution of a history; returns 0 ok / 1 violation (err) ---------- */
#define FAIL(...) do { if (!bad) { bad = 1; int _o = snprintf(err, errlen, "step %d (%s): ", i, opn); snprintf(err + _o, errlen - _o, __VA_ARGS__); } } while (0)
static int pool_done_check(int p, long R, int exp_cb, char *msg, size_t n)
{
    long mx = 0;
    for (int t = 0; t < rp[p].ntasks; t++) {
        if (rp[p].cnt[t] != 1) { snprintf(msg, n, "task %d of tp%d has run %d times", t, p, rp[p].cnt[t]); return 1; }
        if (rp[p].ext[t] == 0 || rp[p].ext[t] > R) { snprintf(msg, n, "task %d of tp%d not finished (exit stamp %ld, return stamp %ld)", t, p, rp[p].ext[t], R); return 1; }
        if (rp[p].ext[t] > mx) mx = rp[p].ext[t];
    }
    if (rp[p].cb_count != exp_cb) { snprintf(msg, n, "completion callback of tp%d has run %d times (expected %d)", p, rp[p].cb_count, exp_cb); return 1; }
    if (exp_cb > 0 && (rp[p].cb_last < mx || rp[p].cb_last > R)) { snprintf(msg, n, "completion callback of tp%d ran at stamp %ld, outside (last task exit %ld, return %ld)", p, rp[p].cb_last, mx, R); return 1; }
    return 0;
}
static int run_history(const hist_t *h, char *err, size_t errlen, char *outcome, size_t outlen)
{
    int bad = 0; err[0] = 0;
    /* model */
    int started = 0, root_added[MAXPOOL] = {0}, known_added[MAXPOOL] = {0}, known_done[MAXPOOL] = {0}, exp_cb[MAXPOOL] = {0};
    memset(rp, 0, sizeof(rp)); cur_h = h; nev = 0; wr_seq = 0;
    for (int p = 0; p < h->npools; p++) {
        char k = h->kind[p];
        if (k == 'd') { rp[p].is_dtd = 1; rp[p].tp = parsec_dtd_taskpool_new(); }
        else { rp[p].W = k == 'b' ? 2 : 1; rp[p].L = k == 'c' ? 2 : 1; rp[p].ntasks = rp[p].W * rp[p].L; rp[p].tp = (parsec_taskpool_t *)parsec_chain_new(&g_A->super, p, rp[p].W, rp[p].L); }
        parsec_taskpool_set_complete_callback(rp[p].tp, pool_cb, (void *)(intptr_t)p);
    }
    int i; char opn[16] = "";
    for (i = 0; i < h->nops && !bad; i++) {
        const op_t *o = &h->ops[i]; int rc; long R; char msg[256];
        idle_selects = 0;
        if (o->type == 'L') { snprintf(opn, sizeof(opn), "L%c%d%d", o->sub, o->a, o->b); continue; }
        if (o->type == 'S' || o->type == 'W') snprintf(opn, sizeof(opn), "%c", o->type); else snprintf(opn, sizeof(opn), "%c%d", o->type, o->a);
        switch (o->type) {
        case 'S':
            rc = parsec_context_start(g_ctx); ev("S"); started = 1;
            if (rc != 0) FAIL("parsec_context_start returned %d on an idle context", rc);
            break;
        case 'A':
            rp[o->a].added++; rc = parsec_context_add_taskpool(g_ctx, rp[o->a].tp); rp[o->a].add_stamp = wr_stamp(); ev("A%d", o->a);
            if (rc != 0) FAIL("parsec_context_add_taskpool returned %d", rc);
            known_added[o->a] = 1;
            /* the whole tree below this root is now due before the next context_wait returns */
            for (int p = 0; p < h->npools; p++) { int r = p; while (h->parent[r] >= 0) r = h->parent[r]; if (r == o->a) root_added[p] = 1; }
            break;
        case 'I': {
            int b = rp[o->a].nbatch;
            for (int t = 0; t < 2; t++) { int p = o->a, idx = b * 2 + t;
                parsec_dtd_insert_task(rp[p].tp, dtd_body, 0, PARSEC_DEV_CPU, "D", sizeof(int), &p, PARSEC_VALUE, sizeof(int), &idx, PARSEC_VALUE, PARSEC_DTD_ARG_END); }
            rp[o->a].nbatch++; rp[o->a].ntasks += 2; ev("I%d", o->a); known_done[o->a] = 0;
            break; }
        case 'Q':
            rc = parsec_taskpool_test(rp[o->a].tp); ev("Q%d", o->a);
            if (rc < 0 || rc > 1) FAIL("parsec_taskpool_test returned %d", rc);
            break;
        case 'T':
            rc = parsec_taskpool_wait(rp[o->a].tp); R = wr_stamp(); ev("T%d", o->a);
            if (rc < 0) FAIL("parsec_taskpool_wait returned %d", rc);
            if (rp[o->a].is_dtd) exp_cb[o->a]++; else exp_cb[o->a] = 1;
            if (!bad && pool_done_check(o->a, R, exp_cb[o->a], msg, sizeof(msg))) FAIL("when parsec_taskpool_wait(tp%d) returned: %s", o->a, msg);
            known_done[o->a] = 1;
            for (int p = 0; p < h->npools; p++) if (h->parent[p] == o->a) known_added[p] = 1;
            break;
        case 'W':
            rc = parsec_context_wait(g_ctx); R = wr_stamp(); ev("W"); started = 0;
            if (rc != 0) FAIL("parsec_context_wait returned %d", rc);
            for (int p = 0; p < h->npools && !bad; p++) if (root_added[p]) {
                if (rp[p].is_dtd) exp_cb[p]++; else exp_cb[p] = 1;
                if (pool_done_check(p, R, exp_cb[p], msg, sizeof(msg))) FAIL("when parsec_context_wait returned: %s", msg);
                known_done[p] = 1; known_added[p] = 1;
            }
            break;
        default: FAIL("internal: unknown op"); break;
        }
    }
    (void)started;
    /* "each epoch behaves the same": one more, empty, epoch must start and complete normally (a history that leaves the
     * context in a bad state is caught here, in the history that caused it) */
    if (!bad) { i = h->nops; snprintf(opn, sizeof(opn), "probe-epoch"); idle_selects = 0;
        int rc = parsec_context_start(g_ctx); ev("S");
        if (rc != 0) FAIL("parsec_context_start returned %d on an idle context", rc);
        if (!bad) { rc = parsec_context_wait(g_ctx); long R = wr_stamp(); ev("W"); char msg[256];
            if (rc != 0) FAIL("parsec_context_wait returned %d", rc);
            for (int p = 0; p < h->npools && !bad; p++) if (root_added[p]) {
                if (rp[p].is_dtd) exp_cb[p]++;
                if (pool_done_check(p, R, exp_cb[p], msg, sizeof(msg))) FAIL("when parsec_context_wait returned: %s", msg);
            }
        }
    }
    /* final: nothing ran twice, nothing ran after its wait, every callback count is final */
    if (!bad) { i = h->nops; snprintf(opn, sizeof(opn), "end");
        for (int p = 0; p < h->npools && !bad; p++) {
            if (rp[p].added != 1) FAIL("internal: tp%d added %d times", p, rp[p].added);
            for (int t = 0; t < rp[p].ntasks && !bad; t++) if (rp[p].cnt[t] != 1) FAIL("task %d of tp%d has run %d times at the end of the history", t, p, rp[p].cnt[t]);
            if (!bad && rp[p].cb_count != exp_cb[p]) FAIL("completion callback of tp%d has run %d times at the end of the history (expected %d)", p, rp[p].cb_count, exp_cb[p]);
        }
    }
    if (outcome) {
        int n = nev < MAXEV ? nev : MAXEV; ev_t *e = evlog;
        for (int a = 1; a < n; a++) { ev_t t = e[a]; int j = a; while (j > 0 && e[j - 1].s > t.s) { e[j] = e[j - 1]; j--; } e[j] = t; }
        int o = 0; outcome[0] = 0; for (int a = 0; a < n && o + 16 < (int)outlen; a++) o += snprintf(outcome + o, outlen - o, "%s ", e[a].txt);
    }
    if (bad) return bad;   /* the runtime may be in an undefined state; the worker stops after reporting */
    for (int p = 0; p < h->npools; p++) {
        if (rp[p].is_dtd) parsec_taskpool_set_complete_callback(rp[p].tp, NULL, NULL);   /* the DTD destructor reports termination once more */
        parsec_taskpool_free(rp[p].tp);
    }
    /* anchored state: active_taskpools = unfinished taskpools + start token; all pools are gone and the context is idle */
    if (g_ctx->active_taskpools != 0) { i = h->nops; snprintf(opn, sizeof(opn), "end"); FAIL("context->active_taskpools is %d after the history (idle context, every taskpool freed): the next epoch would not behave like this one", (int)g_ctx->active_taskpools); }
    return bad;
}

/* ---------- enumeration of all complete legal histories of length <= N ---------- */
typedef struct {
    int N; const char *kinds; int nkinds;
    void (*visit)(const hist_t *h, void *arg); void *arg;
    long count;
    /* model state during generation */
    int started, epochs, used;
    int madded[MAXPOOL], mknown[MAXPOOL], mdone[MAXPOOL], mbatches[MAXPOOL];
    hist_t h;
} gen_t;

static void gen_rec(gen_t *g);
static void gen_push(gen_t *g, char type, char sub, int a, int b) { op_t *o = &g->h.ops[g->h.nops++]; o->type = type; o->sub = sub; o->a = a; o->b = b; }
static int is_ptg(char k) { return k != 'd'; }

/* append a block [links...] A(root) introducing m new pools with the given tree shape, kinds and link types */
static void gen_blocks(gen_t *g)
{
    int room = g->N - g->h.nops - 1 - (g->started ? 0 : 1);    /* keep room for the closing W (and S) */
    int base = g->used;
    for (int m = 1; m <= MAXPOOL - base && m <= room; m++) {
        int nshapes = m == 3 ? 2 : 1;              /* m==3: star (0->1, 0->2) or chain (0->1->2) */
        for (int shape = 0; shape < nshapes; shape++) {
            int nk = 1; for (int x = 0; x < m; x++) nk *= g->nkinds;
            for (int kc = 0; kc < nk; kc++) {
                char kd[3]; int x = kc, ok = 1;
                for (int q = 0; q < m; q++) { kd[q] = g->kinds[x % g->nkinds]; x /= g->nkinds; }
                for (int q = 1; q < m; q++) if (!is_ptg(kd[q])) ok = 0;            /* link targets are PTG pools */
                if (m > 1 && !is_ptg(kd[0])) ok = 0;                             /* link sources are PTG pools */
                if (!ok) continue;
                int nlt = 1 << (m - 1);
                for (int lt = 0; lt < nlt; lt++) {
                    int par[3] = { -1, 0, shape == 1 ? 1 : 0 }; char ty[3] = { 0, (lt & 1) ? 'c' : 't', (lt & 2) ? 'c' : 't' };
                    /* star with two children: they are symmetric, keep (type,kind) of child 1 <= child 2 */
                    if (m == 3 && shape == 0 && (ty[1] > ty[2] || (ty[1] == ty[2] && kd[1] > kd[2]))) continue;
                    hist_t save = g->h; int sused = g->used; int sa[MAXPOOL], sk[MAXPOOL]; memcpy(sa, g->madded, sizeof(sa)); memcpy(sk, g->mknown, sizeof(sk));
                    for (int q = 0; q < m; q++) { g->h.kind[base + q] = kd[q]; g->h.parent[base + q] = q ? base + par[q] : -1; g->h.ltype[base + q] = q ? ty[q] : 0; }
                    g->h.npools = base + m; g->used = base + m;
                    for (int q = 1; q < m; q++) gen_push(g, 'L', ty[q], base + par[q], base + q);
                    gen_push(g, 'A', 0, base, 0);
                    g->madded[base] = 1; g->mknown[base] = 1;
                    gen_rec(g);
                    g->h = save; g->used = sused; memcpy(g->madded, sa, sizeof(sa)); memcpy(g->mknown, sk, sizeof(sk));
                }
            }
        }
    }
}
static void gen_rec(gen_t *g)
{
    /* a complete history: context idle, at least one epoch */
    if (!g->started && g->h.nops > 0 && g->h.ops[g->h.nops - 1].type == 'W') { g->count++; if (g->visit) g->visit(&g->h, g->arg); }
    int room = g->N - g->h.nops;
    if (room <= 0) return;
    int need = g->started ? 1 : 2;                 /* ops needed to get back to a complete history */
    /* S */
    if (!g->started && g->epochs < 3 && room >= 2) {
        g->started = 1; g->epochs++; gen_push(g, 'S', 0, 0, 0);
        gen_rec(g);
        g->h.nops--; g->started = 0; g->epochs--;
    }
    /* W */
    if (g->started) {
        int sk[MAXPOOL], sd[MAXPOOL]; memcpy(sk, g->mknown, sizeof(sk)); memcpy(sd, g->mdone, sizeof(sd));
        gen_push(g, 'W', 0, 0, 0); g->started = 0;
        for (int p = 0; p < g->used; p++) { int r = p; while (g->h.parent[r] >= 0) r = g->h.parent[r]; if (g->madded[r]) { g->mknown[p] = 1; g->mdone[p] = 1; } }
        gen_rec(g);
        g->h.nops--; g->started = 1; memcpy(g->mknown, sk, sizeof(sk)); memcpy(g->mdone, sd, sizeof(sd));
    }
    if (room <= need) return;                       /* no room for anything but the closing ops */
    /* blocks: [L...] A(root) */
    gen_blocks(g);
    /* T / Q on pools that are certainly registered with the context; the context must be started */
    if (g->started) for (int p = 0; p < g->used; p++) if (g->mknown[p]) {
        gen_push(g, 'Q', 0, p, 0); gen_rec(g); g->h.nops--;
        int sk[MAXPOOL], sd = g->mdone[p]; memcpy(sk, g->mknown, sizeof(sk));
        gen_push(g, 'T', 0, p, 0); g->mdone[p] = 1; for (int q = 0; q < g->used; q++) if (g->h.parent[q] == p) g->mknown[q] = 1;
        gen_rec(g);
        g->h.nops--; g->mdone[p] = sd; memcpy(g->mknown, sk, sizeof(sk));
    }
    /* I on DTD pools added by the main thread; the context must be started */
    if (g->started) for (int p = 0; p < g->used; p++) if (g->h.kind[p] == 'd' && g->madded[p] && g->mbatches[p] < 3) {
        gen_push(g, 'I', 0, p, 0); g->mbatches[p]++;
        gen_rec(g);
        g->h.nops--; g->mbatches[p]--;
    }
}
static void gen_all(gen_t *g, int N, const char *kinds, void (*visit)(const hist_t *, void *), void *arg)
{
    memset(g, 0, sizeof(*g)); g->N = N; g->kinds = kinds; g->nkinds = (int)strlen(kinds); g->visit = visit; g->arg = arg;
    for (int i = 0; i < MAXPOOL; i++) g->h.parent[i] = -1;
    gen_rec(g);
}

/* ---------- hsched wrapper (stuck detection) ---------- */
static parsec_task_t *c06_select(parsec_execution_stream_t *es, int32_t *distance)
{
    if (hs_npend == 0) {
        if (++idle_selects > 200) { wr_fail("deadlock: the wait call keeps polling, no task is ready and the awaited work is not complete (one stream, hsched)"); fflush(stdout); _exit(0); }
    } else idle_selects = 0;
    return hs_sched_select(es, distance);
}
static void cho_str(const unsigned char *ch, int n, char *b, size_t len) { int o = 0; b[0] = 0; for (int i = 0; i < n && o + 8 < (int)len; i++) o += snprintf(b + o, len - o, "%s%d", i ? "." : "", ch[i]); if (!n) snprintf(b, len, "-"); }

static parsec_context_t *init_ctx(int threads, const char *sched)
{
    if (sched) setenv("PARSEC_MCA_mca_sched", sched, 1);
    setenv("PARSEC_MCA_bind_threads", "0", 1);     /* no core binding: many checks share the machine */
    setenv("PARSEC_MCA_dtd_task_hash_size", "64", 1); setenv("PARSEC_MCA_dtd_tile_hash_size", "64", 1);   /* 2^16-bucket tables cost ~1 ms per DTD pool */
    int argc = 1; char *argv0[] = { (char *)"c06", NULL }; char **argv = argv0;
    parsec_context_t *p = parsec_init(threads, &argc, &argv);
    if (!p) { fprintf(stderr, "parsec_init failed\n"); _exit(3); }
    g_A = vdc_new(1, 8, 1, 0, NULL); g_ctx = p;
    return p;
}

typedef struct { int N, lo; const char *kinds; int threads; const char *sched; int reps; } leg_arg_t;
typedef struct { int slice, nslices; hs_explorer_t *ex; leg_arg_t *la; long seen; } vis_t;

static void visit_orders(const hist_t *h, void *arg_)
{
    vis_t *v = (vis_t *)arg_;
    if ((v->seen++ % v->nslices) != v->slice) return;
    if (h->nops <= v->la->lo) return;                 /* already covered by a smaller bound of this run */
    if (wr_leg->violations >= 3) return;
    char hs[256], chs[1024], err[512], outc[2048];
    hist_str(h, hs, sizeof(hs));
    double rem = wr_deadline > 0 ? wr_deadline - wr_now() : 0; if (wr_deadline > 0 && rem < 0.05) { wr_leg->exhaustive = 0; return; }
    hs_explorer_t *ex = v->ex;
    hs_begin(ex, -1, rem);
    while (hs_next(ex)) {
        cho_str(ex->prefix, ex->prefix_len, chs, sizeof(chs));
        wr_setcase("%s cho=%s", hs, chs);
        int bad = run_history(h, err, sizeof(err), outc, sizeof(outc));
        if (bad) { wr_fail("%s | events: %s", err, outc); fflush(stdout); wr_leg->exhaustive = 0; wr_leg->done = 1; _exit(0); }
        wr_outcome(outc);
        if (wr_leg->nsamples < 2 && (wr_leg->executions == 3 || wr_leg->executions == 500)) { char s[1024]; snprintf(s, sizeof(s), "%s cho=%s => %s", hs, chs, outc); wr_sample(s); }
        wr_leg->executions++;
        hs_end_run(ex);
    }
    wr_leg->states += ex->nodes; wr_leg->transitions += ex->transitions; wr_leg->nontrivial += ex->nontrivial;
    if (!ex->exhaustive) wr_leg->exhaustive = 0;
    wr_leg->aux[0]++; if (h->nops > wr_leg->aux[1]) wr_leg->aux[1] = h->nops;
}
static void leg_orders(int slice, int nslices, void *arg_)
{
    leg_arg_t *la = (leg_arg_t *)arg_;
    parsec_context_t *parsec = init_ctx(1, NULL); use_hsched = 1;
    hs_install(parsec); hs_module.module.select = c06_select;
    vis_t v = { slice, nslices, (hs_explorer_t *)malloc(sizeof(hs_explorer_t)), la, 0 };
    gen_t *g = (gen_t *)malloc(sizeof(gen_t));
    gen_all(g, la->N, la->kinds, visit_orders, &v);
    hs_uninstall(parsec);
}

static void visit_free(const hist_t *h, void *arg_)
{
    vis_t *v = (vis_t *)arg_;
    if (wr_leg->violations >= 3) return;
    if (wr_expired()) { wr_leg->exhaustive = 0; return; }
    char hs[256], err[512], outc[2048];
    hist_str(h, hs, sizeof(hs));
    for (int r = 0; r < v->la->reps; r++) {
        wr_setcase("%s threads=%d sched=%s rep=%d", hs, v->la->threads, v->la->sched ? v->la->sched : "default", r);
        int bad = run_history(h, err, sizeof(err), outc, sizeof(outc));
        if (bad) { wr_fail("%s | events: %s", err, outc); fflush(stdout); wr_leg->exhaustive = 0; wr_leg->done = 1; _exit(0); }
        wr_outcome(outc); wr_leg->executions++; wr_leg->transitions += h->nops; if (v->la->threads > 1) wr_leg->nontrivial++;
    }
    wr_leg->states++; wr_leg->aux[0]++; if (h->nops > wr_leg->aux[1]) wr_leg->aux[1] = h->nops;
    if (wr_leg->nsamples < 1 && wr_leg->states == 40) { char s[1024]; snprintf(s, sizeof(s), "%s threads=%d sched=%s => %s", hs, v->la->threads, v->la->sched ? v->la->sched : "default", outc); wr_sample(s); }
}
static const int TH[] = { 1, 2, 4 }; static const char *SCHEDS[] = { NULL, "ap", "ll" };
static void leg_threads(int slice, int nslices, void *arg_)
{
    (void)nslices; leg_arg_t la = *(leg_arg_t *)arg_;
    la.threads = TH[slice % 3]; la.sched = SCHEDS[slice / 3];
    parsec_context_t *parsec = init_ctx(la.threads, la.sched); use_hsched = 0;
    vis_t v = { 0, 1, NULL, &la, 0 };
    gen_t *g = (gen_t *)malloc(sizeof(gen_t));
    gen_all(g, la.N, la.kinds, visit_free, &v);
    parsec_fini(&parsec);
}

static void leg_replay(int slice, int nslices, void *arg_)
{
    (void)slice; (void)nslices; const char *cas = (const char *)arg_;
    hist_t h; if (hist_parse(cas, &h)) { fprintf(stderr, "cannot parse case [%s]\n", cas); _exit(3); }
    char err[512], outc[2048], hs[256], v[4096]; hist_str(&h, hs, sizeof(hs));
    int threads = (int)wr_case_int(cas, "threads", 0);
    if (!threads) {
        parsec_context_t *parsec = init_ctx(1, NULL); use_hsched = 1;
        hs_install(parsec); hs_module.module.select = c06_select;
        hs_explorer_t *ex = (hs_explorer_t *)malloc(sizeof(*ex)); hs_begin(ex, 0, 0);
        unsigned char ch[HS_MAXPTS]; int nch = 0;
        if (wr_case_get(cas, "cho", v, sizeof(v)) && strcmp(v, "-")) for (char *t = strtok(v, "."); t; t = strtok(NULL, ".")) ch[nch++] = (unsigned char)atoi(t);
        hs_item_t *it = (hs_item_t *)calloc(1, sizeof(hs_item_t) + nch + 1); it->len = nch; memcpy(it->ch, ch, nch); free(ex->stack); ex->stack = it;
        hs_next(ex);
        wr_setcase("%s", cas);
        int bad = run_history(&h, err, sizeof(err), outc, sizeof(outc));
        printf("  replay %s\n  task order chosen by the scheduler: %s\n  events (S/W/A/T/Q/I = call returned, p.t = task t of tp p entered, Cp = completion callback of tp p): %s\n", hs, ex->order, outc);
        if (bad) wr_fail("%s", err); else { printf("  replay: case passes\n"); hs_end_run(ex); hs_uninstall(parsec); parsec_fini(&parsec); }
    } else {
        char sch[32] = "default"; wr_case_get(cas, "sched", sch, sizeof(sch));
        parsec_context_t *parsec = init_ctx(threads, strcmp(sch, "default") ? sch : NULL); use_hsched = 0;
        int bad = 0; wr_setcase("%s", cas);
        for (int r = 0; r < 300 && !bad; r++) { bad = run_history(&h, err, sizeof(err), outc, sizeof(outc)); wr_leg->progress++; }
        printf("  replay (free running, up to 300 repetitions) %s threads=%d sched=%s\n  last events: %s\n", hs, threads, sch, outc);
        if (bad) wr_fail("%s", err); else { printf("  replay: case passes\n"); parsec_fini(&parsec); }
    }
}

int main(int argc, char **argv)
{
    wr_init(argc, argv, "C06");
    int jobs = 8, N = 6, Nfree = 0, count_only = 0, reps = 1; const char *only = NULL, *kinds = "abd", *plan = "5:abd:0,6:ad:0";
    for (int i = 1; i < argc; i++) {
        if (!strcmp(argv[i], "--jobs") && i + 1 < argc) jobs = atoi(argv[++i]);
        else if (!strcmp(argv[i], "--leg") && i + 1 < argc) only = argv[++i];
        else if (!strcmp(argv[i], "--len") && i + 1 < argc) N = atoi(argv[++i]);
        else if (!strcmp(argv[i], "--len-free") && i + 1 < argc) Nfree = atoi(argv[++i]);
        else if (!strcmp(argv[i], "--kinds") && i + 1 < argc) kinds = argv[++i];
        else if (!strcmp(argv[i], "--reps") && i + 1 < argc) reps = atoi(argv[++i]);
        else if (!strcmp(argv[i], "--plan") && i + 1 < argc) plan = argv[++i];
        else if (!strcmp(argv[i], "--count")) count_only = 1;
    }
    if (!Nfree) Nfree = N;
    static const char *aux[] = { "histories", "max_history_length", NULL };
    double full_deadline = wr_deadline;
    if (count_only) { gen_t *g = (gen_t *)malloc(sizeof(gen_t)); for (int n = 2; n <= N; n++) { gen_all(g, n, kinds, NULL, NULL); printf("complete legal histories of length <= %d over kinds {%s}: %ld\n", n, kinds, g->count); } return 0; }
    if (wr_replay_file) {
        static char scen[128], cas[WR_CASELEN];
        if (wr_read_replay(wr_replay_file, scen, sizeof(scen), cas, sizeof(cas))) { fprintf(stderr, "cannot read replay file\n"); return 2; }
        wr_run_legs("replay", 1, leg_replay, cas, 60, NULL);
        return wr_finish();
    }
    /* leg "orders": plan = list of len:kinds:lo ; lo (histories of length <= lo were covered by an earlier, complete entry) */
    if (!only || !strcmp(only, "orders")) {
        char pl[256]; snprintf(pl, sizeof(pl), "%s", plan); int all_exh = 1;
        if (full_deadline > 0 && (!only || strcmp(only, "orders"))) wr_deadline = full_deadline - 0.3 * (full_deadline - wr_now());   /* keep 30% for the threads leg */
        for (char *t = strtok(pl, ","); t; t = strtok(NULL, ",")) {
            int n = 0, lo = 0; static char kd[8][8]; static int ki = 0; char *k = kd[ki++ % 8];
            if (sscanf(t, "%d:%7[a-d]:%d", &n, k, &lo) < 2) { fprintf(stderr, "bad plan entry %s\n", t); return 2; }
            if (wr_expired()) break;
            if (!all_exh) lo = 0;
            char name[48]; snprintf(name, sizeof(name), "orders-len%d-%s", n, k);
            leg_arg_t la = { n, lo, k, 1, NULL, 1 };
            int v0 = wr_total_violations;
            wr_run_legs(name, n <= 4 ? 2 : jobs, leg_orders, &la, 600, aux);
            if (wr_total_violations != v0 || wr_expired()) all_exh = 0;
        }
    }
    /* free-running configuration box (a reserved share of the time budget) */
    wr_deadline = full_deadline; if (full_deadline > 0 && full_deadline < wr_now() + 15) wr_deadline = wr_now() + 15;   /* the box always gets a minimum share */
    if (!only || !strcmp(only, "threads")) { leg_arg_t la = { Nfree, 0, kinds, 0, NULL, reps }; wr_run_legs("threads", 9, leg_threads, &la, 240, aux); }
    return wr_finish();
}
