/* C41 (E1): concurrent set / get / test_and_set / register / lookup / unregister on the real info.c
 * while the object array grows (parsec_ioa_resize_and_rdlock). info.c is compiled into this TU (instrumented),
 * with its heap calls routed to a bump allocator, so that every access to the (re)allocated slot arrays is a
 * scheduling point (as are the registry header with its two list locks, and the array header with its rwlock); freed blocks are poisoned (0xDD) and
 * fresh non-calloc memory is 0xA5, so stale or uninitialised reads show up as impossible values.
 * Oracle: every history must be linearizable w.r.t. a map model (slots by identifier), the final slot contents
 * must equal the model's, and constructor/destructor calls must balance. */
#include "parsec/parsec_config.h"
#include <stdlib.h>
#include <string.h>
#include <stdio.h>
#include <assert.h>
#include "parsec/class/info.h"
#include "parsec/sys/atomic.h"
#include "cosched.h"

/* ------------------------------------------------------------------ arena allocator
 * calloc/realloc blocks (the slot arrays) live in the watched arena; malloc blocks (registry entries, private
 * until they are linked under the list lock) live in an unwatched one. The allocator itself is not instrumented:
 * its fills and copies are not scheduling points (they happen under the write lock anyway). */
#define ARENA_SZ 4096
#define NOTSAN __attribute__((no_sanitize_thread, noinline))
static unsigned char arena[ARENA_SZ] __attribute__((aligned(64)));
static unsigned char arena2[ARENA_SZ] __attribute__((aligned(64)));
static size_t arena_off, arena2_off;
#define HX_MAX 64
static struct { unsigned char *p; size_t n; int freed; } hx_tab[HX_MAX]; static int hx_n;
NOTSAN static void hx_fill(unsigned char *p, int c, size_t n) { for (size_t i = 0; i < n; i++) ((volatile unsigned char *)p)[i] = (unsigned char)c; }
NOTSAN static void hx_copy(unsigned char *d, const unsigned char *s, size_t n) { for (size_t i = 0; i < n; i++) ((volatile unsigned char *)d)[i] = s[i]; }
NOTSAN static void *hx_new(size_t n, int fill, int watched)
{
    size_t need = (n + 15) & ~(size_t)15; if (need == 0) need = 16;
    size_t *off = watched ? &arena_off : &arena2_off; unsigned char *base = watched ? arena : arena2;
    if (*off + need + 16 > ARENA_SZ || hx_n >= HX_MAX) cs_fail("harness: arena exhausted");
    unsigned char *p = base + *off; *off += need + 16;     /* 16 bytes gap (stays 0xEE) */
    hx_fill(p, fill, n);
    hx_tab[hx_n].p = p; hx_tab[hx_n].n = n; hx_tab[hx_n].freed = 0; hx_n++;
    return p;
}
NOTSAN static int hx_find(void *p) { for (int i = 0; i < hx_n; i++) if (hx_tab[i].p == (unsigned char *)p) return i; return -1; }
NOTSAN static void *hx_malloc(size_t n) { return hx_new(n, 0xA5, 0); }
NOTSAN static void *hx_calloc(size_t a, size_t b) { return hx_new(a * b, 0, 1); }
NOTSAN static void hx_free(void *p)
{
    int i = hx_find(p);
    if (i < 0) { free(p); return; }
    if (hx_tab[i].freed) cs_fail("double free of a heap block by the code under test");
    hx_tab[i].freed = 1; hx_fill(p, 0xDD, hx_tab[i].n);
}
NOTSAN static void *hx_realloc(void *p, size_t n)
{
    if (!p) return hx_new(n, 0xA5, 1);
    int i = hx_find(p); if (i < 0) cs_fail("realloc of an unknown pointer");
    size_t old = hx_tab[i].n; unsigned char *q = hx_new(n, 0xA5, 1);
    hx_copy(q, p, old < n ? old : n); hx_free(p); return q;
}
NOTSAN static size_t hx_size(void *p) { int i = hx_find(p); return (i < 0 || hx_tab[i].freed) ? 0 : hx_tab[i].n; }

#define malloc(n)     hx_malloc(n)
#define calloc(a, b)  hx_calloc(a, b)
#define realloc(p, n) hx_realloc(p, n)
#define free(p)       hx_free(p)
#include "parsec/class/info.c"          /* the code under test, from /repo's working tree */
#undef malloc
#undef calloc
#undef realloc
#undef free

/* ------------------------------------------------------------------ scenario machinery */
#define MAXN 4
#define MAXID 6
enum { A_CTOR = 1, A_DTOR = 4 };
static const char *names[MAXN] = { "a", "b", "c", "d" };
static int attr[MAXN];
#define P1 ((void *)0x1234567855aaULL)
#define P2 ((void *)0x2345678966bbULL)
#define P3 ((void *)0x3456789a77ccULL)
#define CONSOBJ    ((void *)(uintptr_t)0x0b10)
#define CONSDATA(n) ((void *)(uintptr_t)(0xc0d0 + (n)))
#define DESDATA(n)  ((void *)(uintptr_t)(0xde50 + (n)))
#define CBDATA(n)   ((void *)(uintptr_t)(0xcb00 + (n)))
#define MADE(k)     ((void *)(0x7d0000000000ULL | (uint64_t)(k) << 8 | 0xd5))

static parsec_info_t nfo;
static parsec_info_object_array_t oa;

enum { O_SET, O_GET, O_TAS, O_REG, O_LOOKUP, O_UNREG };
static const char *otn[] = { "set", "get", "test_and_set", "register", "lookup", "unregister" };
typedef struct { int type, id, n; void *a, *b; void *res; int ires; void *made; long call, ret; } op_t;
#define MAXOPS 10
static op_t ops[MAXOPS]; static int nops;
static int nmade; static __thread op_t *cur_op;
static struct { void *elt, *data; } dlog[16]; static int ndlog;
static int made_by_name[32];

static void *the_ctor(void *obj, void *cons_data)
{
    int k = __sync_add_and_fetch(&nmade, 1);
    if (obj != CONSOBJ) cs_fail("constructor called with object %p instead of the array's owner", obj);
    made_by_name[k] = (int)((uintptr_t)cons_data - 0xc0d0);
    if (cur_op) cur_op->made = MADE(k);
    return MADE(k);
}
static void the_dtor(void *elt, void *des_data) { int k = __sync_fetch_and_add(&ndlog, 1); if (k < 16) { dlog[k].elt = elt; dlog[k].data = des_data; } }

static op_t *new_op(int type, int id, int n, void *a, void *b) { int k = __sync_fetch_and_add(&nops, 1); op_t *o = &ops[k]; memset(o, 0, sizeof(*o)); o->type = type; o->id = id; o->n = n; o->a = a; o->b = b; cur_op = o; return o; }
static void *do_set(int id, void *v) { op_t *o = new_op(O_SET, id, -1, v, NULL); o->call = cs_stamp(); o->res = parsec_info_set(&oa, id, v); o->ret = cs_stamp(); return o->res; }
static void *do_get(int id) { op_t *o = new_op(O_GET, id, -1, NULL, NULL); o->call = cs_stamp(); o->res = parsec_info_get(&oa, id); o->ret = cs_stamp(); return o->res; }
static void *do_tas(int id, void *nw, void *old) { op_t *o = new_op(O_TAS, id, -1, nw, old); o->call = cs_stamp(); o->res = parsec_info_test_and_set(&oa, id, nw, old); o->ret = cs_stamp(); return o->res; }
static int reg_raw(int n) { return parsec_info_register(&nfo, names[n], (attr[n] & A_DTOR) ? the_dtor : NULL, DESDATA(n), (attr[n] & A_CTOR) ? the_ctor : NULL, CONSDATA(n), CBDATA(n)); }
static int do_reg(int n) { op_t *o = new_op(O_REG, -1, n, NULL, NULL); o->call = cs_stamp(); o->ires = reg_raw(n); o->ret = cs_stamp(); return o->ires; }
static int do_lookup(int n) { op_t *o = new_op(O_LOOKUP, -1, n, NULL, NULL); void *cb = NULL; o->call = cs_stamp(); o->ires = parsec_info_lookup(&nfo, names[n], &cb); o->ret = cs_stamp(); o->res = cb; return o->ires; }
static int do_unreg(int id) { op_t *o = new_op(O_UNREG, id, -1, NULL, NULL); void *cb = NULL; o->call = cs_stamp(); o->ires = parsec_info_unregister(&nfo, id, &cb); o->ret = cs_stamp(); o->res = cb; return o->ires; }

/* model */
typedef struct { int id_of[MAXN]; void *val[MAXID]; void *destroyed[16]; int ndes; } model_t;
static model_t m0;                /* state before cs_run */
static void *final_val[MAXID]; static int final_known; static int final_id_of[MAXN];
static int m_name_with_id(model_t *m, int id) { for (int n = 0; n < MAXN; n++) if (m->id_of[n] == id) return n; return -1; }

static int written_during(op_t *o, void *v)
{
    for (int k = 0; k < nops; k++) {
        op_t *p = &ops[k];
        if (p == o || p->id != o->id || !(p->call < o->ret && o->call < p->ret)) continue;
        if ((p->type == O_SET || p->type == O_TAS) && p->a == v) return 1;
        if (p->type == O_GET && p->made && p->made == v) return 1;
    }
    return 0;
}
static int seq_check(const int *order, int n, void *ctx)
{
    (void)ctx; model_t m = m0;
    for (int i = 0; i < n; i++) {
        op_t *o = &ops[order[i]];
        switch (o->type) {
        case O_SET: m.val[o->id] = o->a; break;                     /* the old value returned by set is not part of the property */
        case O_TAS:
            /* "replaces a value only when it matches": at its linearization point the slot matches => replaced, returns the new value;
             * otherwise nothing is replaced and the value reported back is the slot's content at that point or a value written to the
             * slot while the call was still running (the implementation re-reads the slot after a failed compare-and-swap) */
            if (m.val[o->id] == o->b) { if (o->res != o->a) return 0; m.val[o->id] = o->a; }
            else if (o->res != m.val[o->id] && !written_during(o, o->res)) return 0;
            break;
        case O_GET:
            if (m.val[o->id]) { if (o->res != m.val[o->id]) return 0; }
            else {
                int nm = m_name_with_id(&m, o->id); if (nm < 0) return 0;
                if (attr[nm] & A_CTOR) { if (!o->made || o->res != o->made) return 0; m.val[o->id] = o->res; }
                else if (o->res) return 0;
            }
            break;
        case O_REG:
            if (m.id_of[o->n] >= 0) { if (o->ires != PARSEC_INFO_ID_UNDEFINED) return 0; }
            else { if (o->ires < 0 || o->ires >= MAXID || m_name_with_id(&m, o->ires) >= 0) return 0; m.id_of[o->n] = o->ires; }
            break;
        case O_LOOKUP:
            if (o->ires != (m.id_of[o->n] < 0 ? PARSEC_INFO_ID_UNDEFINED : m.id_of[o->n])) return 0;
            if (o->ires >= 0 && o->res != CBDATA(o->n)) return 0;
            break;
        case O_UNREG: {
            int nm = m_name_with_id(&m, o->id);
            if (nm < 0) { if (o->ires != PARSEC_INFO_ID_UNDEFINED) return 0; break; }
            if (o->ires != o->id || o->res != CBDATA(nm)) return 0;
            if ((attr[nm] & A_DTOR) && m.val[o->id]) { m.destroyed[m.ndes++] = m.val[o->id]; m.val[o->id] = NULL; }
            m.id_of[nm] = -1;
        } break;
        }
    }
    for (int id = 0; id < MAXID; id++) {
        void *real = id < final_known ? final_val[id] : NULL;
        if (real != m.val[id]) return 0;
    }
    for (int nm = 0; nm < MAXN; nm++) if (final_id_of[nm] != m.id_of[nm]) return 0;
    /* values the model saw destroyed by unregister must be in the destructor log */
    for (int k = 0; k < m.ndes; k++) { int f = 0; for (int d = 0; d < ndlog; d++) if (dlog[d].elt == m.destroyed[k]) f++; if (f != 1) return 0; }
    return 1;
}

static void describe(char *buf, size_t cap)
{
    size_t o = 0;
    for (int k = 0; k < nops; k++) {
        op_t *p = &ops[k];
        switch (p->type) {
        case O_SET: o += snprintf(buf + o, cap - o, "set(%d,%p)=%p ", p->id, p->a, p->res); break;
        case O_GET: o += snprintf(buf + o, cap - o, "get(%d)=%p ", p->id, p->res); break;
        case O_TAS: o += snprintf(buf + o, cap - o, "tas(%d,%p,%p)=%p ", p->id, p->a, p->b, p->res); break;
        case O_REG: o += snprintf(buf + o, cap - o, "register(%s)=%d ", names[p->n], p->ires); break;
        case O_LOOKUP: o += snprintf(buf + o, cap - o, "lookup(%s)=%d ", names[p->n], p->ires); break;
        case O_UNREG: o += snprintf(buf + o, cap - o, "unregister(%d)=%d ", p->id, p->ires); break;
        }
    }
    o += snprintf(buf + o, cap - o, "| slots:");
    for (int id = 0; id < final_known && id < MAXID; id++) o += snprintf(buf + o, cap - o, " %p", final_val[id]);
    o += snprintf(buf + o, cap - o, " | ids:");
    for (int nm = 0; nm < MAXN; nm++) o += snprintf(buf + o, cap - o, " %s=%d", names[nm], final_id_of[nm]);
    o += snprintf(buf + o, cap - o, " | destroyed:");
    for (int d = 0; d < ndlog; d++) o += snprintf(buf + o, cap - o, " %p", dlog[d].elt);
}

/* setup: registry with the first nreg names registered, array initialised after the first ninit of them,
 * slot values preset through the real API (sequentially) */
static void setup(const int *attrs, int nreg, int ninit, void *const *preset)
{
    memset(arena, 0xEE, sizeof(arena)); memset(arena2, 0xEE, sizeof(arena2)); arena_off = arena2_off = 0; hx_n = 0; nops = 0; nmade = 0; ndlog = 0; cur_op = NULL;
    memset(&nfo, 0, sizeof(nfo)); memset(&oa, 0, sizeof(oa)); memset(&m0, 0, sizeof(m0));
    for (int n = 0; n < MAXN; n++) { attr[n] = attrs[n]; m0.id_of[n] = -1; }
    PARSEC_OBJ_CONSTRUCT(&nfo, parsec_info_t);
    for (int n = 0; n < nreg; n++) {
        if (n == ninit) { PARSEC_OBJ_CONSTRUCT(&oa, parsec_info_object_array_t); parsec_info_object_array_init(&oa, &nfo, CONSOBJ); }
        int id = reg_raw(n); CS_CHECK(id == n, "setup: sequential registration %d returned %d", n, id); m0.id_of[n] = id;
    }
    if (ninit >= nreg) { PARSEC_OBJ_CONSTRUCT(&oa, parsec_info_object_array_t); parsec_info_object_array_init(&oa, &nfo, CONSOBJ); }
    for (int id = 0; id < ninit && preset; id++) if (preset[id]) { parsec_info_set(&oa, id, preset[id]); m0.val[id] = preset[id]; }
    cs_watch(&nfo, sizeof(nfo), "registry");
    cs_watch(&oa, sizeof(oa), "array_hdr");
    cs_watch(arena, sizeof(arena), "heap");
}

static void finish_and_check(void)
{
    char buf[900];
    final_known = oa.known_infos;
    CS_CHECK(final_known >= 0 && final_known <= MAXID, "array claims %d slots", final_known);
    CS_CHECK(final_known == 0 || hx_size(oa.info_objects) >= (size_t)final_known * sizeof(void *), "array claims %d slots but its live storage has %zu bytes (stale or short block)", final_known, hx_size(oa.info_objects));
    for (int id = 0; id < final_known; id++) final_val[id] = oa.info_objects[id];
    for (int nm = 0; nm < MAXN; nm++) final_id_of[nm] = parsec_info_lookup(&nfo, names[nm], NULL);
    describe(buf, sizeof(buf));
    for (int nm = 0; nm < MAXN; nm++) for (int k = 0; k < nm; k++) CS_CHECK(final_id_of[nm] < 0 || final_id_of[nm] != final_id_of[k], "names %s and %s share identifier %d: %s", names[k], names[nm], final_id_of[nm], buf);
    /* constructed defaults: the one that ended up in a slot / was returned is kept, every loser is destroyed exactly once (if the info has a destructor) */
    for (int k = 1; k <= nmade; k++) {
        int kept = 0, des = 0, returned_as_own = 0;
        for (int id = 0; id < final_known; id++) if (final_val[id] == MADE(k)) kept++;
        for (int d = 0; d < ndlog; d++) if (dlog[d].elt == MADE(k)) des++;
        for (int i = 0; i < nops; i++) if (ops[i].type == O_GET && ops[i].made == MADE(k) && ops[i].res == MADE(k)) returned_as_own = 1;
        CS_CHECK(des <= 1, "constructed default %p destroyed %d times: %s", MADE(k), des, buf);
        if (!returned_as_own && !kept && (attr[made_by_name[k]] & A_DTOR)) CS_CHECK(des == 1, "constructed default %p lost the race but was never destroyed: %s", MADE(k), buf);
        if (kept) CS_CHECK(des == 0, "constructed default %p is still stored in a slot but was destroyed: %s", MADE(k), buf);
    }
    cs_span_t sp[MAXOPS];
    for (int k = 0; k < nops; k++) { sp[k].call = ops[k].call; sp[k].ret = ops[k].ret; }
    CS_CHECK(cs_linearizable(sp, nops, seq_check, NULL), "history not explained by any sequential order of the operations on a map model: %s", buf);
    cs_observe("%s", buf);
    /* sequential epilogue: every identifier that is registered now is usable on the array and returns the value at rest (or a fresh
     * constructed default / NULL for an empty slot) - a registry whose size bookkeeping was damaged by the concurrent registrations
     * shows here (the library's own assertion in the resize, or a wrong value) */
    for (int nm = 0; nm < MAXN; nm++) {
        int id = final_id_of[nm]; if (id < 0) continue;
        void *expect = id < final_known ? final_val[id] : NULL;
        int before = nmade;
        void *got = parsec_info_get(&oa, id);
        if (expect) CS_CHECK(got == expect, "epilogue: get(%d) returns %p, the slot held %p at rest: %s", id, got, expect, buf);
        else if (attr[nm] & A_CTOR) CS_CHECK(nmade == before + 1 && got == MADE(nmade), "epilogue: get(%d) of an empty slot with constructor returns %p: %s", id, got, buf);
        else CS_CHECK(got == NULL, "epilogue: get(%d) of an empty slot without constructor returns %p: %s", id, got, buf);
    }
}

static const int ATTR_STD[MAXN] = { A_CTOR | A_DTOR, A_CTOR | A_DTOR, A_DTOR, 0 };

/* S1: set+get on slot 0  ||  register(b), set(new slot) -> growth, get */
static void s1_t0(void *a) { (void)a; do_set(0, P1); do_get(0); }
static void s1_t1(void *a) { (void)a; int id = do_reg(1); if (id >= 0) { do_set(id, P2); } }
static void scen_set_grow(void) { void *pre[1] = { P3 }; setup(ATTR_STD, 1, 1, pre); cs_body_t b[] = { s1_t0, s1_t1 }; cs_run(2, b, NULL); finish_and_check(); }

/* S2: test_and_set || test_and_set on the same empty slot || growth by a get of a new slot (constructed default) */
static void s2_t0(void *a) { (void)a; do_tas(0, P1, NULL); }
static void s2_t1(void *a) { (void)a; do_tas(0, P2, NULL); }
static void s2_t2(void *a) { (void)a; do_get(1); }
static void scen_tas_tas_grow(void) { setup(ATTR_STD, 2, 1, NULL); cs_body_t b[] = { s2_t0, s2_t1, s2_t2 }; cs_run(3, b, NULL); finish_and_check(); }

/* S3: get || get of the same empty slot with constructor (one default must win, the other be destroyed) || set forcing growth */
static void s3_t0(void *a) { (void)a; do_get(0); }
static void s3_t2(void *a) { (void)a; do_set(1, P1); }
static void scen_get_get_grow(void) { setup(ATTR_STD, 2, 1, NULL); cs_body_t b[] = { s3_t0, s3_t0, s3_t2 }; cs_run(3, b, NULL); finish_and_check(); }

/* S4: two threads grow the same array (slots 1 and 2) while a third reads slot 0 */
static void s4_t0(void *a) { (void)a; do_set(1, P2); }
static void s4_t1(void *a) { (void)a; do_set(2, P3); }
static void s4_t2(void *a) { (void)a; do_get(0); do_tas(0, P2, P1); }
static void scen_grow_grow(void) { void *pre[1] = { P1 }; setup(ATTR_STD, 3, 1, pre); cs_body_t b[] = { s4_t0, s4_t1, s4_t2 }; cs_run(3, b, NULL); finish_and_check(); }

/* S5: register || register || lookups: identifiers distinct, lookups consistent */
static void s5_t0(void *a) { (void)a; do_reg(1); }
static void s5_t1(void *a) { (void)a; do_reg(2); }
static void s5_t2(void *a) { (void)a; do_lookup(1); do_lookup(0); }
static void scen_reg_reg_lookup(void) { setup(ATTR_STD, 1, 1, NULL); cs_body_t b[] = { s5_t0, s5_t1, s5_t2 }; cs_run(3, b, NULL); finish_and_check(); }

/* S6: set on an array that was initialised before any registration (calloc path of the growth) || test_and_set on another new slot */
static void s6_t0(void *a) { (void)a; do_set(0, P1); do_get(0); }
static void s6_t1(void *a) { (void)a; do_tas(1, P2, NULL); do_get(1); }
static void scen_grow_from_empty(void) { setup(ATTR_STD, 2, 0, NULL); cs_body_t b[] = { s6_t0, s6_t1 }; cs_run(2, b, NULL); finish_and_check(); }

/* S7 (2 threads): get || get of a slot that does not exist yet: both grow the array and both construct a default */
static void s7_t(void *a) { (void)a; do_get(1); }
static void scen_get_get_new_slot(void) { void *pre[1] = { P3 }; setup(ATTR_STD, 2, 1, pre); cs_body_t b[] = { s7_t, s7_t }; cs_run(2, b, NULL); finish_and_check(); }

/* S8 (2 threads): test_and_set+get on slot 0 || set(new slot) -> growth, then test_and_set on slot 0 */
static void s8_t0(void *a) { (void)a; do_tas(0, P1, NULL); do_get(0); }
static void s8_t1(void *a) { (void)a; do_set(1, P2); do_tas(0, P2, P1); }
static void scen_tas_vs_grow_tas(void) { setup(ATTR_STD, 2, 1, NULL); cs_body_t b[] = { s8_t0, s8_t1 }; cs_run(2, b, NULL); finish_and_check(); }

/* S9 (2 threads): unregister(b) (destructor, slot 1 holds p2) || set on the new slot 2 -> growth.
 * OBSERVATION ONLY (not part of the check, run with --observe): the property quantifies over concurrent
 * register/lookup/set/get/test_and_set histories, not over concurrent unregister. See NOTES.md. */
static void s9_t0(void *a) { (void)a; do_unreg(1); }
static void s9_t1(void *a) { (void)a; do_set(2, P3); do_get(2); }
static void scen_unregister_vs_grow(void) { void *pre[2] = { P1, P2 }; setup(ATTR_STD, 3, 2, pre); cs_body_t b[] = { s9_t0, s9_t1 }; cs_run(2, b, NULL); finish_and_check(); }

/* S10 (3 threads): first touch of a slot beyond the array (get) || growth + set + get of that slot || a new registration.
 * The first toucher samples the array size under the read lock and re-checks under the write lock: a growth by
 * another thread AND a registration in between must not make it resize from a stale size (found by a seeded change). */
static void s10_t0(void *a) { (void)a; do_get(2); }
static void s10_t1(void *a) { (void)a; do_set(2, P1); do_get(2); }
static void s10_t2(void *a) { (void)a; do_reg(3); }
static void scen_touch_grow_register(void) { void *pre[1] = { P3 }; setup(ATTR_STD, 3, 1, pre); cs_body_t b[] = { s10_t0, s10_t1, s10_t2 }; cs_run(3, b, NULL); finish_and_check(); }

/* ------------------------------------------------------------------ GENERATED scripts (bounded-exhaustive families)
 * The enumeration lives in check.py (c41gen.py); a script is completely described by its TEXT, which is also its scenario
 * name and therefore stored in the replay file:
 *     g_<P>_<ops of T0>_<ops of T1>[_<ops of T2>]                e.g.  g_A_G1_S1Rx
 *   P   pre-state: names a,b registered (ids 0,1; both with constructor and destructor), and the object array
 *         A  initialised after a only: slot 0 exists (empty), slot 1 needs growth (realloc path)
 *         B  initialised before any registration: no storage at all, slots 0 and 1 need growth (calloc path)
 *         C  initialised after a and b, slot 0 preset to P4: growth only after a new registration
 *   ops 1..4 operations of 2 characters each, concatenated.  V(t) = the thread's own value (P1, P2, P3 for T0, T1, T2);
 *       W(t) = the value of "the other" thread (T0: P2; T1, T2: P1)
 *         G0 G1 Gr   get(id)                     S0 S1 Sr   set(id, V(t))
 *         N0 N1 Nr   test_and_set(id, V(t), NULL)            V0 V1      test_and_set(id, V(t), W(t))
 *         Rx Ry      register(first / second name that the pre-state does not contain: c (destructor only) / d (nothing))
 *         Lx La      lookup(first fresh name) / lookup(a)
 *       id r = the identifier returned by this thread's latest successful register (the operation is skipped when there is none).
 * Usage contract (checked here too): set/get/test_and_set only with identifiers that are registered when the call is made:
 * 0 and 1 (pre-state) or r after a register of the same thread. */
#define P4 ((void *)0x456789ab88ddULL)
#define GMAXSTEP 4
typedef struct { char op, arg; } gstep_t;
typedef struct { char name[64]; int pre, nthr, len[3]; gstep_t st[3][GMAXSTEP]; } gdef_t;
#define MAXGEN 1024
static gdef_t gdefs[MAXGEN]; static int ngdefs;
static const gdef_t *gcur;
static int g_parse(const char *txt, gdef_t *g, char *err, size_t elen)
{
    memset(g, 0, sizeof(*g));
    if (strlen(txt) >= sizeof(g->name) || strncmp(txt, "g_", 2)) { snprintf(err, elen, "not a generated script text"); return -1; }
    strcpy(g->name, txt);
    const char *p = txt + 2;
    if (*p < 'A' || *p > 'C' || p[1] != '_') { snprintf(err, elen, "bad pre-state"); return -1; }
    g->pre = *p - 'A'; p++;
    int t = 0;
    while (*p == '_') {
        p++;
        if (t >= 3) { snprintf(err, elen, "more than 3 threads"); return -1; }
        int n = 0, have_r = 0;
        while (*p && *p != '_') {
            if (n >= GMAXSTEP) { snprintf(err, elen, "more than %d operations in thread %d", GMAXSTEP, t); return -1; }
            char op = p[0], arg = p[1];
            int ok = 0;
            switch (op) {
            case 'G': case 'S': case 'N': ok = (arg == '0' || arg == '1' || arg == 'r'); break;
            case 'V': ok = (arg == '0' || arg == '1'); break;
            case 'R': ok = (arg == 'x' || arg == 'y'); break;
            case 'L': ok = (arg == 'x' || arg == 'a'); break;
            }
            if (!ok) { snprintf(err, elen, "bad operation '%c%c'", op, arg); return -1; }
            if (arg == 'r' && !have_r) { snprintf(err, elen, "contract: thread %d uses the identifier of a register it has not performed", t); return -1; }
            if (op == 'R') have_r = 1;
            g->st[t][n].op = op; g->st[t][n].arg = arg; n++; p += 2;
        }
        if (n < 1) { snprintf(err, elen, "thread %d has no operation", t); return -1; }
        g->len[t] = n; t++;
    }
    if (*p || t < 2) { snprintf(err, elen, "trailing text or fewer than 2 threads"); return -1; }
    g->nthr = t;
    return 0;
}
static void g_body(void *a)
{
    int t = (int)(intptr_t)a, rid = -1;
    static void *const V[3] = { P1, P2, P3 }, *const W[3] = { P2, P1, P1 };
    for (int k = 0; k < gcur->len[t]; k++) {
        char op = gcur->st[t][k].op, arg = gcur->st[t][k].arg;
        int id = arg == 'r' ? rid : arg - '0';
        switch (op) {
        case 'G': if (id >= 0) do_get(id); break;
        case 'S': if (id >= 0) do_set(id, V[t]); break;
        case 'N': if (id >= 0) do_tas(id, V[t], NULL); break;
        case 'V': do_tas(id, V[t], W[t]); break;
        case 'R': { int r = do_reg(arg == 'x' ? 2 : 3); if (r >= 0) rid = r; } break;
        case 'L': do_lookup(arg == 'x' ? 2 : 0); break;
        }
    }
}
static void g_run(const gdef_t *g)
{
    static void *const preC[2] = { P4, NULL };
    switch (g->pre) {
    case 0: setup(ATTR_STD, 2, 1, NULL); break;
    case 1: setup(ATTR_STD, 2, 0, NULL); break;
    default: setup(ATTR_STD, 2, 2, preC); break;
    }
    gcur = g;
    cs_body_t b[3] = { g_body, g_body, g_body }; void *args[3] = { (void *)0, (void *)1, (void *)2 };
    cs_run(g->nthr, b, args);
    finish_and_check();
}
/* cosched scenarios carry a parameterless run(): one trampoline per slot of gdefs[] */
#define G1(i) static void grun_##i(void) { g_run(&gdefs[0x##i]); }
#define G16(p) G1(p##0) G1(p##1) G1(p##2) G1(p##3) G1(p##4) G1(p##5) G1(p##6) G1(p##7) G1(p##8) G1(p##9) G1(p##a) G1(p##b) G1(p##c) G1(p##d) G1(p##e) G1(p##f)
#define G256(p) G16(p##0) G16(p##1) G16(p##2) G16(p##3) G16(p##4) G16(p##5) G16(p##6) G16(p##7) G16(p##8) G16(p##9) G16(p##a) G16(p##b) G16(p##c) G16(p##d) G16(p##e) G16(p##f)
G256(0) G256(1) G256(2) G256(3)
#define N1(i) grun_##i,
#define N16(p) N1(p##0) N1(p##1) N1(p##2) N1(p##3) N1(p##4) N1(p##5) N1(p##6) N1(p##7) N1(p##8) N1(p##9) N1(p##a) N1(p##b) N1(p##c) N1(p##d) N1(p##e) N1(p##f)
#define N256(p) N16(p##0) N16(p##1) N16(p##2) N16(p##3) N16(p##4) N16(p##5) N16(p##6) N16(p##7) N16(p##8) N16(p##9) N16(p##a) N16(p##b) N16(p##c) N16(p##d) N16(p##e) N16(p##f)
static void (*const GRUNS[])(void) = { N256(0) N256(1) N256(2) N256(3) };
_Static_assert(sizeof(GRUNS) / sizeof(GRUNS[0]) == MAXGEN, "one trampoline per generated slot");
static int g_add(const char *txt)
{
    char err[160];
    if (ngdefs >= MAXGEN) { fprintf(stderr, "c41: more than %d generated scripts in one invocation\n", MAXGEN); return -1; }
    if (g_parse(txt, &gdefs[ngdefs], err, sizeof(err))) { fprintf(stderr, "c41: generated script '%s' rejected: %s\n", txt, err); return -1; }
    ngdefs++; return 0;
}

static cs_scenario_t scenarios[] = {
    { "set_get_vs_register_grow", scen_set_grow, 0 },
    { "grow_from_empty", scen_grow_from_empty, 0 },
    { "get_get_new_slot", scen_get_get_new_slot, 0 },
    { "tas_get_vs_grow_tas", scen_tas_vs_grow_tas, 0 },
    /* three threads: capped by --cap3 */
    { "first_touch_vs_grow_set_vs_register", scen_touch_grow_register, 0 },
    { "tas_tas_vs_get_grow", scen_tas_tas_grow, 0 },
    { "get_get_ctor_vs_set_grow", scen_get_get_grow, 0 },
    { "grow_grow_vs_get_tas", scen_grow_grow, 0 },
    { "register_register_lookup", scen_reg_reg_lookup, 0 },
    /* only with --observe */
    { "unregister_vs_grow", scen_unregister_vs_grow, 0 },
};
#define FIRST3 4
#define NCHECKED 9
int main(int argc, char **argv)
{
    int n = NCHECKED, na = 0; char *av[64]; const char *replay = NULL;
    static char filebuf[1 << 17];
    for (int i = 0; i < argc && na < 63; i++) {
        if (!strcmp(argv[i], "--cap3") && i + 1 < argc) { for (int k = FIRST3; k < NCHECKED; k++) scenarios[k].max_bound = atoi(argv[i + 1]); i++; }
        else if (!strcmp(argv[i], "--observe")) n = sizeof(scenarios) / sizeof(scenarios[0]);
        else if (!strcmp(argv[i], "--gen") && i + 1 < argc) { if (g_add(argv[++i])) return 2; }
        else if (!strcmp(argv[i], "--gen-file") && i + 1 < argc) {      /* one script text per line */
            FILE *f = fopen(argv[++i], "r"); if (!f) { perror(argv[i]); return 2; }
            size_t k = fread(filebuf, 1, sizeof(filebuf) - 1, f); fclose(f); filebuf[k] = 0;
            for (char *q = strtok(filebuf, "\n"); q; q = strtok(NULL, "\n")) if (*q && g_add(q)) return 2;
        }
        else { if (!strcmp(argv[i], "--replay") && i + 1 < argc) replay = argv[i + 1]; av[na++] = argv[i]; }
    }
    av[na] = NULL;
    /* the replay file of a generated script carries the script text as its scenario name: rebuild the script from it */
    if (replay) {
        static char rb[1 << 16]; FILE *f = fopen(replay, "r");
        if (f) { size_t k = fread(rb, 1, sizeof(rb) - 1, f); fclose(f); rb[k] = 0;
            char *q = strstr(rb, "\"scenario\":\"g_"); if (q) { q += 12; char *e = strchr(q, '"'); if (e) { *e = 0; if (g_add(q)) return 2; printf("generated script %s (rebuilt from the scenario text of the replay file)\n", q); } } }
    }
    if (ngdefs) {       /* generated scripts replace the hand-written ones in this invocation */
        cs_scenario_t *sc = calloc(ngdefs, sizeof(*sc));
        for (int i = 0; i < ngdefs; i++) { sc[i].name = gdefs[i].name; sc[i].run = GRUNS[i]; }
        return cs_main(na, av, "C41", sc, ngdefs, NULL);
    }
    return cs_main(na, av, "C41", scenarios, n, NULL);
}
