import os, vlib
META = dict(
    engine='cosched',
    technique='stateless model checking: preemption-bounded exhaustive schedule enumeration (CHESS) of the real base, countable and data-copy futures with counting callbacks',
    level_text='Every schedule with <= b preemptions (quick: b=2 for five small scripts, b=1 for ten 3-thread scripts; thorough: b=4 small, b=2 for the others including six larger scripts - deferred completion with two readers, 4 threads) of 21 scripts is executed on the real futures: racing setters and blocking/polling getters on a base future (one accepted value, every reader gets it, callback once, in the winner), countable futures with count 1..3 (ready / callback exactly with the count-th set), and data-copy futures with 1-3 requested shapes, synchronous or deferred fulfilment (fulfilment and nested set-up exactly once per requested shape and never for an unrequested one, every reader of a shape gets that shape\'s pointer, clean-up callbacks once per future on release).',
    level_note='Sequential consistency at instrumented accesses; 2-4 threads; the nested list object itself is only reached under the root future\'s lock and is not a watched region; the documented non-thread-safe entry points (init, data-copy set) are used as documented (set only from the fulfil callback or by one completing thread after the trigger).',
)
RULE = ("cosched: every schedule of each 2-4 thread script over the real parsec_base_future_t / parsec_countable_future_t / parsec_datacopy_future_t "
        "with at most b preemptions (scheduling points = every instrumented access to the future objects, the nested futures' storage and the "
        "harness pending-completion mailbox, plus the WAIT hooks of parsec_base_future_get and parsec_atomic_lock); non-trivial = at least one "
        "preemption; states = nodes of the schedule tree; distinct outcomes = distinct (winner / completing thread / nested creation order / "
        "number of not-yet-ready answers)")
SRC = ['future_h.c']
def check(ctx):
    exe = ctx.compile('hk-shm', 'future', SRC, engine='cosched')
    def leg(sets, bound, deadline):
        env = dict(os.environ); env['C29_SET'] = sets
        args = ['--bound', str(bound), '--jobs', str(min(vlib.NJOBS, 6 if ctx.tier == 'quick' else 12)), '--outdir', vlib.OUT, '--deadline', str(deadline)]
        ctx.run_engine(exe, args, label='future-%s-b%d' % (sets, bound), timeout=deadline + 600, env=env)
    if ctx.tier == 'quick':
        leg('s', 2, 30)
        leg('q', 1, 30)
    else:
        leg('s', 4, 150)
        leg('q', 2, 300)
        leg('x', 1, 120)
        leg('x', 2, 150)
    return ctx.finish(RULE, ["sequential consistency at instrumented accesses (no weak-memory effects)",
                             "gcc -fsanitize=thread instrumentation reports every access to the watched objects",
                             "documented usage contract of the non-thread-safe entry points is respected by the scripts"])
def replay(ctx, path, obj):
    import subprocess
    exe = ctx.compile('hk-shm', 'future', SRC, engine='cosched')
    return subprocess.call([exe, '--replay', path])
