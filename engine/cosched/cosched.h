/* cosched (E1): preemption-bounded exhaustive schedule exploration of real code.
 *
 * A harness provides scenarios; each scenario's run() is executed in a forked
 * child: it builds the objects under test, registers watched regions, starts
 * controlled threads with cs_run(), and evaluates its oracle. Scheduling points
 * are (a) every instrumented memory access to a watched region (reported by the
 * vtsan mini runtime) and (b) the blocking hooks of the library (WAIT).
 */
#ifndef COSCHED_H
#define COSCHED_H
#include <stddef.h>
#include <stdint.h>

#define CS_MAX_THREADS 8
typedef void (*cs_body_t)(void *arg);

typedef struct cs_scenario_s {
    const char *name;
    void (*run)(void);
    int max_bound;          /* 0 = use the command-line bound; else cap the preemption bound for this scenario */
} cs_scenario_t;

/* region management (call from run(), before cs_run) */
void cs_watch(const volatile void *base, size_t len, const char *name);
void cs_watch_all_heap(void);   /* watch everything except thread stacks (whole-runtime runs) */
/* run n controlled threads to completion under the current schedule */
void cs_run(int n, cs_body_t *bodies, void **args);
/* observation log: concatenated into the execution's outcome string */
void cs_observe(const char *fmt, ...) __attribute__((format(printf, 1, 2)));
/* oracle failure: records the message and terminates the execution as a violation */
void cs_fail(const char *fmt, ...) __attribute__((format(printf, 1, 2), noreturn));
/* marks the execution as a known finding (recorded, not a violation) */
void cs_known(const char *fmt, ...) __attribute__((format(printf, 1, 2)));
#define CS_CHECK(cond, ...) do { if(!(cond)) cs_fail(__VA_ARGS__); } while(0)
/* the calling controlled thread cannot progress until another thread writes */
void cs_wait(void);
/* explicit scheduling point on harness-owned shared state (counts as a write) */
void cs_point_here(void);
int  cs_self(void);             /* controlled thread id or -1 */
int  cs_in_child(void);
/* a logical clock: number of scheduling steps so far in this execution */
long cs_now(void);
/* strictly increasing stamp (threads are serialised, so this is a real-time order) */
long cs_stamp(void);

int cs_main(int argc, char **argv, const char *property,
            cs_scenario_t *scenarios, int nscen, void (*setup)(void));

/* small helper: brute-force linearizability check.
 * ops[i] has call/return stamps (cs_now) and an opaque id; seq_check(order,n,ctx)
 * must return 1 if applying the ops in that order on the sequential model
 * reproduces every recorded result. */
typedef struct { long call, ret; } cs_span_t;
int cs_linearizable(const cs_span_t *spans, int n,
                    int (*seq_check)(const int *order, int n, void *ctx), void *ctx);
#endif
