"""C40: virtual-process maps match their specification (E2 full box, one child process per specification x topology)."""
import json, os, subprocess, itertools, tempfile, shutil, time
from concurrent.futures import ThreadPoolExecutor

META = dict(
    engine='seqx',
    technique='exhaustive enumeration of a box of vpmap specifications (flat, hwloc, rr:n:p:c grid, generated map files, malformed strings/files) x synthetic hwloc topologies, one real parsec_init per child process, compared with a specification model',
    level_text='Every specification of the box (flat forms, hwloc, rr:n:p:c for n,p,c in 0..4 plus malformed rr strings, map files of 1-3 lines built from core lists / hex masks / range expressions / rank prefixes / malformed lines) is run through the real parsec_init on HWLOC_SYNTHETIC topologies with 1,2,4,6,8 cores; the number of virtual processes, the threads per virtual process (context and parsec_vpmap_get_* agree), every thread affinity and bound core within the allowed cpuset (and within the cores the line names), normal exit of parsec_fini, and for malformed input: no signal and a valid fallback map.',
    level_note='Topologies are synthetic (hwloc does not bind real threads); single process (rank 0); quick tier: every family on the 4-core/2-package topology, single-line files / invalid bindings / flat / hwloc also on 1 and 6 cores, two-line files on 6 cores, rr grid 0..2, flat/hwloc also with fewer cores requested (309 cases); thorough: all 5 topologies, rr grid 0..4, up to three-line files, nb_cores in {-1,2} (5180 cases).',
)
RULE = ("full-box enumeration, one process per (specification, topology, requested cores); states = distinct resulting maps (vp/thread/affinity structure); "
        "non-trivial = the specification asks for something other than the default flat map")

TOPOS = {1: ("pack:1 core:1 pu:1", 1, 1), 2: ("pack:1 core:2 pu:1", 1, 2), 4: ("pack:2 core:2 pu:1", 2, 2), 6: ("pack:2 core:3 pu:1", 2, 3), 8: ("pack:2 core:4 pu:1", 2, 4)}
BINDINGS = ["0", "0,1", "1,3", "0-2", "1,3,5-6", "0x3", "0xf", "0x5", "0;;", ";2;", "1;3;2", ";;2"]
BAD_BINDINGS = ["9", "x", "", "0x0", "-1", "0,,1", "7-5", ";;0", "99;;", "0x100000000", "3;1;", "2;0;2", "1;0;1"]   # last three: reversed ranges (start > end; seeded change C40-1)


def expand_binding(b, real):
    """cores named by a well-formed binding (None = cannot say)"""
    try:
        if 'x' in b:
            m = int(b.split('x', 1)[1], 16)
            return {i for i in range(64) if m >> i & 1}
        if ';' in b:
            f = (b.split(';') + ['', ''])[:3]
            s = int(f[0]) if f[0] else 0
            e = int(f[1]) if f[1] else real - 1
            if not (0 <= s < real): s = 0
            if not (0 <= e < real) or s > e: e = real - 1
            return set(range(s, e + 1))
        out = set()
        for part in b.split(','):
            if '-' in part:
                a, z = part.split('-'); out |= set(range(int(a), int(z) + 1))
            else:
                out.add(int(part))
        return out
    except Exception:
        return None


def cases(tier):
    """quick: every family on the 4-core (2 packages) topology; single-line files, invalid bindings, flat and hwloc also on 1 and 6
    cores; two-line files on 6 cores; rr grid 0..2. thorough: everything on all five topologies, rr grid 0..4, nb_cores in {-1,2}."""
    quick = tier == 'quick'
    ALL = [1, 4, 6] if quick else [1, 2, 4, 6, 8]
    ONE = [4] if quick else ALL
    SIX = [6] if quick else ALL
    out = []

    def add(name, spec, filetext, exp, topos, reqs=None):
        for t in topos:
            for req in (reqs or ([-1] if quick else [-1, 2])):
                out.append(dict(name=name, spec=spec, file=filetext, exp=exp, topo=t, req=req))
    for s in ['@null', 'flat', 'display:flat', '']:
        add('flat', s, None, dict(kind='flat'), ALL if s in ('@null', 'flat') else ONE)
    add('hwloc', 'hwloc', None, dict(kind='hwloc'), ALL)
    if quick:   # fewer cores requested than the machine has (thorough does this for every family)
        add('hwloc', 'hwloc', None, dict(kind='hwloc'), [4, 6], reqs=[2, 3])
        add('flat', 'flat', None, dict(kind='flat'), [4, 6], reqs=[2])
    add('hwloc', 'display:hwloc', None, dict(kind='hwloc'), [4, 6] if quick else ALL)
    g = range(0, 3) if quick else range(0, 5)
    for n, p, c in itertools.product(g, g, g):
        ok = n >= 1 and p >= 1 and c >= 1
        add('rr', 'rr:%d:%d:%d' % (n, p, c), None, dict(kind='rr', n=n, p=p, c=c) if ok else dict(kind='reject'), ONE)
    for s in ['rr:', 'rr:2', 'rr:2:2', 'rr:a:b:c', 'rr:2:x:2', 'rr:-1:2:2', 'rr:2:-2:2', 'rr:2:2:-4', 'rr:2:2:4junk', 'rr::2:2', 'rr:2:2:', 'rr:99999999999:1:1',
              'bogus', 'flatx', 'file:', 'file:/nonexistent/vpmap', 'display', 'display:', 'display:bogus', ':', 'hwlocfoo']:
        add('malformed-string', s, None, dict(kind='reject'), ONE)
    # map files
    lines_ok = []
    for b in BINDINGS:
        for nth in (1, 2, 3):
            lines_ok.append((':%d:%s' % (nth, b), nth, b))
    for (l, nth, b) in lines_ok:
        add('file1', 'file:@F', l + '\n', dict(kind='file', vps=[(nth, b)]), ALL)
    for (l, nth, b) in lines_ok[::5]:
        add('file1-rank0', 'file:@F', '0' + l + '\n', dict(kind='file', vps=[(nth, b)]), ONE)
        add('file1-otherrank', 'file:@F', '1' + l + '\n', dict(kind='reject'), ONE)           # nothing for this process: falls back
        add('file1-nonewline', 'file:@F', l, dict(kind='file', vps=[(nth, b)]), ONE)
        add('file1-nobinding', 'file:@F', ':%d\n' % nth, dict(kind='file', vps=[(nth, None)]), ONE)
    two = lines_ok[::4] if quick else lines_ok[::2]
    for i, (l1, n1, b1) in enumerate(two):
        for (l2, n2, b2) in two[i % 3::3]:
            add('file2', 'file:@F', l1 + '\n' + l2 + '\n', dict(kind='file', vps=[(n1, b1), (n2, b2)]), SIX)
            add('file2-mixed', 'file:@F', '0' + l1 + '\n1:4:0\n' + l2 + '\n', dict(kind='file', vps=[(n1, b1), (n2, b2)]), SIX)
    if not quick:
        three = lines_ok[::7]
        for (l1, n1, b1), (l2, n2, b2), (l3, n3, b3) in itertools.product(three, three[::2], three[1::2]):
            add('file3', 'file:@F', '\n'.join([l1, l2, l3]) + '\n', dict(kind='file', vps=[(n1, b1), (n2, b2), (n3, b3)]), ALL)
    for b in BAD_BINDINGS:
        add('file-badbinding', 'file:@F', ':2:%s\n' % b, dict(kind='reject-file', nth=2), ALL)
    for txt in ['', '\n', 'garbage\n', 'no colon here\n:1:0\n', '::\n', ':x:0\n', ':-3:0\n', ':0:0\n', ':2.7:0\n', ':::\n', '\x01\x02\xff\n', ':1:0\n\n\n', '\n:1:0\n', ':1:0\ngarbage',
                ':2:0,1:extra\n', '0x:1:0\n', ' :1:0\n', ':' + '9' * 30 + ':0\n']:
        add('file-malformed', 'file:@F', txt, dict(kind='reject'), ONE)
    return out


import re
KNOWN_RR = 'C40-rr-parameters-unimplemented'
RR_PARSABLE = re.compile(r'^(display:)?rr:\s*[+-]?\d+:\s*[+-]?\d+:\s*[+-]?\d+')


def known_ids():
    p = os.environ.get('VERIF_KNOWN_FINDINGS') or os.path.join(os.environ.get('VERIF_ROOT', '/verif'), 'known_findings.json')
    try:
        return {f.get('id') for f in json.load(open(p)).get('findings', [])}
    except Exception:
        return set()


def judge(case, rc, out, real, err=''):
    """returns (ok, message, outcome-string); ok == 'known' when the case shows exactly the signature of a recorded known finding"""
    exp = case['exp']
    lines = [l for l in out.splitlines() if l.strip()]
    js = None
    for l in lines:
        if l.startswith('{'):
            try:
                js = json.loads(l)
            except Exception:
                pass
    if RR_PARSABLE.match(case['spec']) and rc == -6 and 'parsec_vpmap_init_from_parameters' in err and 'Assertion' in err:
        # exactly the recorded signature: an rr specification that sscanf("rr:%d:%d:%d") accepts reaches the unfinished stub
        # parsec_vpmap_init_from_parameters (assert(0)) - the stub is entered before any validation could take place, so
        # rr:0:1:2 / rr:-1:2:2 / rr:2:2:4junk have the same root cause as rr:2:2:4. Any other signal, any other function,
        # any wrong map, and every rr string that sscanf does not accept (rr:, rr:2:2, rr:a:b:c ...) is judged normally.
        return 'known', '%s aborts in parsec_vpmap_init_from_parameters (assert(0): unfinished stub)' % case['spec'], 'known:rr-stub-abort'
    if rc < 0:
        return False, ('the process did not finish within 120 s' if rc == -14 else 'the process was killed by signal %d' % (-rc)), 'signal%d' % (-rc)
    reject_ok = exp['kind'] in ('reject', 'reject-file')
    if js is None or not js.get('init'):
        if reject_ok:
            return True, '', 'rejected(rc=%d)' % rc
        return False, 'parsec_init failed / produced no map (exit status %d) for a well-formed specification' % rc, 'noinit'
    if rc != 0 or 'FINI-OK' not in lines[-1:]:
        return False, 'a map was created but the process did not finish normally (exit status %d, parsec_fini %s)' % (rc, 'completed' if 'FINI-OK' in lines else 'did not complete'), 'nofini'
    allowed = set(js['allowed'])
    vps = js['vps']
    shape = [v['threads'] for v in vps]
    outcome = 'vp=%s aff=%s' % (shape, [[tuple(t['aff']) for t in v['th']] for v in vps])
    # ---- validity of any map
    if js['nb_vp'] < 1 or js['nb_vp'] != len(vps) or js['api_nb_vp'] != js['nb_vp']:
        return False, 'inconsistent number of virtual processes: context %d, vpmap API %d' % (js['nb_vp'], js['api_nb_vp']), outcome
    if js['api_total'] != sum(shape):
        return False, 'parsec_vpmap_get_nb_total_threads()=%d but the virtual processes hold %d threads' % (js['api_total'], sum(shape)), outcome
    if any(x >= 0 for x in js['oob']):
        return False, 'vpmap getters accept out-of-range indexes: %s' % js['oob'], outcome
    for v in vps:
        if v['threads'] < 1 or v['threads'] != v['api_threads'] or v['threads'] != len(v['th']):
            return False, 'virtual process %d: %d threads in the context, %d by parsec_vpmap_get_vp_threads' % (v['vp_id'], v['threads'], v['api_threads']), outcome
        for i, t in enumerate(v['th']):
            if t['th_id'] != i:
                return False, 'virtual process %d: thread %d has th_id %d' % (v['vp_id'], i, t['th_id']), outcome
            aff = t['aff']
            if 'inf' in aff or not set(aff) <= allowed:
                return False, 'virtual process %d thread %d: affinity %s is not within the available cores %s' % (v['vp_id'], i, aff, sorted(allowed)), outcome
            if t['core'] != -1 and t['core'] not in allowed:
                return False, 'virtual process %d thread %d is bound to core %d, outside the available cores %s' % (v['vp_id'], i, t['core'], sorted(allowed)), outcome
            if t['core'] >= 0 and aff and t['core'] not in aff:
                return False, 'virtual process %d thread %d is bound to core %d, not in its affinity %s' % (v['vp_id'], i, t['core'], aff), outcome
    if reject_ok:
        if exp['kind'] == 'reject-file' and shape != [exp['nth']]:
            return False, 'the line asks for one virtual process with %d threads (its binding is invalid), got %s' % (exp['nth'], shape), outcome
        return True, '', outcome
    # ---- the requested shape
    req = case['req'] if case['req'] > 0 else real
    if exp['kind'] == 'flat':
        if shape not in ([req], [min(req, real)]):
            return False, 'flat map: expected one virtual process with %d threads, got %s' % (req, shape), outcome
    elif exp['kind'] == 'hwloc':
        packs, per = TOPOS[case['topo']][1], TOPOS[case['topo']][2]
        if sum(shape) != min(req, real) or len(shape) > packs or any(s > per for s in shape):
            return False, 'hwloc map: expected %d threads on <= %d virtual processes of <= %d threads, got %s' % (min(req, real), packs, per, shape), outcome
    elif exp['kind'] == 'rr':
        if shape != [exp['p']] * exp['n']:
            return False, 'rr:%d:%d:%d: expected %d virtual processes of %d threads, got %s' % (exp['n'], exp['p'], exp['c'], exp['n'], exp['p'], shape), outcome
    elif exp['kind'] == 'file':
        want = [n for (n, b) in exp['vps']]
        if shape != want:
            return False, 'map file: expected virtual processes with %s threads, got %s' % (want, shape), outcome
        for v, (n, b) in zip(vps, exp['vps']):
            named = expand_binding(b, real) if b is not None else set()
            if named is None:
                continue
            for i, t in enumerate(v['th']):
                if not set(t['aff']) <= named:
                    return False, 'virtual process %d thread %d: affinity %s is outside the cores %s named by binding "%s"' % (v['vp_id'], i, t['aff'], sorted(named), b), outcome
    return True, '', outcome


SMOKE = [  # (spec, file text, topology, nb_cores): one case per mechanism, executed first (a deadline-cut run on an overloaded machine still covers them)
    ('flat', None, 4, -1), ('hwloc', None, 4, -1), ('display:hwloc', None, 4, -1), ('display:hwloc', None, 6, -1), ('hwloc', None, 6, 2), ('hwloc', None, 4, 3),
    ('file:@F', ':2:0,1\n', 4, -1), ('file:@F', ':3:0xf\n', 1, -1), ('file:@F', ':2:0x3\n', 1, -1), ('file:@F', ':3:1,3\n', 1, -1), ('file:@F', ':3:1,3\n', 6, -1),
    ('file:@F', ':2:1;3;2\n', 6, -1), ('file:@F', '1:1:0\n', 4, -1), ('file:@F', '0:1:0\n', 4, -1), ('file:@F', ':1:0', 4, -1), ('file:@F', ':1\n', 4, -1),
    ('file:@F', ':2:0x100000000\n', 1, -1), ('file:@F', ':2:9\n', 4, -1),
    ('file:@F', 'garbage\n', 4, -1), ('file:@F', '', 4, -1), ('rr:2:2:2', None, 4, -1), ('rr:0:1:2', None, 4, -1), ('rr:', None, 4, -1), ('rr:2:2', None, 4, -1),
    ('bogus', None, 4, -1), ('file:/nonexistent/vpmap', None, 4, -1), ('@null', None, 1, -1),
]


def is_smoke(case):
    return (case['spec'], case['file'], case['topo'], case['req']) in SMOKE_SET


SMOKE_SET = set(SMOKE)


def run_case(exe, case, tmpdir, idx):
    env = dict(os.environ)
    env['HWLOC_SYNTHETIC'] = TOPOS[case['topo']][0]
    env.pop('PARSEC_MCA_runtime_vpmap', None)
    spec = case['spec']
    if case['file'] is not None:
        path = os.path.join(tmpdir, 'map%d.txt' % idx)
        with open(path, 'wb') as f:
            f.write(case['file'].encode('latin-1'))
        spec = spec.replace('@F', path)
    for attempt in range(4):
        try:
            r = subprocess.run([exe, str(case['req']), spec], env=env, stdout=subprocess.PIPE, stderr=subprocess.PIPE, timeout=120)
            rc, out, err = r.returncode, r.stdout.decode('latin-1'), r.stderr.decode('latin-1')[-2000:]
        except subprocess.TimeoutExpired:
            rc, out, err = -14, '', ''
        if rc == 127 and not out:      # the dynamic loader could not load libparsec (library being relinked by a concurrent build): retry
            time.sleep(3)
            continue
        break
    return rc, out, err


def descr(case):
    return 'topology=%d cores (%s) nb_cores=%d spec=%s%s' % (case['topo'], TOPOS[case['topo']][0], case['req'], case['spec'], (' file=%r' % case['file']) if case['file'] is not None else '')


def build(ctx):
    return ctx.compile('hk-shm', 'vpmap_child', ['vpmap_child.c'], instr=False)


def check(ctx):
    exe = build(ctx)
    allc = cases(ctx.tier)
    deadline = time.time() + float(os.environ.get('VERIF_C40_DEADLINE', 65 if ctx.tier == 'quick' else 1000))
    tmpdir = tempfile.mkdtemp(prefix='verif-c40-')
    kinds = {}
    known = known_ids()
    n_known = 0
    try:
        def work(i):
            if time.time() > deadline:
                return None
            return run_case(exe, allc[i], tmpdir, i)
        # interleave the kinds so that a deadline-cut prefix still covers every family
        fam = {}
        for i, c in enumerate(allc):
            fam.setdefault(c['name'], []).append(i)
        rank = {}
        for name, idxs in fam.items():
            for k, i in enumerate(idxs):
                rank[i] = (k * 1000) // len(idxs)      # position of the case inside its family, scaled: families advance in lock-step
        order = sorted(range(len(allc)), key=lambda i: (0 if is_smoke(allc[i]) else 1, rank[i], len(fam[allc[i]['name']]), i))
        with ThreadPoolExecutor(max_workers=16) as ex:
            results = list(ex.map(work, order))
        done = 0
        for i, res in zip(order, results):
            if res is None:
                continue
            done += 1
            case = allc[i]
            ok, msg, outcome = judge(case, res[0], res[1], case['topo'], res[2])
            if ok == 'known':
                if KNOWN_RR in known:
                    n_known += 1
                    ok = True
                else:
                    ok = False
            k = kinds.setdefault(case['name'], dict(n=0, nontriv=0, outcomes=set(), viol=0, samples=[]))
            k['n'] += 1
            k['outcomes'].add(outcome)
            if case['exp']['kind'] != 'flat':
                k['nontriv'] += 1
            if len(k['samples']) < 2:
                k['samples'].append('%s -> %s' % (descr(case), outcome[:160]))
            if not ok:
                k['viol'] += 1
                if k['viol'] <= 2:
                    rp = ctx.write_replay('%s-%d' % (case['name'], i), dict(engine='seqx', scenario=case['name'], case=case, history=descr(case), message=msg))
                    ctx.violation(rp, '%s: %s' % (descr(case), msg))
        if n_known:
            ctx.known_finding('%s rr:n:p:c specifications accepted by the parser abort in parsec_vpmap_init_from_parameters (assert(0), unfinished stub); every other rr outcome and every other family is judged normally' % KNOWN_RR)
            ctx.notes.append('%d executed rr cases showed the known-finding signature' % n_known)
        exhaustive = done == len(allc)
        for name, k in sorted(kinds.items()):
            ctx.add_leg(name=name, engine='seqx', states=len(k['outcomes']), transitions=k['n'], executions=k['n'], nontrivial=k['nontriv'],
                        distinct_outcomes=len(k['outcomes']), exhaustive=exhaustive and k['viol'] == 0, violations=k['viol'], samples=k['samples'])
        if not exhaustive:
            ctx.notes.append('deadline: %d of %d cases executed' % (done, len(allc)))
    finally:
        shutil.rmtree(tmpdir, ignore_errors=True)
    return ctx.finish(RULE, ["synthetic hwloc topologies (HWLOC_SYNTHETIC): hwloc does not really bind threads, the runtime's own bookkeeping (core_id, vpmap affinities) is what is checked",
                             "single process: map-file lines of other ranks are ignored",
                             "a malformed specification is 'rejected' when the process ends without a signal and either reports an error / no context, or continues with a valid (fallback) map"])


def replay(ctx, path, obj):
    exe = build(ctx)
    case = obj['case']
    tmpdir = tempfile.mkdtemp(prefix='verif-c40-')
    try:
        rc, out, err = run_case(exe, case, tmpdir, 0)
        ok, msg, outcome = judge(case, rc, out, case['topo'], err)
        if ok == 'known':
            print('  KNOWN-FINDING signature (%s): %s' % (KNOWN_RR, msg))
            ok = KNOWN_RR in known_ids()
        print('  %s' % descr(case))
        print('  exit status %d, output: %s' % (rc, out.strip()[:600]))
        print('  -> %s' % outcome)
        if not ok:
            print('  ' + msg)
            print('VIOLATION property=C40 replay=%s' % path)
            return 1
        print('replay: case passes')
        return 0
    finally:
        shutil.rmtree(tmpdir, ignore_errors=True)
