/* Generic driver for PTG-IR programs (E4 / rt engine). Linked with the ptgpp-generated C of ONE program
 * and the expectation table emitted by ptgir.py (ptg_program).
 *
 *   --mode hs    every task-level order (hsched DFS, one execution stream), per variant x start-up pair
 *   --mode free  free-running under a real scheduler module: --sched NAME --threads N --reps R
 *   --mode keys  run once per variant, then check make_key / key_print of every reference instance
 * common: --json F --outdir D --prop ID --backend LABEL --oracle MASK --startup i:c,i:c (0 = default)
 *         --again K (enumerate all AGAIN scripts (0..K)^n for variants with n <= --again-maxinst instances)
 *         --maxdev N --maxruns N --deadline S --limit S (per-run watchdog) --variants a,b,.. --replay FILE
 * Oracle bits: 1 instance multiset + termination (C01), 2 predecessor order, 4 input values, 8 final
 * collection contents (C02), 16 AGAIN invocation counts (C16), 32 keys (C23).
 * Exit: 0 held, 1 violation (VIOLATION line + replay file), 2 harness problem, 4 run exceeded --limit (HANG line).
 */
#define _GNU_SOURCE
#include "hsched.h"
#include "vdc.h"
#include "ptg_exp.h"
#include "parsec/parsec_internal.h"
#include "parsec/mca/mca_repository.h"
#include <pthread.h>
#include <unistd.h>
#include <stdarg.h>
#include <errno.h>

#define MAXI 96
#define OR_COUNT 1
#define OR_PRED 2
#define OR_VAL 4
#define OR_FINAL 8
#define OR_AGAIN 16
#define OR_KEY 32

/* ------------------------------------------------------------------ options */
static const char *o_mode = "hs", *o_json = NULL, *o_outdir = "/verif/out", *o_prop = "C01", *o_backend = "?", *o_sched = "", *o_replay = NULL, *o_exe = "";
static int o_threads = 1, o_reps = 1, o_oracle = 15, o_again = 0, o_again_maxinst = 4, o_maxdev = -1, o_verbose = 0;
static long o_maxruns = 0;
static double o_deadline = 0, o_limit = 20;
static int o_nstart = 0; static long o_start[64][2];
static int o_nvars = 0, o_vars[64];

/* ------------------------------------------------------------------ per-run state */
static const ptg_variant_t *V; static int cur_var;
static int32_t nexec[MAXI], ninvoke[MAXI], done[MAXI], thr[MAXI];
static int64_t t_enter[MAXI], t_exit[MAXI];
static uint64_t keyof[MAXI];
static int again_script[MAXI], again_left[MAXI];
static int64_t stamp;
static int32_t nviol; static char viol_msg[1024];
static int32_t unexpected;
static pthread_mutex_t viol_lock = PTHREAD_MUTEX_INITIALIZER;
static long cur_start[2];
static char cfg_desc[512];
/* watchdog */
static volatile double run_t0 = 0; static volatile int run_active = 0;
static char progress[8192];

/* statistics */
static long st_runs, st_bodies, st_states, st_trans, st_nontrivial, st_threads_used;
#define OSET 8192
static uint64_t oset[OSET]; static int oset_n;
static char samples[6][2048]; static int nsamples;
static parsec_context_t *parsec;

static double now(void) { struct timespec ts; clock_gettime(CLOCK_MONOTONIC, &ts); return ts.tv_sec + ts.tv_nsec * 1e-9; }
static void die(const char *fmt, ...) { va_list ap; va_start(ap, fmt); fprintf(stderr, "ptg_driver: "); vfprintf(stderr, fmt, ap); fprintf(stderr, "\n"); va_end(ap); _exit(2); }

static void violation(const char *fmt, ...)
{
    pthread_mutex_lock(&viol_lock);
    if (nviol == 0) { va_list ap; va_start(ap, fmt); vsnprintf(viol_msg, sizeof(viol_msg), fmt, ap); va_end(ap); }
    nviol++;
    pthread_mutex_unlock(&viol_lock);
}

static int oset_add(uint64_t h)
{
    if (h == 0) h = 1;
    unsigned i = (unsigned)(h * 0x9E3779B97F4A7C15ULL >> 40) % OSET;
    for (int n = 0; n < OSET; n++, i = (i + 1) % OSET) {
        if (oset[i] == h) return 0;
        if (oset[i] == 0) { if (oset_n >= OSET - 64) return 0; oset[i] = h; oset_n++; return 1; }
    }
    return 0;
}

static uint64_t mix(int cls, int np, const int *p, int flow, int nin, const uint64_t *ins)
{
    uint64_t h = 0x9E3779B97F4A7C15ULL * (uint64_t)(cls + 1);
    for (int i = 0; i < np; i++) h = (h ^ (uint64_t)(int64_t)p[i]) * 0x100000001B3ULL;
    h = (h ^ (uint64_t)(flow + 0x51)) * 0x100000001B3ULL;
    for (int i = 0; i < nin; i++) { h = (h ^ ins[i]) * 0x100000001B3ULL; h ^= h >> 29; }
    return h;
}

static int find_inst(int cls, int np, const int *p)
{
    for (int i = 0; i < V->ninst; i++) {
        const ptg_inst_t *I = &V->inst[i];
        if (I->cls != cls || I->np != np) continue;
        int j; for (j = 0; j < np && I->p[j] == p[j]; j++);
        if (j == np) return i;
    }
    return -1;
}

int ptg_body(struct parsec_execution_stream_s *es, parsec_task_t *task, int cls, int np, const int *p, int nl, const int *l, int nf, void **f)
{
    int i = find_inst(cls, np, p);
    if (i < 0) {
        char b[128]; int n = snprintf(b, sizeof(b), "%s(", ptg_program.cls_name[cls]);
        for (int j = 0; j < np; j++) n += snprintf(b + n, sizeof(b) - n, "%s%d", j ? ", " : "", p[j]);
        __atomic_fetch_add(&unexpected, 1, __ATOMIC_SEQ_CST);
        if (o_oracle & OR_COUNT) violation("instance %s) is not in the execution space but its body ran", b);
        return PARSEC_HOOK_RETURN_DONE;
    }
    const ptg_inst_t *I = &V->inst[i];
    __atomic_fetch_add(&ninvoke[i], 1, __ATOMIC_SEQ_CST);
    if (__atomic_load_n(&done[i], __ATOMIC_SEQ_CST) && (o_oracle & (OR_COUNT | OR_AGAIN)))
        violation("body of %s invoked again after it completed", I->name);
    if (again_left[i] > 0) { again_left[i]--; return PARSEC_HOOK_RETURN_AGAIN; }
    int64_t te = __atomic_add_fetch(&stamp, 1, __ATOMIC_SEQ_CST);
    if (__atomic_fetch_add(&nexec[i], 1, __ATOMIC_SEQ_CST) == 0) { t_enter[i] = te; thr[i] = es ? es->th_id : -1; }
    /* all locals must have the reference values (derived locals, local indices) */
    if (o_oracle & OR_COUNT)
        for (int j = 0; j < nl && j < I->nl; j++)
            if (l[j] != I->l[j]) { violation("%s: local #%d has value %d, reference %d", I->name, j, l[j], I->l[j]); break; }
    if (o_oracle & OR_PRED)
        for (int k = 0; k < I->npred; k++) {
            int q = V->preds[I->pred_off + k];
            if (!__atomic_load_n(&done[q], __ATOMIC_SEQ_CST))
                violation("%s started before its predecessor %s completed", I->name, V->inst[q].name);
        }
    uint64_t ins[PTG_MAXF]; int nin = 0;
    for (int k = 0; k < nf; k++) {
        if (I->null_mask & (1u << k)) { if (f[k] != NULL && (o_oracle & OR_VAL)) violation("%s: flow #%d should carry NULL but has data", I->name, k); continue; }
        if (!(I->in_mask & (1u << k))) continue;
        if (f[k] == NULL) { if (o_oracle & OR_VAL) violation("%s: input flow #%d has no data", I->name, k); ins[nin++] = 0; continue; }
        uint64_t v = *(volatile uint64_t *)f[k];
        if (v != I->in_val[k] && (o_oracle & OR_VAL)) violation("%s: input flow #%d holds 0x%llx, reference 0x%llx", I->name, k, (unsigned long long)v, (unsigned long long)I->in_val[k]);
        ins[nin++] = v;
    }
    for (int k = 0; k < nf; k++) {
        if (!(I->out_mask & (1u << k))) continue;
        if (f[k] == NULL) { if (o_oracle & OR_VAL) violation("%s: output flow #%d has no data", I->name, k); continue; }
        *(volatile uint64_t *)f[k] = mix(cls, np, p, k, nin, ins);
    }
    keyof[i] = (uint64_t)(uintptr_t)task->task_class->make_key(task->taskpool, task->locals);
    t_exit[i] = __atomic_add_fetch(&stamp, 1, __ATOMIC_SEQ_CST);
    __atomic_store_n(&done[i], 1, __ATOMIC_SEQ_CST);
    return PARSEC_HOOK_RETURN_DONE;
}

/* ------------------------------------------------------------------ replay files / reporting */
static char replay_path[512];
static int replay_seq = 0;
static void write_replay(const char *kind, const char *msg, const hs_explorer_t *ex)
{
    snprintf(replay_path, sizeof(replay_path), "%s/replay/%s-%s-%s-%s%s-%d-%d.json", o_outdir, o_prop, ptg_program.name, o_backend, o_mode, o_sched, (int)getpid(), replay_seq++);
    FILE *fp = fopen(replay_path, "w"); if (!fp) die("cannot write %s", replay_path);
    fprintf(fp, "{\n \"property\": \"%s\", \"engine\": \"rt\", \"kind\": \"%s\", \"program\": \"%s\", \"backend\": \"%s\", \"exe\": \"%s\",\n", o_prop, kind, ptg_program.name, o_backend, o_exe);
    fprintf(fp, " \"mode\": \"%s\", \"sched\": \"%s\", \"threads\": %d, \"variant\": %d, \"variant_name\": \"%s\", \"startup\": [%ld, %ld], \"oracle\": %d,\n", o_mode, o_sched, o_threads, cur_var, V ? V->name : "", cur_start[0], cur_start[1], o_oracle);
    fprintf(fp, " \"again\": [");
    for (int i = 0; V && i < V->ninst; i++) fprintf(fp, "%s%d", i ? "," : "", again_script[i]);
    fprintf(fp, "],\n \"choices\": [");
    if (ex) for (int i = 0; i < ex->npts; i++) fprintf(fp, "%s%d", i ? "," : "", ex->cho[i]);
    fprintf(fp, "],\n \"order\": \"%s\",\n \"message\": \"", ex ? ex->order : "");
    for (const char *c = msg; *c; c++) { if (*c == '"' || *c == '\\') fputc('\\', fp); if (*c == '\n') fputs("\\n", fp); else fputc(*c, fp); }
    fprintf(fp, "\"\n}\n");
    fclose(fp);
}

static void reset_run(void)
{
    memset(nexec, 0, sizeof(nexec)); memset(ninvoke, 0, sizeof(ninvoke)); memset(done, 0, sizeof(done));
    memset(keyof, 0, sizeof(keyof)); memset(t_enter, 0, sizeof(t_enter)); memset(t_exit, 0, sizeof(t_exit));
    for (int i = 0; i < MAXI; i++) { again_left[i] = again_script[i]; thr[i] = -1; }
    stamp = 0; nviol = 0; viol_msg[0] = 0; unexpected = 0;
}

static vdc_t *colls[8];
static parsec_taskpool_t *tp;
static void build(void)
{
    for (int c = 0; c < ptg_program.ncoll; c++) {
        int n = V->coll_n[c];
        colls[c] = vdc_new(n > 0 ? n : 1, sizeof(uint64_t), 1, 0, NULL);
        for (int e = 0; e < n; e++) *(uint64_t *)vdc_elem(colls[c], e) = V->coll_init[c][e];
    }
    tp = ptg_program.make(colls, V->glob);
}
static void teardown(void)
{
    parsec_taskpool_free(tp); tp = NULL;
    for (int c = 0; c < ptg_program.ncoll; c++) { vdc_free(colls[c]); colls[c] = NULL; }
}

static void describe_missing(char *b, size_t n)
{
    size_t o = 0; b[0] = 0;
    for (int i = 0; i < V->ninst && o + 64 < n; i++)
        if (nexec[i] != 1) o += snprintf(b + o, n - o, "%s%s x%d", o ? ", " : "", V->inst[i].name, nexec[i]);
}

/* oracle evaluated after context_wait returned */
static void post_run_oracle(void)
{
    if (o_oracle & OR_COUNT) {
        for (int i = 0; i < V->ninst; i++)
            if (nexec[i] != 1) { char b[600]; describe_missing(b, sizeof(b)); violation("instance counts differ from the reference (each must run exactly once): %s", b); break; }
    }
    if (o_oracle & OR_AGAIN) {
        for (int i = 0; i < V->ninst; i++)
            if (ninvoke[i] != again_script[i] + 1) { violation("%s: body invoked %d times, script asked for %d AGAIN + 1", V->inst[i].name, ninvoke[i], again_script[i]); break; }
    }
    if (o_oracle & OR_PRED) {
        for (int i = 0; i < V->ninst; i++) for (int k = 0; k < V->inst[i].npred; k++) {
            int q = V->preds[V->inst[i].pred_off + k];
            if (nexec[i] && nexec[q] && !(t_exit[q] < t_enter[i])) violation("%s entered (stamp %ld) before predecessor %s exited (stamp %ld)", V->inst[i].name, (long)t_enter[i], V->inst[q].name, (long)t_exit[q]);
        }
    }
    if (o_oracle & OR_FINAL) {
        for (int c = 0; c < ptg_program.ncoll; c++) for (int e = 0; e < V->coll_n[c]; e++) {
            uint64_t v = *(uint64_t *)vdc_elem(colls[c], e);
            if (v != V->coll_final[c][e]) { violation("final content of collection #%d element %d is 0x%llx, reference 0x%llx", c, e, (unsigned long long)v, (unsigned long long)V->coll_final[c][e]); break; }
        }
    }
    if (o_oracle & OR_KEY) {
        for (int i = 0; i < V->ninst; i++) for (int j = i + 1; j < V->ninst; j++)
            if (V->inst[i].cls == V->inst[j].cls && nexec[i] && nexec[j] && keyof[i] == keyof[j])
                violation("instances %s and %s received the same key 0x%llx", V->inst[i].name, V->inst[j].name, (unsigned long long)keyof[i]);
    }
}

static uint64_t order_hash(char *txt, size_t n)
{
    /* completion order of the bodies (by exit stamp) */
    int ord[MAXI], m = 0;
    for (int i = 0; i < V->ninst; i++) if (nexec[i]) ord[m++] = i;
    for (int a = 1; a < m; a++) { int x = ord[a], b = a; while (b > 0 && t_exit[ord[b - 1]] > t_exit[x]) { ord[b] = ord[b - 1]; b--; } ord[b] = x; }
    uint64_t h = 1469598103934665603ULL; size_t o = 0;
    for (int a = 0; a < m; a++) { h = (h ^ (uint64_t)(ord[a] + 1)) * 1099511628211ULL; if (txt && o + 48 < n) o += snprintf(txt + o, n - o, "%s%s", a ? " " : "", V->inst[ord[a]].name); }
    if (txt && !m) txt[0] = 0;
    return h ^ ((uint64_t)cur_var << 56);
}

static void record_stats(const char *extra)
{
    char txt[1500];
    uint64_t h = order_hash(txt, sizeof(txt));
    int fresh = oset_add(h);
    st_runs++;
    int used = 0; unsigned tm = 0;
    for (int i = 0; i < V->ninst; i++) { st_bodies += ninvoke[i]; if (thr[i] >= 0 && thr[i] < 32) tm |= 1u << thr[i]; }
    for (; tm; tm &= tm - 1) used++;
    if (used > 1) st_threads_used++;
    if (fresh && nsamples < 6 && (nsamples < 2 || (st_runs % 7) == 0)) snprintf(samples[nsamples++], sizeof(samples[0]), "%s %s %s: %s", ptg_program.name, V->name, extra, txt);
}

static int fail_run(const char *kind, const hs_explorer_t *ex)
{
    write_replay(kind, viol_msg, ex);
    printf("VIOLATION property=%s replay=%s\n", o_prop, replay_path);
    printf("  program %s (%s) variant %s %s: %s\n", ptg_program.name, o_backend, V->name, cfg_desc, viol_msg);
    if (ex) printf("  order: %s\n", ex->order);
    fflush(stdout);
    return 1;
}

/* ------------------------------------------------------------------ hsched leg */
static int hs_null_streak = 0;
static hs_explorer_t *the_ex;
static parsec_task_t *my_select(parsec_execution_stream_t *es, int32_t *distance)
{
    parsec_task_t *t = hs_sched_select(es, distance);
    if (t) { hs_null_streak = 0; return t; }
    if (run_active && ++hs_null_streak > 200) {
        /* one stream, no communication thread: nothing can become ready any more */
        char b[600]; describe_missing(b, sizeof(b));
        snprintf(viol_msg, sizeof(viol_msg), "taskpool never terminates: no ready task left but context_wait does not return (instances not run exactly once: %s)", b[0] ? b : "none");
        nviol++;
        fail_run("hang", the_ex);
        fflush(stdout);
        _exit(1);
    }
    return NULL;
}

static void set_startup(long it, long ch)
{
    static long def_it = -1, def_ch = -1;
    if (def_it < 0) { def_it = (long)parsec_task_startup_iter; def_ch = (long)parsec_task_startup_chunk; }
    parsec_task_startup_iter = it > 0 ? (size_t)it : (size_t)def_it;
    parsec_task_startup_chunk = ch > 0 ? (size_t)ch : (size_t)def_ch;
    cur_start[0] = it; cur_start[1] = ch;
}

static void one_run(void)
{
    reset_run();
    build();
    hs_null_streak = 0;
    run_t0 = now(); run_active = 1;
    parsec_context_add_taskpool(parsec, tp);
    parsec_context_start(parsec);
    parsec_context_wait(parsec);
    run_active = 0;
    post_run_oracle();
}

static int next_script(int n, int K)
{
    for (int i = 0; i < n; i++) { if (again_script[i] < K) { again_script[i]++; return 1; } again_script[i] = 0; }
    return 0;
}

static int hs_explore(const unsigned char *prefix, int plen)
{
    hs_explorer_t *ex = (hs_explorer_t *)malloc(sizeof(*ex));
    hs_begin(ex, o_maxdev, 0);
    ex->max_runs = o_maxruns;
    if (o_deadline > 0) ex->deadline = o_deadline;   /* absolute */
    if (prefix) {
        hs_item_t *it = (hs_item_t *)calloc(1, sizeof(hs_item_t) + plen + 1);
        it->len = plen; memcpy(it->ch, prefix, plen);
        free(ex->stack); ex->stack = it; ex->max_runs = 1;
    }
    the_ex = ex;
    int rc = 0;
    while (hs_next(ex)) {
        one_run();
        if (nviol) { rc = fail_run("order", ex); teardown(); break; }
        if (o_verbose || prefix) printf("  order: %s\n", ex->order);
        char extra[64]; snprintf(extra, sizeof(extra), "startup=%ld:%ld", cur_start[0], cur_start[1]);
        /* sample text = the scheduler-level order (includes start-up tasks) for the first runs */
        if (nsamples < 2 && ex->runs < 2) snprintf(samples[nsamples++], sizeof(samples[0]), "%s %s %s order: %s", ptg_program.name, V->name, extra, ex->order);
        record_stats(extra);
        teardown();
        hs_end_run(ex);
    }
    if (rc) { hs_ex = NULL; return rc; }
    st_states += ex->nodes; st_trans += ex->transitions; st_nontrivial += ex->nontrivial;
    int exh = ex->exhaustive;
    free(ex);
    return exh ? 0 : -1;
}

/* ------------------------------------------------------------------ watchdog (free-running leg) */
static void *watchdog(void *arg)
{
    (void)arg;
    for (;;) {
        usleep(50000);
        if (run_active && now() - run_t0 > o_limit) {
            char b[600]; describe_missing(b, sizeof(b));
            snprintf(viol_msg, sizeof(viol_msg), "run did not terminate within %.0f s (instances not run exactly once so far: %s)", o_limit, b[0] ? b : "none");
            write_replay("hang", viol_msg, NULL);
            if (o_replay) {
                printf("VIOLATION property=%s replay=%s\n  program %s (%s) variant %s %s: %s\n", o_prop, o_replay, ptg_program.name, o_backend, V->name, cfg_desc, viol_msg);
                fflush(stdout); _exit(1);
            }
            printf("HANG replay=%s program=%s variant=%s %s\n", replay_path, ptg_program.name, V->name, cfg_desc);
            fflush(stdout); _exit(4);
        }
    }
    return NULL;
}

/* ------------------------------------------------------------------ keys leg */
static int keys_check(void)
{
    /* after a complete run: the taskpool still holds the min/range fields the key functions use */
    const parsec_task_class_t *tc;
    int bad = 0;
    uint64_t k[MAXI];
    for (int i = 0; i < V->ninst && !bad; i++) {
        const ptg_inst_t *I = &V->inst[i];
        tc = tp->task_classes_array[0];
        for (int c = 0; c < (int)tp->nb_task_classes; c++) if (0 == strcmp(tp->task_classes_array[c]->name, ptg_program.cls_name[I->cls])) tc = tp->task_classes_array[c];
        parsec_assignment_t as[MAX_LOCAL_COUNT]; memset(as, 0, sizeof(as));
        for (int j = 0; j < I->nl; j++) as[j].value = I->l[j];
        k[i] = (uint64_t)(uintptr_t)tc->make_key(tp, as);
        if (nexec[i] && k[i] != keyof[i]) { violation("%s: make_key on the reference assignment gives 0x%llx, the running task had 0x%llx", I->name, (unsigned long long)k[i], (unsigned long long)keyof[i]); bad = 1; break; }
        char buf[128]; buf[0] = 0;
        tc->key_functions->key_print(buf, sizeof(buf), (parsec_key_t)(uintptr_t)k[i], tp);
        if (strcmp(buf, I->name) != 0) { violation("key_print of the key of %s gives \"%s\"", I->name, buf); bad = 1; break; }
        for (int j = 0; j < i; j++) if (V->inst[j].cls == I->cls && k[j] == k[i]) { violation("instances %s and %s have the same key 0x%llx", V->inst[j].name, I->name, (unsigned long long)k[i]); bad = 1; break; }
        st_trans++;
    }
    return bad;
}

/* ------------------------------------------------------------------ main */
static void parse_list2(const char *s)
{
    o_nstart = 0;
    while (*s && o_nstart < 64) {
        long a = strtol(s, (char **)&s, 10), b = a;
        if (*s == ':') b = strtol(s + 1, (char **)&s, 10);
        o_start[o_nstart][0] = a; o_start[o_nstart][1] = b; o_nstart++;
        if (*s == ',') s++;
    }
}
static void parse_ints(const char *s, int *out, int *n, int max)
{
    *n = 0;
    while (*s && *n < max) { out[(*n)++] = (int)strtol(s, (char **)&s, 10); if (*s == ',') s++; }
}

/* minimal JSON field readers for replay files (written by write_replay) */
static const char *jfind(const char *js, const char *key) { char k[64]; snprintf(k, sizeof(k), "\"%s\":", key); const char *p = strstr(js, k); return p ? p + strlen(k) : NULL; }
static long jint(const char *js, const char *key, long def) { const char *p = jfind(js, key); return p ? strtol(p, NULL, 10) : def; }
static void jstr(const char *js, const char *key, char *out, size_t n) { const char *p = jfind(js, key); out[0] = 0; if (!p) return; p = strchr(p, '"'); if (!p) return; p++; size_t o = 0; while (*p && *p != '"' && o + 1 < n) out[o++] = *p++; out[o] = 0; }
static int jarr(const char *js, const char *key, int *out, int max) { const char *p = jfind(js, key); int n = 0; if (!p) return 0; p = strchr(p, '['); if (!p) return 0; p++; while (*p && *p != ']' && n < max) { while (*p == ' ' || *p == ',') p++; if (*p == ']') break; out[n++] = (int)strtol(p, (char **)&p, 10); } return n; }

int main(int argc, char **argv)
{
    o_exe = argv[0];
    static char r_mode[16], r_sched[16], r_prop[16], r_backend[32];
    static int r_choices[HS_MAXPTS], r_again[MAXI]; int r_nch = -1, r_nagain = 0, r_variant = -1; long r_start[2] = {0, 0};
    for (int i = 1; i < argc; i++) {
        const char *a = argv[i], *v = i + 1 < argc ? argv[i + 1] : "";
#define OPT(name) (0 == strcmp(a, name) && ++i)
        if (OPT("--mode")) o_mode = v; else if (OPT("--json")) o_json = v; else if (OPT("--outdir")) o_outdir = v;
        else if (OPT("--prop")) o_prop = v; else if (OPT("--backend")) o_backend = v; else if (OPT("--sched")) o_sched = v;
        else if (OPT("--threads")) o_threads = atoi(v); else if (OPT("--reps")) o_reps = atoi(v); else if (OPT("--oracle")) o_oracle = atoi(v);
        else if (OPT("--again")) o_again = atoi(v); else if (OPT("--again-maxinst")) o_again_maxinst = atoi(v);
        else if (OPT("--maxdev")) o_maxdev = atoi(v); else if (OPT("--maxruns")) o_maxruns = atol(v);
        else if (OPT("--deadline")) o_deadline = atof(v); else if (OPT("--limit")) o_limit = atof(v);
        else if (OPT("--startup")) parse_list2(v); else if (OPT("--variants")) parse_ints(v, o_vars, &o_nvars, 64);
        else if (OPT("--replay")) o_replay = v; else if (0 == strcmp(a, "-v")) o_verbose = 1;
        else die("unknown option %s", a);
    }
    if (o_replay) {
        FILE *fp = fopen(o_replay, "r"); if (!fp) die("cannot read %s", o_replay);
        static char js[1 << 16]; size_t n = fread(js, 1, sizeof(js) - 1, fp); js[n] = 0; fclose(fp);
        jstr(js, "mode", r_mode, sizeof(r_mode)); o_mode = r_mode;
        jstr(js, "sched", r_sched, sizeof(r_sched)); o_sched = r_sched;
        jstr(js, "property", r_prop, sizeof(r_prop)); o_prop = r_prop;
        jstr(js, "backend", r_backend, sizeof(r_backend)); o_backend = r_backend;
        o_threads = (int)jint(js, "threads", 1); r_variant = (int)jint(js, "variant", 0); o_oracle = (int)jint(js, "oracle", o_oracle);
        int st[2] = {0, 0}; jarr(js, "startup", st, 2); r_start[0] = st[0]; r_start[1] = st[1];
        r_nagain = jarr(js, "again", r_again, MAXI);
        r_nch = jarr(js, "choices", r_choices, HS_MAXPTS);
        if (o_reps < 50 && 0 == strcmp(o_mode, "free")) o_reps = 50;
    }
    if (o_deadline > 0) o_deadline += now();
    if (o_nstart == 0) { o_start[0][0] = o_start[0][1] = 0; o_nstart = 1; }
    setenv("PARSEC_MCA_bind_threads", "0", 1);
    int hs = (0 == strcmp(o_mode, "hs")), keys = (0 == strcmp(o_mode, "keys"));
    if (!hs && o_sched[0]) setenv("PARSEC_MCA_mca_sched", o_sched, 1);
    int pargc = 1; char *pargv_[2] = { argv[0], NULL }; char **pargv = pargv_;
    parsec = parsec_init(hs ? 1 : o_threads, &pargc, &pargv);
    if (!parsec) die("parsec_init failed");
    char sched_name[64] = "hsched";
    if (hs) { hs_install(parsec); hs_module.module.select = my_select; }
    else {
        const char *nm = parsec_current_scheduler && parsec_current_scheduler->component ? parsec_current_scheduler->component->base_version.mca_component_name : "?";
        snprintf(sched_name, sizeof(sched_name), "%s", nm);
        if (o_sched[0] && strcmp(nm, o_sched)) die("asked for scheduler %s, runtime selected %s", o_sched, nm);
    }
    pthread_t wd; if (!hs) pthread_create(&wd, NULL, watchdog, NULL);

    int rc = 0, exhaustive = 1;
    long configs = 0;
    for (int vi = 0; vi < ptg_program.nvar && rc == 0; vi++) {
        if (o_replay && vi != r_variant) continue;
        if (o_nvars) { int in = 0; for (int k = 0; k < o_nvars; k++) in |= (o_vars[k] == vi); if (!in) continue; }
        V = &ptg_program.var[vi]; cur_var = vi;
        if (V->ninst > MAXI) die("too many instances");
        for (int si = 0; si < o_nstart && rc == 0; si++) {
            if (o_replay) set_startup(r_start[0], r_start[1]); else set_startup(o_start[si][0], o_start[si][1]);
            memset(again_script, 0, sizeof(again_script));
            int use_again = (o_again > 0 && V->ninst <= o_again_maxinst);
            if (o_replay) for (int i = 0; i < r_nagain && i < MAXI; i++) again_script[i] = r_again[i];
            do {
                char sc[200]; int o = 0; sc[0] = 0;
                if (use_again || o_replay) for (int i = 0; i < V->ninst && o + 4 < (int)sizeof(sc); i++) o += snprintf(sc + o, sizeof(sc) - o, "%d", again_script[i]);
                snprintf(cfg_desc, sizeof(cfg_desc), "mode=%s sched=%s threads=%d startup=%ld:%ld again=%s", o_mode, sched_name, hs ? 1 : o_threads, cur_start[0], cur_start[1], sc[0] ? sc : "-");
                configs++;
                if (hs) {
                    unsigned char pre[HS_MAXPTS]; for (int i = 0; i < r_nch; i++) pre[i] = (unsigned char)r_choices[i];
                    int r = hs_explore(o_replay ? pre : NULL, r_nch > 0 ? r_nch : 0);
                    if (r > 0) rc = 1; else if (r < 0) exhaustive = 0;
                } else {
                    for (int rep = 0; rep < o_reps && rc == 0; rep++) {
                        one_run();
                        if (keys && !nviol) keys_check();
                        if (nviol) { rc = fail_run(keys ? "keys" : "free", NULL); teardown(); break; }
                        char extra[128]; snprintf(extra, sizeof(extra), "sched=%s threads=%d startup=%ld:%ld again=%s completion order", sched_name, o_threads, cur_start[0], cur_start[1], sc[0] ? sc : "-");
                        record_stats(extra);
                        st_states++; for (int i = 0; i < V->ninst; i++) st_trans += ninvoke[i];
                        teardown();
                    }
                }
                if (o_deadline > 0 && now() > o_deadline) { exhaustive = 0; break; }
            } while (rc == 0 && !o_replay && use_again && next_script(V->ninst, o_again));
            if (o_replay) break;
        }
    }
    if (hs) hs_uninstall(parsec);
    run_active = 0;
    if (o_json) {
        FILE *fp = fopen(o_json, "w"); if (!fp) die("cannot write %s", o_json);
        fprintf(fp, "{\"engine\":\"rt\",\"program\":\"%s\",\"backend\":\"%s\",\"mode\":\"%s\",\"sched\":\"%s\",\"threads\":%d,\"configs\":%ld,\"multi_thread_runs\":%ld,\n", ptg_program.name, o_backend, o_mode, sched_name, hs ? 1 : o_threads, configs, st_threads_used);
        fprintf(fp, " \"outcome_hashes\":[");
        int first = 1; for (int i = 0, m = 0; i < OSET && m < 2048; i++) if (oset[i]) { fprintf(fp, "%s\"%llx\"", first ? "" : ",", (unsigned long long)oset[i]); first = 0; m++; }
        fprintf(fp, "],\n \"scenarios\":[{\"name\":\"%s/%s/%s%s%s\",\"states\":%ld,\"transitions\":%ld,\"executions\":%ld,\"nontrivial\":%ld,\"distinct_outcomes\":%d,\"exhaustive\":%s,\"violations\":%d,\"samples\":[",
                ptg_program.name, o_backend, o_mode, hs ? "" : "-", hs ? "" : sched_name, st_states, st_trans, st_runs, hs ? st_nontrivial : st_threads_used, oset_n, exhaustive ? "true" : "false", rc ? 1 : 0);
        for (int i = 0; i < nsamples; i++) fprintf(fp, "%s\"%s\"", i ? "," : "", samples[i]);
        fprintf(fp, "]}]}\n");
        fclose(fp);
    }
    if (o_replay && rc == 0) printf("replay: no violation (%ld runs)\n", st_runs);
    fflush(stdout);
    if (rc) _exit(1);   /* do not run parsec_fini on a possibly inconsistent runtime */
    parsec_fini(&parsec);
    return 0;
}
