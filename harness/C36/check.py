META = dict(
    engine='seqx',
    technique='explicit-state model checking: BFS to closure over all reachable trees (shape+colour+keys) of the real parsec_rbtree.c driven by insert/remove/update over keys 1..7, invariant + reference-set oracle in every state',
    level_text='All reachable red-black trees over the key universe 1..7 are enumerated (closure of insert/remove/update_node on the real implementation); in every state the BST order, colour rules, black height, parent links and the answers of find / find_or_larger for every query are checked against a reference set.',
    level_note='Key universe bounded to 7 keys (trees up to height 4-5); element objects are reused across histories, so a state is the canonical (shape, colour, key) string.',
)
RULE = "BFS over operation histories on the real tree, deduplicated by canonical (shape,colour,key) encoding; a state is non-trivial when its shortest history has >= 2 operations; every transition re-checks all invariants and 18 lookups"
def build(ctx, nk=7):
    return ctx.compile('hk-shm', 'rbtree%d' % nk, ['rbtree_h.c'], instr=False, cflags=['-DNK=%d' % nk])
def check(ctx):
    for nk in ([5, 7] if ctx.tier == 'quick' else [7, 9, 10, 11]):
        ctx.run_engine(build(ctx, nk), ['--outdir', '/verif/out', '--deadline', '900'], label='rbtree%d' % nk, timeout=1500)
    return ctx.finish(RULE, ["sequential use (the tree is only used under the zone allocator's lock)"])
def replay(ctx, path, obj):
    import subprocess
    import re
    nk = int(re.search(r'rbtree_keys_1_(\d+)', obj['scenario']).group(1))
    return subprocess.call([build(ctx, nk), '--replay', path])
