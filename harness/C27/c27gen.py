"""C27: bounded-exhaustive families of concurrent allocate/release scripts over one arena resp. one mempool
(see NOTES.md "Generated families").  A script is TEXT (= cosched scenario name = what the replay file stores), parsed and
contract-checked again by arena_conc.c:
    g_ar_u<U>c<C>h<H>p<P>_<T0>_<T1>[_<T2>]      arena,   letters a A r R
    g_mp_p<N>_<T0>_<T1>                         mempool, letters a f s w
"""
import itertools

# arena pre-states: allocation limit U (2 elements | I = none), cache limit C (0 | 1 | I), H blocks held by somebody else,
# P blocks already in the cache.  Chosen so that the threads' operations meet AT the limits (1 element left, 1 cache slot left,
# a cached block to fight for), simplest first
AR_PRE = ['u2c1h0p0', 'u2c1h1p0', 'u2c1h0p1', 'u2c1h1p1', 'u2c0h0p0', 'u2c0h1p0', 'u2cIh0p0', 'u2cIh1p0', 'u2cIh0p1', 'uIc1h0p0', 'uIc1h0p1']
AR_PRE_CORE = ['u2c1h0p0', 'u2c1h1p0', 'u2c1h0p1', 'u2c0h1p0', 'u2cIh0p1', 'uIc1h0p1']
MP_PRE = ['p0', 'p1', 'p2']


def ar_seqs(maxlen, minlen=1):
    """sequences over a (allocate 1) A (allocate 2) r (release my oldest block) R (release my newest block).
    contract: a release needs a block the thread can hold by then; duplicate filter: R is the same operation as r unless the thread
    can hold two blocks by then (those R are not generated)"""
    gen, ok = 0, []
    for n in range(minlen, maxlen + 1):
        for seq in itertools.product('aArR', repeat=n):
            gen += 1
            held, good = 0, True
            for c in seq:
                if c in 'aA':
                    held += 1
                else:
                    if held < 1 or (c == 'R' and held < 2):
                        good = False; break
                    held -= 1
            if good:
                ok.append(''.join(seq))
    return gen, ok


def arena_family(shape, pre=AR_PRE, exact=()):
    """pre-state x T0 || T1 (|| T2), thread t has 1..shape[t] operations (exactly shape[t] for t in exact); the threads are
    interchangeable (same arena, same code): a tuple is kept in one order only among threads with the same bounds"""
    per, gen_total = [], 1
    for t, a in enumerate(shape):
        g, ok = ar_seqs(a, a if t in exact else 1)
        per.append(ok); gen_total *= g
    counts = dict(generated=gen_total * len(pre), after_contract=0, after_symmetry=0)
    out = []
    for combo in itertools.product(*per):
        counts['after_contract'] += len(pre)
        if any(shape[i] == shape[j] and ((i in exact) == (j in exact)) and combo[i] > combo[j] for i in range(len(shape)) for j in range(i + 1, len(shape))):
            continue
        for k, p in enumerate(pre):
            counts['after_symmetry'] += 1
            out.append((sum(len(s) for s in combo), combo, k, p))
    out.sort(key=lambda x: x[0])
    return counts, ['g_ar_%s_%s' % (p, '_'.join(combo)) for _, combo, _, p in out], 'a A r R'


def mp_deadlock_free(s0, s1):
    """operation-level exploration of the hand-over protocol of the HARNESS (s blocks while the other thread's mailbox is full, w blocks
    while mine is empty): a script is kept only if no interleaving blocks for ever"""
    scr = (s0, s1)
    seen, stack = set(), [(0, 0, False, False)]
    while stack:
        st = stack.pop()
        if st in seen:
            continue
        seen.add(st)
        i, full = [st[0], st[1]], [st[2], st[3]]
        moved = False
        for t in (0, 1):
            if i[t] >= len(scr[t]):
                continue
            c = scr[t][i[t]]
            if c == 's' and full[1 - t]:
                continue
            if c == 'w' and not full[t]:
                continue
            ni, nf = list(i), list(full)
            ni[t] += 1
            if c == 's':
                nf[1 - t] = True
            if c == 'w':
                nf[t] = False
            stack.append((ni[0], ni[1], nf[0], nf[1])); moved = True
        if not moved and (i[0] < len(s0) or i[1] < len(s1)):
            return False
    return True


def mp_seqs(maxlen, minlen=1):
    gen, ok = 0, []
    for n in range(minlen, maxlen + 1):
        for seq in itertools.product('afsw', repeat=n):
            gen += 1
            held, good = 0, True
            for c in seq:
                if c == 'a':
                    held += 1
                elif c in 'fs':
                    if held < 1:
                        good = False; break
                    held -= 1
            if good:
                ok.append(''.join(seq))
    return gen, ok


def mempool_family(shape, pre=MP_PRE, exact=()):
    """pre-population x T0 || T1 over a (allocate from my pool) f (free my oldest) s (hand my oldest to the other thread) w (take the
    element handed to me and free it: it goes back to the OTHER thread's pool, the only path on which two threads touch one pool).
    contract: f/s need an element; every w has its s in the other thread; the s/w order cannot deadlock.
    relevance: at least one hand-over (without one the two threads never touch the same pool).
    symmetry: without pre-population the threads are interchangeable."""
    per, gen_total = [], 1
    for t, a in enumerate(shape):
        g, ok = mp_seqs(a, a if t in exact else 1)
        per.append(ok); gen_total *= g
    counts = dict(generated=gen_total * len(pre), after_contract=0, after_relevance=0, after_symmetry=0)
    out = []
    for s0, s1 in itertools.product(*per):
        if s0.count('s') != s1.count('w') or s1.count('s') != s0.count('w') or not mp_deadlock_free(s0, s1):
            continue
        counts['after_contract'] += len(pre)
        if 's' not in s0 + s1:
            continue
        counts['after_relevance'] += len(pre)
        for p in pre:
            if p == 'p0' and shape[0] == shape[1] and ((0 in exact) == (1 in exact)) and s0 > s1:
                continue
            counts['after_symmetry'] += 1
            out.append((len(s0) + len(s1), (s0, s1), p))
    out.sort(key=lambda x: x[0])
    return counts, ['g_mp_%s_%s_%s' % (p, c[0], c[1]) for _, c, p in out], 'a f s w'


def family(kind, shape, pre=None, exact=()):
    if kind == 'ar':
        return arena_family(shape, pre or AR_PRE, exact)
    return mempool_family(shape, pre or MP_PRE, exact)


def describe(name):
    parts = name.split('_')
    if parts[1] == 'ar':
        p = parts[2]
        lim = {'2': '2 elements', 'I': 'none'}[p[1]]; cache = {'0': '0 blocks', '1': '1 block', 'I': 'none'}[p[3]]
        ops = dict(a='allocate(1 element)', A='allocate(2 elements)', r='release(my oldest block)', R='release(my newest block)')
        return dict(object='arena, element 40 bytes, alignment 16; allocation limit %s, cache limit %s' % (lim, cache),
                    prestate='%s block(s) held by somebody else until the end, %s block(s) in the cache' % (p[5], p[7]),
                    threads=['T%d: %s' % (t, '; '.join(ops[c] for c in th)) for t, th in enumerate(parts[3:])])
    ops = dict(a='allocate from my pool', f='free my oldest element', s='hand my oldest element to the other thread', w='take the element handed to me and free it (returns to the allocating thread\'s pool)')
    return dict(object='mempool with two thread pools', prestate='%s element(s) allocated and freed through pool 0 before the start' % parts[2][1],
                threads=['T%d: %s' % (t, '; '.join(ops[c] for c in th)) for t, th in enumerate(parts[3:])])


if __name__ == '__main__':
    for kind, shape, ex in (('ar', (1, 1), ()), ('ar', (2, 1), (0,)), ('ar', (2, 2), (0, 1)), ('ar', (3, 2), (0,)), ('ar', (3, 3), (0, 1)), ('ar', (1, 1, 1), ()), ('ar', (2, 2, 2), ()),
                            ('mp', (2, 1), ()), ('mp', (2, 2), ()), ('mp', (3, 2), ()), ('mp', (3, 3), ()), ('mp', (4, 3), ())):
        c, n, a = family(kind, shape, None, ex)
        print(kind, shape, ex, c, n[:3], n[-1:])
