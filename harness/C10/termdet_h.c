/* C10: local termination detection is exact (E1/cosched on the real module).
 *
 * The code under test is parsec/mca/termdet/local/termdet_local_module.c, reached only through the exported
 * table parsec_termdet_local_module.module (monitor_taskpool, taskpool_ready, taskpool_state, addto_*, set_*).
 * The taskpool is a real parsec_taskpool_t object (constructed by its class constructor).
 *
 * Threads follow the module's usage contract ("token discipline"): work (a unit of nb_tasks or a pending
 * action) may only be added by a thread that itself holds a unit, or while the taskpool has not been declared
 * ready (the not-yet-ready state counts as one token held by the thread that will call ready()).
 * set_* functions are only used by a thread that owns every unit of the counter it sets.
 * Tokens are handed from thread to thread through harness mailboxes (not watched, so a hand-off is atomic).
 */
#include "parsec/parsec_config.h"
#include "parsec/parsec_internal.h"
#include "parsec/mca/termdet/termdet.h"
#include "parsec/mca/termdet/local/termdet_local.h"
#include "cosched.h"
#include <stdio.h>
#include <string.h>
#include <stdlib.h>

enum { O_END = 0, O_READY, O_ADD_TASKS, O_SET_TASKS, O_DONE_TASK, O_SET_TASKS0, O_TAKE_TASK,
       O_ADD_ACTIONS, O_SET_ACTIONS, O_DONE_ACTION, O_SET_ACTIONS0, O_TAKE_ACTION, O_POLL, O_SET_ABS };
static const char *onm[] = { "end", "ready", "add_tasks", "set_tasks", "done_task", "set_tasks0", "take_task",
                             "add_actions", "set_actions", "done_action", "set_actions0", "take_action", "poll", "set_tasks_abs" };
typedef struct { int op, n, post; } step_t;           /* post: 1 = the new units go to the mailbox, 0 = kept by the caller */
#define MAXSTEPS 8
typedef struct {
    const char *name;
    int ready_at_start;                 /* 1: ready() is called sequentially before the threads start */
    int init_tasks[3], init_actions[3]; /* units held by each thread at start (created sequentially through the module) */
    int nthreads;
    step_t script[3][MAXSTEPS];
    /* "racy set" scenarios (the quantifier of C10 includes concurrent add/SET operations): one thread calls the absolute
     * set_nb_tasks(n) while another thread's relative updates move nb_tasks across zero; every thread keeps a pending action
     * until the sequential epilogue, so no termination may be reported while the threads run.  The task count left after the
     * race depends on the linearisation order: it must be one of allowed[0..nallowed) (atomicity of the update itself); the
     * epilogue then completes that many tasks and releases the actions one by one: termination exactly once, at the very end. */
    int nallowed, allowed[4];
} scen_t;

static const parsec_termdet_base_module_t *M;
static parsec_taskpool_t *tp;
static const scen_t *S;
/* ground truth kept by the harness (threads are serialised; these are not watched => no scheduling points) */
static int outstanding;                 /* tokens currently held by anybody, including the not-yet-ready token */
static int ready_started, ready_returned;
static int cb_count, cb_running, cb_done, cb_thread, cb_step;
static int held_tasks[3], held_actions[3], mbox_tasks, mbox_actions;
static int cur_step[3];
static int zero_release;                /* object reference count hit zero (see NOTES: side observation) */
static int retained_at_cb;
static int terminated_seen;
static char polls[64]; static int npolls;
static char rets[3][48]; static int nrets[3];   /* values returned by the counter updates, per thread (part of the outcome) */
#define RET(v) do { int v_ = (v); if (nrets[me] < 40) nrets[me] += snprintf(rets[me] + nrets[me], 47 - nrets[me], "%d,", v_); } while (0)
static int op_pre_ready[3];             /* the operation thread t is executing was entered before ready() was entered */

static void my_release(parsec_object_t *o) { (void)o; zero_release++; }

static void the_callback(parsec_taskpool_t *t)
{
    int me = cs_self();
    cb_count++;
    CS_CHECK(t == tp, "callback on a foreign taskpool");
    CS_CHECK(cb_count == 1, "termination callback invoked %d times (second call by T%d at its step %d '%s'; first by T%d step %d)",
             cb_count, me, me >= 0 ? cur_step[me] : -1, me >= 0 ? onm[S->script[me][cur_step[me]].op] : "init", cb_thread, cb_step);
    CS_CHECK(ready_started, "termination reported (callback) before the taskpool was declared ready");
    CS_CHECK(outstanding == 0, "termination reported (callback by T%d in its '%s', entered %s ready()) while %d unit(s) of work are still held (nb_tasks=%d nb_pending_actions=%d)",
             me, me >= 0 ? onm[S->script[me][cur_step[me]].op] : "?", (me >= 0 && op_pre_ready[me]) ? "before" : "after", outstanding, tp->nb_tasks, tp->nb_pending_actions);
    CS_CHECK(tp->nb_tasks == 0 && tp->nb_pending_actions == 0, "termination reported with non-zero counters nb_tasks=%d nb_pending_actions=%d",
             tp->nb_tasks, tp->nb_pending_actions);
    cb_thread = me; cb_step = me >= 0 ? cur_step[me] : -1;
    retained_at_cb = ready_returned ? 1 : (tp->super.super.obj_reference_count > 1);
    cb_running = 1;
    cs_point_here();                    /* let the other threads (the poller!) run while the callback is in progress */
    cb_running = 0; cb_done = 1;
}

static void poll_state(int me)
{
    parsec_termdet_taskpool_state_t s = M->taskpool_state(tp);
    char c = s == PARSEC_TERM_TP_TERMINATED ? 'T' : s == PARSEC_TERM_TP_BUSY ? 'B' : s == PARSEC_TERM_TP_NOT_READY ? 'N' : '?';
    if (npolls < 60) polls[npolls++] = c;
    CS_CHECK(c != '?', "taskpool_state returned %d", (int)s);
    if (c == 'T') {
        CS_CHECK(cb_done, "taskpool_state returned TERMINATED (poll by T%d) %s", me, cb_running ? "while the termination callback is still running" : "before the termination callback ran");
        CS_CHECK(outstanding == 0, "taskpool_state returned TERMINATED while %d unit(s) of work are held", outstanding);
        terminated_seen = 1;
    } else {
        CS_CHECK(!terminated_seen, "taskpool_state went back from TERMINATED to %c", c);
        if (c == 'N') CS_CHECK(!ready_returned, "taskpool_state returned NOT_READY after ready() returned");
    }
}

static void body(void *arg)
{
    int me = (int)(intptr_t)arg;
    for (int i = 0; S->script[me][i].op != O_END; i++) {
        const step_t *st = &S->script[me][i];
        cur_step[me] = i; op_pre_ready[me] = !ready_started;
        int holds = held_tasks[me] + held_actions[me] + ((!ready_started) ? 1 : 0);
        switch (st->op) {
        case O_READY:
            CS_CHECK(!ready_started, "harness: ready twice");
            ready_started = 1; outstanding--;          /* the not-yet-ready token is given up when ready() is entered */
            M->taskpool_ready(tp);
            ready_returned = 1;
            break;
        case O_ADD_TASKS: case O_SET_TASKS:
            CS_CHECK(holds > 0, "harness: script of T%d adds work without holding a token", me);
            outstanding += st->n;
            if (st->op == O_ADD_TASKS) RET(M->taskpool_addto_nb_tasks(tp, st->n)); else RET(M->taskpool_set_nb_tasks(tp, st->n));
            if (st->post) { mbox_tasks += st->n; cs_point_here(); } else held_tasks[me] += st->n;
            break;
        case O_DONE_TASK:
            CS_CHECK(held_tasks[me] > 0, "harness: T%d completes a task it does not hold", me);
            held_tasks[me]--; outstanding--;
            RET(M->taskpool_addto_nb_tasks(tp, -1));
            break;
        case O_SET_TASKS0:
            outstanding -= held_tasks[me]; held_tasks[me] = 0;
            RET(M->taskpool_set_nb_tasks(tp, 0));
            break;
        case O_TAKE_TASK:
            while (mbox_tasks == 0) cs_wait();
            mbox_tasks--; held_tasks[me]++;
            break;
        case O_ADD_ACTIONS: case O_SET_ACTIONS:
            CS_CHECK(holds > 0, "harness: script of T%d adds an action without holding a token", me);
            outstanding += st->n;
            if (st->op == O_ADD_ACTIONS) RET(M->taskpool_addto_runtime_actions(tp, st->n)); else RET(M->taskpool_set_runtime_actions(tp, st->n));
            if (st->post) { mbox_actions += st->n; cs_point_here(); } else held_actions[me] += st->n;
            break;
        case O_DONE_ACTION:
            CS_CHECK(held_actions[me] > 0, "harness: T%d releases an action it does not hold", me);
            held_actions[me]--; outstanding--;
            RET(M->taskpool_addto_runtime_actions(tp, -1));
            break;
        case O_SET_ACTIONS0:
            outstanding -= held_actions[me]; held_actions[me] = 0;
            RET(M->taskpool_set_runtime_actions(tp, 0));
            break;
        case O_TAKE_ACTION:
            while (mbox_actions == 0) cs_wait();
            mbox_actions--; held_actions[me]++;
            break;
        case O_POLL:
            poll_state(me);
            break;
        case O_SET_ABS:
            CS_CHECK(S->nallowed > 0 && held_actions[me] > 0, "harness: set_tasks_abs outside a racy-set scenario / without holding an action");
            RET(M->taskpool_set_nb_tasks(tp, st->n));      /* ground truth is reconciled in the epilogue */
            break;
        }
    }
    cur_step[me] = -1;
}

static void run_scen(const scen_t *s)
{
    S = s; M = &parsec_termdet_local_module.module;
    outstanding = 1; ready_started = ready_returned = 0;
    cb_count = cb_running = cb_done = 0; cb_thread = -9; cb_step = -9; zero_release = 0; retained_at_cb = 1; terminated_seen = 0; npolls = 0;
    mbox_tasks = mbox_actions = 0; memset(rets, 0, sizeof(rets)); memset(nrets, 0, sizeof(nrets)); memset(op_pre_ready, 0, sizeof(op_pre_ready));
    memset(held_tasks, 0, sizeof(held_tasks)); memset(held_actions, 0, sizeof(held_actions)); memset(cur_step, 0, sizeof(cur_step));
    tp = calloc(1, sizeof(parsec_taskpool_t));
    PARSEC_OBJ_CONSTRUCT_WRELEASE(tp, parsec_taskpool_t, my_release);      /* reference count 1 = the user's reference */
    tp->tdm.module = M;
    M->monitor_taskpool(tp, the_callback);
    CS_CHECK(M->taskpool_state(tp) == PARSEC_TERM_TP_NOT_READY, "fresh monitor is not NOT_READY");
    /* initial units, created through the module while not ready (as the DSLs do) */
    for (int t = 0; t < s->nthreads; t++) {
        if (s->init_actions[t]) { M->taskpool_addto_runtime_actions(tp, s->init_actions[t]); held_actions[t] = s->init_actions[t]; outstanding += s->init_actions[t]; }
        if (s->init_tasks[t]) { M->taskpool_addto_nb_tasks(tp, s->init_tasks[t]); held_tasks[t] = s->init_tasks[t]; outstanding += s->init_tasks[t]; }
    }
    if (s->ready_at_start) {
        CS_CHECK(outstanding > 1, "harness: ready_at_start without initial work");
        ready_started = 1; outstanding--; M->taskpool_ready(tp); ready_returned = 1;
    }
    CS_CHECK(cb_count == 0, "callback during sequential set-up");
    cs_watch(&tp->nb_tasks, sizeof(tp->nb_tasks), "nb_tasks");
    cs_watch(&tp->nb_pending_actions, sizeof(tp->nb_pending_actions), "nb_pending_actions");
    cs_watch(&tp->tdm.monitor, sizeof(tp->tdm.monitor), "tdm.monitor");
#ifdef C10_REFCOUNT_STRICT
    cs_watch(&tp->super.super.obj_reference_count, sizeof(tp->super.super.obj_reference_count), "obj_reference_count");
#endif
    cs_body_t b[3] = { body, body, body }; void *a[3] = { (void *)0, (void *)1, (void *)2 };
    cs_run(s->nthreads, b, a);
    if (s->nallowed) {
        /* sequential epilogue of a racy-set scenario */
        CS_CHECK(cb_count == 0, "harness: callback during a racy-set run went unnoticed");
        int n = tp->nb_tasks, ok = 0, acts = 0;
        for (int k = 0; k < s->nallowed; k++) if (n == s->allowed[k]) ok = 1;
        for (int t = 0; t < s->nthreads; t++) acts += held_actions[t];
        CS_CHECK(ok, "after set_nb_tasks raced with relative updates nb_tasks is %d, which no order of the (atomic) operations produces (nb_pending_actions=%d)", n, tp->nb_pending_actions);
        outstanding = n + acts; memset(held_tasks, 0, sizeof(held_tasks));
        cs_observe("left=%d ", n);
        for (int k = 0; k < n; k++) { outstanding--; M->taskpool_addto_nb_tasks(tp, -1); }
        for (int t = 0; t < s->nthreads; t++) while (held_actions[t] > 0) { held_actions[t]--; outstanding--; M->taskpool_addto_runtime_actions(tp, -1); }
    }
    /* end of the execution: every token has been given back and ready() was called */
    CS_CHECK(outstanding == 0 && ready_returned, "harness: script did not return all tokens (outstanding=%d)", outstanding);
    CS_CHECK(cb_count == 1, "all work is done and the taskpool is ready but termination was %s (monitor=%p nb_tasks=%d nb_pending_actions=%d)",
             cb_count == 0 ? "never reported" : "reported more than once", tp->tdm.monitor, tp->nb_tasks, tp->nb_pending_actions);
    CS_CHECK(M->taskpool_state(tp) == PARSEC_TERM_TP_TERMINATED, "callback ran but the final state is %d, not TERMINATED", (int)M->taskpool_state(tp));
    CS_CHECK(tp->nb_tasks == 0 && tp->nb_pending_actions == 0, "final counters non-zero: nb_tasks=%d nb_pending_actions=%d", tp->nb_tasks, tp->nb_pending_actions);
#ifdef C10_REFCOUNT_STRICT   /* development aid: turn the side observation of NOTES.md into a failure to obtain a schedule */
    CS_CHECK(!zero_release, "observation: the taskpool reference count reached 0 (release by the detecting thread before the retain of ready())");
#endif
    polls[npolls] = 0;
    cs_observe("cb@T%d.%d(%s) polls=%s ret=[%s|%s|%s]%s%s", cb_thread, cb_step, cb_thread >= 0 ? onm[s->script[cb_thread][cb_step].op] : "-", polls,
               rets[0], rets[1], rets[2], retained_at_cb ? "" : " cb-before-retain", zero_release ? " REFCOUNT-HIT-ZERO" : "");
    M->unmonitor_taskpool(tp);
}

#define E {O_END,0,0}
/* LEG 1: scripts inside the strict token discipline of DESIGN.md (work is added only by a thread that holds a unit).
 * LEG 2: scripts that add work while the taskpool is not yet ready without holding a unit (what DTD does), or that use
 *        set_runtime_actions to create units before ready (what compound taskpools do). */
#ifndef LEG
#define LEG 1
#endif
static const scen_t scen[] = {
#if LEG == 1
    /* DESIGN script: startup thread holds an action, declares ready, adds two tasks, releases; workers take/spawn/complete */
    { "ptg_startup_spawn", 0, {0,0,0}, {1,0,0}, 3, {
        { {O_READY,0,0}, {O_ADD_TASKS,2,1}, {O_DONE_ACTION,0,0}, E },
        { {O_TAKE_TASK,0,0}, {O_ADD_TASKS,1,0}, {O_DONE_TASK,0,0}, {O_DONE_TASK,0,0}, E },
        { {O_TAKE_TASK,0,0}, {O_DONE_TASK,0,0}, E } } },
    /* PTG order: tasks are added first (holding an action), then ready(), then the action is released, workers complete meanwhile */
    { "ptg_add_then_ready", 0, {0,0,0}, {1,0,0}, 3, {
        { {O_ADD_TASKS,2,1}, {O_READY,0,0}, {O_DONE_ACTION,0,0}, E },
        { {O_TAKE_TASK,0,0}, {O_DONE_TASK,0,0}, E },
        { {O_TAKE_TASK,0,0}, {O_DONE_TASK,0,0}, E } } },
    /* ready taskpool, one thread keeps an action and feeds tasks one by one: nb_tasks and the pending-action
     * count cross zero repeatedly while BUSY */
    { "busy_zero_crossings", 1, {0,0,0}, {1,0,0}, 3, {
        { {O_ADD_TASKS,1,1}, {O_ADD_TASKS,1,1}, {O_DONE_ACTION,0,0}, E },
        { {O_TAKE_TASK,0,0}, {O_DONE_TASK,0,0}, E },
        { {O_TAKE_TASK,0,0}, {O_DONE_TASK,0,0}, E } } },
    /* two-thread version of the above (the only zero-crossing script of the quick tier) */
    { "busy_zero_crossings_2t", 1, {0,0,0}, {1,0,0}, 2, {
        { {O_ADD_TASKS,1,1}, {O_ADD_TASKS,1,1}, {O_DONE_ACTION,0,0}, E },
        { {O_TAKE_TASK,0,0}, {O_DONE_TASK,0,0}, {O_TAKE_TASK,0,0}, {O_DONE_TASK,0,0}, E },
        { E } } },
    /* ready() races with the last task completion, a third thread polls the state */
    { "ready_vs_last_task_polled", 0, {0,1,0}, {0,0,0}, 3, {
        { {O_READY,0,0}, E },
        { {O_DONE_TASK,0,0}, E },
        { {O_POLL,0,0}, {O_POLL,0,0}, {O_POLL,0,0}, E } } },
    /* ready() races with the release of the last pending action and of the last task */
    { "ready_vs_last_action_and_task", 0, {0,0,1}, {0,1,0}, 3, {
        { {O_READY,0,0}, {O_POLL,0,0}, E },
        { {O_DONE_ACTION,0,0}, {O_POLL,0,0}, E },
        { {O_DONE_TASK,0,0}, E } } },
    /* set_nb_tasks by the owner of all tasks (0 -> 1 -> 0) who keeps an action until after ready(); another action is released concurrently */
    { "set_nb_tasks_holding_action", 0, {0,0,0}, {1,1,0}, 3, {
        { {O_SET_TASKS,1,0}, {O_READY,0,0}, {O_DONE_ACTION,0,0}, {O_SET_TASKS0,0,0}, E },
        { {O_DONE_ACTION,0,0}, E },
        { {O_POLL,0,0}, {O_POLL,0,0}, E } } },
    /* pending actions fan out after ready: the holder creates two more, hands them over, releases its own */
    { "actions_fanout", 0, {0,0,0}, {1,0,0}, 3, {
        { {O_READY,0,0}, {O_ADD_ACTIONS,2,1}, {O_DONE_ACTION,0,0}, E },
        { {O_TAKE_ACTION,0,0}, {O_DONE_ACTION,0,0}, E },
        { {O_TAKE_ACTION,0,0}, {O_DONE_ACTION,0,0}, E } } },
    /* the sole owner drops all actions with set_runtime_actions(0) while ready() runs in another thread */
    { "set_runtime_actions0_vs_ready", 0, {0,0,0}, {0,2,0}, 3, {
        { {O_READY,0,0}, E },
        { {O_SET_ACTIONS0,0,0}, E },
        { {O_POLL,0,0}, {O_POLL,0,0}, {O_POLL,0,0}, E } } },
    /* two-thread versions (no poller) of set_nb_tasks_holding_action and task_to_action for the quick tier */
    { "set_nb_tasks_2t", 0, {0,0,0}, {1,1,0}, 2, {
        { {O_SET_TASKS,1,0}, {O_READY,0,0}, {O_DONE_ACTION,0,0}, {O_SET_TASKS0,0,0}, E },
        { {O_DONE_ACTION,0,0}, {O_POLL,0,0}, E },
        { E } } },
    { "task_to_action_2t", 1, {1,1,0}, {0,0,0}, 2, {
        { {O_ADD_ACTIONS,1,0}, {O_DONE_TASK,0,0}, {O_DONE_ACTION,0,0}, E },
        { {O_ADD_ACTIONS,1,0}, {O_DONE_TASK,0,0}, {O_DONE_ACTION,0,0}, {O_POLL,0,0}, E },
        { E } } },
    /* tasks spawn tasks: two workers each spawn a child and complete, counts 2 -> 4 -> 0, two threads race for the last decrement */
    { "spawn_tree_2workers", 1, {1,1,0}, {0,0,0}, 2, {
        { {O_ADD_TASKS,1,0}, {O_DONE_TASK,0,0}, {O_DONE_TASK,0,0}, E },
        { {O_ADD_TASKS,1,0}, {O_DONE_TASK,0,0}, {O_DONE_TASK,0,0}, E },
        { E } } },
    /* a task turns into a pending action (communication) before completing: both counters move in both threads */
    { "task_to_action", 1, {1,1,0}, {0,0,0}, 3, {
        { {O_ADD_ACTIONS,1,0}, {O_DONE_TASK,0,0}, {O_DONE_ACTION,0,0}, E },
        { {O_ADD_ACTIONS,1,0}, {O_DONE_TASK,0,0}, {O_DONE_ACTION,0,0}, E },
        { {O_POLL,0,0}, {O_POLL,0,0}, E } } },
    /* racy set_nb_tasks (see scen_t): B set(3) vs the last completion 1 -> 0; C set(2) vs the first discovery 0 -> 1;
     * D set(2) vs 0 -> 1 -> 0; A' set(0) by the holder of the only task vs a discovery by another thread */
    { "set_abs_vs_last_done", 1, {0,1,0}, {1,1,0}, 2, { { {O_SET_ABS,3,0}, E }, { {O_DONE_TASK,0,0}, E }, { E } }, 2, {2,3} },
    { "set_abs_vs_first_add", 1, {0,0,0}, {1,1,0}, 2, { { {O_SET_ABS,2,0}, E }, { {O_ADD_TASKS,1,0}, E }, { E } }, 2, {2,3} },
    { "set_abs_vs_add_done",  1, {0,0,0}, {1,1,0}, 2, { { {O_SET_ABS,2,0}, E }, { {O_ADD_TASKS,1,0}, {O_DONE_TASK,0,0}, E }, { E } }, 2, {1,2} },
    { "set_abs0_vs_add",      1, {1,0,0}, {1,1,0}, 2, { { {O_SET_ABS,0,0}, E }, { {O_ADD_TASKS,1,0}, E }, { E } }, 2, {0,1} },
#else
    /* minimal DTD-like pair: the master inserts two tasks while not ready, then declares ready; one worker completes them */
    { "dtd_min_master_worker", 0, {0,0,0}, {0,0,0}, 2, {
        { {O_ADD_TASKS,1,1}, {O_ADD_TASKS,1,1}, {O_READY,0,0}, E },
        { {O_TAKE_TASK,0,0}, {O_DONE_TASK,0,0}, {O_TAKE_TASK,0,0}, {O_DONE_TASK,0,0}, E },
        { E } } },
    /* DTD-like: master inserts tasks one by one while not ready, then declares ready; two workers complete concurrently:
     * nb_tasks crosses zero up to twice, ready() races with the last decrement */
    { "dtd_insert_then_ready", 0, {0,0,0}, {0,0,0}, 3, {
        { {O_ADD_TASKS,1,1}, {O_ADD_TASKS,1,1}, {O_READY,0,0}, E },
        { {O_TAKE_TASK,0,0}, {O_DONE_TASK,0,0}, E },
        { {O_TAKE_TASK,0,0}, {O_DONE_TASK,0,0}, E } } },
    /* the owner of all tasks sets them (0 -> 2 -> 0) around ready() holding nothing else; another thread releases an action before/around ready */
    { "set_nb_tasks_owner", 0, {0,0,0}, {0,1,0}, 3, {
        { {O_SET_TASKS,2,0}, {O_READY,0,0}, {O_SET_TASKS0,0,0}, E },
        { {O_DONE_ACTION,0,0}, E },
        { {O_POLL,0,0}, {O_POLL,0,0}, E } } },
    /* compound-like: set_runtime_actions(2) while not ready, ready, two threads each release one */
    { "set_runtime_actions_then_release", 0, {0,0,0}, {0,0,0}, 3, {
        { {O_SET_ACTIONS,2,1}, {O_READY,0,0}, E },
        { {O_TAKE_ACTION,0,0}, {O_DONE_ACTION,0,0}, E },
        { {O_TAKE_ACTION,0,0}, {O_DONE_ACTION,0,0}, E } } },
#endif
};
#define NSCEN ((int)(sizeof(scen) / sizeof(scen[0])))
#define R(i) static void run_##i(void) { run_scen(&scen[(i) < NSCEN ? (i) : 0]); }
R(0) R(1) R(2) R(3) R(4) R(5) R(6) R(7) R(8) R(9) R(10) R(11) R(12) R(13) R(14) R(15) R(16) R(17) R(18) R(19)
static void (*runners[])(void) = { run_0, run_1, run_2, run_3, run_4, run_5, run_6, run_7, run_8, run_9, run_10, run_11, run_12, run_13, run_14, run_15, run_16, run_17, run_18, run_19 };
_Static_assert(NSCEN <= 20, "one runner per scenario");
static cs_scenario_t scenarios[20];
static void setup(void)
{   /* one-time lazy initialisation of the class system outside the controlled runs */
    parsec_taskpool_t *t = calloc(1, sizeof(*t)); PARSEC_OBJ_CONSTRUCT_WRELEASE(t, parsec_taskpool_t, my_release);
}
/* scenarios that only the thorough tier runs (same shapes as others, kept out of the quick tier for its time budget) */
static const char *thorough_only[] = { "ptg_startup_spawn", "ptg_add_then_ready", "busy_zero_crossings", "actions_fanout", "set_runtime_actions0_vs_ready",
                                       "set_runtime_actions_then_release", "dtd_insert_then_ready", "set_nb_tasks_owner", "set_nb_tasks_holding_action", "task_to_action", NULL };
int main(int argc, char **argv)
{
    int quick = getenv("C10_QUICK") && atoi(getenv("C10_QUICK")), n = 0;
    for (int i = 0; i < NSCEN; i++) {
        int skip = 0;
        for (int k = 0; quick && thorough_only[k]; k++) if (!strcmp(thorough_only[k], scen[i].name)) skip = 1;
        if (skip) continue;
        scenarios[n].name = scen[i].name; scenarios[n].run = runners[i]; scenarios[n].max_bound = 0; n++;
    }
    return cs_main(argc, argv, "C10", scenarios, n, setup);
}
