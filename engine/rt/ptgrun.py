"""Build and run PTG-IR programs (shared by the C01 / C02 / C16 / C23 checks).

build_all(): per program: render .jdf, run the FRESHLY BUILT parsec-ptgpp of the flavour (once per dependency
back-end), emit the expectation table with the reference interpreter, compile, link with ptg_driver.c.
Nothing is cached across check runs. run_jobs(): run driver processes in parallel, collect the result JSON,
VIOLATION / HANG lines; a HANG is re-run alone with 4x the limit before it is reported.
"""
import json, os, subprocess, sys, time, shutil, glob
from concurrent.futures import ThreadPoolExecutor
import ptgir

VERIF = os.environ.get('VERIF_ROOT', '/verif')
REPO = os.environ.get('VERIF_REPO', '/repo')
RT = os.path.join(VERIF, 'engine', 'rt')
SCHEDS = ['ap', 'gd', 'ip', 'lfq', 'lhq', 'll', 'llp', 'ltq', 'pbq', 'rnd', 'spq']
BACKENDS = {'ht': 'dynamic-hash-table', 'ia': 'index-array'}
NJOBS = int(os.environ.get('VERIF_JOBS', str(os.cpu_count() or 4)))


TRAIT_FINDING = {'negstep': 'C01-negative-step-execution-space', 'ia-nonrange-param': 'C01-index-array-non-range-parameter',
                 'keyprint-order': 'C23-key-print-declaration-order', 'keyprint-derived': 'C23-key-print-derived-parameter'}


def known_ids():
    p = os.environ.get('VERIF_KNOWN_FINDINGS', os.path.join(VERIF, 'known_findings.json'))
    try:
        return set(f.get('id') for f in json.load(open(p)).get('findings', []))
    except Exception:
        return set()


def finding_for(prog, backend, keyprint=False):
    """id of the recorded finding that covers failures of this (program, back-end), or None."""
    ids = known_ids()
    for t in sorted(prog.traits(backend, keyprint)):
        if TRAIT_FINDING[t] in ids:
            return TRAIT_FINDING[t]
    return None


class Built:
    def __init__(self, prog, refs):
        self.prog, self.refs, self.exe = prog, refs, {}


class Runner:
    def __init__(self, ctx, flavour='hk-shm'):
        self.ctx = ctx
        self.b = ctx.build(flavour)            # builds library + ptgpp from /repo's working tree
        # private work directory per check run (concurrent runs of the same check, e.g. inside a mutcheck view, must not collide)
        self.work = os.path.join(VERIF, 'out', 'ptg', '%s.%d' % (ctx.pid, os.getpid()))
        shutil.rmtree(self.work, ignore_errors=True)
        os.makedirs(self.work, exist_ok=True)
        os.makedirs(os.path.join(VERIF, 'out', 'replay'), exist_ok=True)
        b = self.b
        self.inc = ['-I%s/parsec/include' % b, '-I%s' % b, '-I%s/parsec/include' % REPO, '-I%s' % REPO, '-I%s/parsec' % REPO, '-I' + RT, '-I.']
        self.cf = ['-std=gnu11', '-O0', '-mcx16', '-w', '-D_GNU_SOURCE', '-DPARSEC_VERIF_HOOKS']
        self.ld = ['-L%s/parsec' % b, '-Wl,-rpath,%s/parsec' % b, '-lparsec', '-L%s/.build/vtsan' % VERIF, '-Wl,-rpath,%s/.build/vtsan' % VERIF, '-lvtsan',
                   '-lpthread', '-lm', '-ldl', '-lhwloc']
        self.ptgpp = os.path.join(b, 'parsec/interfaces/ptg/ptg-compiler/parsec-ptgpp')
        self.outcomes = {}
        self.notes = []
        self.hang_limit = 10.0

    def _sh(self, cmd, cwd, what):
        r = subprocess.run(cmd, cwd=cwd, capture_output=True, text=True)
        if r.returncode != 0:
            raise RuntimeError('%s failed: %s\n%s' % (what, ' '.join(cmd), (r.stdout + r.stderr)[-3000:]))
        return r

    def build_all(self, progs, backends=('ht', 'ia'), extra_ptgpp=()):
        """-> {backend: exe} ; one executable per dependency back-end holding ALL programs (one TU per program,
        compiled in parallel) + registry + driver. self.built[name] = Built(prog, refs)."""
        drv = os.path.join(self.work, 'ptg_driver.o')
        jobs = [('drv', None, None)]
        self.built = {}
        for p in progs:
            refs = [p.interpret(v) for v in p.variants]       # Invalid propagates: the family must only hold valid programs
            self.built[p.name] = Built(p, refs)
            d = os.path.join(self.work, p.name); os.makedirs(d, exist_ok=True)
            open(os.path.join(d, p.name + '.jdf'), 'w').write(p.jdf())
            open(os.path.join(d, 'exp.c'), 'w').write(ptgir.emit_c(p, refs))
            for be in backends:
                if be in p.backends:
                    jobs.append((p, be, d))

        def one(job):
            p, be, d = job
            if p == 'drv':
                self._sh(['gcc'] + self.cf + ['-O1'] + self.inc + ['-c', os.path.join(RT, 'ptg_driver.c'), '-o', drv], self.work, 'driver compile')
                return None
            # ptgpp writes <name>.h for both back-ends: generate into a per-backend sub directory
            sd = os.path.join(d, be); os.makedirs(sd, exist_ok=True)
            shutil.copy(os.path.join(d, p.name + '.jdf'), sd)
            self._sh([self.ptgpp, '-E', '-M', BACKENDS[be]] + list(extra_ptgpp) + ['-i', p.name + '.jdf', '-o', p.name, '-f', p.name], sd, 'ptgpp')
            open(os.path.join(sd, 'all.c'), 'w').write('#include "%s.c"\n#include "../exp.c"\n' % p.name)
            self._sh(['gcc'] + self.cf + self.inc + ['-c', 'all.c', '-o', 'gen.o'], sd, 'cc generated')
            return be, os.path.join(sd, 'gen.o'), p.name
        objs = {be: [] for be in backends}
        with ThreadPoolExecutor(NJOBS) as ex:
            for r in ex.map(one, jobs):
                if r:
                    objs[r[0]].append((r[2], r[1]))
        exes = {}
        for be in backends:
            names = [n for n, _ in objs[be]]
            reg = os.path.join(self.work, 'registry_%s.c' % be)
            open(reg, 'w').write('#include "ptg_exp.h"\n' + ''.join('extern const ptg_program_t ptg_program_%s;\n' % n for n in names) +
                                 'const ptg_program_t *ptg_programs[] = { %s NULL };\n' % ''.join('&ptg_program_%s, ' % n for n in names))
            exe = os.path.join(self.work, '%s-ptg-%s' % (self.ctx.pid, be))
            self._sh(['gcc'] + self.cf + self.inc + [reg] + [o for _, o in objs[be]] + [drv, '-o', exe] + self.ld, self.work, 'link')
            exes[be] = exe
        self.exes = exes
        return exes

    def cleanup(self):
        shutil.rmtree(self.work, ignore_errors=True)

    # ------------------------------------------------------------------ running
    def run_jobs(self, jobs, leg, stop_on_violation=True):
        """jobs: [dict(exe=, args=[...], label=, timeout=)] ; aggregates into ONE evidence leg named `leg`."""
        ctx = self.ctx
        if ctx.violations and stop_on_violation:
            ctx.notes.append('leg %s skipped: a violation was already found' % leg)
            return None
        agg = dict(name=leg, states=0, transitions=0, executions=0, nontrivial=0, distinct_outcomes=0, exhaustive=True, samples=[], processes=0, configs=0)
        hashes = {}
        stop = [False]
        nhang = [0]

        def one(j):
            if stop[0]:
                return j, None, None, 'skipped'
            js = os.path.join(self.work, 'res-%s.json' % j['label'])
            try:
                r = subprocess.run([j['exe']] + j['args'] + ['--json', js, '--prop', ctx.pid, '--outdir', os.path.join(VERIF, 'out'), '--limit', str(j.get('limit', self.hang_limit))],
                                   capture_output=True, text=True, timeout=j.get('timeout', 900))
            except subprocess.TimeoutExpired:
                return j, None, None, 'timeout'
            if r.returncode == 1 and stop_on_violation and not j.get('known'):
                stop[0] = True
            if r.returncode == 4 and stop_on_violation and not j.get('known'):
                nhang[0] += 1
                if nhang[0] >= 3:
                    stop[0] = True
            return j, r, js, None
        t0 = time.time()
        with ThreadPoolExecutor(NJOBS) as ex:
            results = list(ex.map(one, jobs))
        for j, r, js, err in results:
            if err == 'skipped':
                agg['exhaustive'] = False
                continue
            if err == 'timeout':
                ctx.broken.append('%s: driver process timed out' % j['label']); continue
            agg['processes'] += 1
            rc = r.returncode
            if rc == 4 and ctx.violations and not j.get('known'):
                agg['exhaustive'] = False          # a violation is already confirmed: do not spend minutes confirming more hangs
                continue
            if rc == 4:
                # suspected hang: re-run that configuration alone with 4x the limit
                line = [l for l in r.stdout.splitlines() if l.startswith('HANG ')]
                rp = line[0].split('replay=', 1)[1].split()[0] if line else ''
                r2 = subprocess.run([j['exe'], '--replay', rp, '--limit', str(4 * j.get('limit', self.hang_limit)), '--outdir', os.path.join(VERIF, 'out')], capture_output=True, text=True)
                if r2.returncode == 1:
                    self._violations(r2.stdout, j)
                elif r2.returncode == 0:
                    self.notes.append('%s: a run exceeded %.0fs once, passed when re-run alone with 4x the limit' % (j['label'], self.hang_limit))
                    agg['exhaustive'] = False
                else:
                    ctx.broken.append('%s: hang re-run exited %d: %s' % (j['label'], r2.returncode, r2.stderr[-500:]))
                continue
            if rc == 1:
                self._violations(r.stdout, j)
            elif rc != 0 and j.get('known'):
                ctx.known_finding('%s %s: process failed outside a run (exit %d): %s' % (j['known'], j['label'], rc, (r.stderr or '').strip().splitlines()[-1][:200] if (r.stderr or '').strip() else ''))
                continue
            elif rc != 0:
                ctx.broken.append('%s: exit status %d\n%s' % (j['label'], rc, (r.stdout[-600:] + r.stderr[-1500:])))
                continue
            files = [js] if os.path.exists(js) else sorted(glob.glob(js + '.*'))
            if not files and rc == 0:
                ctx.broken.append('%s: no result file' % j['label'])
            for jf in files:
                try:
                    res = json.load(open(jf))
                except Exception as e:
                    if rc == 0:
                        ctx.broken.append('%s: unreadable result (%s)' % (j['label'], e))
                    continue
                agg['configs'] += res.get('configs', 0)
                for k in ('full_explorations', 'bounded_explorations', 'multi_thread_runs'):
                    agg[k] = agg.get(k, 0) + res.get(k, 0)
                hashes.setdefault(j.get('hkey', 'all'), set()).update(res.get('outcome_hashes', []))
                for sc in res['scenarios']:
                    for k in ('states', 'transitions', 'executions', 'nontrivial'):
                        agg[k] += int(sc.get(k, 0))
                    agg['exhaustive'] = agg['exhaustive'] and bool(sc.get('exhaustive'))
                    if len(agg['samples']) < 8 and (len(agg['samples']) < 3 or agg['processes'] % 5 == 0):
                        agg['samples'] += sc.get('samples', [])[-1:]     # the last recorded sample of a process is a non-trivial one
        agg['distinct_outcomes'] = sum(len(s) for s in hashes.values())
        agg['wall_s'] = round(time.time() - t0, 1)
        agg['engine'] = 'rt'
        ctx.add_leg(**agg)
        return agg

    def _violations(self, out, j):
        ctx = self.ctx
        label = j['label']
        lines = out.splitlines()
        for i, line in enumerate(lines):
            if line.startswith('VIOLATION '):
                rp = line.split('replay=', 1)[1].strip() if 'replay=' in line else ''
                detail = ' '.join(l2.strip() for l2 in lines[i + 1:i + 2] if l2.startswith('  '))
                if j.get('known'):
                    ctx.known_finding('%s %s replay=%s' % (j['known'], detail[:300], rp))
                    continue
                ctx.violations.append((rp, label))
                print(line)
                for l2 in lines[i + 1:i + 3]:
                    if l2.startswith('  '):
                        print(l2)


def make_jobs(progs, exes, oracle, quick, hs_startup, free_startup, threads, reps, full_upto, maxdev, hs_deadline, free_deadline, extra=(), tag=''):
    """-> (hsched jobs, free-running jobs, jobs of programs covered by a recorded finding)"""
    hs_jobs, free_jobs, kn_jobs = [], [], []
    for be, exe in exes.items():
        normal = []
        for p in progs:
            if be not in p.backends:
                continue
            kn = finding_for(p, be)
            flagged = bool(p.traits(be))
            common = ['--backend', be, '--oracle', str(oracle)] + list(extra)
            j = dict(exe=exe, args=['--mode', 'hs', '--programs', p.name, '--startup', hs_startup, '--full-upto', str(full_upto), '--maxdev', str(maxdev),
                                    '--maxruns', '60000' if quick else '2000000', '--deadline', str(hs_deadline)] + common,
                     label='%s%s-%s-hs' % (tag, p.name, be), known=kn, timeout=hs_deadline + 120)
            (kn_jobs if flagged else hs_jobs).append(j)
            if not flagged:
                normal.append(p.name)
            elif not quick or be == 'ht':
                kn_jobs.append(dict(exe=exe, args=['--mode', 'free', '--programs', p.name, '--scheds', 'lfq', '--threadlist', '2', '--reps', '1', '--startup', '0'] + common,
                                    label='%s%s-%s-free' % (tag, p.name, be), known=kn, limit=1.5, timeout=120))
        for s in SCHEDS:
            for t in threads:
                free_jobs.append(dict(exe=exe, args=['--mode', 'free', '--programs', ','.join(normal), '--sched', s, '--threads', str(t), '--reps', str(reps),
                                                     '--startup', free_startup, '--deadline', str(free_deadline), '--backend', be, '--oracle', str(oracle), '--spin', '0' if t == 1 else '30'] + list(extra),
                                      label='%sfree-%s-%s-%d' % (tag, be, s, t), timeout=free_deadline + 300))
    return hs_jobs, free_jobs, kn_jobs



def replay(ctx, path, obj, family):
    """Generic replay: rebuild the program named in the replay file with the current tree, re-run exactly that case."""
    progs = [p for p in family if p.name == obj['program']]
    if not progs:
        sys.stderr.write('replay: unknown program %s\n' % obj['program']); return 2
    R = Runner(ctx)
    exe = R.build_all(progs, backends=(obj['backend'],))[obj['backend']]
    r = subprocess.run([exe, '--replay', path, '--outdir', os.path.join(VERIF, 'out'), '--limit', str(4 * R.hang_limit), '-v'])
    R.cleanup()
    return r.returncode if r.returncode in (0, 1) else 2
