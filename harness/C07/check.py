import os
META = dict(
    engine='cosched',
    technique='stateless model checking: preemption-bounded exhaustive schedule enumeration (CHESS) of the real dependency-release path (parsec_release_local_OUT_dependencies -> find_deps -> update_deps) on hand-built task classes',
    level_text='Every schedule with <= b preemptions (b=1..3 quick, 2..4 thorough, per configuration) of 2-3 predecessor threads releasing the 1..4 required inputs of one or two successor instances is executed on the real code, for 16 configurations: bitmask and counter mode, array (parsec_default_find_deps) and hash-table (parsec_hash_find_deps, concurrent first touch) storage, inputs read straight from a collection, an instance-dependent control input and control gathers. In each execution update_deps says "ready" exactly once per instance, not before all required releases have started, and the instance sits exactly once in exactly one ready ring with the data of the completing release.',
    level_note='Sequential consistency at instrumented accesses (dependency words, hash-bucket locks; chain links are only touched under the bucket lock); <= 3 threads, <= 3 releases per thread; the successor task class, execution streams and taskpool are built by hand (real mempools, real hash table); tc->update_deps is a thin recording wrapper around the real update functions.',
)
RULE = ("cosched: every schedule of 2-3 releasing threads over the real release path with at most b preemptions "
        "(scheduling points = every instrumented access to the dependency words of the successor instances and to the hash-bucket "
        "locks); non-trivial = at least one preemption; states = nodes of the explored schedule tree; outcomes = which thread/flow "
        "completed each instance and the ready/not-ready verdict sequence of every thread")
ASSUME = ["sequential consistency at instrumented accesses (no weak-memory effects)",
          "gcc -fsanitize=thread instrumentation reports every access to the watched words",
          "each required input is released exactly once (a control gather exactly n times), as the generated code does"]
SRC = ['deps_h.c']
def _run_each(ctx, exe, bound, budget, env, label, cost):
    """One engine invocation per scenario (the engine gives every scenario of one invocation only an equal share of the
    deadline): cheap scenarios first, each may use all the time that is left of this leg's budget."""
    import subprocess, time, vlib
    names = subprocess.run([exe, '--list'], capture_output=True, text=True, env=env).stdout.split()
    names.sort(key=lambda n: (cost.get(n, 10**9), n))
    t_end = time.time() + budget
    for n in names:
        left = max(3, int(t_end - time.time()))
        jobs = max(2, min(vlib.NJOBS, cost.get(n, 10**9) // 60))   # do not fork 16 workers for a few dozen schedules
        args = ['--bound', str(bound), '--scenario', n, '--jobs', str(jobs), '--outdir', vlib.OUT, '--deadline', str(left)]
        ctx.run_engine(exe, args, label='%s.%s' % (label, n), timeout=left + 600, env=env)
# measured number of schedules in the quick tier, used only to order the configurations
COST = dict(mask_array_g1_in2=18, counter_array_g1_in2=18, mask_array_g2=90, counter_array_g2=94, mask_hash_g3=132, counter_hash_g3=132,
            counter_hash_g2_gather2=166, mask_hash_g2_in1_ctl=218, mask_hash_g2=274, counter_hash_g2=274, mask_array_g4=310, counter_array_g4=316,
            mask_array_g2_in1_ctl=476, mask_array_g3=690, counter_array_g3=702, counter_array_g1_ctl_gather2=924)
def check(ctx):
    import time
    exe = ctx.compile('hk-shm', 'deps', SRC, engine='cosched')
    q = ctx.tier == 'quick'
    envq = dict(os.environ); envq['C07_QUICK'] = '1'
    envt = dict(os.environ); envt['C07_QUICK'] = '0'
    if q:
        _run_each(ctx, exe, 4, 85, envq, 'deps', COST)              # per-scenario bound caps are in the harness source
    else:
        t0 = time.time()
        _run_each(ctx, exe, 4, 300, envq, 'deps-quickcaps', COST)   # pass A: the quick tier's set and bounds, so that nothing is starved
        _run_each(ctx, exe, 4, max(60, 1080 - (time.time() - t0)), envt, 'deps-deep', COST)   # pass B: the thorough caps, cheapest first
    return ctx.finish(RULE, ASSUME)
def replay(ctx, path, obj):
    import subprocess
    exe = ctx.compile('hk-shm', 'deps', SRC, engine='cosched')
    return subprocess.call([exe, '--replay', path])
