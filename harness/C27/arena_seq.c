/* C27 (E2): every allocate/release sequence up to a depth on the real arena, against a counter model. */
#include "seqx.h"
static char c27_err[SX_ERRLEN]; static int c27_failed;
#define C27_FAIL(...) do { if (!c27_failed) snprintf(c27_err, sizeof(c27_err), __VA_ARGS__); c27_failed = 1; } while (0)
#include "common.h"

#ifndef MAXDEPTH
#define MAXDEPTH 8
#endif
/* ops: 0 = allocate 1, 1 = allocate 2, 2+k = release the k-th block held (k < MAXHOLD) */
#define NOPS (2 + MAXHOLD)
/* the helpers of common.h keep the allocator/arena under test in globals; seqx may hold two objects at a time, so every
 * object carries a snapshot of them that is loaded before and saved after each use */
typedef struct { char *slab; int slot_state[NSLOT], slot_owner[NSLOT], nslot_used; size_t slot_size[NSLOT]; long n_sys_alloc, n_sys_free; parsec_arena_t *arena; int owned_elems; } glob_t;
typedef struct { hold_t h[MAXHOLD]; int nh; int m_used, m_cached; glob_t g; } st_t;
static void g_save(glob_t *g) { g->slab = slab; memcpy(g->slot_state, slot_state, sizeof(slot_state)); memcpy(g->slot_owner, slot_owner, sizeof(slot_owner)); memcpy(g->slot_size, slot_size, sizeof(slot_size)); g->nslot_used = nslot_used; g->n_sys_alloc = n_sys_alloc; g->n_sys_free = n_sys_free; g->arena = arena; g->owned_elems = owned_elems; }
static void g_load(const glob_t *g) { slab = g->slab; memcpy(slot_state, g->slot_state, sizeof(slot_state)); memcpy(slot_owner, g->slot_owner, sizeof(slot_owner)); memcpy(slot_size, g->slot_size, sizeof(slot_size)); nslot_used = g->nslot_used; n_sys_alloc = g->n_sys_alloc; n_sys_free = g->n_sys_free; arena = g->arena; owned_elems = g->owned_elems; }
static int32_t cfg_mu, cfg_mr; static size_t cfg_elem, cfg_align;

static void *fresh(void)
{
    st_t *s = calloc(1, sizeof(*s));
    arena_setup(cfg_elem, cfg_align, cfg_mu, cfg_mr);
    g_save(&s->g); c27_failed = 0;
    return s;
}
static void destroy(void *o) { st_t *s = o; free(s->g.slab); free(s); }   /* the arena object itself is leaked (its blocks live in the slab) */
static int enabled(void *o, int op)
{
    st_t *s = o;
    if (op < 2) return s->nh < MAXHOLD && s->g.nslot_used < NSLOT;
    return op - 2 < s->nh;
}
static int apply(void *o, int op, char *err)
{
    st_t *s = o; c27_failed = 0; g_load(&s->g);
    if (op < 2) {
        int count = op + 1, expect, from_cache = 0;
        if (count == 1 && s->m_cached > 0) { expect = 1; from_cache = 1; }
        else expect = (cfg_mu == INT32_MAX) || (s->m_used + count <= cfg_mu);
        long sys = n_sys_alloc;
        int got = hold_alloc(&s->h[s->nh], 1, count);
        if (!c27_failed) {
            CHK(got == expect, "allocate(%d): the arena %s, the model %s (model: used %d of %d, cached %d)", count, got ? "granted" : "refused", expect ? "grants" : "refuses", s->m_used, cfg_mu, s->m_cached);
            if (got) {
                CHK((n_sys_alloc == sys) == from_cache, "allocate(%d): %s although %d blocks are cached", count, n_sys_alloc == sys ? "served from the cache" : "went to the system allocator", s->m_cached);
                if (from_cache) s->m_cached--; else s->m_used += count;
                s->nh++;
            }
        }
    } else {
        int k = op - 2, count = s->h[k].count; long fr = n_sys_free;
        hold_release(&s->h[k], 1);
        memmove(&s->h[k], &s->h[k + 1], (s->nh - k - 1) * sizeof(hold_t)); s->nh--;
        for (int i = k; i < s->nh; i++) s->h[i].copy.original = &s->h[i].data;     /* self-pointers after the move */
        int cache_it = (count == 1) && (cfg_mr == INT32_MAX || s->m_cached < cfg_mr);
        if (!c27_failed) CHK((n_sys_free == fr) == cache_it, "release(count %d): %s; model: cached %d, cache limit %d", count, n_sys_free == fr ? "block kept in the cache" : "block returned to the system", s->m_cached, cfg_mr);
        if (cache_it) s->m_cached++; else s->m_used -= count;
    }
    if (!c27_failed) {
        int cached = arena_cached();
        CHK(cached == s->m_cached, "%d blocks cached, model says %d", cached, s->m_cached);
        CHK(cfg_mr == INT32_MAX || cached <= cfg_mr, "%d blocks cached, cache limit %d", cached, cfg_mr);
        if (cfg_mr != INT32_MAX) CHK(arena->released == s->m_cached, "arena->released %d, model %d", arena->released, s->m_cached);
        if (cfg_mu != INT32_MAX) CHK(arena->used == s->m_used, "arena->used %d, model %d", arena->used, s->m_used);
        CHK(cfg_mu == INT32_MAX || s->m_used <= cfg_mu, "model exceeded the limit (harness bug)");
        CHK(live_slots() == (int)(n_sys_alloc - n_sys_free), "allocator bookkeeping");
    }
    g_save(&s->g);
    if (c27_failed) { snprintf(err, SX_ERRLEN, "%s", c27_err); return 1; }
    return 0;
}
static size_t canon(void *o, char *buf, size_t cap)
{
    st_t *s = o; size_t n = 0; g_load(&s->g);
    n += snprintf(buf + n, cap - n, "u%d c%d r%d|", cfg_mu == INT32_MAX ? -1 : arena->used, s->m_cached, cfg_mr == INT32_MAX ? -1 : arena->released);
    for (int i = 0; i < s->nh; i++) n += snprintf(buf + n, cap - n, "%d", s->h[i].count);
    /* the order of the cached blocks (by age) is part of the state: LIFO reuse */
    n += snprintf(buf + n, cap - n, "|");
    for (parsec_list_item_t *it = arena->area_lifo.lifo_head.data.item; it; it = (parsec_list_item_t *)it->list_next) n += snprintf(buf + n, cap - n, "%d,", slot_of(it) >= 0 ? 1 : 0);
    return n;
}
static void opname(int op, char *buf, size_t cap) { if (op == 0) snprintf(buf, cap, "alloc1"); else if (op == 1) snprintf(buf, cap, "alloc2"); else snprintf(buf, cap, "rel%d", op - 2); }

static struct { const char *name; int32_t mu, mr; size_t elem, align; } cfgs[] = {
    { "arena_seq_u2_c1", 2, 1, 40, 16 }, { "arena_seq_u3_c0", 3, 0, 40, 16 }, { "arena_seq_u3_c2", 3, 2, 100, 64 },
    { "arena_seq_uINF_c1", INT32_MAX, 1, 40, 8 }, { "arena_seq_u4_cINF", 4, INT32_MAX, 24, 16 }, { "arena_seq_u5_c2", 5, 2, 72, 32 },
};
int main(int argc, char **argv)
{
    sx_init(argc, argv, "C27");
    int ncfg = sizeof(cfgs) / sizeof(cfgs[0]);
    char sc[128] = "", hist[4096];
    if (sx_replay_file && sx_read_replay(sx_replay_file, sc, sizeof(sc), hist, sizeof(hist))) return 2;
    for (int c = 0; c < ncfg; c++) {
        if (sx_replay_file && strcmp(sc, cfgs[c].name)) continue;
        cfg_mu = cfgs[c].mu; cfg_mr = cfgs[c].mr; cfg_elem = cfgs[c].elem; cfg_align = cfgs[c].align;
        sx_system_t sys = { cfgs[c].name, NOPS, fresh, destroy, enabled, apply, canon, opname, MAXDEPTH, 0 };
        if (sx_replay_file) return sx_replay_named(&sys, hist);
        sx_stats_t st; sx_bfs(&sys, &st);
    }
    return sx_finish();
}
