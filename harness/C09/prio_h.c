/* C09: priority schedulers honour task priorities (E2 / seqx on the REAL ap, ip, spq modules).
 *
 * One process hosts one scheduler (the choice is global): run with --sched ap|ip|spq.
 * parsec_init(1 stream) selects the module through the MCA parameter mca_sched exactly as an application would;
 * the harness borrows execution stream 0 and calls module.schedule / module.select directly.
 * A "fresh object" is a newly installed + flow_init'ed scheduler on that stream (the previous one is drained
 * and removed through the module's own remove()).
 *
 * Alphabet:  sel | s<prios>@<dist> (ring of 1..L tasks, every priority word over P symbols, dist 0..ND-1)
 *            | r@<d> (re-schedule the task returned by the last select as a singleton, distance d=1..ND-1:
 *              what __parsec_execute does for a task that answers ASYNC/AGAIN)
 * Reference model: the list of pending tasks with (priority, distance, arrival stamp).
 * Oracle at every select (and a full drain checked at every explored state):
 *   ap : returned task = highest priority pending, earliest scheduled among equals; distance ignored
 *   spq: returned task comes from the smallest pending distance; within it highest priority, earliest among equals
 *   ip : returned task has the lowest priority pending, whatever the distances (no tie rule claimed)
 *   all: NULL iff nothing is pending.
 */
#include "parsec/parsec_config.h"
#include "parsec/parsec_internal.h"
#include "parsec/runtime.h"
#include "parsec/execution_stream.h"
#include "parsec/class/barrier.h"
#include "parsec/class/list.h"
#include "parsec/mca/sched/sched.h"
#include "parsec/scheduling.h"
/* the real spq source is included only for its (file-local) queue types, needed to encode the concrete
 * state; the module object that is driven is the one libparsec installed (renamed here so that this
 * translation unit does not interpose it) */
#define parsec_sched_spq_module c09_unused_copy_of_spq_module
#include "parsec/mca/sched/spq/sched_spq_module.c"
#undef parsec_sched_spq_module
#include "parsec/mca/sched/sched_local_queues_utils.h"
#include "seqx.h"
#include <limits.h>

enum { M_AP, M_IP, M_SPQ };
static int mod = M_AP;
static const char *modname = "ap";
static int L = 3, NP = 3, ND = 3, DEPTH = 6, PV = 0, RESCHED = 1;
static const int pvals[3][4] = { { 1, 2, 3, 4 }, { -5, 0, 7, 1000000 }, { INT_MIN, -1, 0, INT_MAX } };

static parsec_context_t *context;
static parsec_execution_stream_t *es;
static parsec_barrier_t barrier1;

#define MAXT 40
typedef struct { parsec_task_t *t; int prio, dist; long stamp; int pending; } mt_t;
static parsec_taskpool_t dummy_tp;
static parsec_task_class_t dummy_tc;

typedef struct {
    mt_t m[MAXT]; int nt;         /* tasks used so far in this history */
    long stamp;
    int held;                     /* index of the task returned by the last select and not yet re-scheduled, or -1 */
    char hist[512]; int hl;
    int dead;                     /* a violation was already reported for this object */
    void *sobj;                   /* this object's scheduler state (es->scheduler_object while it is being operated) */
} obj_t;
static char scen_name[128];
/* several objects may be alive at once (seqx compares two replays): the module keeps all its state behind
 * es->scheduler_object, so an object is made current by storing its pointer there */
#define USE(o) (es->scheduler_object = (o)->sobj)

/* ---- ring words ---- */
static int nrings;                /* number of priority words of length 1..L */
static int ring_len(int code) { int len = 1, n = NP; while (code >= n) { code -= n; n *= NP; len++; } return len; }
static void ring_word(int code, int *w, int *len)
{
    int l = 1, n = NP; while (code >= n) { code -= n; n *= NP; l++; }
    *len = l; for (int i = l - 1; i >= 0; i--) { w[i] = code % NP; code /= NP; }
}
/* ops: 0 = sel ; 1..nrings*ND = schedule(ring, dist) ; then ND-1 resched ops */
static int NOPS;
static int op_is_sched(int op) { return op >= 1 && op <= nrings * ND; }
static int op_is_resched(int op) { return op > nrings * ND; }

static int drain_violations = 0;

static void *fresh(void)
{
    obj_t *o = calloc(1, sizeof(obj_t));
    o->held = -1;
    es->scheduler_object = NULL;
    parsec_current_scheduler->module.install(context);
    parsec_current_scheduler->module.flow_init(es, &barrier1);
    o->sobj = es->scheduler_object;
    return o;
}

/* ---- the oracle for one select ---- */
static int expect_ok(obj_t *o, parsec_task_t *got, char *err)
{
    int npend = 0, gi = -1;
    for (int i = 0; i < o->nt; i++) { if (o->m[i].pending) npend++; if (o->m[i].t == got && got) gi = i; }
    if (!got) {
        if (npend) { snprintf(err, SX_ERRLEN, "%s: select returned NULL although %d task(s) are pending", modname, npend); return 1; }
        return 0;
    }
    if (gi < 0 || !o->m[gi].pending) { snprintf(err, SX_ERRLEN, "%s: select returned a task that is not pending (%s)", modname, gi < 0 ? "unknown pointer" : "already returned"); return 1; }
    mt_t *g = &o->m[gi];
    for (int i = 0; i < o->nt; i++) {
        mt_t *x = &o->m[i];
        if (!x->pending || i == gi) continue;
        if (mod == M_AP) {
            if (x->prio > g->prio) { snprintf(err, SX_ERRLEN, "ap: selected priority %d while a task of priority %d is pending", g->prio, x->prio); return 1; }
            if (x->prio == g->prio && x->stamp < g->stamp) { snprintf(err, SX_ERRLEN, "ap: tie at priority %d not served in scheduling order (returned stamp %ld, pending stamp %ld)", g->prio, g->stamp, x->stamp); return 1; }
        } else if (mod == M_SPQ) {
            if (x->dist < g->dist) { snprintf(err, SX_ERRLEN, "spq: selected a task scheduled at distance %d while a task is pending at distance %d", g->dist, x->dist); return 1; }
            if (x->dist == g->dist && x->prio > g->prio) { snprintf(err, SX_ERRLEN, "spq: at distance %d selected priority %d while priority %d is pending", g->dist, g->prio, x->prio); return 1; }
            if (x->dist == g->dist && x->prio == g->prio && x->stamp < g->stamp) { snprintf(err, SX_ERRLEN, "spq: tie at distance %d priority %d not served in scheduling order", g->dist, g->prio); return 1; }
        } else {
            if (x->prio < g->prio) { snprintf(err, SX_ERRLEN, "ip: selected priority %d while a task of lower priority %d is pending (its distance %d, selected one's distance %d)", g->prio, x->prio, x->dist, g->dist); return 1; }
        }
    }
    g->pending = 0;
    return 0;
}

static void hist_add(obj_t *o, const char *s) { o->hl += snprintf(o->hist + o->hl, sizeof(o->hist) - o->hl, "%s%s", o->hl ? " " : "", s); if (o->hl >= (int)sizeof(o->hist)) o->hl = sizeof(o->hist) - 1; }

static void opname(int op, char *b, size_t cap)
{
    if (op == 0) { snprintf(b, cap, "sel"); return; }
    if (op_is_resched(op)) { snprintf(b, cap, "r@%d", op - nrings * ND); return; }
    int code = (op - 1) / ND, d = (op - 1) % ND, w[8], len; ring_word(code, w, &len);
    int o = snprintf(b, cap, "s"); for (int i = 0; i < len; i++) o += snprintf(b + o, cap - o, "%d", w[i]); snprintf(b + o, cap - o, "@%d", d);
}

static parsec_task_t *new_task(void)
{
    parsec_task_t *t;
    if (posix_memalign((void **)&t, 64, sizeof(parsec_task_t))) abort();
    memset(t, 0, sizeof(parsec_task_t));
    PARSEC_OBJ_CONSTRUCT(&t->super, parsec_list_item_t);
    t->taskpool = &dummy_tp; t->task_class = &dummy_tc; t->status = PARSEC_TASK_STATUS_NONE;
    return t;
}
static void do_schedule(obj_t *o, int *idx, int n, int dist)
{
    /* build the ring in the given order (ring head = first) exactly as the runtime hands rings to schedule() */
    parsec_task_t *head = NULL;
    for (int k = 0; k < n; k++) {
        mt_t *x = &o->m[idx[k]];
        PARSEC_LIST_ITEM_SINGLETON(&x->t->super);
        x->t->priority = x->prio; x->dist = dist; x->stamp = ++o->stamp; x->pending = 1;
        if (!head) head = x->t; else parsec_list_item_ring_push(&head->super, &x->t->super);
    }
    parsec_current_scheduler->module.schedule(es, head, dist);
}

static int enabled(void *p, int op)
{
    obj_t *o = p;
    if (o->dead) return 0;
    if (op == 0) return 1;
    if (op_is_resched(op)) return RESCHED && o->held >= 0;
    return o->nt + ring_len((op - 1) / ND) <= MAXT;
}

static int apply(void *p, int op, char *err)
{
    obj_t *o = p; char nm[64]; opname(op, nm, sizeof(nm)); hist_add(o, nm);
    USE(o);
    if (op == 0) {
        int32_t d = -12345;
        parsec_task_t *t = parsec_current_scheduler->module.select(es, &d);
        if (expect_ok(o, t, err)) { o->dead = 1; return 1; }
        o->held = -1;
        if (t) for (int i = 0; i < o->nt; i++) if (o->m[i].t == t) o->held = i;
        return 0;
    }
    if (op_is_resched(op)) {
        int i = o->held, d = op - nrings * ND; o->held = -1;
        do_schedule(o, &i, 1, d);
        return 0;
    }
    int code = (op - 1) / ND, d = (op - 1) % ND, w[8], len, idx[8]; ring_word(code, w, &len);
    for (int k = 0; k < len; k++) { int i = o->nt++; o->m[i].t = new_task(); o->m[i].prio = pvals[PV][w[k]]; idx[k] = i; }
    do_schedule(o, idx, len, d);
    return 0;
}

/* drain completely, checking every select (run at every explored state), then remove the scheduler */
static void destroy(void *p)
{
    obj_t *o = p; char err[SX_ERRLEN];
    USE(o);
    if (!o->dead) {
        for (int k = 0; k <= MAXT; k++) {
            int32_t d; parsec_task_t *t = parsec_current_scheduler->module.select(es, &d);
            hist_add(o, "sel");
            if (expect_ok(o, t, err)) {
                if (drain_violations++ < 3) sx_violation(scen_name, o->hist, err);
                sx_deadline = 1e-9;        /* makes the BFS stop at its next deadline test */
                o->dead = 1; break;
            }
            if (!t) break;
        }
    }
    if (!o->dead) { parsec_current_scheduler->module.remove(context); for (int i = 0; i < o->nt; i++) free(o->m[i].t); }  /* queue is empty: release it; otherwise leak everything */
    free(o);
}

/* canonical encoding of the CONCRETE state: walk the real queue(s); every element is written as
 * priority.rank where rank = number of pending tasks of the same class (ap, ip: priority; spq: priority and distance)
 * that were scheduled earlier -- this is all the tie rule of the oracle depends on */
static size_t canon_list(obj_t *o, parsec_list_t *l, char *b, size_t off, size_t cap)
{
    int guard = 0;
    for (parsec_list_item_t *it = PARSEC_LIST_ITERATOR_FIRST(l); it != PARSEC_LIST_ITERATOR_END(l) && guard < 2 * MAXT && off + 32 < cap; it = PARSEC_LIST_ITERATOR_NEXT(it), guard++) {
        int gi = -1, rank = 0;
        for (int i = 0; i < o->nt; i++) if (o->m[i].t == (parsec_task_t *)it) gi = i;
        if (gi < 0 || !o->m[gi].pending) { off += snprintf(b + off, cap - off, "?%d,", ((parsec_task_t *)it)->priority); continue; }
        for (int i = 0; i < o->nt; i++) if (i != gi && o->m[i].pending && o->m[i].prio == o->m[gi].prio && (mod != M_SPQ || o->m[i].dist == o->m[gi].dist) && o->m[i].stamp < o->m[gi].stamp) rank++;
        off += snprintf(b + off, cap - off, "%d.%d,", ((parsec_task_t *)it)->priority, rank);
    }
    return off;
}
static size_t canon(void *p, char *b, size_t cap)
{
    obj_t *o = p; size_t off = 0; int npend = 0;
    USE(o);
    if (mod == M_SPQ) {
        parsec_list_with_size_t *tl = (parsec_list_with_size_t *)es->scheduler_object;
        for (parsec_list_item_t *li = PARSEC_LIST_ITERATOR_FIRST(&tl->super); li != PARSEC_LIST_ITERATOR_END(&tl->super) && off + 32 < cap; li = PARSEC_LIST_ITERATOR_NEXT(li)) {
            parsec_spq_priority_list_t *pl = (parsec_spq_priority_list_t *)li;
            off += snprintf(b + off, cap - off, "D%d:", pl->prio);
            off = canon_list(o, &pl->tasks, b, off, cap);
        }
    } else {
        parsec_mca_sched_list_local_counter_t *sl = (parsec_mca_sched_list_local_counter_t *)es->scheduler_object;
#if defined(PARSEC_PAPI_SDE)
        off = canon_list(o, sl->list, b, off, cap);
#else
        off = canon_list(o, sl, b, off, cap);
#endif
    }
    for (int i = 0; i < o->nt; i++) npend += o->m[i].pending;
    off += snprintf(b + off, cap - off, "|h%d|n%d", o->held >= 0 ? o->m[o->held].prio : -999, npend);
    return off;
}
int main(int argc, char **argv)
{
    const char *only = NULL; (void)only;
    for (int i = 1; i < argc; i++) {
        if (!strcmp(argv[i], "--sched") && i + 1 < argc) modname = argv[++i];
        else if (!strcmp(argv[i], "--ringlen") && i + 1 < argc) L = atoi(argv[++i]);
        else if (!strcmp(argv[i], "--nprio") && i + 1 < argc) NP = atoi(argv[++i]);
        else if (!strcmp(argv[i], "--ndist") && i + 1 < argc) ND = atoi(argv[++i]);
        else if (!strcmp(argv[i], "--depth") && i + 1 < argc) DEPTH = atoi(argv[++i]);
        else if (!strcmp(argv[i], "--pv") && i + 1 < argc) PV = atoi(argv[++i]);
        else if (!strcmp(argv[i], "--noresched")) RESCHED = 0;
    }
    mod = !strcmp(modname, "ap") ? M_AP : !strcmp(modname, "ip") ? M_IP : !strcmp(modname, "spq") ? M_SPQ : -1;
    if (mod < 0 || L < 1 || L > 4 || NP < 1 || NP > 4 || ND < 1 || ND > 4 || PV < 0 || PV > 2 || DEPTH < 1 || DEPTH * L > MAXT) { fprintf(stderr, "bad arguments\n"); return 2; }
    sx_init(argc, argv, "C09");
    nrings = 0; for (int l = 1, n = NP; l <= L; l++, n *= NP) nrings += n;
    NOPS = 1 + nrings * ND + (RESCHED ? ND - 1 : 0);
    if (NOPS > 250) { fprintf(stderr, "alphabet too large (%d)\n", NOPS); return 2; }

    setenv("PARSEC_MCA_mca_sched", modname, 1);
    setenv("PARSEC_MCA_bind_threads", "0", 1);
    int pargc = 1; char *pargv_[] = { (char *)"c09", NULL }; char **pargv = pargv_;
    context = parsec_init(1, &pargc, &pargv);
    if (!context || !parsec_current_scheduler) { fprintf(stderr, "parsec_init failed\n"); return 2; }
    if (strcmp(parsec_current_scheduler->component->base_version.mca_component_name, modname)) {
        fprintf(stderr, "scheduler %s was requested but %s is installed\n", modname, parsec_current_scheduler->component->base_version.mca_component_name); return 2;
    }
    es = context->virtual_processes[0]->execution_streams[0];
    if (context->virtual_processes[0]->nb_cores != 1) { fprintf(stderr, "expected a single stream\n"); return 2; }
    parsec_barrier_init(&barrier1, NULL, 1);
    /* the scheduler installed by parsec_init is empty: release it, every fresh() installs a new one */
    parsec_current_scheduler->module.remove(context);
    memset(&dummy_tp, 0, sizeof(dummy_tp)); memset(&dummy_tc, 0, sizeof(dummy_tc));
    dummy_tc.name = "C09task";
    snprintf(scen_name, sizeof(scen_name), "%s_L%d_P%d_D%d_depth%d_pv%d%s", modname, L, NP, ND, DEPTH, PV, RESCHED ? "" : "_nr");
    sx_system_t sys = { scen_name, NOPS, fresh, destroy, enabled, apply, canon, opname, DEPTH, 0 };
    if (sx_replay_file) {
        char sc[128], h[4096]; if (sx_read_replay(sx_replay_file, sc, sizeof(sc), h, sizeof(h))) return 2;
        DEPTH = 60; return sx_replay_named(&sys, h);
    }
    sx_stats_t st; sx_bfs(&sys, &st);
    return sx_finish();
}
