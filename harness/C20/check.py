META = dict(
    engine='seqx',
    technique='exhaustive enumeration of a finite parameter box on the real distribution descriptors: one descriptor per rank view (myrank = 0..nodes-1), interrogated only through the parsec_data_collection_t function pointers, checked against a set-based ownership/storage oracle',
    level_text='For every point of the stated box (2D block-cyclic with k-cyclicity and grid offsets, its k-cyclic view, symmetric upper/lower, band, symmetric band, tabular with every table over <=4 tiles x <=3 ranks, vector row/col/diag; submatrix views; every nb_vp in {1,2,3,4,6}) the real descriptors of ALL ranks are built and compared: same valid owner on every view, pairwise disjoint storage inside the local allocation on the owner, number of owned tiles = nb_local_tiles, data_key injective and mapping back to the coordinates, *_of_key twins agree, vpid_of in [0,nb_vp).',
    level_note='Tile storage (PARSEC_MATRIX_TILE) only; nb_vp is injected by interposing parsec_vpmap_get_nb_vp (the functions under test read it only through that call); an assertion failure or crash of the real code on an in-box input counts as a violation; parameters outside the box (larger matrices, grids > 16 ranks, LAPACK storage) are not covered.',
)
RULE = ("full box, no sampling: states = parameter points, executions = per-rank descriptors built, transitions = accessor calls checked; "
        "a point is non-trivial when at least two ranks own tiles and some rank owns at least two; "
        "distinct outcomes = distinct (owner map, storage slot map, vpid map) signatures")


def build(ctx):
    return ctx.compile('hk-shm', 'c20', ['c20.c'], instr=False)


def known_ids():
    """ids of the C20 entries of /verif/known_findings.json (the harness attributes a failure to one of them only if the id is
    listed, the input lies in the finding's class, the message is its signature and everything else about that case still holds)"""
    import vlib
    return [f['id'] for f in vlib.known_findings() if f.get('property') == 'C20' and f.get('id')]


def check(ctx):
    exe = build(ctx)
    args = ['--outdir', '/verif/out', '--workers', '8']
    ids = known_ids()
    if ids:
        args += ['--known', ','.join(ids)]
    if ctx.tier == 'thorough':
        args += ['--thorough', '--deadline', '1100']
    else:
        args += ['--deadline', '80']
    ctx.run_engine(exe, args, label='c20', timeout=1700)
    return ctx.finish(RULE, ['tile storage; matrices are built with the constructors\' documented arguments only (symmetric: square matrix, square tiles, diagonal sub-blocks; band: offsets 0)',
                             'nb_vp supplied through an interposed parsec_vpmap_get_nb_vp'])


def replay(ctx, path, obj):
    import subprocess
    return subprocess.call([build(ctx), '--replay', path])
