import os, subprocess, threading

META = dict(
    engine='seqx+mp',
    technique='exhaustive enumeration of a finite box of (source descriptor, target descriptor, window, displacements) points executed on the real parsec_redistribute in one process per shard (one parsec_init), analytic element-wise reference oracle; multi-rank legs under mpiexec over a reduced box',
    level_text='Every point of the box (matrix sizes 1..6 x 1..6 elements for source and target independently, square tiles of 1,2,3 elements and (2D block-cyclic, sizes <= 4x4 quick / 6x6 thorough) rectangular tiles 1x2 2x1 1x3 3x1 2x3 3x2 on either side, every window size and every source/target displacement that fits, 2D block-cyclic and symmetric block-cyclic (SBC lower/upper) descriptors on both sides, k-cyclic columns) is executed through the real parsec_redistribute (wrapper, redistribute.jdf general path and redistribute_reshuffle.jdf fast path); after each call every element of every stored target tile (padding of partial tiles included) is compared with the reference: source value inside the window, pre-filled sentinel outside; the source must be unchanged. Multi-rank legs (2, 3, 4 MPI ranks, all process grids) repeat this on a reduced box.',
    level_note='Element type double, tile storage (PARSEC_MATRIX_TILE); LAPACK storage, tabular descriptors and the DTD variant are not covered; message timing in the multi-rank legs is whatever MPI produces (not enumerated); quick tier bounds the matrix sizes by 5.',
)
RULE = ("one state = one point (source descriptor, target descriptor, window size, source displacement, target displacement) of the box, all points enumerated; "
        "transitions = target/source elements compared with the reference; a point is non-trivial when a displacement is not tile aligned or the window spans "
        "more than one source or target tile; outcomes = distinct (final target content, taskpool used) hashes, united over shards")

ENV = dict(os.environ, OMPI_ALLOW_RUN_AS_ROOT='1', OMPI_ALLOW_RUN_AS_ROOT_CONFIRM='1', PARSEC_MCA_bind_threads='0')
ALLD = 'bc,sbcL,sbcU'
SS = 'sbcL-to-sbcL,sbcL-to-sbcU,sbcU-to-sbcL,sbcU-to-sbcU,'


def build(ctx):
    return ctx.compile('hk-mpi', 'redist', ['redist_h.c'], instr=False, mpi=True, ldflags=['-ldl'])


def mpirun(n):
    return ['mpiexec', '-n', str(n), '--oversubscribe'] if n > 1 else []


class Wrapped:
    """run_engine wants an executable path: wrap 'mpiexec -n N exe' in a tiny script"""
    def __init__(self, ctx, exe, n):
        self.path = exe
        if n > 1:
            self.path = os.path.join('/verif/out/bin', 'C21-redist-np%d.sh' % n)
            with open(self.path, 'w') as f:
                f.write('#!/bin/sh\nexec mpiexec -n %d --oversubscribe %s "$@"\n' % (n, exe))
            os.chmod(self.path, 0o755)


def run_parallel(ctx, jobs):
    """jobs: list of (exe, args, label, timeout); each goes through ctx.run_engine in its own thread"""
    ths = []
    for exe, args, label, tmo in jobs:
        t = threading.Thread(target=ctx.run_engine, args=(exe, args), kwargs=dict(label=label, timeout=tmo, env=ENV))
        t.start(); ths.append(t)
    for t in ths:
        t.join()


def merge_shards(ctx, prefix, outfiles):
    """merge the legs of the shard processes (same scenario name) into one leg per scenario"""
    outcomes = {}
    for f in outfiles:
        if os.path.exists(f):
            for line in open(f):
                tag, h = line.split()
                outcomes.setdefault(tag, set()).add(h)
            os.unlink(f)
    merged, keep = {}, []
    for l in ctx.legs:
        if not str(l.get('leg', '')).startswith(prefix):
            keep.append(l); continue
        m = merged.get(l['name'])
        if m is None:
            m = merged[l['name']] = dict(l); m['leg'] = prefix.rstrip('-'); m['shards'] = 1; m.pop('shard', None)
            m['samples'] = list(l.get('samples', []))
            continue
        m['shards'] += 1
        for k in ('states', 'transitions', 'executions', 'nontrivial', 'violations', 'descriptor_pairs', 'reshuffle_path', 'general_path',
                  'unaligned_disp', 'multi_source_tiles', 'multi_target_tiles', 'elements_checked'):
            m[k] = m.get(k, 0) + l.get(k, 0)
        m['exhaustive'] = bool(m['exhaustive'] and l['exhaustive'])
        m['wall_s'] = max(m['wall_s'], l['wall_s'])
        m['samples'] = (m['samples'] + list(l.get('samples', [])))[:3]
    for name, m in merged.items():
        if name in outcomes:
            m['distinct_outcomes'] = len(outcomes[name])
        keep.append(m)
    ctx.legs[:] = keep


def check(ctx):
    exe = build(ctx)
    quick = ctx.tier == 'quick'
    res = '/verif/out/res'
    # ---- leg S: single process per shard, one parsec_init each, the whole box ----
    jobs, outfiles = [], []

    RECT = '12,21,13,31,23,32'     # rectangular tiles mb x nb (code mb*10+nb): pairs of equal area and different shape included (seeded change C21-1)

    def shards(tag, nsh, box, dl, tiles='1,2,3'):
        for k in range(nsh):
            of = os.path.join(res, 'C21-outcomes-%s%d.txt' % (tag, k))
            if os.path.exists(of):
                os.unlink(of)
            outfiles.append(of)
            jobs.append((exe, box + ['--tiles', tiles, '--shard', '%d/%d' % (k, nsh), '--outcomes', of, '--outdir', '/verif/out', '--deadline', str(dl)],
                         'S-%s%d' % (tag, k), dl + 600))
    if quick:
        # quick box: 2DBC -> 2DBC with matrix sizes <= 5; the eight pairs involving SBC descriptors with sizes <= 4
        shards('a', 5, ['--maxm', '5', '--ydist', 'bc', '--tdist', 'bc'], 65)
        shards('b', 2, ['--maxm', '4', '--ydist', ALLD, '--tdist', ALLD, '--skip', 'bc-to-bc,' + SS], 65)
        shards('c', 1, ['--maxm', '4', '--ydist', 'sbcL,sbcU', '--tdist', 'sbcL,sbcU'], 65)
        shards('r', 3, ['--maxm', '4', '--ydist', 'bc', '--tdist', 'bc'], 65, RECT)
    else:
        # thorough box: every distribution pair with sizes <= 6x6; k-cyclic columns (kq 2 on either side) for 2DBC -> 2DBC with sizes <= 5x5
        shards('a', 4, ['--maxm', '6', '--ydist', 'bc', '--tdist', 'bc'], 750)
        shards('b', 4, ['--maxm', '6', '--ydist', ALLD, '--tdist', ALLD, '--skip', 'bc-to-bc,' + SS], 750)
        shards('c', 2, ['--maxm', '6', '--ydist', 'sbcL,sbcU', '--tdist', 'sbcL,sbcU'], 750)
        shards('d', 2, ['--maxm', '5', '--ydist', 'bc', '--tdist', 'bc', '--kq', '1,2', '--skip-k11'], 750)
        shards('r', 3, ['--maxm', '6', '--ydist', 'bc', '--tdist', 'bc'], 750, RECT + ',2')
    # ---- legs M: multi-rank, reduced boxes ----
    mjobs = []
    if quick:
        mjobs.append((Wrapped(ctx, exe, 2).path, ['--minm', '4', '--maxm', '4', '--tiles', '2,3', '--grids', '1,2,2,1', '--reduced',
                                                   '--outdir', '/verif/out', '--deadline', '50'], 'M-np2', 600))
        run_parallel(ctx, jobs + mjobs)
    else:
        run_parallel(ctx, jobs)
        mdl = 420
        common = ['--outdir', '/verif/out', '--deadline', str(mdl)]
        mjobs.append((Wrapped(ctx, exe, 2).path, ['--minm', '6', '--maxm', '6', '--tiles', '2,3', '--grids', '1,2,2,1'] + common, 'M-np2', mdl + 900))
        mjobs.append((Wrapped(ctx, exe, 2).path, ['--minm', '6', '--maxm', '6', '--tiles', '2,3', '--grids', '1,2,2,1', '--reduced', '--ydist', ALLD, '--tdist', ALLD] + common, 'M-np2s', mdl + 900))
        mjobs.append((Wrapped(ctx, exe, 3).path, ['--minm', '6', '--maxm', '6', '--tiles', '2,3', '--grids', '1,3,3,1', '--reduced', '--ydist', 'bc', '--tdist', ALLD] + common, 'M-np3', mdl + 900))
        mjobs.append((Wrapped(ctx, exe, 4).path, ['--minm', '6', '--maxm', '6', '--tiles', '2,3', '--grids', '2,2,1,4,4,1', '--reduced'] + common, 'M-np4', mdl + 900))
        run_parallel(ctx, mjobs)
    merge_shards(ctx, 'S-', outfiles)
    return ctx.finish(RULE, ["element type double, tile storage; windows lie inside the matrices (and inside the stored triangle of SBC descriptors, as the wrapper requires)",
                             "multi-rank legs: message timing is not controlled (real MPI), displacements restricted to {0, middle, largest} per dimension",
                             "one taskpool at a time on one execution stream per process (parsec_init with 1 core)"])


def replay(ctx, path, obj):
    import re
    exe = build(ctx)
    np_ = int(re.search(r'np=(\d+)', obj['history']).group(1))
    return subprocess.call(mpirun(np_) + [exe, '--replay', path], env=ENV)
