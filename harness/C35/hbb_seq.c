/* C35 (E2 leg): hierarchical bounded buffers never lose a task and pop the best; the scheduler max-heap returns every task
 * exactly once across splits and keeps its top at the highest priority. Sequential BFS to closure on the REAL
 * parsec/hbbuffer.c and parsec/maxheap.c (functions of libparsec built from /repo's working tree). */
#include "parsec/parsec_config.h"
#include "parsec/parsec_internal.h"
#include "parsec/hbbuffer.h"
#include "parsec/maxheap.h"
#include "guard.h"
#include <stddef.h>

#ifndef NT
#define NT 5                   /* tasks */
#endif
#define MAXSLOTS 4
#define MAXRING 3
#define FAIL(...) do { snprintf(err, SX_ERRLEN, __VA_ARGS__); return 1; } while (0)

static int prios[NT];
static const int PRIOSETS[][8] = { { 1, 2, 2, 3, 3, 1, 2, 3 }, { 2, 2, 2, 2, 2, 2, 2, 2 }, { 5, 4, 3, 2, 1, 0, -1, -2 }, { -1, 0, 0, 7, -1, 7, 0, 3 } };
#define NPRIOSETS 4

/* =========================== hbbuffer =========================== */
enum { B_PUSH_ALL, B_PUSH_PRIO, B_POP };
typedef struct { int kind, dist, n, r[MAXRING]; } bop_t;
static bop_t bops[256]; static int nbops; static int BSIZE = 2;

typedef struct {
    parsec_hbbuffer_t *b; parsec_task_t *t; int slot_of[NT];     /* model: slot index or -1 */
    /* what the parent store received during the current operation */
    int got[NT], ngot, ncalls, gotdist; char perr[200];
} bobj_t;
static int b_idof(bobj_t *o, volatile void *p) { parsec_task_t *t = (parsec_task_t *)p; if (t < o->t || t >= o->t + NT || ((char *)t - (char *)o->t) % sizeof(parsec_task_t)) return -1; return (int)(t - o->t); }

static void parent_push(void *store, parsec_list_item_t *elt, int32_t distance)
{
    bobj_t *o = store; o->ncalls++; o->gotdist = distance;
    if (!elt) { snprintf(o->perr, sizeof(o->perr), "parent store received a NULL ring"); return; }
    volatile parsec_list_item_t *x = elt; int n = 0;
    do {
        int id = b_idof(o, x);
        if (id < 0) { snprintf(o->perr, sizeof(o->perr), "ring given to the parent store reaches a pointer that is not a task"); return; }
        if (n++ >= NT) { snprintf(o->perr, sizeof(o->perr), "ring given to the parent store does not close"); return; }
        if (o->ngot < NT) o->got[o->ngot++] = id;
        if (x->list_next->list_prev != x) { snprintf(o->perr, sizeof(o->perr), "ring given to the parent store has inconsistent prev links at task %d", id); return; }
        x = x->list_next;
    } while (x != elt);
}
static void *b_fresh(void)
{
    bobj_t *o = calloc(1, sizeof(bobj_t)); o->t = calloc(NT, sizeof(parsec_task_t));
    for (int i = 0; i < NT; i++) { PARSEC_OBJ_CONSTRUCT(&o->t[i].super, parsec_list_item_t); o->t[i].priority = prios[i]; o->slot_of[i] = -1; }
    o->b = parsec_hbbuffer_new(BSIZE, 1, parent_push, o);
    g_hist_reset();
    return o;
}
static void b_destroy(void *p) { bobj_t *o = p; parsec_hbbuffer_destruct(o->b); free(o->t); free(o); }
static void b_opname(int op, char *b, size_t cap)
{
    bop_t *d = &bops[op]; if (d->kind == B_POP) { snprintf(b, cap, "pop"); return; }
    int n = snprintf(b, cap, "%s%d", d->kind == B_PUSH_ALL ? "push" : "pushprio", d->dist);
    for (int i = 0; i < d->n; i++) n += snprintf(b + n, cap - n, "%c%d", i ? ',' : ':', d->r[i]);
}
static int b_enabled(void *p, int op) { bobj_t *o = p; bop_t *d = &bops[op]; for (int i = 0; i < d->n; i++) if (o->slot_of[d->r[i]] >= 0) return 0; return 1; }
static long obs_overflow, obs_eject, obs_notbest;
static int b_apply(void *p, int op, char *err)
{
    bobj_t *o = p; bop_t *d = &bops[op]; char nm[64]; b_opname(op, nm, sizeof(nm)); g_hist_add(nm);
    o->ngot = o->ncalls = 0; o->perr[0] = 0;
    int held_before = 0; for (int i = 0; i < NT; i++) held_before += o->slot_of[i] >= 0;
    if (d->kind == B_POP) {
        G_OP_BEGIN(); parsec_list_item_t *it = parsec_hbbuffer_pop_best(o->b, parsec_execution_context_priority_comparator); G_OP_END();
        int best = -1000000; for (int i = 0; i < NT; i++) if (o->slot_of[i] >= 0 && prios[i] > best) best = prios[i];
        if (!held_before) { if (it) FAIL("pop_best on an empty buffer returned a pointer"); }
        else {
            if (!it) FAIL("pop_best returned NULL although the buffer holds %d tasks", held_before);
            int id = b_idof(o, it); if (id < 0) FAIL("pop_best returned a pointer that is not a task");
            if (o->slot_of[id] < 0) FAIL("pop_best returned task %d which the buffer does not hold", id);
            if (prios[id] != best) FAIL("pop_best returned task %d of priority %d although the buffer holds priority %d", id, prios[id], best);
            o->slot_of[id] = -1;
        }
        if (o->ncalls) FAIL("pop_best pushed something to the parent store");
    } else {
        parsec_list_item_t *ring = PARSEC_LIST_ITEM_SINGLETON(&o->t[d->r[0]].super);
        for (int i = 1; i < d->n; i++) { PARSEC_LIST_ITEM_SINGLETON(&o->t[d->r[i]].super); parsec_list_item_ring_push(ring, &o->t[d->r[i]].super); }
        G_OP_BEGIN();
        if (d->kind == B_PUSH_ALL) parsec_hbbuffer_push_all(o->b, ring, d->dist); else parsec_hbbuffer_push_all_by_priority(o->b, ring, d->dist);
        G_OP_END();
        if (o->perr[0]) FAIL("%s", o->perr);
        if (o->ncalls > 1) FAIL("the parent store was called %d times by one push", o->ncalls);
        if (o->ncalls && o->gotdist != d->dist - 1) FAIL("parent store called with distance %d, expected %d", o->gotdist, d->dist - 1);
        /* conservation: (held before) + (ring) == (in buffer now) + (given to parent), as sets without duplicates */
        int where[NT]; for (int i = 0; i < NT; i++) where[i] = 0;       /* bit0: in buffer now, bit1: given to parent */
        int nheld = 0;
        for (int s = 0; s < BSIZE; s++) { volatile parsec_list_item_t *x = o->b->items[s]; if (!x) continue; int id = b_idof(o, x); if (id < 0) FAIL("slot %d holds a pointer that is not a task", s); if (where[id] & 1) FAIL("task %d sits in two slots", id); where[id] |= 1; nheld++; }
        for (int i = 0; i < o->ngot; i++) { if (where[o->got[i]] & 2) FAIL("task %d was given twice to the parent store", o->got[i]); where[o->got[i]] |= 2; }
        for (int i = 0; i < NT; i++) {
            int pushed = 0; for (int j = 0; j < d->n; j++) if (d->r[j] == i) pushed = 1;
            int expect = pushed || o->slot_of[i] >= 0;
            if (where[i] == 3) FAIL("task %d is both in the buffer and in the parent store (duplicated)", i);
            if (expect && !where[i]) FAIL("task %d was lost: neither in the buffer nor given to the parent store", i);
            if (!expect && where[i]) FAIL("task %d appeared from nowhere", i);
            if (d->kind == B_PUSH_ALL && o->slot_of[i] >= 0 && !(where[i] & 1)) FAIL("push_all displaced task %d that was already in the buffer", i);
        }
        if (d->dist != 0) { if (o->ngot != d->n || nheld != held_before) FAIL("push with distance %d must hand the whole ring to the parent store (%d of %d handed)", d->dist, o->ngot, d->n); }
        else if (o->ngot && nheld != BSIZE) FAIL("tasks overflowed to the parent store although the buffer has a free slot");
        if (o->ngot && d->dist == 0) { obs_overflow++; for (int i = 0; i < NT; i++) if (where[i] == 2 && o->slot_of[i] >= 0) { obs_eject++; break; } }
        /* observation only: by-priority push keeps the best BSIZE tasks */
        if (d->kind == B_PUSH_PRIO && d->dist == 0) { int minin = 1000000, maxout = -1000000; for (int i = 0; i < NT; i++) { if (where[i] == 1 && prios[i] < minin) minin = prios[i]; if (where[i] == 2 && prios[i] > maxout) maxout = prios[i]; } if (maxout > minin) obs_notbest++; }
        for (int i = 0; i < NT; i++) o->slot_of[i] = -1;
        for (int s = 0; s < BSIZE; s++) if (o->b->items[s]) o->slot_of[b_idof(o, o->b->items[s])] = s;
    }
    /* common: slots agree with the model, occupancy */
    int cnt = 0;
    for (int s = 0; s < BSIZE; s++) { volatile parsec_list_item_t *x = o->b->items[s]; if (!x) continue; int id = b_idof(o, x); if (id < 0 || o->slot_of[id] != s) FAIL("slot %d content disagrees with the model", s); cnt++; }
    for (int i = 0; i < NT; i++) if (o->slot_of[i] >= 0 && b_idof(o, o->b->items[o->slot_of[i]]) != i) FAIL("task %d vanished from slot %d", i, o->slot_of[i]);
    if (parsec_hbbuffer_approx_occupency(o->b) != cnt) FAIL("approx_occupency = %lld with %d tasks held", parsec_hbbuffer_approx_occupency(o->b), cnt);
    if (parsec_hbbuffer_is_empty(o->b) != (cnt == 0)) FAIL("is_empty disagrees with %d tasks held", cnt);
    return 0;
}
static size_t b_canon(void *p, char *b, size_t cap) { bobj_t *o = p; (void)cap; for (int s = 0; s < BSIZE; s++) { int id = o->b->items[s] ? b_idof(o, o->b->items[s]) : -1; b[s] = (char)(id < 0 ? '.' : '0' + id); } return BSIZE; }

static void b_add_rings(int kind, int dist, int maxlen)
{
    for (int len = 1; len <= maxlen; len++) {
        int idx[MAXRING] = {0};
        for (;;) {
            int ok = 1; for (int i = 0; i < len; i++) for (int j = 0; j < i; j++) if (idx[i] == idx[j]) ok = 0;
            if (kind == B_PUSH_PRIO) for (int i = 0; i + 1 < len; i++) if (prios[idx[i]] < prios[idx[i + 1]]) ok = 0;    /* contract: the ring is in decreasing priority order */
            if (ok) { if (nbops >= 255) { fprintf(stderr, "alphabet too large\n"); exit(2); } bop_t *d = &bops[nbops++]; d->kind = kind; d->dist = dist; d->n = len; for (int i = 0; i < len; i++) d->r[i] = idx[i]; }
            int c = len - 1; while (c >= 0 && ++idx[c] == NT) idx[c--] = 0; if (c < 0) break;
        }
    }
}
static void b_alphabet(void)
{
    nbops = 0; bops[nbops++].kind = B_POP;
    b_add_rings(B_PUSH_ALL, 0, NT > 5 ? 2 : 3); b_add_rings(B_PUSH_PRIO, 0, NT > 6 ? 2 : 3);
    b_add_rings(B_PUSH_ALL, 1, 1); b_add_rings(B_PUSH_PRIO, 1, 1); b_add_rings(B_PUSH_ALL, 2, 1);
}

/* =========================== max-heap =========================== */
#define NH 3                      /* heap slots (splits create new heaps) */
enum { H_INSERT, H_REMOVE, H_SPLIT };
typedef struct { int kind, a, s; } hop_t;
static hop_t hops[256]; static int nhops;
typedef struct { parsec_heap_t *h[NH]; parsec_task_t *t; int in[NT]; /* model: heap slot of each task or -1 */ } hobj_t;
static int h_idof(hobj_t *o, volatile void *p) { parsec_task_t *t = (parsec_task_t *)p; if (t < o->t || t >= o->t + NT || ((char *)t - (char *)o->t) % sizeof(parsec_task_t)) return -1; return (int)(t - o->t); }
static void *h_fresh(void)
{
    hobj_t *o = calloc(1, sizeof(hobj_t)); o->t = calloc(NT, sizeof(parsec_task_t));
    for (int i = 0; i < NT; i++) { PARSEC_OBJ_CONSTRUCT(&o->t[i].super, parsec_list_item_t); o->t[i].priority = prios[i]; o->in[i] = -1; }
    g_hist_reset();
    return o;
}
static void h_destroy(void *p) { hobj_t *o = p; for (int s = 0; s < NH; s++) free(o->h[s]); free(o->t); free(o); }
static void h_opname(int op, char *b, size_t cap) { hop_t *d = &hops[op]; if (d->kind == H_INSERT) snprintf(b, cap, "ins%d>h%d", d->a, d->s); else snprintf(b, cap, "%s%d", d->kind == H_REMOVE ? "rem" : "split", d->s); }
static int h_enabled(void *p, int op)
{
    hobj_t *o = p; hop_t *d = &hops[op];
    if (d->kind == H_INSERT) { if (o->in[d->a] >= 0) return 0; if (!o->h[d->s]) { for (int s = 0; s < d->s; s++) if (!o->h[s]) return 0; } return 1; }   /* a new heap is created in the first free slot only (symmetry) */
    if (!o->h[d->s]) return 0;
    if (d->kind == H_SPLIT) { for (int s = 0; s < NH; s++) if (!o->h[s]) return 1; return 0; }
    return 1;
}
/* walks the tree under x: marks members, checks the max-heap order; returns node count or -1 */
static int h_walk(hobj_t *o, parsec_task_t *x, int slot, int bound, int depth, int *mark, int *shape_ok, unsigned pos, unsigned size, char *err)
{
    if (!x) return 0;
    int id = h_idof(o, x); if (id < 0) { snprintf(err, SX_ERRLEN, "heap %d reaches a pointer that is not a task", slot); return -1; }
    if (depth > NT) { snprintf(err, SX_ERRLEN, "heap %d is deeper than its number of tasks (cycle)", slot); return -1; }
    if (mark[id]) { snprintf(err, SX_ERRLEN, "task %d is reachable twice (heap %d)", id, slot); return -1; }
    mark[id] = 1 + slot;
    if (prios[id] > bound) { snprintf(err, SX_ERRLEN, "heap %d: task %d (priority %d) sits below a task of priority %d", slot, id, prios[id], bound); return -1; }
    if (pos > size) *shape_ok = 0;
    int l = h_walk(o, (parsec_task_t *)x->super.list_prev, slot, prios[id], depth + 1, mark, shape_ok, 2 * pos, size, err); if (l < 0) return -1;
    int r = h_walk(o, (parsec_task_t *)x->super.list_next, slot, prios[id], depth + 1, mark, shape_ok, 2 * pos + 1, size, err); if (r < 0) return -1;
    return 1 + l + r;
}
static int h_check(hobj_t *o, char *err)
{
    int mark[NT] = {0};
    for (int s = 0; s < NH; s++) {
        parsec_heap_t *h = o->h[s]; int want = 0, best = -1000000; for (int i = 0; i < NT; i++) if (o->in[i] == s) { want++; if (prios[i] > best) best = prios[i]; }
        if (!h) { if (want) FAIL("heap %d was destroyed while the model still has %d tasks in it", s, want); continue; }
        if (!h->top) FAIL("heap %d exists with no top (an emptied heap must be destroyed)", s);
        int shape_ok = 1; int n = h_walk(o, h->top, s, 1000000, 0, mark, &shape_ok, 1, h->size, err); if (n < 0) return 1;
        if (n != want) FAIL("heap %d holds %d tasks, model %d", s, n, want);
        if ((int)h->size != n) FAIL("heap %d: size field %u, %d tasks reachable", s, h->size, n);
        if (!shape_ok) FAIL("heap %d is not a complete tree for its size %u (insert/remove navigate by size)", s, h->size);
        if (h->top->priority != best) FAIL("heap %d: top has priority %d, best held priority is %d", s, h->top->priority, best);
        if ((int)h->priority != best) FAIL("heap %d: priority field %d, best held priority is %d", s, (int)h->priority, best);
    }
    for (int i = 0; i < NT; i++) { if (o->in[i] >= 0 && mark[i] != 1 + o->in[i]) FAIL("task %d should be in heap %d but is %s", i, o->in[i], mark[i] ? "in another heap" : "lost"); if (o->in[i] < 0 && mark[i]) FAIL("task %d is in heap %d but was removed / never inserted", i, mark[i] - 1); }
    return 0;
}
static int h_apply(void *p, int op, char *err)
{
    hobj_t *o = p; hop_t *d = &hops[op]; char nm[64]; h_opname(op, nm, sizeof(nm)); g_hist_add(nm);
    G_OP_BEGIN();
    if (d->kind == H_INSERT) {
        if (!o->h[d->s]) o->h[d->s] = heap_create();
        heap_insert(o->h[d->s], &o->t[d->a]); o->in[d->a] = d->s;
    } else {
        int s = d->s, best = -1000000, cnt = 0; for (int i = 0; i < NT; i++) if (o->in[i] == s) { cnt++; if (prios[i] > best) best = prios[i]; }
        parsec_heap_t *nh = NULL; parsec_task_t *t;
        if (d->kind == H_REMOVE) t = heap_remove(&o->h[s]); else t = heap_split_and_steal(&o->h[s], &nh);
        G_OP_END();
        if (!t) FAIL("%s on a heap of %d tasks returned NULL", d->kind == H_REMOVE ? "heap_remove" : "heap_split_and_steal", cnt);
        int id = h_idof(o, t); if (id < 0) FAIL("returned pointer is not a task");
        if (o->in[id] != s) FAIL("returned task %d is not in heap %d (returned twice or foreign)", id, s);
        if (prios[id] != best) FAIL("returned task %d of priority %d although the heap holds priority %d", id, prios[id], best);
        if (t->super.list_next != &t->super || t->super.list_prev != &t->super) FAIL("returned task %d is not a singleton ring", id);
        o->in[id] = -1;
        if (cnt == 1 && o->h[s]) FAIL("heap %d not destroyed after its last task was taken", s);
        if (cnt > 1 && !o->h[s]) FAIL("heap %d destroyed although %d tasks remain", s, cnt - 1);
        if (nh) {   /* tasks reachable from the new heap move to a free slot of the model */
            int ns = -1; for (int k = 0; k < NH; k++) if (!o->h[k] && k != s) { ns = k; break; }
            if (ns < 0) { for (int k = 0; k < NH; k++) if (!o->h[k]) ns = k; }
            if (ns < 0) FAIL("internal: no free heap slot");
            o->h[ns] = nh;
            int mark[NT] = {0}, shape = 1; if (h_walk(o, nh->top, ns, 1000000, 0, mark, &shape, 1, nh->size, err) < 0) return 1;
            for (int i = 0; i < NT; i++) if (mark[i]) { if (o->in[i] != s) FAIL("split moved task %d which was not in heap %d", i, s); o->in[i] = ns; }
            if (d->kind == H_SPLIT && cnt < 3) FAIL("split of a heap of %d tasks created a new heap", cnt);
            /* documented: the two heaps are linked as a two-element ring */
            if (o->h[s] && (o->h[s]->list_item.list_next != &nh->list_item || nh->list_item.list_next != &o->h[s]->list_item || o->h[s]->list_item.list_prev != &nh->list_item || nh->list_item.list_prev != &o->h[s]->list_item)) FAIL("after a split the two heaps are not chained as a two-element ring");
        } else if (d->kind == H_SPLIT && cnt >= 3) FAIL("split of a heap of %d tasks did not create a second heap", cnt);
    }
    G_OP_END();
    G_OP_BEGIN(); int rc = h_check(o, err); G_OP_END();
    return rc;
}
static size_t h_canon_sub(hobj_t *o, parsec_task_t *x, char *b, size_t off, int depth)
{
    if (!x || depth > NT) { b[off++] = '.'; return off; }
    b[off++] = (char)('0' + h_idof(o, x));
    off = h_canon_sub(o, (parsec_task_t *)x->super.list_prev, b, off, depth + 1);
    return h_canon_sub(o, (parsec_task_t *)x->super.list_next, b, off, depth + 1);
}
static size_t h_canon(void *p, char *b, size_t cap)
{   /* heaps are interchangeable: sort the per-heap encodings */
    hobj_t *o = p; (void)cap; char enc[NH][64]; int n = 0;
    for (int s = 0; s < NH; s++) if (o->h[s]) { size_t l = h_canon_sub(o, o->h[s]->top, enc[n], 0, 0); enc[n][l] = 0; n++; }
    for (int i = 1; i < n; i++) for (int j = i; j > 0 && strcmp(enc[j - 1], enc[j]) > 0; j--) { char t[64]; strcpy(t, enc[j]); strcpy(enc[j], enc[j - 1]); strcpy(enc[j - 1], t); }
    size_t off = 0; for (int i = 0; i < n; i++) { size_t l = strlen(enc[i]); memcpy(b + off, enc[i], l); off += l; b[off++] = '|'; }
    return off;
}
static void h_alphabet(void)
{
    nhops = 0;
    for (int i = 0; i < NT; i++) for (int s = 0; s < NH; s++) { hops[nhops].kind = H_INSERT; hops[nhops].a = i; hops[nhops++].s = s; }
    for (int s = 0; s < NH; s++) { hops[nhops].kind = H_REMOVE; hops[nhops++].s = s; hops[nhops].kind = H_SPLIT; hops[nhops++].s = s; }
}

/* =========================== driver =========================== */
static int setup(const char *name)
{
    int ps, n, sz;
    if (sscanf(name, "hbbuffer_size%d_p%d_n%d", &sz, &ps, &n) == 3 && n == NT && ps < NPRIOSETS && sz >= 1 && sz <= MAXSLOTS) { for (int i = 0; i < NT; i++) prios[i] = PRIOSETS[ps][i]; BSIZE = sz; b_alphabet(); return 1; }
    if (sscanf(name, "maxheap_p%d_n%d", &ps, &n) == 2 && n == NT && ps < NPRIOSETS) { for (int i = 0; i < NT; i++) prios[i] = PRIOSETS[ps][i]; h_alphabet(); return 2; }
    return 0;
}
int main(int argc, char **argv)
{
    sx_init(argc, argv, "C35");
    g_install();
    static char nm[64]; int only_heap = 0, only_buf = 0;
    for (int i = 1; i < argc; i++) { if (!strcmp(argv[i], "--heap")) only_heap = 1; if (!strcmp(argv[i], "--buffer")) only_buf = 1; }
    if (sx_replay_file) {
        char h[4096]; if (sx_read_replay(sx_replay_file, nm, sizeof(nm), h, sizeof(h))) return 2;
        int k = setup(nm); if (!k) { fprintf(stderr, "unknown scenario %s (this binary has %d tasks)\n", nm, NT); return 2; }
        sx_system_t sb = { nm, nbops, b_fresh, b_destroy, b_enabled, b_apply, b_canon, b_opname, 0, 0 }, sh = { nm, nhops, h_fresh, h_destroy, h_enabled, h_apply, h_canon, h_opname, 0, 0 };
        return sx_replay_named(k == 1 ? &sb : &sh, h);
    }
    int nps = sx_tier_thorough ? NPRIOSETS : 2;
    if (!only_heap) for (int sz = 1; sz <= MAXSLOTS; sz++) for (int ps = 0; ps < nps; ps++) {
        snprintf(nm, sizeof(nm), "hbbuffer_size%d_p%d_n%d", sz, ps, NT); g_scen = nm; setup(nm);
        obs_overflow = obs_eject = obs_notbest = 0;
        sx_system_t sys = { nm, nbops, b_fresh, b_destroy, b_enabled, b_apply, b_canon, b_opname, 0, 0 };
        sx_stats_t st; sx_bfs(&sys, &st);
        fprintf(stderr, "  observed (incl. prefix replays): pushes that overflowed to the parent %ld, of which ejected an incumbent %ld, by-priority pushes not keeping the best tasks %ld\n", obs_overflow, obs_eject, obs_notbest);
    }
    if (!only_buf) for (int ps = 0; ps < nps; ps++) {
        snprintf(nm, sizeof(nm), "maxheap_p%d_n%d", ps, NT); g_scen = nm; setup(nm);
        sx_system_t sys = { nm, nhops, h_fresh, h_destroy, h_enabled, h_apply, h_canon, h_opname, 0, 0 };
        sx_stats_t st; sx_bfs(&sys, &st);
    }
    return sx_finish();
}
