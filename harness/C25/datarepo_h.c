/* C25: data repository entries are reclaimed exactly when unused (E1/cosched on the real parsec/datarepo.c).
 *
 * Real data_repo_t (real dynamic hash table underneath), fake execution streams carrying real thread mempools
 * (parsec_mempool_construct, same geometry as parsec.c uses for vp->datarepo_mempools[nbdata]).
 * Threads play the runtime's protocol: a creator does lookup_entry_and_create -> fills its slot -> activates its
 * consumers (tickets) -> addto_usage_limit(number of consumers it activated); a consumer does entry_used_once
 * (possibly before the limit is announced, as in the runtime); several creators may create the same key
 * (reshape promises). Observers call data_repo_lookup_entry.
 */
#include "parsec/parsec_config.h"
#include "parsec/parsec_internal.h"
#include "parsec/datarepo.h"
#include "parsec/mempool.h"
#include "parsec/execution_stream.h"
#include "parsec/class/parsec_hash_table.h"
#include "parsec/utils/mca_param.h"
#include "cosched.h"
#include <stdio.h>
#include <string.h>
#include <stdlib.h>
#include <malloc.h>

#define NT 3
#define NBDATA 3
#define NKEYS 2
#define PREALLOC 2
enum { O_END = 0, O_CREATE, O_VERIFY, O_POST, O_ADDTO, O_TAKE, O_USE, O_LOOKUP };
static const char *onm[] = { "end", "create", "verify", "post", "addto", "take", "use", "lookup" };
typedef struct { int op, key, n; } step_t;
#define MAXSTEPS 10
typedef struct { const char *name; int nthreads; int quick_bound, thorough_bound; step_t script[NT][MAXSTEPS]; } scen_t;   /* bound 0 = not run in that tier */

static const scen_t *S;
static data_repo_t *repo;
static parsec_mempool_t mp;
static parsec_execution_stream_t *es[NT];
static void *elts[NT * PREALLOC]; static int nelts;
static parsec_key_t keys[NKEYS];
/* ground truth (harness-private, not watched) */
static int creates_returned[NKEYS], addto_started[NKEYS], addto_returned[NKEYS], announced_returned[NKEYS], announced_total[NKEYS];
static int uses_started[NKEYS], uses_returned[NKEYS], tickets[NKEYS];
static long events;
static data_repo_entry_t *myent[NT][NKEYS];
static char log_[NT][96]; static int nlog[NT];
static char seq_[160]; static int nseq;   /* order in which the operations returned (part of the outcome) */
#define SEQ(c) do { if (nseq < 150) nseq += snprintf(seq_ + nseq, 159 - nseq, "%d%c ", me, c); } while (0)
#define LOG(...) do { if (nlog[me] < 80) nlog[me] += snprintf(log_[me] + nlog[me], 95 - nlog[me], __VA_ARGS__); } while (0)

static int lockw[8], nlockw, lockw0;
static int leftover;
static void count_item(void *item, void *cb_data) { (void)item; (void)cb_data; leftover++; }
static int elt_id(void *p) { for (int i = 0; i < nelts; i++) if (elts[i] == p) return i; return -1; }
static uintptr_t tag_of(int t, int k) { return 0x1000u + 0x10u * (unsigned)t + (unsigned)k; }

static int must_find(int k)
{   /* definitely retained by a creator, or definitely fewer uses than announced */
    return (creates_returned[k] - addto_started[k] > 0) || (announced_returned[k] - uses_started[k] > 0);
}
static int all_done(int k)
{
    return creates_returned[k] == addto_returned[k] && addto_started[k] == addto_returned[k] && uses_returned[k] == announced_total[k] && uses_started[k] == uses_returned[k];
}

static void body(void *arg)
{
    int me = (int)(intptr_t)arg;
    for (int i = 0; S->script[me][i].op != O_END; i++) {
        const step_t *st = &S->script[me][i];
        int k = st->key; parsec_key_t key = keys[k];
        switch (st->op) {
        case O_CREATE: {
            events++;
            data_repo_entry_t *e = data_repo_lookup_entry_and_create(es[me], repo, key);
            creates_returned[k]++; events++;
            CS_CHECK(e != NULL && elt_id(e) >= 0, "lookup_entry_and_create returned %p which is not a mempool element", (void *)e);
            CS_CHECK(e->ht_item.key == key, "lookup_entry_and_create(key %d) returned an entry with another key", k);
            CS_CHECK(e->retained >= 1, "T%d: entry returned by lookup_entry_and_create is not retained (retained=%d)", me, e->retained);
            CS_CHECK(e->data[me] == NULL, "T%d: slot %d of the entry returned by create is not empty (%p): stale entry reused", me, me, (void *)e->data[me]);
            e->data[me] = (struct parsec_data_copy_s *)tag_of(me, k);
            myent[me][k] = e;
            LOG("c%d=e%d ", k, elt_id(e)); SEQ('c');
        } break;
        case O_VERIFY: {   /* while I hold the entry (between my create and my addto) it must be findable, be the same object, keep my data */
            data_repo_entry_t *e = myent[me][k];
            data_repo_entry_t *f = data_repo_lookup_entry(repo, key);
            CS_CHECK(f == e, "T%d holds entry e%d of key %d (created, limit not yet announced) but data_repo_lookup_entry returns %s", me, elt_id(e), k, f ? "another entry" : "NULL (entry was reclaimed)");
            CS_CHECK(e->data[me] == (struct parsec_data_copy_s *)tag_of(me, k), "T%d: data stored in the held entry of key %d was lost (entry reclaimed and recycled)", me, k);
        } break;
        case O_POST:
            tickets[k] += st->n; announced_total[k] += st->n;
            cs_point_here();
            break;
        case O_ADDTO: {
            data_repo_entry_t *e = myent[me][k];
            CS_CHECK(e->data[me] == (struct parsec_data_copy_s *)tag_of(me, k), "T%d: data stored in the held entry of key %d was lost before addto_usage_limit (entry reclaimed and recycled)", me, k);
            e->data[me] = NULL;
            addto_started[k]++; events++;
            data_repo_entry_addto_usage_limit(repo, key, (uint32_t)st->n);
            addto_returned[k]++; announced_returned[k] += st->n; events++;
            myent[me][k] = NULL; SEQ('a');
        } break;
        case O_TAKE:
            while (tickets[k] == 0) cs_wait();
            tickets[k]--;
            break;
        case O_USE:
            uses_started[k]++; events++;
            data_repo_entry_used_once(repo, key);
            uses_returned[k]++; events++; SEQ('u');
            break;
        case O_LOOKUP: {
            long ev0 = events; int mf0 = must_find(k), done0 = all_done(k);
            data_repo_entry_t *f = data_repo_lookup_entry(repo, key);
            int stable = (events == ev0);
            LOG("l%d=%s ", k, f ? "y" : "n");
            if (f) CS_CHECK(elt_id(f) >= 0 && f->ht_item.key == key, "lookup(key %d) returned a wrong object", k);
            if (stable && mf0) CS_CHECK(f != NULL, "lookup(key %d) returned NULL although the entry must exist (creators holding: %d, announced-and-returned uses %d > uses started %d)",
                                        k, creates_returned[k] - addto_started[k], announced_returned[k], uses_started[k]);
            if (stable && done0 && creates_returned[k] > 0) CS_CHECK(f == NULL, "lookup(key %d) still finds the entry after all creators released it and all %d announced uses happened", k, announced_total[k]);
        } break;
        }
    }
}

static void run_scen(const scen_t *s)
{
    S = s;
    memset(creates_returned, 0, sizeof(creates_returned)); memset(addto_started, 0, sizeof(addto_started)); memset(addto_returned, 0, sizeof(addto_returned));
    memset(announced_returned, 0, sizeof(announced_returned)); memset(announced_total, 0, sizeof(announced_total));
    memset(uses_started, 0, sizeof(uses_started)); memset(uses_returned, 0, sizeof(uses_returned)); memset(tickets, 0, sizeof(tickets));
    memset(myent, 0, sizeof(myent)); memset(log_, 0, sizeof(log_)); memset(nlog, 0, sizeof(nlog)); memset(seq_, 0, sizeof(seq_)); nseq = 0; events = 0; nelts = 0;
    /* two keys that fall into the same bucket of the 2-bucket table (hashsize hint 2 -> 1 bit) */
    repo = data_repo_create_nothreadsafe(2, parsec_hash_table_generic_key_fn, NULL, NBDATA);
    {   /* The bucket type is private to parsec_hash_table.c. Discover where the bucket locks live by taking them through the
         * public API and looking which 32-bit word of the bucket array flips 0 -> 1; pick key[1] colliding with key[0]. */
        parsec_key_handle_t kh; volatile int32_t *w = (volatile int32_t *)repo->table.rw_hash->buckets;
        int nw = (int)(malloc_usable_size(repo->table.rw_hash->buckets) / 4), nb = 1 << repo->table.rw_hash->nb_bits;
        keys[0] = (parsec_key_t)1; keys[1] = 0; nlockw = 0;
        for (uintptr_t c = 1; c < 64 && (nlockw < nb || keys[1] == 0); c++) {
            int before[64], found = -1;
            for (int i = 0; i < nw && i < 64; i++) before[i] = w[i];
            parsec_hash_table_lock_bucket_handle(&repo->table, (parsec_key_t)c, &kh);
            for (int i = 0; i < nw && i < 64; i++) if (w[i] != before[i]) { CS_CHECK(found < 0 && before[i] == 0 && w[i] == 1, "harness: cannot identify the bucket lock word"); found = i; }
            parsec_hash_table_unlock_bucket_handle(&repo->table, &kh);
            CS_CHECK(found >= 0 && w[found] == 0, "harness: bucket lock word not found");
            if (c == 1) lockw0 = found;
            else if (found == lockw0 && keys[1] == 0) keys[1] = (parsec_key_t)c;
            int known = 0; for (int i = 0; i < nlockw; i++) if (lockw[i] == found) known = 1;
            if (!known) lockw[nlockw++] = found;
        }
        CS_CHECK(keys[1] != 0 && nlockw == nb, "harness: bucket discovery failed (%d lock words for %d buckets)", nlockw, nb);
    }
    parsec_mempool_construct(&mp, NULL, sizeof(data_repo_entry_t) + (NBDATA - 1) * sizeof(void *), offsetof(data_repo_entry_t, data_repo_mempool_owner), NT);
    for (int t = 0; t < NT; t++) {
        es[t] = calloc(1, sizeof(parsec_execution_stream_t)); es[t]->th_id = t;
        es[t]->datarepo_mempools[NBDATA] = &mp.thread_mempools[t];
        void *x[PREALLOC];
        for (int j = 0; j < PREALLOC; j++) { x[j] = parsec_thread_mempool_allocate(&mp.thread_mempools[t]); elts[nelts++] = x[j]; }
        for (int j = 0; j < PREALLOC; j++) parsec_thread_mempool_free(&mp.thread_mempools[t], x[j]);
    }
    /* watched: the bucket locks, the three counters (usagecnt, usagelmt, retained) of every mempool element.
     * The mempool LIFO heads are not watched: a LIFO push/pop is atomic here (LIFO races are C30's and C27's subject).
     * Chain links and keys are only touched under the bucket lock and are not scheduling points. */
    for (int i = 0; i < nlockw; i++) cs_watch((int32_t *)repo->table.rw_hash->buckets + lockw[i], 4, "bucket_lock");
    for (int i = 0; i < nelts; i++) cs_watch((char *)elts[i] + offsetof(data_repo_entry_t, usagecnt), offsetof(data_repo_entry_t, retained) + sizeof(int32_t) - offsetof(data_repo_entry_t, usagecnt), "entry_counters");
    cs_body_t b[NT] = { body, body, body }; void *a[NT] = { (void *)0, (void *)1, (void *)2 };
    cs_run(s->nthreads, b, a);
    /* final state: every key whose creators all released and whose announced uses all happened is gone, exactly once */
    for (int k = 0; k < NKEYS; k++) {
        CS_CHECK(all_done(k) && tickets[k] == 0, "harness: script incomplete for key %d", k);
        data_repo_entry_t *f = data_repo_lookup_entry(repo, keys[k]);
        CS_CHECK(f == NULL, "key %d: all creators released the entry and all %d announced uses happened, but the entry is still in the repository (usagecnt=%d usagelmt=%d retained=%d): never reclaimed",
                 k, announced_total[k], f ? f->usagecnt : 0, f ? f->usagelmt : 0, f ? f->retained : 0);
    }
    leftover = 0; parsec_hash_table_for_all(&repo->table, count_item, NULL);
    CS_CHECK(leftover == 0, "%d item(s) left in the repository hash table at the end", leftover);
    int seen[NT * PREALLOC] = {0}, total = 0;
    for (int t = 0; t < NT; t++) {
        int n = 0;
        for (parsec_list_item_t *it = mp.thread_mempools[t].mempool.lifo_head.data.item; it; it = (parsec_list_item_t *)it->list_next) {
            int id = elt_id(it);
            CS_CHECK(id >= 0, "mempool %d free list contains an unknown pointer", t);
            CS_CHECK(!seen[id], "entry e%d appears twice in the mempool free lists: reclaimed twice", id);
            CS_CHECK(((data_repo_entry_t *)it)->data_repo_mempool_owner == &mp.thread_mempools[t], "entry e%d returned to a mempool that does not own it", id);
            seen[id] = 1; total++;
            CS_CHECK(++n <= nelts, "cycle in mempool %d free list", t);
        }
        CS_CHECK(mp.thread_mempools[t].nb_elt == PREALLOC, "thread mempool %d allocated %u elements, more than the %d needed: an entry leaked", t, mp.thread_mempools[t].nb_elt, PREALLOC);
    }
    CS_CHECK(total == nelts, "%d of %d entries are back in the mempools at the end: an entry was never reclaimed", total, nelts);
    cs_observe("%s|%s|%s order: %s", log_[0], log_[1], log_[2], seq_);
    data_repo_destroy_nothreadsafe(repo);
}

#define E {O_END,0,0}
static const scen_t scen[] = {
    /* ---- two-thread scripts: bound 2 in the quick tier, 3 in the thorough tier ---- */
    /* creator against its consumer: the use may come before or after the limit announcement */
    { "creator_vs_consumer", 2, 2, 3, {
        { {O_CREATE,0,0}, {O_POST,0,1}, {O_VERIFY,0,0}, {O_ADDTO,0,1}, E },
        { {O_TAKE,0,0}, {O_USE,0,0}, {O_LOOKUP,0,0}, E }, { E } } },
    /* two creators of one key (first-touch insertion race); the first also consumes the single announced use */
    { "two_creators_self_use", 2, 2, 3, {
        { {O_CREATE,0,0}, {O_POST,0,1}, {O_ADDTO,0,1}, {O_TAKE,0,0}, {O_USE,0,0}, E },
        { {O_CREATE,0,0}, {O_VERIFY,0,0}, {O_ADDTO,0,0}, E }, { E } } },
    /* two uses announced by one creator, performed by the other thread, observer lookups in the creator */
    { "creator_two_uses", 2, 2, 3, {
        { {O_CREATE,0,0}, {O_POST,0,2}, {O_ADDTO,0,2}, {O_LOOKUP,0,0}, E },
        { {O_TAKE,0,0}, {O_USE,0,0}, {O_TAKE,0,0}, {O_USE,0,0}, E }, { E } } },
    /* two keys in the same bucket, one thread each, self-consumed */
    { "two_keys_same_bucket", 2, 0, 3, {
        { {O_CREATE,0,0}, {O_POST,0,1}, {O_ADDTO,0,1}, {O_TAKE,0,0}, {O_USE,0,0}, {O_LOOKUP,1,0}, E },
        { {O_CREATE,1,0}, {O_POST,1,1}, {O_VERIFY,1,0}, {O_ADDTO,1,1}, {O_TAKE,1,0}, {O_USE,1,0}, E }, { E } } },
    /* ---- three-thread scripts: bound 1 in the quick tier, 2 in the thorough tier ---- */
    /* one creator, two consumers that may use the entry before the limit is announced */
    { "one_creator_two_consumers", 3, 0, 2, {
        { {O_CREATE,0,0}, {O_POST,0,2}, {O_ADDTO,0,2}, E },
        { {O_TAKE,0,0}, {O_USE,0,0}, E },
        { {O_TAKE,0,0}, {O_USE,0,0}, E } } },
    /* two creators of the same key race on the first-touch insertion; one consumer */
    { "two_creators_one_consumer", 3, 1, 2, {
        { {O_CREATE,0,0}, {O_POST,0,1}, {O_ADDTO,0,1}, E },
        { {O_CREATE,0,0}, {O_VERIFY,0,0}, {O_ADDTO,0,0}, E },
        { {O_TAKE,0,0}, {O_USE,0,0}, E } } },
    /* two creators, each activating one use (the second creator consumes after announcing) */
    { "two_creators_two_uses", 3, 0, 2, {
        { {O_CREATE,0,0}, {O_POST,0,1}, {O_VERIFY,0,0}, {O_ADDTO,0,1}, E },
        { {O_CREATE,0,0}, {O_POST,0,1}, {O_ADDTO,0,1}, {O_TAKE,0,0}, {O_USE,0,0}, E },
        { {O_TAKE,0,0}, {O_USE,0,0}, E } } },
    /* creator, consumer and an observer that looks the entry up three times */
    { "creator_consumer_observer", 3, 1, 2, {
        { {O_CREATE,0,0}, {O_POST,0,1}, {O_ADDTO,0,1}, E },
        { {O_TAKE,0,0}, {O_USE,0,0}, E },
        { {O_LOOKUP,0,0}, {O_LOOKUP,0,0}, {O_LOOKUP,0,0}, E } } },
    /* a creator without consumers (limit 0) against a second creator with one consumer; the entry may be reclaimed and re-created */
    { "zero_limit_and_recreate", 3, 0, 2, {
        { {O_CREATE,0,0}, {O_ADDTO,0,0}, {O_LOOKUP,0,0}, E },
        { {O_CREATE,0,0}, {O_POST,0,1}, {O_VERIFY,0,0}, {O_ADDTO,0,1}, E },
        { {O_TAKE,0,0}, {O_USE,0,0}, E } } },
    /* three creators of one key, no consumer: retained 1..3 up and down, first-touch insertion races */
    { "three_creators", 3, 1, 2, {
        { {O_CREATE,0,0}, {O_ADDTO,0,0}, E },
        { {O_CREATE,0,0}, {O_VERIFY,0,0}, {O_ADDTO,0,0}, E },
        { {O_CREATE,0,0}, {O_ADDTO,0,0}, E } } },
};
#define NSCEN ((int)(sizeof(scen) / sizeof(scen[0])))
#define R(i) static void run_##i(void) { run_scen(&scen[(i) < NSCEN ? (i) : 0]); }
R(0) R(1) R(2) R(3) R(4) R(5) R(6) R(7) R(8) R(9) R(10) R(11)
static void (*runners[])(void) = { run_0, run_1, run_2, run_3, run_4, run_5, run_6, run_7, run_8, run_9, run_10, run_11 };
static cs_scenario_t scenarios[12];
static void setup(void)
{
    parsec_mca_param_init();
    parsec_hash_tables_init();
}
int main(int argc, char **argv)
{
    int quick = getenv("C25_QUICK") && atoi(getenv("C25_QUICK")), n = 0;
    for (int i = 0; i < NSCEN; i++) {
        int b = quick ? scen[i].quick_bound : scen[i].thorough_bound;
        if (b == 0) continue;
        scenarios[n].name = scen[i].name; scenarios[n].run = runners[i]; scenarios[n].max_bound = b; n++;
    }
    return cs_main(argc, argv, "C25", scenarios, n, setup);
}
