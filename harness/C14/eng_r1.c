/* engine instance of virtual rank 1 */
#define VM_RANK 1
#include "eng_inst.h"
