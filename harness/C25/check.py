import os
META = dict(
    engine='cosched',
    technique='stateless model checking: preemption-bounded exhaustive schedule enumeration (CHESS) of the real data repository (datarepo.c over the real hash table and thread mempools)',
    level_text='Every schedule with <= b preemptions (b=2 quick, 3 thorough) of 2-3 thread creator/consumer/observer scripts (1-3 creators of one key, uses before and after the limit announcement, two keys in one bucket, re-creation after reclamation) over the real data_repo_t is executed; a held entry must stay findable, be the same object and keep its data; an entry with announced-but-missing uses must be findable; at the end every entry is absent from the table and back in its owning mempool exactly once.',
    level_note='Sequential consistency at instrumented accesses (bucket array, entry headers, mempool LIFO heads are scheduling points; the table rwlock is not); <= 3 threads, <= 5 operations per thread; scripts follow the runtime protocol (a use is activated by a creator that still holds the entry).',
)
RULE = ("cosched: every schedule of each 2-3 thread creator/consumer/observer script over the real data repository with at most b "
        "preemptions (scheduling points = every instrumented access to the hash-table buckets, the entries' headers and the mempool "
        "LIFO heads, plus harness hand-off points); non-trivial = at least one preemption; states = nodes of the explored schedule tree; "
        "outcomes = which mempool element each create returned and what each observer lookup saw")
ASSUME = ["sequential consistency at instrumented accesses (no weak-memory effects)",
          "gcc -fsanitize=thread instrumentation reports every access to the watched objects",
          "callers follow the repository protocol: used_once only for uses activated by a creator between its lookup_entry_and_create and its addto_usage_limit"]
SRC = ['datarepo_h.c']
def check(ctx):
    import vlib
    exe = ctx.compile('hk-shm', 'datarepo', SRC, engine='cosched')
    q = ctx.tier == 'quick'
    env = dict(os.environ); env['C25_QUICK'] = '1' if q else '0'
    deadline = 70 if q else 1080
    args = ['--bound', str(2 if q else 3), '--scenario', 'all', '--jobs', str(vlib.NJOBS), '--outdir', vlib.OUT, '--deadline', str(deadline)]
    ctx.run_engine(exe, args, label='datarepo', timeout=deadline + 600, env=env)
    return ctx.finish(RULE, ASSUME)
def replay(ctx, path, obj):
    import subprocess
    exe = ctx.compile('hk-shm', 'datarepo', SRC, engine='cosched')
    return subprocess.call([exe, '--replay', path])
