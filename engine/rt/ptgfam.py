"""Enumerated PTG-IR program families for C01 / C02 / C16 / C23 (never random).

Every family is an explicit product over a small feature grid; the reference interpreter validates each
member and members it refuses are dropped (their number is reported). `quick` selects a fixed sub-list
covering each feature, `thorough` takes the whole product.
"""
import itertools, os
from ptgir import Prog, Cls, Flow, Invalid


def NV(*ns):
    return [{'N': n} for n in ns]


def valid(progs):
    """Drop programs / variants the reference interpreter refuses. -> (kept, n_refused_variants)"""
    out, refused = [], 0
    only = os.environ.get('VERIF_PTG_ONLY')          # debugging aid: restrict every family to the named programs
    if only:
        progs = [p for p in progs if p.name in only.split(',')]
    for p in progs:
        ok = []
        for v in p.variants:
            try:
                p.interpret(v); ok.append(v)
            except Invalid:
                refused += 1
        if ok:
            p.variants = ok; out.append(p)
    return out, refused


# ----------------------------------------------------------------------------- execution-space shapes
# (name, parameter list, locals)  -- N is the only global
SHAPES = [
    ('lin',     'k',       ['k = 0 .. N-1']),
    ('step2',   'k',       ['k = 0 .. N-1 .. 2']),
    ('step3',   'k',       ['k = 1 .. N .. 3']),
    ('tri',     'i, j',    ['i = 0 .. N-1', 'j = 0 .. i']),
    ('tri2',    'i, j',    ['i = 0 .. N-1', 'j = i .. N-1 .. 2']),
    ('triE',    'i, j',    ['i = 0 .. N-1', 'j = 0 .. i-1']),          # empty inner range for i = 0
    ('empty',   'k',       ['k = 0 .. N-2']),                           # empty class for N = 1
    ('never',   'k',       ['k = 1 .. 0']),                             # always empty
    ('derl',    'k',       ['k = 0 .. N-1', 'n = k+1']),                # derived local, not a parameter
    ('derp',    'k, n',    ['k = 0 .. N-1', 'n = 2*k']),                # derived local that is a parameter
    ('lidx',    'o',       ['o = [ i = 0 .. N-1 ] 2*i+1']),             # local index
    ('bigstep', 's',       ['s = 0 .. N .. N+1']),                      # one value
    ('nest3',   'i, j, l', ['i = 0 .. N-1', 'j = 0 .. 1', 'l = j .. i']),
    ('inl',     'k',       ['k = %{ return 0; %} .. %{ return N-1; %}']),
    ('neg',     'k',       ['k = -2 .. N-3']),                          # negative bounds
    ('swap',    'p, k',    ['k = 0 .. N-1', 'p = 0 .. 1']),             # declaration order differs from the parameter order
    ('estep',   'k',       ['k = 0 .. N-1 .. %{ return 2; %}']),        # step given by an inline expression
    ('mid',     'i, m, j', ['i = 0 .. N-1', 'm = i+1', 'j = 0 .. m-1']),  # derived parameter between two ranges
]
NEG_SHAPES = [
    ('down',    'k',       ['k = N-1 .. 0 .. -1']),
    ('down2',   'i, j',    ['i = 0 .. N-1', 'j = i .. 0 .. -1']),
    ('downs',   'k',       ['k = 2*N .. 0 .. -2']),
]


# ptgpp -M index-array emits C that does not compile when a derived (non-range) parameter is followed by another
# parameter (internal_init refers to an undeclared __<name>_min): such shapes are only built with the hash back-end.
HT_ONLY = {'mid'}


def shape_prog(shape, succ, tag='sp', variants=None, prio=None, props=None):
    """One class S over the shape (every instance is a start-up task); succ: also a class Z of the same shape fed by S."""
    nm, params, locs = shape
    pl = [x.strip() for x in params.split(',')]
    args = ', '.join(pl)
    S = Cls('S(%s)' % params, locs, 'A(0)', [Flow('READ T', ['A(0)'], ['T Z(%s)' % args] if succ else [])], prio=prio, props=props)
    cl = [S]
    if succ:
        cl.append(Cls('Z(%s)' % params, locs, 'A(0)', [Flow('READ T', ['T S(%s)' % args])], props=props))
    p = Prog('%s_%s%s' % (tag, nm, 'z' if succ else ''), {'A': '1'}, ['N'], variants or NV(1, 2, 3), cl, tags=['shape', nm])
    if nm in HT_ONLY:
        p.backends = ('ht',)
    return p


# ----------------------------------------------------------------------------- start-up condition grid
CONDS = {'first': 'k == 0', 'odd': '(k % 2) == 1', 'notlast': 'k < N-1'}


def neg(c):
    return '!(%s)' % c


def flow_form(form, fname, cond, mem, prod):
    """-> (input deps of T's flow, output dep of the producer towards T or None, flow mode)"""
    c = CONDS[cond]
    t = '%s %s(k)' % (fname, prod)
    if form == 'mem':  return (['%s(k)' % mem], None)
    if form == 'task': return ([t], '%s T(k)' % fname)
    if form == 'tmt':  return (['%s ? %s(k) : %s' % (c, mem, t)], '%s ? %s T(k)' % (neg(c), fname))
    if form == 'ttm':  return (['%s ? %s : %s(k)' % (c, t, mem)], '%s ? %s T(k)' % (c, fname))
    if form == 'bmt':  return (['%s ? %s(k)' % (c, mem), '%s ? %s' % (neg(c), t)], '%s ? %s T(k)' % (neg(c), fname))
    if form == 'btm':  return (['%s ? %s' % (c, t), '%s ? %s(k)' % (neg(c), mem)], '%s ? %s T(k)' % (c, fname))
    if form == 'new':  return (['%s ? NEW : %s' % (c, t)], '%s ? %s T(k)' % (neg(c), fname))
    if form == 'null': return (['%s ? NULL : %s' % (c, t)], '%s ? %s T(k)' % (neg(c), fname))
    if form == 'ctl':  return (['%s ? %s' % (c, t)], '%s ? %s T(k)' % (c, fname))
    raise ValueError(form)


XFORMS = ['mem', 'task', 'tmt', 'ttm', 'bmt', 'btm', 'new', 'null']
YFORMS = ['none', 'mem', 'tmt', 'ttm', 'ctl']


def startup_prog(fx, cx, fy, cy, variants=None, mode_x='RW', props=None):
    """T(k), k = 0..N-1, with an input flow X (form fx, condition cx) and optionally Y (fy, cy); producers PX / PY.
    An instance T(k) is a start-up task iff no flow names a predecessor task for this k."""
    cl = []
    xin, xout = flow_form(fx, 'X', cx, 'A', 'PX')
    flows = [Flow('%s X' % mode_x, xin, [])]
    if xout:
        cl.append(Cls('PX(k)', ['k = 0 .. N-1'], 'B(k)', [Flow('RW X', ['B(k)'], [xout])], props=props))
    if fy != 'none':
        yin, yout = flow_form(fy, 'Y', cy, 'C', 'PY')
        if fy == 'ctl':
            flows.append(Flow('CTL Y', yin, []))
            cl.append(Cls('PY(k)', ['k = 0 .. N-1'], 'D(k)', [Flow('READ Z', ['D(k)']), Flow('CTL Y', [], [yout])], props=props))
        else:
            flows.append(Flow('READ Y', yin, []))
            if yout:
                cl.append(Cls('PY(k)', ['k = 0 .. N-1'], 'D(k)', [Flow('RW Y', ['D(k)'], [yout])], props=props))
    cl.insert(0, Cls('T(k)', ['k = 0 .. N-1'], 'A(k)', flows, props=props))
    name = 'su_%s%s_%s%s' % (fx, cx[0], fy, cy[0] if fy != 'none' else '')
    return Prog(name, {'A': 'N', 'B': 'N', 'C': 'N', 'D': 'N'}, ['N'], variants or NV(1, 2, 3), cl, tags=['startup', fx, fy])


# ----------------------------------------------------------------------------- dependency shapes (C02, also C01)
def dep_progs(props=None, sfx=''):
    P = []
    k = dict(props=props)
    # RW chain through one class: only the first instance is a start-up task
    P.append(Prog('chain' + sfx, {'A': '1'}, ['N'], NV(1, 2, 3, 4), [
        Cls('T(k)', ['k = 0 .. N-1'], 'A(0)', [Flow('RW X', ['k == 0 ? A(0) : X T(k-1)'], ['k < N-1 ? X T(k+1) : A(0)'])], **k)], tags=['chain']))
    # ternary routing: even instances go through TB, odd ones through TC
    P.append(Prog('route' + sfx, {'A': 'N'}, ['N'], NV(1, 2, 3), [
        Cls('TA(k)', ['k = 0 .. N-1'], 'A(k)', [Flow('RW X', ['A(k)'], ['(k % 2) == 0 ? X TB(k) : X TC(k)'])], **k),
        Cls('TB(k)', ['k = 0 .. N-1 .. 2'], 'A(k)', [Flow('RW X', ['X TA(k)'], ['X TD(k)'])], **k),
        Cls('TC(k)', ['k = 1 .. N-1 .. 2'], 'A(k)', [Flow('RW X', ['X TA(k)'], ['X TD(k)'])], **k),
        Cls('TD(k)', ['k = 0 .. N-1'], 'A(k)', [Flow('RW X', ['(k % 2) == 0 ? X TB(k) : X TC(k)'], ['A(k)'])], **k)], tags=['ternary']))
    # fan-out to readers, readers gathered by CTL into the writer (write-after-read protection)
    P.append(Prog('fanout' + sfx, {'A': '1'}, ['N'], NV(1, 2, 3), [
        Cls('W(z)', ['z = 0 .. 0'], 'A(0)', [Flow('RW X', ['A(0)'], ['X R(0 .. N-1)', 'X F(0)'])], **k),
        Cls('R(k)', ['k = 0 .. N-1'], 'A(0)', [Flow('READ X', ['X W(0)']), Flow('CTL C', [], ['C F(0)'])], **k),
        Cls('F(z)', ['z = 0 .. 0'], 'A(0)', [Flow('RW X', ['X W(0)'], ['A(0)']), Flow('CTL C', ['C R(0 .. N-1)'])], **k)], tags=['fanout', 'gather']))
    # fan-in from three flows of different producers (mask mode), one of them from the collection
    P.append(Prog('fanin' + sfx, {'A': 'N', 'B': 'N', 'C': 'N'}, ['N'], NV(1, 2), [
        Cls('P1(k)', ['k = 0 .. N-1'], 'A(k)', [Flow('RW X', ['A(k)'], ['X J(k)'])], **k),
        Cls('P2(k)', ['k = 0 .. N-1'], 'B(k)', [Flow('RW Y', ['B(k)'], ['Y J(k)'])], **k),
        Cls('J(k)', ['k = 0 .. N-1'], 'A(k)', [Flow('RW X', ['X P1(k)'], ['A(k)']), Flow('READ Y', ['Y P2(k)']), Flow('READ Z', ['C(k)'])], **k)], tags=['fanin']))
    # data-collection input mixed with task inputs on the same flow (IN-IN dependencies), two-level chain
    P.append(Prog('inin' + sfx, {'A': 'N', 'B': 'N'}, ['N'], NV(1, 2, 3), [
        Cls('U(k)', ['k = 0 .. N-1'], 'A(k)', [Flow('RW X', ['(k % 2) == 0 ? A(k) : X V(k-1)'], ['k < N-1 ? X V(k) : A(k - (k % 2))']),
                                               Flow('READ Y', ['B(k)'])], **k),
        Cls('V(k)', ['k = 0 .. N-2'], 'A(k)', [Flow('RW X', ['X U(k)'], ['(k % 2) == 0 ? X U(k+1) : A(k-1)']),
                                               Flow('READ Y', ['(k % 2) == 1 ? B(k)', '(k % 2) == 0 ? B(0)'])], **k)], tags=['inin']))
    # WRITE flow creates new data, consumer reads it and forwards the value through a RW chain on the collection
    P.append(Prog('wnew' + sfx, {'A': 'N'}, ['N'], NV(1, 2, 3), [
        Cls('G(k)', ['k = 0 .. N-1'], 'A(k)', [Flow('WRITE W', [], ['W H(k)']), Flow('READ X', ['A(k)'])], **k),
        Cls('H(k)', ['k = 0 .. N-1'], 'A(k)', [Flow('READ W', ['W G(k)']), Flow('RW X', ['k == 0 ? A(0) : NEW'], ['k == 0 ? A(0)'])], **k)], tags=['write', 'new']))
    # binary-tree reduction: node k reads children 2k+1, 2k+2 (when they exist), NULL otherwise
    P.append(Prog('tree' + sfx, {'A': '2*N+1'}, ['N'], NV(1, 2, 3), [
        Cls('L(k)', ['k = N .. 2*N'], 'A(k)', [Flow('RW X', ['A(k)'], ['(k % 2) == 1 ? X M((k-1)/2) : Y M((k-2)/2)'])], **k),
        Cls('M(k)', ['k = 0 .. N-1'], 'A(k)', [
            Flow('RW X', ['2*k+1 >= N ? X L(2*k+1) : X M(2*k+1)'], ['(k > 0) && ((k % 2) == 1) ? X M((k-1)/2)', '(k > 0) && ((k % 2) == 0) ? Y M((k-2)/2)']),
            Flow('READ Y', ['2*k+2 >= N ? X L(2*k+2) : X M(2*k+2)'])], **k)], tags=['tree']))
    # 2-D wavefront
    P.append(Prog('wave' + sfx, {'A': 'N*N'}, ['N'], NV(1, 2, 3), [
        Cls('Wv(i, j)', ['i = 0 .. N-1', 'j = 0 .. N-1'], 'A(i*N+j)', [
            Flow('RW X', ['A(i*N+j)'], ['A(i*N+j)', 'i < N-1 ? U Wv(i+1, j)', 'j < N-1 ? L Wv(i, j+1)']),
            Flow('READ U', ['i == 0 ? A(i*N+j) : X Wv(i-1, j)']),
            Flow('READ L', ['j == 0 ? NULL : X Wv(i, j-1)'])], **k)], tags=['wave', 'null']))
    # NULL input on the first instance of a chain that otherwise passes new data along; CTL-only class in between
    P.append(Prog('nullfw' + sfx, {'A': 'N'}, ['N'], NV(1, 2, 3), [
        Cls('Q(k)', ['k = 0 .. N-1'], 'A(k)', [Flow('READ X', ['k == 0 ? NULL : W Q(k-1)']), Flow('WRITE W', [], ['k < N-1 ? X Q(k+1)']), Flow('CTL C', [], ['C E(k)'])], **k),
        Cls('E(k)', ['k = 0 .. N-1'], 'A(k)', [Flow('CTL C', ['C Q(k)']), Flow('RW Y', ['A(k)'], ['A(k)'])], **k)], tags=['null', 'ctl']))
    # a CTL flow with TWO guarded input dependencies of which the FIRST is the applicable one for some instances (head of a row of a
    # row-major chain), next to another input that usually arrives first (seeded change C02-2: "already satisfied" decided by the last guard)
    P.append(Prog('rowchain' + sfx, {'A': '1'}, ['N'], NV(1, 2, 3), [
        Cls('Pr(m, j)', ['m = 0 .. N-1', 'j = 0 .. 1'], 'A(0)', [Flow('CTL D', [], ['D Tr(m, j)'])], **k),
        Cls('Tr(m, j)', ['m = 0 .. N-1', 'j = 0 .. 1'], 'A(0)', [
            Flow('RW X', ['A(0)'], ['A(0)']),
            Flow('CTL D', ['D Pr(m, j)']),
            Flow('CTL C', ['(m != 0) && (j == 0) ? C Tr(m-1, 1)', 'j != 0 ? C Tr(m, j-1)'],
                          ['j == 0 ? C Tr(m, 1)', '(j == 1) && (m < N-1) ? C Tr(m+1, 0)'])], **k)], tags=['ctl', 'chain']))
    # gather of a range into every instance of a class (all-to-all CTL), then a second phase writes
    P.append(Prog('a2a' + sfx, {'A': 'N'}, ['N'], NV(1, 2, 3), [
        Cls('R1(k)', ['k = 0 .. N-1'], 'A(k)', [Flow('READ X', ['A((k+1) % N)']), Flow('CTL C', [], ['C R2(0 .. N-1)'])], **k),
        Cls('R2(k)', ['k = 0 .. N-1'], 'A(k)', [Flow('RW X', ['A(k)'], ['A(k)']), Flow('CTL C', ['C R1(0 .. N-1)'])], **k)], tags=['gather']))
    # stepped range fan-out with stride, consumers at odd positions only, via derived parameter
    P.append(Prog('stride' + sfx, {'A': '2*N'}, ['N'], NV(1, 2, 3), [
        Cls('SA(z)', ['z = 0 .. 0'], 'A(0)', [Flow('READ X', ['A(0)'], ['X SB(1 .. 2*N-1 .. 2)'])], **k),
        Cls('SB(k)', ['k = 1 .. 2*N-1 .. 2', 'h = k / 2'], 'A(k)', [Flow('READ X', ['X SA(0)']), Flow('RW Y', ['A(k)'], ['Y SC(h)'])], **k),
        Cls('SC(h)', ['h = 0 .. N-1'], 'A(2*h+1)', [Flow('RW Y', ['Y SB(2*h+1)'], ['A(2*h+1)'])], **k)], tags=['stride']))
    # a producer with two written flows whose flow indices differ from the consumers' flow indices; C1 has a second
    # task input so that, depending on the order, Y1 is fetched through the repo lookup or through the release shortcut
    P.append(Prog('twoout' + sfx, {'A': 'N', 'B': 'N', 'C': 'N'}, ['N'], NV(1, 2, 3), [
        Cls('PP(k)', ['k = 0 .. N-1'], 'A(k)', [Flow('RW X', ['A(k)'], ['X2 C2(k)']), Flow('RW Y', ['B(k)'], ['Y1 C1(k)'])], **k),
        Cls('QQ(k)', ['k = 0 .. N-1'], 'C(k)', [Flow('RW Z', ['C(k)'], ['Z C1(k)'])], **k),
        Cls('C1(k)', ['k = 0 .. N-1'], 'B(k)', [Flow('RW Y1', ['Y PP(k)'], ['B(k)']), Flow('READ Z', ['Z QQ(k)'])], **k),
        Cls('C2(k)', ['k = 0 .. N-1'], 'A(k)', [Flow('CTL G', [], []), Flow('RW X2', ['X PP(k)'], ['A(k)'])], **k)], tags=['twoout']))
    return P


# ----------------------------------------------------------------------------- families
def c01_family(tier):
    progs = []
    for s in SHAPES:
        progs.append(shape_prog(s, False))
        progs.append(shape_prog(s, True))
    progs.append(shape_prog(SHAPES[0], True, tag='pr', prio='k'))
    progs.append(shape_prog(SHAPES[3], True, tag='pr', prio='N - i + j'))
    # wide prioritised program: more simultaneously ready tasks than a scheduler's bounded local buffer holds
    # (4 per core for lfq/pbq/ltq), with ascending priorities so that later pushes eject buffered tasks
    # (added after a seeded change in hbbuffer.c push_all_by_priority was missed by the N <= 3 programs)
    progs.append(shape_prog(SHAPES[0], True, tag='prw', prio='k', variants=NV(13)))
    progs.append(shape_prog(SHAPES[0], True, tag='prwd', prio='N - k', variants=NV(13)))
    progs.append(shape_prog(SHAPES[3], True, tag='cnt', props={'count_deps': '1'}))
    for fx, fy in itertools.product(XFORMS, YFORMS):
        for cx, cy in (('first', 'odd'), ('odd', 'notlast')):
            if fy == 'none' and cy != 'odd':
                continue
            if fx in ('mem', 'task') and fy in ('none', 'mem') and cx != 'first':
                continue
            progs.append(startup_prog(fx, cx, fy, cy))
    progs += dep_progs()
    progs, refused = valid(progs)
    if tier == 'quick':
        want = ['sp_tri2z', 'sp_triEz', 'sp_emptyz', 'sp_derpz', 'sp_lidxz', 'sp_nest3', 'sp_swapz', 'sp_inlz', 'sp_negz', 'sp_midz',
                'su_tmtf_ctlo', 'su_btmo_ttmn', 'su_newf_tmto', 'chain', 'fanout', 'prw_linz']
        progs = [p for p in progs if p.name in want]
        missing = set(want) - set(p.name for p in progs)
        assert not missing or os.environ.get('VERIF_PTG_ONLY'), missing
    return progs, refused


def negstep_family():
    progs = [shape_prog(s, z, tag='ns', variants=NV(1, 2, 3)) for s in NEG_SHAPES for z in (False, True)]
    return valid(progs)


def c02_family(tier):
    progs = dep_progs()
    progs += dep_progs(props={'count_deps': '1'}, sfx='_cnt')
    for fx, fy in itertools.product(XFORMS, YFORMS):
        for cx, cy in (('first', 'odd'), ('odd', 'notlast')):
            if fy == 'none' and cy != 'odd':
                continue
            if fx in ('mem', 'task') and fy in ('none', 'mem') and cx != 'first':
                continue
            progs.append(startup_prog(fx, cx, fy, cy))
    progs, refused = valid(progs)
    if tier == 'quick':
        want = ['chain', 'route', 'fanout', 'fanin', 'inin', 'wnew', 'tree', 'wave', 'nullfw', 'stride', 'twoout', 'rowchain',
                'inin_cnt', 'wave_cnt', 'su_btmo_tmtn', 'su_newf_ctlo']
        progs = [p for p in progs if p.name in want]
        missing = set(want) - set(p.name for p in progs)
        assert not missing or os.environ.get('VERIF_PTG_ONLY'), missing
    return progs, refused


# ----------------------------------------------------------------------------- C16
def c16_again_family(tier):
    """Small programs (variants with <= 4 instances get every AGAIN script (0..3)^n)."""
    dp = {p.name: p for p in dep_progs()}
    progs = []
    p = dp['chain']; p.variants = NV(1, 2, 3, 4); progs.append(p)
    p = dp['fanout']; p.variants = NV(1, 2); progs.append(p)
    p = dp['fanin']; p.variants = NV(1); progs.append(p)
    p = dp['a2a']; p.variants = NV(1, 2); progs.append(p)
    p = dp['wnew']; p.variants = NV(1, 2); progs.append(p)
    progs.append(shape_prog(SHAPES[0], False, tag='ag', variants=NV(1, 2, 3, 4)))
    progs.append(shape_prog(SHAPES[3], True, tag='ag', variants=NV(1)))
    if tier != 'quick':
        p = dp['route']; p.variants = NV(1); progs.append(p)
        p = dp['nullfw']; p.variants = NV(1, 2); progs.append(p)
        progs.append(startup_prog('tmt', 'first', 'ctl', 'odd', variants=NV(1)))
        progs.append(startup_prog('btm', 'odd', 'none', 'odd', variants=NV(1, 2)))
    return valid(progs)


C16_SHAPES = ['lin', 'step2', 'tri', 'triE', 'nest3', 'derl', 'derp', 'lidx', 'mid', 'swap', 'inl', 'estep', 'tri2', 'neg']


def c16_startup_family(tier):
    """Execution spaces of 1..3 nested parameters whose instances are all start-up tasks, plus mixed
    start-up / non-start-up classes (the start-up loop `continue`s over the latter). No negative steps."""
    by = {s[0]: s for s in SHAPES}
    names = ['lin', 'tri', 'nest3', 'lidx', 'derp', 'swap', 'triE'] if tier == 'quick' else C16_SHAPES
    big = NV(1, 2, 3, 5) if tier == 'quick' else NV(1, 2, 3, 4, 5, 6)
    progs = []
    for n in names:
        v = big
        if n in ('nest3',):
            v = NV(1, 2, 3) if tier == 'quick' else NV(1, 2, 3, 4)
        progs.append(shape_prog(by[n], False, tag='cs', variants=v))
    progs.append(startup_prog('tmt', 'odd', 'none', 'odd', variants=big))
    progs.append(startup_prog('btm', 'odd', 'ttm', 'notlast', variants=big))
    if tier != 'quick':
        progs.append(startup_prog('bmt', 'first', 'ctl', 'odd', variants=big))
        progs.append(startup_prog('ttm', 'notlast', 'tmt', 'odd', variants=big))
        progs.append(shape_prog(by['tri'], True, tag='cs', variants=NV(1, 2, 3, 4)))
    return valid(progs)


# ----------------------------------------------------------------------------- C23
# range forms for the parameter at depth d (q = name of the previous parameter, None at depth 0)
def _forms(q):
    f = ['0 .. N-1', '-2 .. N-3', '1 .. 2*N .. 2', '-N .. -1']
    if q:
        f += ['%s .. N-1' % q, '0 .. %s' % q, '-%s .. %s .. 2' % (q, q)]
    return f


def key_classes(maxdepth):
    """Every parameter-space shape: depth 1..maxdepth, each parameter's range from _forms()."""
    out = []
    names = ['a', 'b', 'c', 'd']

    def rec(d, locs):
        if d > 0:
            out.append((', '.join(names[:d]), list(locs)))
        if d == maxdepth:
            return
        for f in _forms(names[d - 1] if d else None):
            rec(d + 1, locs + ['%s = %s' % (names[d], f)])
    rec(0, [])
    return out


KEY_EXTRA = [
    ('d, a, c, b', ['a = -1 .. N-2', 'b = a .. N-1', 'c = 0 .. 1', 'd = -N .. 1-N']),      # parameter order differs from declaration order
    ('a, s, b, t', ['a = 0 .. N-1', 's = a*a', 'b = 0 .. a', 't = a - b']),                # derived parameters between ranges
    ('o, e',       ['o = [ i = 0 .. N-1 ] 2*i+1', 'e = [ i = 0 .. N-1 ] 2*i']),            # local indices
    ('k, n',       ['k = 0 .. N-1', 'n = 2*k']),
    ('k',          ['k = 0 .. N-1', 'n = k+1']),
    ('s',          ['s = 0 .. N .. N+1']),
    ('i, j, l',    ['i = 0 .. N-1', 'j = 0 .. 1', 'l = j .. i']),
    ('k',          ['k = %{ return 0-N; %} .. %{ return N-1; %}']),
    ('i, j',       ['i = 0 .. 2*N .. N', 'j = -i .. i .. 2']),
    ('a, b, c, d', ['a = -1 .. 0', 'b = a .. 1', 'c = -N .. b', 'd = c .. c+1']),
    ('p, k',       ['k = 0 .. N-1', 'p = 0 .. 1']),
]


# wide, sparse execution spaces: few instances, but the product of the leading parameter RANGES (max-min+1) exceeds 2^31 / reaches 2^32
# (strided element offsets): the key arithmetic must be 64-bit throughout (seeded change C23-1).  Hash back-end only (the index-array
# back-end would allocate the full ranges).
KEY_WIDE = [
    ('i, j, t',    ['i = 0 .. 98304 .. 32768', 'j = 0 .. 98304 .. 32768', 't = 0 .. N']),
    ('x, y, z, t', ['x = 0 .. 2047 .. 2047', 'y = 0 .. 2047 .. 2047', 'z = 0 .. 1023 .. 1023', 't = 0 .. 1']),
    ('i, j, t',    ['i = -70000 .. 70000 .. 70000', 'j = -70000 .. 70000 .. 35000', 't = -1 .. 0']),
]


def key_bundle(name, shapes, variants, succ=False):
    cl = []
    for i, (params, locs) in enumerate(shapes):
        args = params
        cl.append(Cls('S%d(%s)' % (i, params), locs, 'A(0)', [Flow('READ T', ['A(0)'], ['T Z%d(%s)' % (i, args)] if succ else [])]))
        if succ:
            cl.append(Cls('Z%d(%s)' % (i, params), locs, 'A(0)', [Flow('READ T', ['T S%d(%s)' % (i, args)])]))
    return Prog(name, {'A': '1'}, ['N'], variants, cl, tags=['keys'])


def c23_family(tier):
    progs = []
    v = NV(1, 2, 3)
    pl_names = lambda s: [x.strip() for x in s[0].split(',')]
    permuted = [s for s in KEY_EXTRA if [l.split('=')[0].strip() for l in s[1] if l.split('=')[0].strip() in pl_names(s)] != pl_names(s)]
    derived = [s for s in KEY_EXTRA if s not in permuted and any(('..' not in l) and l.split('=')[0].strip() in pl_names(s) for l in s[1])]
    lidx = [s for s in KEY_EXTRA if s not in permuted and s not in derived and any('[' in l for l in s[1])]
    plain = [s for s in KEY_EXTRA if s not in permuted + derived + lidx]
    progs.append(key_bundle('kx_plain', plain, v, succ=True))
    progs.append(key_bundle('kx_permuted', permuted, v, succ=True))
    progs.append(key_bundle('kx_lidx', lidx, v, succ=True))
    # a derived parameter followed by another parameter does not compile with -M index-array: hash-only bundle
    follow = [s for s in derived if s[0].startswith('a, s')]
    p = key_bundle('kx_derived_ht', follow, v, succ=True); p.backends = ('ht',); progs.append(p)
    progs.append(key_bundle('kx_derived', [s for s in derived if s not in follow], v, succ=True))
    p = key_bundle('kx_wide_ht', KEY_WIDE, NV(1, 2), succ=True); p.backends = ('ht',); progs.append(p)
    shapes = key_classes(2 if tier == 'quick' else 3)
    per = 10
    for i in range(0, len(shapes), per):
        progs.append(key_bundle('kg%02d' % (i // per), shapes[i:i + per], NV(1, 2, 3) if tier == 'quick' else NV(1, 2, 3, 4)))
    if tier != 'quick':
        s4 = [s for s in key_classes(4) if len(s[1]) == 4]
        s4 = s4[::7]          # every 7th of the 4-parameter shapes (fixed stride, not random)
        for i in range(0, len(s4), per):
            progs.append(key_bundle('kh%02d' % (i // per), s4[i:i + per], NV(1, 2)))
    return valid(progs)
