/* C08 / E2 leg: every schedule/select sequence up to a depth, sequentially, over the streams of a real context,
 * for one scheduler module per process; overflow of the bounded buffers included (ring "B" is larger than the
 * local buffer chain of the module).  Plain bounded-exhaustive enumeration (no state deduplication): every
 * sequence of length 1..D over the alphabet is executed from a pristine scheduler and followed by a complete drain.
 *
 *   ops:  sel<i>                      select on stream i
 *         s<i>:<shape>@<d>            schedule ring <shape> on stream i with distance d
 *   shapes: 1 = one task; 2 = two tasks, ascending priorities, sharing an input (ltq: one heap);
 *           3 = three tasks, priorities 2,3,1, first one of a HIGH_PRIORITY class (gd: chain_front), inputs a,a,b;
 *           B = "big": capacity+1 tasks (descending priorities, distinct inputs) so that the local bounded buffer(s)
 *               overflow into the parent store(s) and finally the system dequeue;
 *           C = big+3 tasks in ascending priority order (pbq: ejects earlier, lower-priority entries).
 * Oracle: every select returns NULL or a task that is pending (handed to schedule and not yet returned) -- never an
 * unknown pointer, never a task twice; after the sequence a drain (select on every stream, round robin, until two
 * consecutive all-NULL rounds) must return every pending task.
 */
#include "c08_common.h"
#include "seqx.h"

#define MAXPOOL 2048
static parsec_task_t *pool[MAXPOOL];
typedef struct { int pending, sched_on, dist; } tinfo_t;
static tinfo_t info[MAXPOOL];
static int nt;
static int BIG = 9;
static int D = 4, ND = 2, NSH = 3;
static int VP = 0;      /* --vp: schedule through the real __parsec_schedule_vp (next_task retention, dispatch to stream 0) and select the way
                         * __parsec_get_next_task does (es->next_task first); submitter index K = NULL (communication thread) */
#define NSUB (VP ? K + 1 : K)
static const char SHN[] = { '1', '2', '3', 'B', 'C' };
static int shape_order[5] = { 0, 1, 3, 4, 2 };     /* the first NSH entries are used: 1,2,B, then C, then 3 */
static int NOPS;
static char scen[128];

static int shape_len(int sh) { switch (sh) { case 0: return 1; case 1: return 2; case 2: return 3; case 3: return BIG; default: return BIG + 3; } }
static void decode(int op, int *is_sel, int *es, int *sh, int *d)
{
    if (op < K) { *is_sel = 1; *es = op; return; }
    op -= K; *is_sel = 0; *d = op % ND; op /= ND; *sh = shape_order[op % NSH]; *es = op / NSH;      /* es == K: NULL submitter (vp mode) */
}
static void opname(int op, char *b, size_t cap)
{
    if (op == NOPS) { snprintf(b, cap, "drain"); return; }
    int s, e, sh, d; decode(op, &s, &e, &sh, &d);
    if (s) snprintf(b, cap, "sel%d", e); else snprintf(b, cap, "%c%d:%c@%d", VP ? 'v' : 's', e, SHN[sh], d);
}

/* per-sequence statistics */
static int saw_overflow, saw_steal, saw_dist; static long max_overflow;
static uint64_t outcome_h;
static void out_add(int a, int b) { outcome_h = (outcome_h ^ (uint64_t)(a * 4099 + b + 1)) * 1099511628211ULL; }

static int check_returned(parsec_task_t *t, int on, char *err)
{
    if (!t) return 0;
    int id = -1; for (int i = 0; i < nt; i++) if (pool[i] == t) { id = i; break; }
    if (id < 0) { snprintf(err, SX_ERRLEN, "%s: select(stream %d) returned an unknown pointer %p", c08_modname, on, (void *)t); return 1; }
    if (!info[id].pending) { snprintf(err, SX_ERRLEN, "%s: select(stream %d) returned task #%d which is not pending (returned twice / duplicated)", c08_modname, on, id); return 1; }
    info[id].pending = 0;
    if (info[id].sched_on != on) saw_steal = 1;
    out_add(on, id);
    return 0;
}
static parsec_task_t *get_next(int i)
{
    if (VP && ES[i]->next_task) { parsec_task_t *t = ES[i]->next_task; ES[i]->next_task = NULL; return t; }   /* as __parsec_get_next_task */
    return c08_select(i);
}
static int do_drain(char *err)
{
    int quiet = 0, rounds = 0, npend = 0;
    for (int i = 0; i < nt; i++) npend += info[i].pending;
    while (quiet < 2 && rounds < npend + 8) {
        int got = 0;
        for (int i = 0; i < K; i++) { parsec_task_t *t = get_next(i); if (t) { got++; if (check_returned(t, i, err)) return 1; } }
        quiet = got ? 0 : quiet + 1; rounds++;
    }
    int lost = 0, first = -1; for (int i = 0; i < nt; i++) if (info[i].pending) { lost++; if (first < 0) first = i; }
    if (lost) { snprintf(err, SX_ERRLEN, "%s: %d task(s) never returned by a drain of all %d streams (first lost: #%d, scheduled on stream %d with distance %d)", c08_modname, lost, K, first, info[first].sched_on, info[first].dist); return 1; }
    return 0;
}
static void *fresh(void)
{
    c08_reinstall(); srand(12345);
    for (int i = 0; i < K; i++) ES[i]->next_task = NULL;
    nt = 0; saw_overflow = saw_steal = saw_dist = 0; outcome_h = 1469598103934665603ULL;
    return &nt;
}
static void destroy(void *o) { (void)o; }
static int apply(void *o, int op, char *err)
{
    (void)o;
    if (op == NOPS) return do_drain(err);
    int s, e, sh, d; decode(op, &s, &e, &sh, &d);
    if (s) { parsec_task_t *t = get_next(e); if (!t) out_add(e, -1); return check_returned(t, e, err); }
    int n = shape_len(sh);
    if (nt + n > MAXPOOL) { snprintf(err, SX_ERRLEN, "harness: task pool exhausted"); return 1; }
    parsec_task_t *r[MAXPOOL > 600 ? 600 : MAXPOOL];
    for (int k = 0; k < n; k++) {
        int id = nt++, prio, high = 0, group;
        switch (sh) {
        case 0: prio = 5; group = id; break;
        case 1: prio = 3 + 4 * k; group = id - k; break;                              /* 3,7 sharing one input */
        case 2: prio = (k == 0 ? 2 : k == 1 ? 3 : 1); high = 1; group = id - (k < 2 ? k : 0); break;
        case 3: prio = 1000 - k; group = id; break;                                   /* descending */
        default: prio = 10 + k; group = id; break;                                    /* ascending */
        }
        parsec_task_t *t = pool[id];
        t->priority = prio; t->task_class = high ? &c08_tc_high : &c08_tc_plain;
        t->data[0].data_in = (parsec_data_copy_t *)(uintptr_t)(0x1000 + 64 * group);
        info[id].pending = 1; info[id].sched_on = (VP && (d > 0 || e >= K)) ? 0 : e; info[id].dist = d; r[k] = t;
    }
    if (d > 0) saw_dist = 1;
    if (VP) { parsec_task_t *rings[1] = { c08_ring(r, n) }; int rc = __parsec_schedule_vp(e < K ? ES[e] : NULL, rings, d);
              if (rc != 0 || rings[0] != NULL) { snprintf(err, SX_ERRLEN, "%s: __parsec_schedule_vp returned %d / left a ring behind", c08_modname, rc); return 1; } }
    else C08_SCHEDULE(e, c08_ring(r, n), d);
    int ov = c08_overflow_count(); if (ov > 0) { saw_overflow = 1; if (ov > max_overflow) max_overflow = ov; }
    return 0;
}

int main(int argc, char **argv)
{
    const char *name = "lfq"; int k = 2; int cfg[8][4], ncfg = 0;
    for (int i = 1; i < argc; i++) {
        if (!strcmp(argv[i], "--sched") && i + 1 < argc) name = argv[++i];
        else if (!strcmp(argv[i], "--streams") && i + 1 < argc) k = atoi(argv[++i]);
        else if (!strcmp(argv[i], "--depth") && i + 1 < argc) D = atoi(argv[++i]);
        else if (!strcmp(argv[i], "--ndist") && i + 1 < argc) ND = atoi(argv[++i]);
        else if (!strcmp(argv[i], "--vp")) VP = 1;
        else if (!strcmp(argv[i], "--nshapes") && i + 1 < argc) NSH = atoi(argv[++i]);
        else if (!strcmp(argv[i], "--config") && i + 1 < argc && ncfg < 8) { cfg[ncfg][3] = 0; if (sscanf(argv[++i], "%d:%d:%d:%d", &cfg[ncfg][0], &cfg[ncfg][1], &cfg[ncfg][2], &cfg[ncfg][3]) < 3) { fprintf(stderr, "bad --config\n"); return 2; } ncfg++; }
    }
    if (!ncfg) { cfg[0][0] = D; cfg[0][1] = NSH; cfg[0][2] = ND; cfg[0][3] = VP; ncfg = 1; }      /* --config depth:nshapes:ndist[:vp] (repeatable) */
    for (int c = 0; c < ncfg; c++) if (cfg[c][0] < 1 || cfg[c][0] > 12 || cfg[c][2] < 1 || cfg[c][2] > 3 || cfg[c][1] < 1 || cfg[c][1] > 5) { fprintf(stderr, "bad arguments\n"); return 2; }
    sx_init(argc, argv, "C08");
    if (c08_init(name, k)) return 2;
    /* capacity of the chain of bounded buffers in front of the system dequeue (measured on the installed instance) */
    if (c08_mod == S_LFQ || c08_mod == S_PBQ || c08_mod == S_LTQ) BIG = (int)PARSEC_MCA_SCHED_LOCAL_QUEUES_OBJECT(ES[0])->task_queue->size + 1;
    else if (c08_mod == S_LHQ) { parsec_mca_sched_local_queues_scheduler_object_t *so = PARSEC_MCA_SCHED_LOCAL_QUEUES_OBJECT(ES[0]); BIG = 1; for (int q = 0; q < so->nb_hierarch_queues; q++) BIG += (int)so->hierarch_queues[q]->size; }
    else BIG = 4 * K + 1;
    if ((BIG + 3) * 1 > 600) { fprintf(stderr, "big ring too large (%d)\n", BIG); return 2; }
    for (int i = 0; i < MAXPOOL; i++) pool[i] = c08_new_task(0, 0, i);
  for (int c = 0; c < ncfg; c++) {
    D = cfg[c][0]; NSH = cfg[c][1]; ND = cfg[c][2]; VP = cfg[c][3]; max_overflow = 0;
    NOPS = K + NSUB * NSH * ND;
    snprintf(scen, sizeof(scen), "seq_%s_k%d_sh%d_nd%d_depth%d%s", c08_modname, K, NSH, ND, D, VP ? "_vp" : "");
    sx_system_t sys = { scen, NOPS + 1, fresh, destroy, NULL, apply, NULL, opname, D, 0 };
    if (sx_replay_file && c == 0) { char sc[128], h[4096]; if (sx_read_replay(sx_replay_file, sc, sizeof(sc), h, sizeof(h))) return 2; return sx_replay_named(&sys, h); }

    double t0 = sx_now(); long execs = 0, trans = 0, nontriv = 0, nodes = 0; int completed = 0, exhaustive = 1, viol = 0;
    sx_set_t outcomes = {0}; char samples[3][512]; int ns = 0; char err[SX_ERRLEN];
    for (int len = 1; len <= D && exhaustive && viol < 3; len++) {
        int seq[16] = {0};
        for (;;) {
            if ((execs & 127) == 0 && sx_deadline > 0 && sx_now() > sx_deadline) { exhaustive = 0; break; }
            fresh(); int bad = 0, i;
            for (i = 0; i < len && !bad; i++) { err[0] = 0; bad = apply(NULL, seq[i], err); trans++; }
            if (!bad) { bad = do_drain(err); i = len + 1; }
            execs++; nodes++;
            if (saw_overflow || saw_steal) nontriv++;
            if (bad) {
                char h[1024]; int o = 0; h[0] = 0;
                for (int j = 0; j < (i > len ? len : i); j++) { char nm[32]; opname(seq[j], nm, sizeof(nm)); o += snprintf(h + o, sizeof(h) - o, "%s%s", j ? " " : "", nm); }
                if (i > len) snprintf(h + o, sizeof(h) - o, " drain");
                sx_violation(scen, h, err); viol++; c08_abandon();
                if (viol >= 3) break;
            } else {
                sx_h128_t hh = { outcome_h, outcome_h * 0x9E3779B97F4A7C15ULL + 7 };
                if (sx_set_add(&outcomes, hh) && ns < 3 && (outcomes.n == 3 || outcomes.n == 40 || outcomes.n == 400)) {
                    int o = 0; for (int j = 0; j < len; j++) { char nm[32]; opname(seq[j], nm, sizeof(nm)); o += snprintf(samples[ns] + o, 512 - o, "%s%s", j ? " " : "", nm); }
                    snprintf(samples[ns] + o, 512 - o, " drain  (overflow=%d steal=%d)", saw_overflow, saw_steal); ns++;
                }
            }
            int p = len - 1; while (p >= 0 && ++seq[p] == NOPS) { seq[p] = 0; p--; }
            if (p < 0) break;
        }
        if (exhaustive && viol == 0) completed = len;
    }
    if (viol) exhaustive = 0;
    const char *sp[3] = { samples[0], samples[1], samples[2] }; char extra[256];
    snprintf(extra, sizeof(extra), "\"depth_completed\":%d,\"max_depth\":%d,\"alphabet\":%d,\"streams\":%d,\"big_ring\":%d,\"max_tasks_in_system_queue\":%ld", completed, D, NOPS, K, BIG, max_overflow);
    sx_report(scen, nodes, trans, execs, nontriv, (long)outcomes.n, exhaustive, viol, sx_now() - t0, extra, sp, ns);
    free(outcomes.v);
  }
    return sx_finish();
}
