META = dict(
    engine='vranks+cosched',
    technique='explicit-state model checking of the real four-counter module over N virtual ranks (send_am / taskpool_lookup stubbed): BFS to closure over all interleavings of task completion, application sends/receipts (3-step), start-up release, taskpool_ready and control-message delivery; safety oracle evaluated inside the termination callback, terminal-state check, backward-reachability liveness check on the stored graph',
    level_text='All reachable global states of the real termdet_fourcounter_module.c for N = 1..3 (quick) and 4..5 (thorough, largest configurations under a deadline / state cap) with a bounded workload (<= T initial tasks per rank, <= M application messages in total, any sender/receiver pattern): no rank ever declares termination unless every rank is idle, no application message is in transit or half-received, and no rank declares twice; every terminal state has all ranks TERMINATED and from every reachable state such a state is reachable.',
    level_note='vranks legs: handlers run atomically (one communication thread per process); the cosched leg justifies this by showing that concurrent worker / communication-thread entry points of one rank are linearizable (final state and control messages equal those of some op-atomic interleaving) for <= b preemptions, sequential consistency assumed; per-(source,destination,tag) FIFO channels with arbitrary delay, no loss; usage contract: the DSL holds one pending runtime action across taskpool_ready, every application message creates one task between incoming_message_start and _end, activations are handed only to ready taskpools; the process-global delayed-message list is virtualised per rank; statistics, time stamps and rwlock ticket words are excluded from the state.',
)
RULE = ("vranks legs: states = distinct canonical global states (monitor fields without statistics/time stamps/lock words, load counters, harness flags, parked and in-flight messages); "
        "non-trivial = a detection wave (control message in flight or parked) coexists with application activity (busy rank, message in transit or half received); "
        "outcomes = distinct fully-terminated terminal states (they differ in the per-rank message counters and last wave sums); "
        "cosched leg (e1_threads): every schedule with <= b preemptions of 6 (quick) / 11 (thorough) two/three-thread scripts (worker entry points vs communication-thread entry points of one rank), "
        "scheduling points = instrumented accesses to the monitor's protocol fields, the two load counters and the delayed list; outcome = final state + control messages + completion order of the operations")
import os, subprocess
from concurrent.futures import ThreadPoolExecutor

# quick: every leg closes in seconds even on a heavily loaded machine (N3_T1_M3, 1.2 M states, is 13 s idle but was seen to
# exceed a 55 s deadline at load average 150, so it lives in the thorough tier together with N3_T2_M3)
QUICK = [(3, 2, 2, 0), (3, 1, 2, 0), (3, 1, 2, 1), (2, 2, 3, 0), (2, 2, 3, 1), (1, 2, 3, 0)]
# thorough: complete DESIGN bound for N=3, then N=4/5 by increasing workload; the first two are expected to hit the deadline / cap on a loaded machine
THOROUGH = [(5, 1, 2, 0), (4, 1, 3, 0), (4, 2, 2, 0), (3, 2, 3, 0), (3, 2, 3, 1), (4, 1, 2, 0), (5, 1, 1, 0), (5, 1, 1, 1),
            (4, 1, 2, 1), (3, 1, 3, 0), (2, 2, 3, 0), (2, 2, 3, 1), (1, 2, 3, 0)]


def build(ctx):
    return ctx.compile('hk-mpi', 'fc_h', ['fc_h.c'], instr=False, mpi=True, cflags=['-I/verif/engine/vranks', '-O2'])


def build_e1(ctx, quick=False):
    if quick:
        return ctx.compile('hk-mpi', 'fc_e1q', ['fc_e1.c'], engine='cosched', instr=True, mpi=True, cflags=['-DE1_QUICK'])
    return ctx.compile('hk-mpi', 'fc_e1', ['fc_e1.c'], engine='cosched', instr=True, mpi=True)


def check(ctx):
    quick = ctx.tier == 'quick'
    exe = build(ctx)
    exe1 = build_e1(ctx, quick)
    common = ['--outdir', '/verif/out', '--deadline', '55' if quick else '840']
    cap = '6000000' if quick else '30000000'
    jobs = [(['bfs'] + [str(x) for x in c] + [cap], 'N%d_T%d_M%d_L%d' % c) for c in (QUICK if quick else THOROUGH)]
    with ThreadPoolExecutor(max_workers=5 if quick else 6) as ex:
        # second leg (E1): one rank under real threads, preemption bound 1 (quick) / 3 (thorough)
        e1 = ex.submit(lambda: ctx.run_cosched(exe1, int(os.environ.get('VERIF_C11_E1_BOUND', 1 if quick else 3)), deadline=45 if quick else 600, label='e1_threads'))
        list(ex.map(lambda j: ctx.run_engine(exe, common + j[0], label=j[1], timeout=1500), jobs))
        e1.result()
    ctx.legs.sort(key=lambda l: l.get('leg', ''))
    for l in ctx.legs:
        if not l.get('exhaustive') and not l.get('violations'):
            ctx.notes.append('%s: search cut by the deadline / state cap after %s expanded states; safety and terminal checks hold on the explored part, liveness not decided for this leg' % (l.get('name'), l.get('expanded')))
    return ctx.finish(RULE, ["the DSL holds one pending runtime action across taskpool_ready and releases it afterwards (otherwise no workload change follows ready and nothing can terminate: usage contract)",
                             "every application message is bracketed by incoming_message_start / addto_nb_tasks(+1) / incoming_message_end on a ready taskpool",
                             "FIFO channels per (source, destination, tag), arbitrary delays, no loss or duplication",
                             "handler-level atomicity (one communication thread); instruction-level races are not part of this check"])


def replay(ctx, path, obj):
    if obj.get('engine') == 'vranks':
        return subprocess.call([build(ctx), '--replay', path])
    return subprocess.call([build_e1(ctx), '--replay', path])
