/* c14_script.h: the scripted workload and the oracle of C14 tier 2, shared by
 *   c14_v.c    - 2 virtual ranks in one process, two instances of the real engine over the virtual MPI, explorer-owned order;
 *   c14_real.c - the same scripts on the real engine over the real MPI (2 processes), driven in lock-step along the
 *                deviation-free trace of the virtual run (conformance of the virtual MPI).
 * The includer defines before including:  H_NR (number of rank states held here), H_CE(r), H_CUR() (rank whose engine is
 * running: callbacks use it), H_ENTER(r) (switch to rank r before calling into its engine), H_OBS(r, x) (fold an address-free
 * observation of rank r into its hash; may be empty).
 *
 * Scenario string:  "<posted>,<tested>,<dyn>,<dynrecv>:<eager limit>:<ops of rank 0>/<ops of rank 1>", ops separated by '.':
 *   a<size> / b<size>   active message of <size> bytes on harness tag A (id 9, registered length 64) / B (id 10, length 8192)
 *   p<size>             this rank asks the peer to PUT <size> bytes into a fresh window of this rank (data flows peer -> me)
 *   g<size>             this rank offers <size> bytes, the peer GETs them                          (data flows me -> peer)
 * put/get follow remote_dep_mpi.c's protocol as in tier 1 (ce_h.c): handle + completion callback address travel in a control
 * AM (tag C, id 11); the put source calls put() from inside the AM callback when can_serve(), else defers it until a later
 * progress() made room; the get target calls get() from inside the AM callback.
 */
#include <stdio.h>
#include <stdlib.h>
#include <string.h>
#include <stdint.h>
#include <stdarg.h>
#include "parsec/runtime.h"
#include "parsec/parsec_comm_engine.h"

#define TAG_A 9u
#define TAG_B 10u
#define TAG_C 11u
#define LEN_A 64
#define LEN_B 8192
#define LEN_C 512
#define NSTREAM 2
static const unsigned stream_tag[NSTREAM] = { TAG_A, TAG_B };
static const size_t stream_len[NSTREAM] = { LEN_A, LEN_B };
#define MAXOPS 12
#define MAXQ MAXOPS
#define MAXX MAXOPS
#define GUARD 64
#define MAXEV 96
#define EVLEN 28

enum { OP_AM = 1, OP_PUTREQ, OP_GETOFFER };
typedef struct { uint8_t kind, stream; uint32_t size; } sop_t;
typedef struct {
    char text[160];
    int cfg[4]; size_t eager;
    int nops[2]; sop_t ops[2][MAXOPS];
    int n_am[2][NSTREAM], n_put[2], n_get[2];      /* per issuing rank */
} scenario_t;
static scenario_t SC;

static int scenario_parse(const char *s, scenario_t *sc)
{
    memset(sc, 0, sizeof(*sc)); snprintf(sc->text, sizeof(sc->text), "%s", s);
    unsigned long eg; int n = 0;
    if (sscanf(s, "%d,%d,%d,%d:%lu:%n", &sc->cfg[0], &sc->cfg[1], &sc->cfg[2], &sc->cfg[3], &eg, &n) != 5 || n == 0) return -1;
    sc->eager = eg; s += n;
    int r = 0;
    while (*s) {
        if (*s == '/') { if (++r > 1) return -1; s++; continue; }
        if (*s == '.') { s++; continue; }
        if (*s == '-') { s++; continue; }                 /* "-" = empty script */
        char k = *s++; char *e; unsigned long sz = strtoul(s, &e, 10); if (e == s) return -1; s = e;
        if (sc->nops[r] >= MAXOPS) return -1;
        sop_t *o = &sc->ops[r][sc->nops[r]++]; o->size = (uint32_t)sz;
        if (k == 'a' || k == 'b') { o->kind = OP_AM; o->stream = (k == 'b'); if (sz > stream_len[o->stream]) return -1; sc->n_am[r][o->stream]++; }
        else if (k == 'p') { o->kind = OP_PUTREQ; sc->n_put[r]++; }
        else if (k == 'g') { o->kind = OP_GETOFFER; sc->n_get[r]++; }
        else return -1;
    }
    return 0;
}

/* ---------------- per-rank harness state (rebuilt for every run) ---------------- */
enum { CTL_PUT_REQ = 1, CTL_GET_OFFER = 2 };
typedef struct { uint32_t op, id, cseq, pad; uint64_t size; uint64_t cb_fn; } ctl_hdr_t;
typedef struct { uint32_t id, kind; uint64_t size; int32_t requester, pad; } rcb_t;            /* travels as r_cb_data */
typedef struct xfer_s { int used, id; size_t size; uint8_t *base; parsec_ce_mem_reg_handle_t h; int registered, local_done, remote_done, data_tag; uint8_t rcopy[256]; } xfer_t;
typedef struct { ctl_hdr_t h; uint8_t handle[256]; } pend_t;
typedef struct {
    int next_op;
    int am_seq_out[NSTREAM]; uint32_t cseq_out; int put_ids, get_ids;
    uint8_t am_got[NSTREAM][MAXQ]; int am_zero[NSTREAM]; int am_delivered[NSTREAM], ctl_delivered; int am_lastq[NSTREAM], am_inversions;
    uint8_t ctl_got[2 * MAXX];
    xfer_t xf[4][MAXX];                 /* 0: put target (mine), 1: put source (serving the peer), 2: get source (mine), 3: get target */
    int x_done[4];
    pend_t pend[MAXX]; int pend_head, pend_tail, deferred_puts;
    int handle_size;
    char fail[600]; int nfail;
    char ev[MAXEV][EVLEN]; int nev, ev_overflow;
    void *allocs[8 * MAXX]; int nalloc;
    uint8_t sendbuf[LEN_B + 16];
} rank_state_t;
static rank_state_t RS[H_NR];
/* log of the put / get transfers of this run (for the predicate of known finding C14-get-put-data-tag-collision): who sends the
 * data to whom, the data tag (= the number of put()/get() calls made before by the rank that draws it: the put SOURCE, the get
 * TARGET), and the logical time of the put()/get() call and of the completion callback on the data receiver */
typedef struct { int is_get, data_src, data_dst, id, tag; long t_begin, t_end; } tlog_t;
static tlog_t h_tlog[4 * MAXX]; static int h_ntlog; static long h_clock; static int h_xfer_calls[2];
static void tlog_begin(int is_get, int data_src, int data_dst, int id, int drawer)
{
    if (h_ntlog < 4 * MAXX) { tlog_t *t = &h_tlog[h_ntlog++]; t->is_get = is_get; t->data_src = data_src; t->data_dst = data_dst; t->id = id; t->tag = h_xfer_calls[drawer]; t->t_begin = h_clock; t->t_end = 0; }
    h_xfer_calls[drawer]++;
}
static void tlog_end(int is_get, int data_dst, int id) { for (int i = 0; i < h_ntlog; i++) if (h_tlog[i].is_get == is_get && h_tlog[i].data_dst == data_dst && h_tlog[i].id == id && !h_tlog[i].t_end) h_tlog[i].t_end = h_clock; }
/* a put S->R and a get by R from S alive at the same time with equal data tags */
static int tag_collision_predicate(char *why, size_t cap)
{
    for (int i = 0; i < h_ntlog; i++) for (int j = 0; j < h_ntlog; j++) {
        const tlog_t *p = &h_tlog[i], *g = &h_tlog[j];
        if (p->is_get || !g->is_get || p->data_src != g->data_src || p->data_dst != g->data_dst || p->tag != g->tag) continue;
        long pe = p->t_end ? p->t_end : h_clock + 1, ge = g->t_end ? g->t_end : h_clock + 1;
        if (p->t_begin <= ge && g->t_begin <= pe) {
            snprintf(why, cap, "put %d->%d (id %d, data tag %d drawn by the sender at step %ld) and get by %d from %d (id %d, data tag %d drawn by the receiver at step %ld) were in flight at the same time with the same (source, tag) on the data communicator",
                     p->data_src, p->data_dst, p->id, p->tag, p->t_begin, g->data_dst, g->data_src, g->id, g->tag, g->t_begin);
            return 1;
        }
    }
    return 0;
}
#ifndef H_IDX
#define H_IDX(r) (r)
#endif
#define S(r) (&RS[H_IDX(r)])

static void h_fail(int r, const char *fmt, ...)
{
    rank_state_t *s = S(r); va_list ap; va_start(ap, fmt);
    if (!s->nfail) { int k = snprintf(s->fail, sizeof(s->fail), "[rank %d] ", r); vsnprintf(s->fail + k, sizeof(s->fail) - k, fmt, ap); }
    va_end(ap); s->nfail++;
}
static void h_event(int r, const char *fmt, ...)
{
    rank_state_t *s = S(r); va_list ap; va_start(ap, fmt);
    if (s->nev < MAXEV) vsnprintf(s->ev[s->nev++], EVLEN, fmt, ap); else s->ev_overflow = 1;
    va_end(ap);
}
static void *h_alloc(int r, size_t n)
{
    rank_state_t *s = S(r); void *p = malloc(n ? n : 1);
    if (s->nalloc < (int)(sizeof(s->allocs) / sizeof(s->allocs[0]))) s->allocs[s->nalloc++] = p;
    return p;
}

/* ---------------- deterministic data ---------------- */
static inline uint64_t mix64(uint64_t x) { x += 0x9e3779b97f4a7c15ull; x = (x ^ (x >> 30)) * 0xbf58476d1ce4e5b9ull; x = (x ^ (x >> 27)) * 0x94d049bb133111ebull; return x ^ (x >> 31); }
static uint64_t seed_of(int kind, int src, unsigned tag, unsigned q) { return mix64(((uint64_t)kind << 56) ^ ((uint64_t)src << 48) ^ ((uint64_t)tag << 32) ^ q); }
static inline uint8_t pat(uint64_t seed, size_t i) { return (uint8_t)(mix64(seed ^ (i >> 3)) >> ((i & 7) * 8)); }
static void fill(uint8_t *b, size_t n, uint64_t seed) { for (size_t i = 0; i < n; i++) b[i] = pat(seed, i); }
static long first_diff(const uint8_t *b, size_t n, uint64_t seed, size_t from) { for (size_t i = from; i < n; i++) if (b[i] != pat(seed, i)) return (long)i; return -1; }
static const uint8_t guard_byte = 0xA5, stale_byte = 0x5C;
static uint8_t *win_alloc(int r, size_t size)
{
    uint8_t *b = (uint8_t *)h_alloc(r, size + 2 * GUARD);
    memset(b, guard_byte, GUARD); memset(b + GUARD, stale_byte, size); memset(b + GUARD + size, guard_byte, GUARD);
    return b;
}
static int guards_ok(const uint8_t *b, size_t size) { for (int i = 0; i < GUARD; i++) if (b[i] != guard_byte || b[GUARD + size + i] != guard_byte) return 0; return 1; }

/* size of the q-th AM that rank src sends on stream s (q counts that rank's AMs on the stream) */
static int script_am_size(int src, int s, int q)
{
    int k = 0;
    for (int i = 0; i < SC.nops[src]; i++) if (SC.ops[src][i].kind == OP_AM && SC.ops[src][i].stream == s) { if (k == q) return (int)SC.ops[src][i].size; k++; }
    return -1;
}

/* ---------------- AM oracle ---------------- */
static int am_cb(parsec_comm_engine_t *e, parsec_ce_tag_t tag, void *msg, size_t size, int src, void *cb_data)
{
    int me = H_CUR(), s = (int)(intptr_t)cb_data; rank_state_t *st = S(me); (void)e;
    if (s < 0 || s >= NSTREAM) { h_fail(me, "AM callback with foreign cb_data %p", cb_data); return 1; }
    st->am_delivered[s]++;
    if (tag != stream_tag[s]) { h_fail(me, "callback of tag %u invoked with tag %lu (src %d size %zu)", stream_tag[s], (unsigned long)tag, src, size); return 1; }
    if (src != 1 - me) { h_fail(me, "AM on tag %lu from impossible source %d", (unsigned long)tag, src); return 1; }
    if (size > stream_len[s]) { h_fail(me, "AM on tag %lu longer (%zu) than the registered length", (unsigned long)tag, size); return 1; }
    int nq = SC.n_am[src][s], q = -1;
    const uint8_t *b = (const uint8_t *)msg;
    if (size == 0) {
        st->am_zero[s]++; int zeros = 0; for (int i = 0; i < nq; i++) zeros += script_am_size(src, s, i) == 0;
        if (st->am_zero[s] > zeros) h_fail(me, "AM tag %lu: %d zero-size messages delivered, %d sent", (unsigned long)tag, st->am_zero[s], zeros);
        h_event(me, "a%lu.z.0", (unsigned long)tag); H_OBS(me, 0xA0000000ull | (tag << 8)); return 1;
    }
    q = b[0];
    if (q >= nq) { h_fail(me, "AM on tag %lu size %zu: sequence number %d was never sent (%d sent)", (unsigned long)tag, size, q, nq); return 1; }
    if ((int)size != script_am_size(src, s, q)) { h_fail(me, "AM tag %lu seq %d: delivered size %zu, sent size %d", (unsigned long)tag, q, size, script_am_size(src, s, q)); return 1; }
    long d = first_diff(b, size, seed_of(1, src, (unsigned)tag, q), 1);
    if (d >= 0) { h_fail(me, "AM tag %lu seq %d size %zu: payload differs at byte %ld", (unsigned long)tag, q, size, d); return 1; }
    if (++st->am_got[s][q] > 1) h_fail(me, "AM tag %lu seq %d size %zu delivered %d times", (unsigned long)tag, q, size, st->am_got[s][q]);
    if (q < st->am_lastq[s]) st->am_inversions++; else st->am_lastq[s] = q;
    h_event(me, "a%lu.%d.%zu", (unsigned long)tag, q, size); H_OBS(me, 0xA1000000ull | (tag << 16) | ((uint64_t)q << 32) | size);
    return 1;
}
static void am_send(int r, int s, uint32_t size)
{
    rank_state_t *st = S(r); int q = st->am_seq_out[s]++;
    fill(st->sendbuf, size, seed_of(1, r, stream_tag[s], q));
    if (size >= 1) st->sendbuf[0] = (uint8_t)q;
    H_CE(r)->send_am(H_CE(r), stream_tag[s], 1 - r, st->sendbuf, size);
}

/* ---------------- put / get ---------------- */
static void reg(int r, xfer_t *x, uint8_t *mem)
{
    size_t hs; H_CE(r)->mem_register(mem, PARSEC_MEM_TYPE_NONCONTIGUOUS, x->size, MPI_BYTE, x->size, &x->h, &hs);
    x->registered = 1;
    if ((int)hs != S(r)->handle_size) h_fail(r, "mem_register reports handle size %zu, get_mem_handle_size %d", hs, S(r)->handle_size);
}
static void unreg(int r, xfer_t *x) { if (x->registered) { H_CE(r)->mem_unregister(&x->h); x->registered = 0; } }
static void send_ctl(int r, uint32_t op, uint32_t id, size_t size, uintptr_t cb_fn, parsec_ce_mem_reg_handle_t h)
{
    uint8_t buf[sizeof(ctl_hdr_t) + 256]; rank_state_t *st = S(r);
    ctl_hdr_t c = { op, id, st->cseq_out++, 0, size, (uint64_t)cb_fn };
    memcpy(buf, &c, sizeof(c)); memcpy(buf + sizeof(c), h, st->handle_size);
    H_CE(r)->send_am(H_CE(r), TAG_C, 1 - r, buf, sizeof(c) + st->handle_size);
}
static int put_remote_done(parsec_comm_engine_t *e, parsec_ce_tag_t tag, void *msg, size_t msg_size, int src, void *cb_data)
{   /* on the put target when the data has arrived (msg_size = received byte count, tag = data tag) */
    int me = H_CUR(); rank_state_t *st = S(me); (void)e; (void)cb_data;
    rcb_t r; memcpy(&r, msg, sizeof(r));
    if (src != 1 - me || r.kind != 0 || r.id >= MAXX || !st->xf[0][r.id].used || r.requester != src) { h_fail(me, "put completion for an unknown transfer (src %d id %u kind %u)", src, r.id, r.kind); return 1; }
    xfer_t *x = &st->xf[0][r.id]; x->data_tag = (int)tag; tlog_end(0, me, (int)r.id);
    h_event(me, "PT%u.%zu", r.id, msg_size);        /* the data tag is not part of the event: the real engine never resets its tag counter */ H_OBS(me, 0xB0000000ull | r.id | ((uint64_t)msg_size << 32));
    if (++x->remote_done > 1) { h_fail(me, "put into rank %d id %d size %zu: remote completion signalled %d times", me, x->id, x->size, x->remote_done); return 1; }
    if (msg_size != x->size) h_fail(me, "put into rank %d id %d: %zu bytes arrived, %zu requested", me, x->id, msg_size, x->size);
    long d = first_diff(x->base + GUARD, x->size, seed_of(2, src, 0, x->id), 0);
    if (d >= 0) h_fail(me, "put into rank %d id %d size %zu: window differs from the source at byte %ld when completion is signalled", me, x->id, x->size, d);
    if (!guards_ok(x->base, x->size)) h_fail(me, "put into rank %d id %d size %zu: guard bytes around the window were overwritten", me, x->id, x->size);
    unreg(me, x); st->x_done[0]++;
    return 1;
}
static int put_local_done(parsec_comm_engine_t *e, parsec_ce_mem_reg_handle_t lreg, ptrdiff_t ldispl, parsec_ce_mem_reg_handle_t rreg,
                          ptrdiff_t rdispl, size_t size, int remote, void *cb_data)
{   /* on the put source when its send completed */
    int me = H_CUR(); rank_state_t *st = S(me); (void)e; (void)rreg;
    xfer_t *x = (xfer_t *)cb_data;
    if (x < &st->xf[1][0] || x >= &st->xf[1][MAXX] || !x->used) { h_fail(me, "put local completion with foreign callback data"); return 1; }
    h_event(me, "PS%d", x->id); H_OBS(me, 0xB1000000ull | x->id);
    if (++x->local_done > 1) { h_fail(me, "put from rank %d id %d: local completion signalled %d times", me, x->id, x->local_done); return 1; }
    if (lreg != x->h || remote != 1 - me || ldispl != 0 || rdispl != 0 || size != x->size) h_fail(me, "put from rank %d id %d: local completion with foreign arguments (remote %d size %zu/%zu)", me, x->id, remote, size, x->size);
    long d = first_diff(x->base, x->size, seed_of(2, me, 0, x->id), 0);
    if (d >= 0) h_fail(me, "put from rank %d id %d: the SOURCE buffer was modified (byte %ld)", me, x->id, d);
    unreg(me, x); st->x_done[1]++;
    return 1;
}
static void serve_put(int r, const ctl_hdr_t *c, const uint8_t *handle)
{
    rank_state_t *st = S(r);
    if (c->id >= MAXX) { h_fail(r, "put request with id %u", c->id); return; }
    xfer_t *x = &st->xf[1][c->id];
    if (x->used) { h_fail(r, "put request id %u served twice", c->id); return; }
    x->used = 1; x->id = c->id; x->size = c->size;
    x->base = (uint8_t *)h_alloc(r, x->size + 8); fill(x->base, x->size, seed_of(2, r, 0, x->id));
    reg(r, x, x->base); memcpy(x->rcopy, handle, st->handle_size);
    rcb_t rc = { c->id, 0, c->size, r, 0 };
    H_OBS(r, 0xB2000000ull | c->id);
    tlog_begin(0, r, 1 - r, (int)c->id, r);
    H_CE(r)->put(H_CE(r), x->h, 0, (parsec_ce_mem_reg_handle_t)x->rcopy, 0, x->size, 1 - r, put_local_done, x, (parsec_ce_tag_t)c->cb_fn, &rc, sizeof(rc));
}
static int get_served(parsec_comm_engine_t *e, parsec_ce_tag_t tag, void *msg, size_t msg_size, int src, void *cb_data)
{   /* on the get source when its send completed; src / msg_size come from the status of a SEND request (undefined): not used */
    int me = H_CUR(); rank_state_t *st = S(me); (void)e; (void)tag; (void)cb_data; (void)msg_size; (void)src;
    rcb_t r; memcpy(&r, msg, sizeof(r));
    if (r.requester != 1 - me || r.kind != 2 || r.id >= MAXX || !st->xf[2][r.id].used) { h_fail(me, "get-served notification for an unknown transfer (peer %d id %u kind %u)", r.requester, r.id, r.kind); return 1; }
    xfer_t *x = &st->xf[2][r.id];
    h_event(me, "GS%u", r.id); H_OBS(me, 0xB3000000ull | r.id);
    if (++x->remote_done > 1) { h_fail(me, "get from rank %d id %d: served notification signalled %d times", me, x->id, x->remote_done); return 1; }
    if (r.size != x->size) h_fail(me, "get from rank %d id %d: notification carries size %zu, %zu offered", me, x->id, (size_t)r.size, x->size);
    long d = first_diff(x->base, x->size, seed_of(3, me, 0, x->id), 0);
    if (d >= 0) h_fail(me, "get from rank %d id %d: the SOURCE buffer was modified (byte %ld)", me, x->id, d);
    unreg(me, x); st->x_done[2]++;
    return 1;
}
static int get_local_done(parsec_comm_engine_t *e, parsec_ce_mem_reg_handle_t lreg, ptrdiff_t ldispl, parsec_ce_mem_reg_handle_t rreg,
                          ptrdiff_t rdispl, size_t size, int remote, void *cb_data)
{   /* on the get target when the data has arrived */
    int me = H_CUR(); rank_state_t *st = S(me); (void)e; (void)rreg;
    xfer_t *x = (xfer_t *)cb_data;
    if (x < &st->xf[3][0] || x >= &st->xf[3][MAXX] || !x->used) { h_fail(me, "get completion with foreign callback data"); return 1; }
    tlog_end(1, me, x->id);
    h_event(me, "GT%d.%zu", x->id, size); H_OBS(me, 0xB4000000ull | x->id | ((uint64_t)size << 32));
    if (++x->local_done > 1) { h_fail(me, "get into rank %d id %d size %zu: completion signalled %d times", me, x->id, x->size, x->local_done); return 1; }
    if (lreg != x->h || remote != 1 - me || ldispl != 0 || rdispl != 0 || size != x->size) h_fail(me, "get into rank %d id %d: completion with foreign arguments (remote %d size %zu/%zu)", me, x->id, remote, size, x->size);
    long d = first_diff(x->base + GUARD, x->size, seed_of(3, 1 - me, 0, x->id), 0);
    if (d >= 0) h_fail(me, "get into rank %d id %d size %zu: window differs from the source at byte %ld when completion is signalled", me, x->id, x->size, d);
    if (!guards_ok(x->base, x->size)) h_fail(me, "get into rank %d id %d size %zu: guard bytes around the window were overwritten", me, x->id, x->size);
    unreg(me, x); st->x_done[3]++;
    return 1;
}
static void do_get(int r, const ctl_hdr_t *c, const uint8_t *handle)
{
    rank_state_t *st = S(r);
    if (c->id >= MAXX) { h_fail(r, "get offer with id %u", c->id); return; }
    xfer_t *x = &st->xf[3][c->id];
    if (x->used) { h_fail(r, "get offer id %u seen twice", c->id); return; }
    x->used = 1; x->id = c->id; x->size = c->size;
    x->base = win_alloc(r, x->size); reg(r, x, x->base + GUARD); memcpy(x->rcopy, handle, st->handle_size);
    rcb_t rc = { c->id, 2, c->size, r, 0 };
    H_OBS(r, 0xB5000000ull | c->id);
    tlog_begin(1, 1 - r, r, (int)c->id, r);
    H_CE(r)->get(H_CE(r), x->h, 0, (parsec_ce_mem_reg_handle_t)x->rcopy, 0, x->size, 1 - r, get_local_done, x, (parsec_ce_tag_t)c->cb_fn, &rc, sizeof(rc));
}
static int ctl_cb(parsec_comm_engine_t *e, parsec_ce_tag_t tag, void *msg, size_t size, int src, void *cb_data)
{
    int me = H_CUR(); rank_state_t *st = S(me); ctl_hdr_t c; (void)e;
    st->ctl_delivered++;
    if (tag != TAG_C || cb_data != (void *)ctl_cb) { h_fail(me, "control callback invoked with tag %lu", (unsigned long)tag); return 1; }
    if (size != sizeof(c) + (size_t)st->handle_size || src != 1 - me) { h_fail(me, "control message from %d with size %zu", src, size); return 1; }
    memcpy(&c, msg, sizeof(c));
    if (c.cseq >= 2 * MAXX) { h_fail(me, "control message with sequence %u", c.cseq); return 1; }
    h_event(me, "c%u.%u.%u", c.op, c.id, c.cseq); H_OBS(me, 0xC0000000ull | c.op | (c.id << 4) | ((uint64_t)c.cseq << 32));
    if (++st->ctl_got[c.cseq] > 1) { h_fail(me, "control message %u delivered %d times", c.cseq, st->ctl_got[c.cseq]); return 1; }
    const uint8_t *handle = (const uint8_t *)msg + sizeof(c);
    if (c.op == CTL_PUT_REQ) {
        /* same pattern as remote_dep_mpi_save_put_cb: put from inside the callback if the engine can serve, else defer */
        if (H_CE(me)->can_serve(H_CE(me)) && st->pend_head == st->pend_tail) serve_put(me, &c, handle);
        else { pend_t *p = &st->pend[st->pend_tail++ % MAXX]; p->h = c; memcpy(p->handle, handle, st->handle_size); st->deferred_puts++; H_OBS(me, 0xC1000000ull | c.id); }
    } else if (c.op == CTL_GET_OFFER) do_get(me, &c, handle);
    else h_fail(me, "control message with op %u", c.op);
    return 1;
}

/* ---------------- the two kinds of engine calls a rank makes ---------------- */
static void step_progress(int r)
{
    rank_state_t *st = S(r);
    H_ENTER(r); h_clock++;
    H_CE(r)->progress(H_CE(r));
    while (st->pend_head != st->pend_tail && H_CE(r)->can_serve(H_CE(r))) { pend_t *p = &st->pend[st->pend_head++ % MAXX]; serve_put(r, &p->h, p->handle); }
}
static void step_op(int r)
{
    rank_state_t *st = S(r); const sop_t *o = &SC.ops[r][st->next_op];
    H_ENTER(r); h_clock++;
    H_OBS(r, 0xD0000000ull | st->next_op);
    st->next_op++;
    if (o->kind == OP_AM) am_send(r, o->stream, o->size);
    else if (o->kind == OP_PUTREQ) {
        int id = st->put_ids++; xfer_t *x = &st->xf[0][id];
        x->used = 1; x->id = id; x->size = o->size; x->base = win_alloc(r, x->size); reg(r, x, x->base + GUARD);
        send_ctl(r, CTL_PUT_REQ, id, x->size, (uintptr_t)put_remote_done, x->h);
    } else {
        int id = st->get_ids++; xfer_t *x = &st->xf[2][id];
        x->used = 1; x->id = id; x->size = o->size; x->base = (uint8_t *)h_alloc(r, x->size + 8); fill(x->base, x->size, seed_of(3, r, 0, id)); reg(r, x, x->base);
        send_ctl(r, CTL_GET_OFFER, id, x->size, (uintptr_t)get_served, x->h);
    }
}
/* everything this rank's script promises has happened */
static int rank_finished(int r)
{
    rank_state_t *st = S(r); int p = 1 - r;
    if (st->next_op < SC.nops[r] || st->pend_head != st->pend_tail) return 0;
    for (int s = 0; s < NSTREAM; s++) if (st->am_delivered[s] < SC.n_am[p][s]) return 0;
    if (st->ctl_delivered < SC.n_put[p] + SC.n_get[p]) return 0;
    return st->x_done[0] >= SC.n_put[r] && st->x_done[1] >= SC.n_put[p] && st->x_done[2] >= SC.n_get[r] && st->x_done[3] >= SC.n_get[p];
}
static void describe_rank(int r, char *b, size_t cap)
{
    rank_state_t *st = S(r); int p = 1 - r;
    snprintf(b, cap, "rank %d: %d/%d ops issued, AM deliveries A %d/%d B %d/%d, control %d/%d, put-target %d/%d put-source %d/%d get-source %d/%d get-target %d/%d, %d puts deferred and waiting",
             r, st->next_op, SC.nops[r], st->am_delivered[0], SC.n_am[p][0], st->am_delivered[1], SC.n_am[p][1], st->ctl_delivered, SC.n_put[p] + SC.n_get[p],
             st->x_done[0], SC.n_put[r], st->x_done[1], SC.n_put[p], st->x_done[2], SC.n_get[r], st->x_done[3], SC.n_get[p], st->pend_tail - st->pend_head);
}
/* final audit of a run in which both ranks finished: exactly-once counts, windows still intact */
static void final_audit(int r)
{
    rank_state_t *st = S(r); int p = 1 - r;
    for (int s = 0; s < NSTREAM; s++) {
        if (st->am_delivered[s] != SC.n_am[p][s]) h_fail(r, "tag %u: %d messages delivered, %d sent", stream_tag[s], st->am_delivered[s], SC.n_am[p][s]);
        for (int q = 0; q < SC.n_am[p][s]; q++) if (script_am_size(p, s, q) > 0 && st->am_got[s][q] != 1) h_fail(r, "AM tag %u seq %d delivered %d times", stream_tag[s], q, st->am_got[s][q]);
    }
    if (st->ctl_delivered != SC.n_put[p] + SC.n_get[p]) h_fail(r, "%d control messages delivered, %d sent", st->ctl_delivered, SC.n_put[p] + SC.n_get[p]);
    static const int want_local[4] = { 0, 1, 0, 1 }, want_remote[4] = { 1, 0, 1, 0 };
    for (int k = 0; k < 4; k++)
        for (int id = 0; id < MAXX; id++) {
            xfer_t *x = &st->xf[k][id]; if (!x->used) continue;
            if (x->local_done != want_local[k] || x->remote_done != want_remote[k]) h_fail(r, "transfer kind %d id %d size %zu: local completions %d (want %d), remote completions %d (want %d)", k, id, x->size, x->local_done, want_local[k], x->remote_done, want_remote[k]);
            if (k == 0 || k == 3) {
                long d = first_diff(x->base + GUARD, x->size, seed_of(k == 0 ? 2 : 3, p, 0, id), 0);
                if (d >= 0 || !guards_ok(x->base, x->size)) h_fail(r, "transfer kind %d id %d size %zu: window or guards changed after completion", k, id, x->size);
            }
        }
}
static void rank_state_reset(int r, int handle_size)
{
    rank_state_t *st = S(r);
    for (int i = 0; i < st->nalloc; i++) free(st->allocs[i]);
    memset(st, 0, sizeof(*st)); st->handle_size = handle_size;
    for (int s = 0; s < NSTREAM; s++) st->am_lastq[s] = -1;
    h_ntlog = 0; h_clock = 0; h_xfer_calls[0] = h_xfer_calls[1] = 0;
}
