import os, vlib
META = dict(
    engine='cosched+seqx',
    technique='stateless model checking (CHESS-style preemption-bounded schedule enumeration) of the real arena and thread mempools with a tracking allocator and ownership ground truth, plus exhaustive BFS over allocate/release histories of the real arena against a counter model',
    level_text='E1: every schedule with <= b preemptions (b=2 quick, 3 thorough) of 15 two/three-thread allocate/tag/verify/release scripts over a shared parsec_arena_t (limits (2,1),(2,0),(3,0),(inf,1),(3,2),(4,2),(2,inf),(4,1),(4,0); element counts 1 and 2) and over a shared parsec_mempool_t (blocks freed by the other thread: owner-return path); after every allocation: alignment, size, distinct live owners, owned elements <= max_used; at rest: counters equal the real list contents, exactly max_used single blocks can be had, no leak, no double free; at most max_released blocks cached (also with two or three threads releasing at the same time). E1g: GENERATED script families, simplest first, each under a wall budget: arena (element 40, alignment 16): all scripts pre-state {(allocation limit 2|none) x (cache limit 0|1|none) x (0|1 block held by somebody else) x (0|1 block already cached)} (11 pre-states placing the threads AT the limits) x T0 || T1 (|| T2) over {allocate 1, allocate 2, release oldest, release newest}, minus contract violations (release without a block), up to thread renaming - quick: (1,1) b=3, (2,1) b=2, (2,2) b=2; thorough: (2,2) b=3, (3,2) b=2, (3,3) b=2, (1,1,1) b=2, (2,2,2) b=1; mempool: pre-population 0|1|2 x T0 || T1 over {allocate, free, hand over to the other thread, take over and free} with every take-over matched, deadlock-free and at least one hand-over - quick: shape (3,2) b=2; thorough: (3,3) b=3, (4,3) b=2; same oracle. E2: all allocate(1)/allocate(2)/release(k) histories up to depth 8 (thorough 10) for six (max_used,max_cached,elem,alignment) settings against a counter model (grant/refuse, cache hit/miss, counters, cache size).',
    level_note='Sequential consistency at instrumented accesses; 2-3 threads, <= 5 operations per thread; generated families are cut by a wall budget on a loaded machine (exhaustive:false for that leg, scripts_explored < scripts_after_symmetry); the arena is driven through parsec_arena_allocate_device_private / parsec_arena_release with harness-built data copies (the chunk layer under test is unchanged), blocks come from a tracking allocator installed in arena->data_malloc/data_free.',
)
RULE = ("cosched (hand-written scripts, and every script of the generated families 'family/ar*' / 'family/mp*': see the leg's alphabet, scripts_generated / _after_contract / _after_symmetry / _explored / _completed): every schedule of each 2-3 thread script with at most b preemptions (scheduling points = every instrumented access to the arena's "
        "free-list head, its used/released counters, the list links of every block, the mempools' list heads/nb_elt, the links of every pool "
        "element and the hand-over mailbox); non-trivial = at least one preemption; states = nodes of the schedule tree; distinct outcomes = "
        "distinct (grants, refusals, cache hits, cached blocks, used counter, system allocations). seqx: BFS over operation histories "
        "deduplicated by (used, cached, released, blocks held, free-list shape); non-trivial = history of >= 2 operations")

# ---- generated (bounded-exhaustive) script families: c27gen.py enumerates, arena_conc.c parses the script text; see NOTES.md ----
# label, kind (ar = arena, mp = mempool), shape (ops per thread), threads with exactly that many ops, pre-states (None = all), preemption bound,
# seconds a started script may always use, wall budget (s), scripts per engine invocation
CORE = ['u2c1h0p0', 'u2c1h1p0', 'u2c1h0p1', 'u2c0h1p0', 'u2cIh0p1', 'uIc1h0p1']
FAMILIES = {
    'quick': [
        dict(label='ar11_b3', kind='ar', shape=(1, 1), exact=(), pre=None, bound=3, allow=2.5, budget=6, batch=3),
        dict(label='ar21_b2', kind='ar', shape=(2, 1), exact=(0,), pre=None, bound=2, allow=2.5, budget=8, batch=6),
        dict(label='ar22_b2', kind='ar', shape=(2, 2), exact=(0, 1), pre=CORE, bound=2, allow=4, budget=9, batch=4),
        dict(label='mp32_b2', kind='mp', shape=(3, 2), exact=(), pre=None, bound=2, allow=4, budget=7, batch=3),
    ],
    'thorough': [
        dict(label='ar22_b3', kind='ar', shape=(2, 2), exact=(), pre=None, bound=3, allow=8, budget=60, batch=4),
        dict(label='ar32_b2', kind='ar', shape=(3, 2), exact=(0,), pre=None, bound=2, allow=3, budget=60, batch=8),
        dict(label='ar33_b2', kind='ar', shape=(3, 3), exact=(0, 1), pre=CORE, bound=2, allow=4, budget=50, batch=4),
        dict(label='ar111_b2', kind='ar', shape=(1, 1, 1), exact=(), pre=None, bound=2, allow=6, budget=30, batch=4),
        dict(label='ar222_b1', kind='ar', shape=(2, 2, 2), exact=(), pre=CORE, bound=1, allow=3, budget=40, batch=8),
        dict(label='mp33_b3', kind='mp', shape=(3, 3), exact=(), pre=None, bound=3, allow=10, budget=40, batch=2),
        dict(label='mp43_b2', kind='mp', shape=(4, 3), exact=(0,), pre=None, bound=2, allow=5, budget=30, batch=4),
    ],
}


def gen_family(ctx, exe, f, procs, jobs):
    """Explore one generated family: parallel engine invocations over batches of scripts (simplest first) until everything is
    done or the wall budget is used up; one aggregated evidence leg."""
    import sys, json, time, statistics
    from concurrent.futures import ThreadPoolExecutor
    sys.path.insert(0, os.path.dirname(os.path.abspath(__file__)))
    import c27gen
    counts, names, alphabet = c27gen.family(f['kind'], f['shape'], f['pre'], f['exact'])
    batches = [(i, names[i:i + f['batch']]) for i in range(0, len(names), f['batch'])]
    t0 = time.time(); t_end = t0 + f['budget']
    mine = 'fam:%s:' % f['label']
    nviol0 = len(ctx.violations)
    os.makedirs(os.path.join(vlib.OUT, 'gen'), exist_ok=True)
    def one(b):
        i, part = b
        left = t_end - time.time()
        if left < 1.0 or len(ctx.violations) >= nviol0 + 3:
            return          # budget used up (or violations already reported): not explored -> exhaustive:false
        gf = os.path.join(vlib.OUT, 'gen', 'C27-%s-%d-%d.txt' % (f['label'], i, os.getpid()))
        open(gf, 'w').write('\n'.join(part) + '\n')
        dl = max(2, int(left), int(f['allow'] * len(part) + 0.999))      # a started batch may always use `allow` seconds per script
        ctx.run_engine(exe, ['--gen-file', gf, '--bound', str(f['bound']), '--scenario', 'all', '--jobs', str(jobs), '--deadline', str(dl), '--outdir', vlib.OUT],
                       label='%s%d' % (mine, i), timeout=dl + 300)
        try: os.unlink(gf)
        except OSError: pass
    with ThreadPoolExecutor(max_workers=procs) as ex:
        list(ex.map(one, batches))
    legs = [l for l in ctx.legs if str(l.get('leg', '')).startswith(mine)]
    ctx.legs[:] = [l for l in ctx.legs if not str(l.get('leg', '')).startswith(mine)]
    pos = {nm: i for i, nm in enumerate(names)}
    legs.sort(key=lambda l: pos.get(l['name'], 0))
    complete = [l for l in legs if l.get('exhaustive')]
    outs = [int(l.get('distinct_outcomes', 0)) for l in (complete or legs)]
    samples = []
    for l in sorted(legs, key=lambda l: -int(l.get('distinct_outcomes', 0)))[:2] + legs[:1]:
        for sm in l.get('samples', [])[:1]:
            samples.append(dict(sm, script=l['name']))
    nviol = sum(int(l.get('violations', 0)) for l in legs)
    nex = sum(int(l.get('executions', 0)) for l in legs)
    ctx.add_leg(name=f['label'], leg='family', engine='cosched', object={'ar': 'arena', 'mp': 'mempool'}[f['kind']], shape=list(f['shape']),
                exact_threads=list(f['exact']), prestates=f['pre'] or (c27gen.AR_PRE if f['kind'] == 'ar' else c27gen.MP_PRE), bound=f['bound'], alphabet=alphabet,
                scripts_generated=counts['generated'], scripts_after_contract=counts['after_contract'], scripts_after_relevance=counts.get('after_relevance', counts['after_contract']),
                scripts_after_symmetry=counts['after_symmetry'], scripts_explored=len(legs), scripts_completed=len(complete),
                states=sum(int(l.get('states', 0)) for l in legs), transitions=sum(int(l.get('transitions', 0)) for l in legs),
                executions=nex, nontrivial=sum(int(l.get('nontrivial', 0)) for l in legs),
                distinct_outcomes=sum(outs), outcomes_per_script=dict(min=min(outs), median=statistics.median(outs), max=max(outs)) if outs else {},
                single_outcome_scripts=sum(1 for o in outs if o <= 1), max_points=max([int(l.get('max_points', 0)) for l in legs] or [0]),
                exhaustive=(len(complete) == counts['after_symmetry']), violations=nviol, last_script_explored=legs[-1]['name'] if legs else None,
                wall_s=round(time.time() - t0, 2), samples=samples)
    sys.stderr.write('C27 family %s (bound %d): %d generated, %d after contract, %d after symmetry; explored %d (complete %d), %d schedules, outcomes/script min %s max %s, %d single-outcome, %.1fs\n'
                     % (f['label'], f['bound'], counts['generated'], counts['after_contract'], counts['after_symmetry'], len(legs), len(complete), nex,
                        min(outs) if outs else '-', max(outs) if outs else '-', sum(1 for o in outs if o <= 1), time.time() - t0))
    # vacuity guard: a family whose scripts all have one outcome collides with nothing
    if len(complete) >= 8 and max(outs) <= 1 and not nviol and len(complete) < counts['after_symmetry']:
        ctx.notes.append('family %s: the %d scripts explored before the budget cut all have a single outcome (vacuity is only judged on a completely explored family)' % (f['label'], len(complete)))
    elif len(complete) >= 8 and max(outs) <= 1 and not nviol:
        ctx.broken.append('family %s: every one of the %d explored scripts has a single outcome: the alphabet collides with nothing' % (f['label'], len(complete)))
    # the replay file of a generated script is self-contained (scenario = script text); add the expansion for the reader
    for rp, lab in ctx.violations[nviol0:]:
        try:
            o = json.load(open(rp))
            if o.get('scenario', '').startswith('g_'):
                o['script'] = c27gen.describe(o['scenario']); o['script_text'] = o['scenario']
                json.dump(o, open(rp, 'w'), separators=(',', ':'))      # compact: cosched's replay reader looks for "scenario":" and "choices":[
        except (OSError, ValueError):
            pass


def families(ctx, exe):
    sel = os.environ.get('C27_FAMILIES')                    # development: comma-separated labels
    scale = float(os.environ.get('C27_BUDGET_SCALE', '1'))   # development: multiply the wall budgets
    if ctx.tier == 'thorough' and 'C27_BUDGET_SCALE' not in os.environ:
        # the other legs are deadline-bound; when the machine is not overloaded they finish early and the families get what is left of
        # the tier's ~20 minutes (never less than their nominal budgets, at most 3 times as much)
        import time
        scale = max(1.0, min(3.0, (1080 - (time.time() - ctx.t0)) / sum(f['budget'] for f in FAMILIES[ctx.tier])))
    for f in FAMILIES[ctx.tier]:
        if sel and f['label'] not in sel.split(','):
            continue
        # the scripts are small: one worker per invocation and one invocation per core up to bound 2; 2 workers each beyond
        procs, jobs = (max(1, min(16, vlib.NJOBS)), 1) if f['bound'] <= 2 else (max(1, min(8, vlib.NJOBS // 2)), 2)
        gen_family(ctx, exe, dict(f, budget=f['budget'] * scale), procs, jobs)

def build(ctx):
    return ctx.compile('hk-shm', 'arena', ['arena_conc.c'], engine='cosched')
def build_seq(ctx, depth):
    return ctx.compile('hk-shm', 'arenaseq%d' % depth, ['arena_seq.c'], instr=False, cflags=['-DMAXDEPTH=%d' % depth])
def check(ctx):
    exe = build(ctx)
    def leg(sets, bound, deadline):
        env = dict(os.environ); env['C27_SET'] = sets
        args = ['--bound', str(bound), '--jobs', str(min(vlib.NJOBS, 4 if ctx.tier == 'quick' else 12)), '--outdir', vlib.OUT, '--deadline', str(deadline)]
        ctx.run_engine(exe, args, label='arena-%s-b%d' % (sets, bound), timeout=deadline + 600, env=env)
    which = os.environ.get('C27_ONLY', '')        # development switch: 'gen' = generated families only, 'hand' = everything else
    if which in ('', 'hand'):
        if ctx.tier == 'quick':
            leg('a', 2, 30)
            leg('k', 2, 6)
            leg('b', 1, 8)
            ctx.run_engine(build_seq(ctx, 8), ['--outdir', vlib.OUT, '--deadline', '20'], label='arena-seq-d8', timeout=300)
        else:
            leg('a', 3, 300)
            leg('k', 3, 45)
            leg('b', 2, 250)
            ctx.run_engine(build_seq(ctx, 10), ['--outdir', vlib.OUT, '--deadline', '120'], label='arena-seq-d10', timeout=900)
    if which in ('', 'gen'):
        families(ctx, exe)
    return ctx.finish(RULE, ["sequential consistency at instrumented accesses (no weak-memory effects)",
                             "gcc -fsanitize=thread instrumentation reports every access to the watched objects",
                             "owners respect the usage contract (a block is released once, by its owner, after detaching the copy)"])
def replay(ctx, path, obj):
    import subprocess
    if obj.get('engine') == 'seqx':
        return subprocess.call([build_seq(ctx, 10), '--replay', path])
    return subprocess.call([build(ctx), '--replay', path])
