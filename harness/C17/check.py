import os, subprocess, threading, json, shutil
META = dict(
    engine='rt+mp',
    technique='bounded-exhaustive DTD program family x flush subsets on the real runtime against a sequential reference (single process, in-process); '
              'the same driver under mpiexec -n {2,3}: programs x every tile-owner assignment x every task placement x flush modes',
    level_text='n=1: every DTD program with <= 3 tasks (1-2 parameters, modes INPUT/OUTPUT/INOUT, 2 tiles) is executed with parsec_dtd_data_flush of every subset of tiles '
               '(+ wait + check) followed by parsec_dtd_data_flush_all (+ wait + check): the owner copy of each flushed tile must hold the value produced by the last inserted '
               'writer. n=2,3 (hk-mpi, real MPI processes): programs with <= 2 tasks x all owner assignments x all task placements (affinity) x {flush_all, single-tile flush first}, '
               'enumerated in a fixed order until the launch deadline (exhaustive:false when the deadline cuts the enumeration); owner copies and every body observation (C03 oracle) '
               'are gathered with MPI_Allreduce and compared with the sequential reference.',
    level_note='Message timing in the multi-rank legs is whatever Open MPI produces (not enumerated). Task-object recycling is suppressed and no task names a tile twice '
               '(known findings C03-stale-last-user-aba / C03-dup-tile-reader-count, exercised by C03). A launch that does not finish is re-run alone on its in-progress case with a 4x limit before a hang is believed.',
)
RULE = ("states = canonical programs; executions = complete taskpool cycles (one per program x configuration x flush mode [x owners x placement]); transitions = task executions; "
        "a case is non-trivial when some task accesses a tile owned by another rank (multi-rank legs) / tasks ran out of insertion order (n=1); "
        "outcomes = distinct (program, placement, gathered observations and final owner copies) signatures")
ASSUME = ["the driver flushes every tile and waits before reading owner copies (documented DTD usage)",
          "multi-rank legs: message interleavings are not controlled; one compute thread per rank plus the communication thread",
          "driver keeps completed task objects out of the class free lists (--norecycle); no task names a tile twice",
          "DTD hash tables reduced to 64 buckets"]
CFLAGS = ['-I/repo/parsec', '-I/verif/engine/rt']
ENV = dict(os.environ, OMPI_ALLOW_RUN_AS_ROOT='1', OMPI_ALLOW_RUN_AS_ROOT_CONFIRM='1', PARSEC_MCA_bind_threads='0', PARSEC_MCA_runtime_comm_thread_yield='2')

def build1(ctx):
    return ctx.compile('hk-shm', 'c17', ['c17_h.c'], instr=False, cflags=CFLAGS)
def buildm(ctx):
    return ctx.compile('hk-mpi', 'c17mpi', ['c17_mpi.c'], instr=False, mpi=True, cflags=CFLAGS)

def wrap(exe, n):
    path = '/verif/out/bin/C17-mpi-np%d.sh' % n
    with open(path, 'w') as f:
        f.write('#!/bin/sh\nexec mpiexec -n %d --oversubscribe %s "$@"\n' % (n, exe))
    os.chmod(path, 0o755)
    return path

def mpi_leg(ctx, exe, n, name, args, deadline):
    """one launch; a launch that does not come back is investigated: its in-progress case is replayed alone with a 4x limit"""
    prog = '/verif/out/res/C17-%s-%d-progress.json' % (name, os.getpid())
    if os.path.exists(prog):
        os.unlink(prog)
    ctx.run_engine(wrap(exe, n), ['--name', name, '--outdir', '/verif/out', '--deadline', str(deadline), '--progress', prog] + args, label=name, timeout=deadline + 150, env=ENV)
    mine = [b for b in ctx.broken if b.startswith(name + ': timed out')]
    if not mine:
        return
    subprocess.call(['pkill', '-9', '-f', '--', '--progress ' + prog])
    for b in mine:
        ctx.broken.remove(b)
    if not os.path.exists(prog) or os.path.getsize(prog) == 0:
        ctx.notes.append('%s: launch did not reach its first case within the time limit (overloaded machine); nothing claimed for this leg' % name)
        ctx.add_leg(name=name, leg=name, states=0, transitions=0, executions=0, nontrivial=0, distinct_outcomes=0, exhaustive=False, samples=['launch cut by the time limit before the first case'])
        return
    rp = '/verif/out/replay/C17-%s-%d-hang.json' % (name, os.getpid())
    txt = open(prog).read().strip()
    open(rp, 'w').write(txt[:txt.rfind('}') + 1] + '\n')
    try:
        r = subprocess.run([wrap(exe, n), '--replay', rp, '--outdir', '/verif/out'], env=ENV, capture_output=True, text=True, timeout=4 * 150)
        hung = False
    except subprocess.TimeoutExpired:
        subprocess.call(['pkill', '-9', '-f', '--', '--replay ' + rp]); hung = True; r = None
    if hung:
        ctx.violation(rp, 'multi-rank launch never terminated; the in-progress case alone hangs as well (4x limit)')
    elif r.returncode == 1:
        ctx.violation(rp, 'multi-rank launch never terminated; replay of the in-progress case fails: ' + r.stdout[-300:])
    else:
        ctx.notes.append('%s: launch exceeded its time limit under load; the in-progress case passes alone (not a hang)' % name)
        ctx.add_leg(name=name, leg=name, states=0, transitions=0, executions=0, nontrivial=0, distinct_outcomes=0, exhaustive=False, samples=['launch cut by the time limit'])

def check(ctx):
    e1 = build1(ctx); em = buildm(ctx)
    q = ctx.tier == 'quick'
    common = ['--outdir', '/verif/out', '--norecycle', '1', '--dup', '0']
    only = os.environ.get('C17_LEGS')
    def leg1(name, args, deadline):
        if only and name not in only.split(','):
            return
        ctx.run_engine(e1, ['--name', name] + args + common + ['--deadline', str(deadline)], label=name, timeout=deadline + 400)
    def legm(name, n, args, deadline):
        if only and name not in only.split(','):
            return
        mpi_leg(ctx, em, n, name, args, deadline)
    if q:
        leg1('n1-flush', ['--leg', 'inproc', '--threads', '1', '--nt', '1:3', '--maxp', '2', '--flush', '1', '--win', '1,1;0,0', '--api', '1', '--jobs', '8'], 60)
        leg1('n1-order', ['--leg', 'gate', '--nt', '1:2', '--maxp', '1', '--flush', '1', '--win', '0,0', '--jobs', '8'], 60)
        ths = [threading.Thread(target=legm, args=('mpi2', 2, ['--nt', '1:2', '--maxp', '2'], 35)),
               threading.Thread(target=legm, args=('mpi3', 3, ['--nt', '1:2', '--maxp', '1', '--stride', '2'], 35))]
    else:
        leg1('n1-flush', ['--leg', 'inproc', '--threads', '1', '--nt', '1:3', '--maxp', '3', '--alpha', 't', '--flush', '1', '--win', '1,1;2,1;0,0', '--jobs', '12'], 300)
        leg1('n1-order', ['--leg', 'gate', '--nt', '1:2', '--maxp', '2', '--flush', '1', '--win', '0,0;1,1', '--jobs', '12'], 240)
        ths = [threading.Thread(target=legm, args=('mpi2-p%d' % i, 2, ['--nt', '1:3', '--maxp', '2', '--part', str(i), '--parts', '3'], 500)) for i in range(3)]
        ths += [threading.Thread(target=legm, args=('mpi3-p%d' % i, 3, ['--nt', '1:2', '--maxp', '2', '--part', str(i), '--parts', '2'], 500)) for i in range(2)]
    for t in ths: t.start()
    for t in ths: t.join()
    return ctx.finish(RULE, ASSUME)

def replay(ctx, path, obj):
    if obj.get('harness') == 'mpi':
        exe = wrap(buildm(ctx), int(obj.get('nranks', '2')))
        return subprocess.call([exe, '--replay', path, '--outdir', '/verif/out'], env=ENV)
    return subprocess.call([build1(ctx), '--replay', path, '--outdir', '/verif/out'])
