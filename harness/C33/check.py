META = dict(
    engine='cosched',
    technique='stateless model checking: preemption-bounded exhaustive schedule enumeration (CHESS) of the real ticket rwlock with occupancy oracle, deadlock/livelock detection and forced reader rendezvous',
    level_text='Every schedule with <= b preemptions (b=2 quick, 3 thorough) of 25 scripts (all role assignments of 3 threads x 1 cycle, all pairs of 2-cycle scripts, eight 3-thread mixed scripts, three forced reader-rendezvous scripts) over the real parsec_atomic_rwlock_t is executed; in each, critical-section occupancy (no writer with anybody else), integrity of a non-atomically updated protected word, termination of every thread (no deadlock, no livelock) and - in the rendezvous scripts - simultaneous presence of all readers are checked.',
    level_note='Sequential consistency at instrumented accesses; 2-3 threads, <= 2 lock cycles per thread, so starvation-freedom is shown as termination of every bounded script under every explored schedule, not for unbounded competitors; the implementation checked is the one configured in parsec_rwlock.h (TICKET).',
)
RULE = ("cosched: every schedule of each 2-3 thread lock-cycle script over the real parsec_atomic_rwlock_t with at most b preemptions "
        "(scheduling points = every instrumented access to the lock words and to the harness occupancy counters/protected word inside the "
        "critical sections, plus the library's WAIT hooks); a schedule is non-trivial when it contains at least one preemption; "
        "states = nodes of the explored schedule tree; distinct outcomes = distinct (acquisition order, max simultaneous readers, bypass counts)")
import os, vlib
SRC = ['rwlock_h.c']
def check(ctx):
    exe = ctx.compile('hk-shm', 'rwlock', SRC, engine='cosched')
    def leg(sets, bound, deadline):
        env = dict(os.environ); env['C33_SET'] = sets
        args = ['--bound', str(bound), '--jobs', str(min(vlib.NJOBS, 8 if ctx.tier == 'quick' else 12)), '--outdir', vlib.OUT, '--deadline', str(deadline)]
        ctx.run_engine(exe, args, label='rwlock-%s-b%d' % (sets.replace(',', '+'), bound), timeout=deadline + 600, env=env)
    if ctx.tier == 'quick':
        leg('pairs,small3', 2, 45)
        leg('quick3', 1, 15)
    else:
        leg('pairs', 4, 180)
        leg('small3,big3', 3, 300)
        leg('mixed3', 2, 300)
    return ctx.finish(RULE, ["sequential consistency at instrumented accesses (no weak-memory effects)",
                             "gcc -fsanitize=thread instrumentation reports every access to the watched objects",
                             "progress is established for bounded scripts (<= 2 cycles per thread): every thread finishes in every explored schedule"])
def replay(ctx, path, obj):
    import subprocess
    exe = ctx.compile('hk-shm', 'rwlock', SRC, engine='cosched')
    return subprocess.call([exe, '--replay', path])
