/* C14 tier 2, conformance of the virtual MPI: the SAME scripts and oracle (c14_script.h) on the real engine of libparsec over
 * the real MPI, 2 processes.  The run follows, step by step, the deviation-free trace computed by c14_v (--emit-trace) on the
 * virtual MPI: at every step the rank named by the trace makes the call named by the trace (A = next script call, P =
 * progress(), repeated until the number of harness callbacks the virtual run saw in that step have happened), then both ranks
 * meet in a barrier on MPI_COMM_WORLD.  Every rank records the callbacks it saw in every step; check.py compares them with
 * the virtual run's.  Initialisation exactly as tier 1 (ce_h.c): MPI_Init_thread + parsec_init, the runtime's own engine
 * instance finalised at once, then per scenario environment -> parsec_comm_engine_init -> tag_register -> enable -> script ->
 * tag_unregister -> fini.
 *
 * trace file:  "S <scenario>" starts a scenario, "A <rank> <nev>" / "P <rank> <nev>" its steps, "E" ends it.
 */
#include <mpi.h>
#include <sched.h>
#include <time.h>
#include <unistd.h>
#define H_NR 1
#define H_IDX(r) 0
static int g_me; static struct parsec_comm_engine_s *g_ce;
#define H_CE(r) g_ce
#define H_CUR() g_me
#define H_ENTER(r) ((void)0)
#define H_OBS(r, x) ((void)0)
#include "c14_script.h"
#include "parsec/utils/mca_param.h"

static double now(void) { struct timespec ts; clock_gettime(CLOCK_MONOTONIC, &ts); return ts.tv_sec + 1e-9 * ts.tv_nsec; }
static parsec_context_t *parsec_ctx;
static char outdir[1024] = "."; static double step_timeout = 20.0;
static FILE *out; static int nscen_written = 0;
static const char *mca_env[4] = { "PARSEC_MCA_runtime_comm_mpi_am_posted_requests", "PARSEC_MCA_runtime_comm_mpi_am_tested_requests",
                                  "PARSEC_MCA_runtime_comm_mpi_dynamic_requests", "PARSEC_MCA_runtime_comm_mpi_dynamic_recv_requests" };
static int mca_int(const char *name) { int idx = parsec_mca_param_find("runtime", NULL, name), v = -1; if (idx >= 0) parsec_mca_param_lookup_int(idx, &v); return v; }

typedef struct { char kind; int rank, nev; } tstep_t;
static tstep_t steps[1024]; static int nsteps;

static void run_scenario(const char *scen)
{
    if (scenario_parse(scen, &SC)) { fprintf(stderr, "c14_real: bad scenario %s\n", scen); MPI_Abort(MPI_COMM_WORLD, 2); }
    for (int i = 0; i < 4; i++) { char v[32]; snprintf(v, sizeof(v), "%d", SC.cfg[i]); setenv(mca_env[i], v, 1); }
    g_ce = parsec_comm_engine_init(parsec_ctx);
    if (!g_ce) { fprintf(stderr, "c14_real: parsec_comm_engine_init failed\n"); MPI_Abort(MPI_COMM_WORLD, 2); }
    if (mca_int("comm_mpi_am_posted_requests") != SC.cfg[0] || mca_int("comm_mpi_am_tested_requests") != SC.cfg[1] || mca_int("comm_mpi_dynamic_requests") != SC.cfg[2] || mca_int("comm_mpi_dynamic_recv_requests") != SC.cfg[3])
    { fprintf(stderr, "c14_real: window parameters of %s not in effect\n", scen); MPI_Abort(MPI_COMM_WORLD, 2); }
    for (int s = 0; s < NSTREAM; s++) if (PARSEC_SUCCESS != g_ce->tag_register(stream_tag[s], am_cb, (void *)(intptr_t)s, stream_len[s])) { fprintf(stderr, "c14_real: tag not free\n"); MPI_Abort(MPI_COMM_WORLD, 2); }
    if (PARSEC_SUCCESS != g_ce->tag_register(TAG_C, ctl_cb, (void *)ctl_cb, LEN_C)) { fprintf(stderr, "c14_real: tag not free\n"); MPI_Abort(MPI_COMM_WORLD, 2); }
    g_ce->enable(g_ce);
    rank_state_reset(g_me, g_ce->get_mem_handle_size());
    rank_state_t *st = S(g_me);
    const char *status = "ok"; char msg[700] = ""; int hang = 0;
    fprintf(out, "%s{\"scenario\":\"%s\",\"steps\":[", nscen_written++ ? ",\n" : "", scen);
    for (int i = 0; i < nsteps; i++) {
        int ev0 = st->nev;
        if (steps[i].rank == g_me && !hang) {
            if (steps[i].kind == 'A') step_op(g_me);
            else {
                double t0 = now(); int calls = 0;
                for (;;) {
                    step_progress(g_me); calls++;
                    if (st->nev - ev0 >= steps[i].nev && (steps[i].nev > 0 || calls >= 3)) break;
                    if (now() - t0 > step_timeout) { hang = 1; snprintf(msg, sizeof(msg), "step %d (P%d): %d of %d callbacks after %.0f s; %s", i, g_me, st->nev - ev0, steps[i].nev, step_timeout, st->nfail ? st->fail : "no oracle failure"); break; }
                    if (st->nfail) { hang = 1; snprintf(msg, sizeof(msg), "step %d (P%d): %s", i, g_me, st->fail); break; }
                    sched_yield();
                }
            }
        }
        fprintf(out, "%s[", i ? "," : "");
        for (int k = ev0; k < st->nev; k++) fprintf(out, "%s\"%s\"", k > ev0 ? "," : "", st->ev[k]);
        fprintf(out, "]");
        int h2 = 0; MPI_Allreduce(&hang, &h2, 1, MPI_INT, MPI_MAX, MPI_COMM_WORLD);       /* the barrier of the step; a hang anywhere ends the scenario everywhere */
        if (h2) { hang = 1; break; }
    }
    if (hang) status = "hang";
    else {
        if (!rank_finished(g_me)) { char d[500]; describe_rank(g_me, d, sizeof(d)); h_fail(g_me, "the trace ended but the script is not finished: %s", d); }
        else final_audit(g_me);
        for (int i = 0; i < 5; i++) { int ev0 = st->nev; step_progress(g_me); if (st->nev != ev0) h_fail(g_me, "a callback (%s) after the end of the trace", st->ev[ev0]); }
        if (st->nfail) { status = "fail"; snprintf(msg, sizeof(msg), "%s", st->fail); }
    }
    for (char *p = msg; *p; p++) if (*p == '"' || *p == '\\' || (unsigned char)*p < 32) *p = '\'';
    fprintf(out, "],\"status\":\"%s\",\"message\":\"%s\",\"am_inversions\":%d,\"deferred_puts\":%d}", status, msg, st->am_inversions, st->deferred_puts);
    fflush(out);
    if (hang) { fclose(out); MPI_Abort(MPI_COMM_WORLD, 3); }
    MPI_Barrier(MPI_COMM_WORLD);
    for (int k = 0; k < 4; k++) for (int id = 0; id < MAXX; id++) if (st->xf[k][id].used) unreg(g_me, &st->xf[k][id]);
    for (int s = 0; s < NSTREAM; s++) g_ce->tag_unregister(stream_tag[s]);
    g_ce->tag_unregister(TAG_C);
    g_ce->fini(g_ce);
}

int main(int argc, char **argv)
{
    int provided, nproc; const char *trace = NULL;
    for (int i = 1; i < argc; i++) {
        if (!strcmp(argv[i], "--outdir") && i + 1 < argc) snprintf(outdir, sizeof(outdir), "%s", argv[++i]);
        else if (!strcmp(argv[i], "--trace") && i + 1 < argc) trace = argv[++i];
        else if (!strcmp(argv[i], "--step-timeout") && i + 1 < argc) step_timeout = atof(argv[++i]);
    }
    if (!trace) { fprintf(stderr, "usage: mpiexec -n 2 c14_real --trace FILE --outdir DIR\n"); return 2; }
    MPI_Init_thread(&argc, &argv, MPI_THREAD_SERIALIZED, &provided);
    MPI_Comm_rank(MPI_COMM_WORLD, &g_me); MPI_Comm_size(MPI_COMM_WORLD, &nproc);
    if (nproc != 2) { fprintf(stderr, "c14_real: needs exactly 2 ranks\n"); MPI_Abort(MPI_COMM_WORLD, 2); }
    char fn[1200]; snprintf(fn, sizeof(fn), "%s/r%d.json", outdir, g_me);
    out = fopen(fn, "w"); if (!out) { perror(fn); MPI_Abort(MPI_COMM_WORLD, 2); }
    fprintf(out, "{\"rank\": %d, \"scenarios\": [\n", g_me); fflush(out);
    int pargc = 1; char *pargv_[2] = { argv[0], NULL }; char **pargv = pargv_;
    parsec_ctx = parsec_init(1, &pargc, &pargv);
    if (!parsec_ctx) { fprintf(stderr, "c14_real: parsec_init failed\n"); MPI_Abort(MPI_COMM_WORLD, 2); }
    parsec_ce.fini(&parsec_ce);
    FILE *f = fopen(trace, "r"); if (!f) { perror(trace); MPI_Abort(MPI_COMM_WORLD, 2); }
    char line[400], scen[200] = "";
    while (fgets(line, sizeof(line), f)) {
        if (line[0] == 'S') { sscanf(line + 2, "%199s", scen); nsteps = 0; }
        else if (line[0] == 'A' || line[0] == 'P') { if (nsteps < 1024) { steps[nsteps].kind = line[0]; sscanf(line + 2, "%d %d", &steps[nsteps].rank, &steps[nsteps].nev); nsteps++; } }
        else if (line[0] == 'E') run_scenario(scen);
    }
    fclose(f);
    fprintf(out, "\n], \"complete\": 1}\n"); fclose(out);
    parsec_comm_engine_init(parsec_ctx);          /* leave through the runtime's own shutdown: it expects an initialised engine */
    parsec_fini(&parsec_ctx);
    MPI_Finalize();
    return 0;
}
