/* C18: typed PTG flows deliver correctly converted copies.
 *
 * Driver for the generated JDF family (gen.py).  For every structure (multiset of consumer kinds), tile size m,
 * placement of the consumers on the ranks and binding of the type slots to FULL/LOWER/UPPER, the generated
 * taskpool is run on the real runtime (one parsec_init per process) and checked against a reference model of
 * the documented semantics (CHANGELOG.ptg.md: "Pack <type of the output dep>, Unpack <type of the input dep>"):
 *   - snapshot taken by consumer j on entry == model (selected elements = producer's values moved by
 *     pack/unpack order, unselected elements = the arena's fill pattern, or the producer's whole tile when no
 *     conversion applies);
 *   - after every consumer has written its marker over its whole copy, consumer j still finds a uniform marker
 *     that is its own or that of a consumer which legitimately shares the copy (same rank, same expected content,
 *     same conversion status); the producer's tile is unchanged unless a local consumer without conversion
 *     (documented to receive the producer's copy itself) wrote into it;
 *   - write-back edge j (P's flow -> descW(j-1), CHANGELOG.ptg.md "Writing to matrix": Pack A <type or A.type>, Unpack
 *     <type_data or desc.type> on desc): the elements of descW(j-1) selected by the unpack type hold the producer's values in
 *     pack order, every other element keeps its initial pattern.  The write-back is executed asynchronously by the communication
 *     thread from the producer's copy: when a local consumer without conversion shares that copy (and legitimately writes its
 *     marker into it) a selected element may hold that marker instead - the program itself has this write-after-read race.
 */
#include "parsec.h"
#include "parsec/parsec_internal.h"
#include "parsec/arena.h"
#include "parsec/data_internal.h"
#include "parsec/data_dist/matrix/matrix.h"
#include <mpi.h>
#include <signal.h>
#include <unistd.h>
#include "vdc.h"
#include "c18.h"
#include "seqx.h"

#define MAXC 3
#define MAXE 16
#define PAT ((int)0xA5A5A5A5)
#define WPAT ((int)0x5C5C5C5C)          /* initial content of the write-back collection descW */
static inline int is_wb(char k) { return k == 'w' || k == 'v' || k == 't' || k == 'u'; }    /* write-back edge: no consumer tasks */
static inline int is_coll(char k) { return k == 'd' || k == 'e'; }
enum { T_F = 0, T_L = 1, T_U = 2 };
static const char TYN[] = "FLU";

static parsec_context_t *parsec;
static int world = 1, myrank = 0, short_on = 1, max_viol = 3, dry_run = 0;

/* ---------------- arena-datatypes for one tile size ---------------- */
static int cur_m = 0;
static parsec_arena_datatype_t adt[3], adt_default;
static parsec_datatype_t coll_dtt;
static void *pat_malloc(size_t sz) { void *p = malloc(sz); if (p) memset(p, 0xA5, sz); return p; }
static void pat_free(void *p) { free(p); }
static void hook_arena(parsec_arena_datatype_t *a) { a->arena->data_malloc = pat_malloc; a->arena->data_free = pat_free; a->arena->max_released = 0; }
static void types_fini(void)
{
    if (!cur_m) return;
    for (int k = 0; k < 3; k++) parsec_matrix_arena_datatype_destruct_free_type(&adt[k]);
    parsec_matrix_arena_datatype_destruct_free_type(&adt_default);
    parsec_type_free(&coll_dtt);
    cur_m = 0;
}
static void types_init(int m)
{
    if (cur_m == m) return;
    types_fini();
    PARSEC_OBJ_CONSTRUCT(&adt[T_F], parsec_arena_datatype_t); PARSEC_OBJ_CONSTRUCT(&adt[T_L], parsec_arena_datatype_t);
    PARSEC_OBJ_CONSTRUCT(&adt[T_U], parsec_arena_datatype_t); PARSEC_OBJ_CONSTRUCT(&adt_default, parsec_arena_datatype_t);
    parsec_matrix_adt_define_rect(&adt[T_F], parsec_datatype_int_t, m, m, m);
    parsec_matrix_adt_define_lower(&adt[T_L], parsec_datatype_int_t, 1, m);
    parsec_matrix_adt_define_upper(&adt[T_U], parsec_datatype_int_t, 1, m);
    parsec_matrix_adt_define_rect(&adt_default, parsec_datatype_int_t, m, m, m);
    for (int k = 0; k < 3; k++) hook_arena(&adt[k]);
    hook_arena(&adt_default);
    /* the data collection's own type: a full tile, distinct handle (as for a parsec_tiled_matrix_t) */
    ptrdiff_t ext; parsec_matrix_define_datatype(&coll_dtt, parsec_datatype_int_t, PARSEC_MATRIX_FULL, 1, m, m, m, -1, &ext);
    cur_m = m;
}

/* ---------------- observation hooks called from the generated task bodies ---------------- */
static int snap[2][MAXC + 1][MAXE], seen[3][MAXC + 1], prod_seen;
static void *snap_ptr[2][MAXC + 1], *prod_ptr;
void vc_prod(void *A) { prod_seen++; prod_ptr = A; }
void vc_snap(int j, int stage, void *A) { seen[stage ? 2 : 0][j]++; snap_ptr[stage][j] = A; memcpy(snap[stage][j], A, sizeof(int) * cur_m * cur_m); }
void vc_write(int j, void *A) { seen[1][j]++; for (int k = 0; k < cur_m * cur_m; k++) ((int *)A)[k] = 9000 + j; }
static inline int PROD(int i, int j) { return 100 + 10 * i + j; }

/* ---------------- case ---------------- */
typedef struct { const c18_struct_t *st; int m; int place[MAXC]; int bind[SLOT_COUNT]; } case_t;

static int slot_of(const char *base, int j) /* "TO", 1 -> SLOT_TO1 */
{
    char nm[8]; snprintf(nm, sizeof(nm), "%s%d", base, j);
    for (int s = 0; s < SLOT_COUNT; s++) if (!strcmp(nm, c18_slot_names[s])) return s;
    return -1;
}
static void case_str(char *b, size_t cap, const case_t *c)
{
    size_t o = snprintf(b, cap, "np=%d short=%d s=%s m=%d place=", world, short_on, c->st->key, c->m);
    for (int j = 0; j < c->st->nc; j++) o += snprintf(b + o, cap - o, "%s%d", j ? "," : "", c->place[j]);
    o += snprintf(b + o, cap - o, " bind=");
    int first = 1;
    for (int s = 0; s < SLOT_COUNT; s++) if (c->bind[s] >= 0) { o += snprintf(b + o, cap - o, "%s%s:%c", first ? "" : ",", c18_slot_names[s], TYN[c->bind[s]]); first = 0; }
    if (first) snprintf(b + o, cap - o, "-");
}
static int case_parse(const char *s, case_t *c, int *np, int *sh)
{
    char kinds[16], pl[32], bd[256];
    memset(c, 0, sizeof(*c)); for (int k = 0; k < SLOT_COUNT; k++) c->bind[k] = -1;
    if (6 != sscanf(s, "np=%d short=%d s=%15s m=%d place=%31s bind=%255s", np, sh, kinds, &c->m, pl, bd)) return -1;
    for (const c18_struct_t *t = c18_structs; t->name; t++) if (!strcmp(t->key, kinds)) c->st = t;
    if (!c->st) return -1;
    int j = 0; for (char *tok = strtok(pl, ","); tok && j < MAXC; tok = strtok(NULL, ",")) c->place[j++] = atoi(tok);
    if (strcmp(bd, "-")) for (char *tok = strtok(bd, ","); tok; tok = strtok(NULL, ",")) {
        char *col = strchr(tok, ':'); if (!col) return -1; *col = 0;
        int found = -1; for (int k = 0; k < SLOT_COUNT; k++) if (!strcmp(tok, c18_slot_names[k])) found = k;
        const char *p = strchr(TYN, col[1]); if (found < 0 || !p) return -1;
        c->bind[found] = (int)(p - TYN);
    }
    return 0;
}

/* ---------------- reference model ---------------- */
static int positions(int ty, int m, int *pos) /* elements selected by a type, in type-map (column-major) order */
{
    int n = 0;
    for (int c = 0; c < m; c++) for (int r = 0; r < m; r++)
        if (ty == T_F || (ty == T_L && r >= c) || (ty == T_U && r <= c)) pos[n++] = c * m + r;
    return n;
}
typedef struct { int conv; int S, D; int exp[MAXE]; } model_t;
static int to_slot(const case_t *c, int j) { int t = c->st->to[j - 1] - '0'; return t > 0 ? slot_of("TO", t) : -1; }   /* the naming may share it with an earlier edge */
static void model_of(const case_t *c, int j /*1-based*/, model_t *mo)
{
    char k = c->st->kinds[j - 1]; int local = (c->place[j - 1] == 0), m = c->m;
    int TO = to_slot(c, j), TI = slot_of("TI", j), RO = slot_of("RO", j), RI = slot_of("RI", j), TD = slot_of("TD", j);
    mo->conv = 1; mo->S = mo->D = T_F;
    if (local) {
        switch (k) {
        case 'n': case 'r': case 's': mo->conv = 0; break;                       /* no [type]: the producer's copy itself */
        case 'o': mo->S = mo->D = c->bind[TO]; break;                            /* Pack t1, Unpack t1 */
        case 'b': case 'x': mo->S = c->bind[TO]; mo->D = c->bind[TI]; break;     /* Pack t1, Unpack t2 */
        case 'i': mo->S = T_F; mo->D = c->bind[TI]; break;                       /* Pack A.dtt, Unpack t2 */
        case 'd': mo->S = mo->D = c->bind[TD]; break;                            /* Pack type_data, Unpack type_data */
        case 'e': mo->S = c->bind[TD]; mo->D = c->bind[TI]; break;               /* Pack type_data, Unpack type */
        case 'w': mo->S = c->bind[TO]; mo->D = c->bind[TD]; break;               /* write-back (1): Pack A type,   Unpack type_data */
        case 'u': mo->S = T_F; mo->D = c->bind[TD]; break;                       /* write-back (2): Pack A A.type, Unpack type_data */
        case 't': mo->S = c->bind[TO]; mo->D = T_F; break;                       /* write-back (3): Pack A type,   Unpack desc.type */
        case 'v': mo->S = mo->D = T_F; break;                                    /* write-back (4): Pack A A.type, Unpack desc.type */
        }
    } else {
        switch (k) {
        case 'r': case 'x': mo->S = c->bind[RO]; mo->D = c->bind[RI]; break;     /* sent with type_remote of the output dep, received with that of the input dep */
        case 's': mo->S = c->bind[SLOT_RSO]; mo->D = c->bind[SLOT_RSI]; break;
        default: mo->S = mo->D = T_F; break;                                     /* copy's type -> DEFAULT arena type */
        }
    }
    for (int e = 0; e < m * m; e++) mo->exp[e] = is_wb(k) ? WPAT : mo->conv ? PAT : PROD(e % m, e / m);
    if (mo->conv) {
        int ps[MAXE], pd[MAXE]; int ns = positions(mo->S, m, ps), nd = positions(mo->D, m, pd);
        for (int q = 0; q < ns && q < nd; q++) mo->exp[pd[q]] = PROD(ps[q] % m, ps[q] / m);
    }
}
static int same_class(const case_t *c, const model_t *a, int ja, const model_t *b, int jb)
{
    if (is_wb(c->st->kinds[ja - 1]) || is_wb(c->st->kinds[jb - 1])) return 0;
    return c->place[ja - 1] == c->place[jb - 1] && a->conv == b->conv && !memcmp(a->exp, b->exp, sizeof(int) * c->m * c->m);
}

/* ---------------- statistics ---------------- */
typedef struct {
    long cases, nontrivial, elems, conv_local, conv_remote, noconv, shared_pairs, tile_written, wb, wb_conv, wb_racy, wb_marker;
    sx_set_t outcomes; char samples[3][512]; int nsamples; int violations, exhaustive;
} stat_t;

static void fmt_tile(char *b, size_t cap, const int *v, int n)
{
    size_t o = 0; b[0] = 0;
    for (int e = 0; e < n && o + 16 < cap; e++) { if (v[e] == PAT) o += snprintf(b + o, cap - o, "%s..", e ? " " : ""); else if (v[e] == WPAT) o += snprintf(b + o, cap - o, "%s__", e ? " " : ""); else o += snprintf(b + o, cap - o, "%s%d", e ? " " : "", v[e]); }
}

/* ---------------- watchdog / crash ---------------- */
static const case_t *cur_case; static const char *cur_tag; static int main_done = 0; static const char *phase = "start";
static void fatal_handler(int sig)
{
    char cs[512], msg[160];
    if (cur_case) {
        {
            case_str(cs, sizeof(cs), cur_case);
            if (sig == SIGALRM) snprintf(msg, sizeof(msg), "rank %d: the taskpool did not terminate within the 600 s watchdog delay (lost dependency / consumer never ran)", myrank);
            else snprintf(msg, sizeof(msg), "rank %d: the runtime crashed with signal %d while running a valid program of the family", myrank, sig);
            sx_violation(cur_tag, cs, msg);
            sx_report(cur_tag, 0, 0, 0, 0, 0, 0, 1, 0.0, "\"crashed\":true", NULL, 0);
            sx_finish();
        }
        _exit(1);
    }
    signal(sig, SIG_DFL); raise(sig);
}

/* an MPI error inside the runtime (MPI_ERRORS_ARE_FATAL -> MPI_Abort -> exit) while a valid program runs is a violation of that case */
static void exit_hook(void)
{
    char cs[512];
    if (!cur_case) { if (!main_done) fprintf(stderr, "C18: rank %d: exit() called from inside the runtime outside a case (phase: %s)\n", myrank, phase); return; }
    case_str(cs, sizeof(cs), cur_case);
    sx_violation(cur_tag, cs, "the process was terminated from inside the runtime while running a valid program of the family (MPI error abort: e.g. message truncation because sender and receiver datatypes disagree)");
    sx_report(cur_tag, 0, 0, 0, 0, 0, 0, 1, 0.0, "\"aborted\":true", NULL, 0);
    sx_finish();
    cur_case = NULL;
    fflush(NULL);
}

static void mpi_error_hook(MPI_Comm *comm, int *code, ...)
{
    char es[MPI_MAX_ERROR_STRING] = "?", cs[512], msg[700]; int l = 0;
    (void)comm; MPI_Error_string(*code, es, &l);
    if (cur_case) {
        case_str(cs, sizeof(cs), cur_case);
        snprintf(msg, sizeof(msg), "rank %d: MPI error inside the runtime while running a valid program of the family: %s (sender and receiver datatypes disagree?)", myrank, es);
        sx_violation(cur_tag, cs, msg);
        sx_report(cur_tag, 0, 0, 0, 0, 0, 0, 1, 0.0, "\"aborted\":true", NULL, 0);
        sx_finish(); cur_case = NULL; fflush(NULL);
        _exit(1);
    }
    fprintf(stderr, "C18: MPI error outside a case: %s\n", es); _exit(2);
}

/* ---------------- run one case ---------------- */
static int run_case(const case_t *c, stat_t *st, char *msg, size_t mcap, int verbose)
{
    int m = c->m, nc = c->st->nc, bad = 0; msg[0] = 0;
    types_init(m);
    uint32_t own0[1] = { 0 }, ownr[MAXC];
    for (int j = 0; j < nc; j++) ownr[j] = (uint32_t)c->place[j];
    vdc_t *A = vdc_new(1, sizeof(int) * m * m, world, myrank, own0);
    vdc_t *R = vdc_new(nc, sizeof(int) * m * m, world, myrank, ownr);
    uint32_t ownw[MAXC] = { 0, 0, 0 };                                   /* write-back targets live on the producer's rank */
    vdc_t *W = vdc_new(nc, sizeof(int) * m * m, world, myrank, ownw);
    A->super.default_dtt = coll_dtt; R->super.default_dtt = coll_dtt; W->super.default_dtt = coll_dtt;
    int *tile = (int *)vdc_elem(A, 0);
    for (int e = 0; e < m * m; e++) tile[e] = PROD(e % m, e / m);
    for (int e = 0; e < nc * m * m; e++) ((int *)vdc_elem(W, 0))[e] = WPAT;
    memset(snap, 0, sizeof(snap)); memset(seen, 0, sizeof(seen)); memset(snap_ptr, 0, sizeof(snap_ptr)); prod_seen = 0; prod_ptr = NULL;
    parsec_arena_datatype_t *slots[SLOT_COUNT];
    for (int s = 0; s < SLOT_COUNT; s++) slots[s] = &adt[c->bind[s] >= 0 ? c->bind[s] : T_F];
    parsec_taskpool_t *tp = c->st->mk(&A->super, &R->super, &W->super, &adt_default, slots);
    alarm(600);
    parsec_context_add_taskpool(parsec, tp);
    parsec_context_start(parsec);
    parsec_context_wait(parsec);
    parsec_taskpool_free(tp);

    model_t mo[MAXC + 1]; long elems = 0;
    for (int j = 1; j <= nc; j++) model_of(c, j, &mo[j]);
    uint64_t h = 1469598103934665603ULL;
    for (int j = 1; j <= nc && !bad; j++) {
        if (c->place[j - 1] != myrank || is_wb(c->st->kinds[j - 1])) continue;
        char a[200], b[200];
        if (seen[0][j] != 1 || seen[1][j] != 1 || seen[2][j] != 1) { snprintf(msg, mcap, "rank %d: consumer %d: tasks C/W/D ran %d/%d/%d times", myrank, j, seen[0][j], seen[1][j], seen[2][j]); bad = 1; break; }
        for (int e = 0; e < m * m; e++) { h = (h ^ (uint64_t)(uint32_t)snap[0][j][e]) * 1099511628211ULL; h = (h ^ (uint64_t)(uint32_t)snap[1][j][e]) * 1099511628211ULL; }
        elems += 2 * m * m;
        if (verbose) { fmt_tile(a, sizeof(a), snap[0][j], m * m); fmt_tile(b, sizeof(b), mo[j].exp, m * m); printf("    rank %d consumer %d (kind %c, %s, %s %c->%c): saw [%s] expected [%s]\n", myrank, j, c->st->kinds[j - 1],
                           c->place[j - 1] ? "remote" : "local", mo[j].conv ? "conversion" : "no conversion", TYN[mo[j].S], TYN[mo[j].D], a, b); }
        if (memcmp(snap[0][j], mo[j].exp, sizeof(int) * m * m)) {
            fmt_tile(a, sizeof(a), snap[0][j], m * m); fmt_tile(b, sizeof(b), mo[j].exp, m * m);
            snprintf(msg, mcap, "rank %d: consumer %d (kind %c, %s, pack %c unpack %c) received [%s], expected [%s] (column-major, '..' = arena fill pattern)", myrank, j, c->st->kinds[j - 1],
                     c->place[j - 1] ? "remote" : "local", TYN[mo[j].S], TYN[mo[j].D], a, b);
            bad = 1; break;
        }
        /* after all writes: uniform marker of a member of j's sharing class */
        int mk = snap[1][j][0], uni = 1, okmk = 0;
        for (int e = 1; e < m * m; e++) if (snap[1][j][e] != mk) uni = 0;
        for (int i = 1; i <= nc; i++) if (mk == 9000 + i && !is_wb(c->st->kinds[i - 1]) && same_class(c, &mo[j], j, &mo[i], i)) okmk = 1;
        if (verbose) { fmt_tile(a, sizeof(a), snap[1][j], m * m); printf("    rank %d consumer %d after all writes: [%s]\n", myrank, j, a); }
        if (!uni || !okmk) {
            fmt_tile(a, sizeof(a), snap[1][j], m * m);
            snprintf(msg, mcap, "rank %d: consumer %d (kind %c, pack %c unpack %c) wrote marker %d over its copy but later found [%s]: its copy is shared with a consumer of a different conversion or was overwritten",
                     myrank, j, c->st->kinds[j - 1], TYN[mo[j].S], TYN[mo[j].D], 9000 + j, a);
            bad = 1; break;
        }
        if (mk != 9000 + j && st) st->shared_pairs++;
    }
    if (myrank == 0 && !bad) {
        /* the producer's tile: original, or uniformly the marker of a local consumer without conversion */
        int orig = 1, mk = tile[0], uni = 1, okmk = 0; char a[200];
        for (int e = 0; e < m * m; e++) { if (tile[e] != PROD(e % m, e / m)) orig = 0; if (tile[e] != mk) uni = 0; h = (h ^ (uint64_t)(uint32_t)tile[e]) * 1099511628211ULL; }
        for (int i = 1; i <= nc; i++) if (mk == 9000 + i && !is_wb(c->st->kinds[i - 1]) && c->place[i - 1] == 0 && !mo[i].conv) okmk = 1;
        elems += m * m;
        if (verbose) { fmt_tile(a, sizeof(a), tile, m * m); printf("    producer's tile after the run: [%s]\n", a); }
        if (!orig && !(uni && okmk)) {
            fmt_tile(a, sizeof(a), tile, m * m);
            snprintf(msg, mcap, "the producer's tile was altered: [%s] (no local consumer without conversion wrote that)", a);
            bad = 1;
        }
        if (!orig && st) st->tile_written++;
    }
    int racy = 0;                        /* a local consumer without conversion owns (and overwrites) the producer's copy the write-back reads */
    for (int i = 1; i <= nc; i++) if (!is_wb(c->st->kinds[i - 1]) && c->place[i - 1] == 0 && !mo[i].conv) racy = 1;
    for (int j = 1; j <= nc && myrank == 0 && !bad; j++) {
        if (!is_wb(c->st->kinds[j - 1])) continue;
        const int *wt = (const int *)vdc_elem(W, j - 1); char a[200], b[200]; int ok = 1, mseen = 0;
        for (int e = 0; e < m * m; e++) {
            int good = (wt[e] == mo[j].exp[e]);
            if (!good && racy && mo[j].exp[e] != WPAT)
                for (int i = 1; i <= nc; i++) if (wt[e] == 9000 + i && !is_wb(c->st->kinds[i - 1]) && c->place[i - 1] == 0 && !mo[i].conv) good = mseen = 1;
            if (!good) ok = 0;
            h = (h ^ (uint64_t)(uint32_t)(racy ? mo[j].exp[e] : wt[e])) * 1099511628211ULL;      /* the race is not part of the outcome */
        }
        elems += m * m;
        if (mseen && st) st->wb_marker++;
        if (verbose) { fmt_tile(a, sizeof(a), wt, m * m); fmt_tile(b, sizeof(b), mo[j].exp, m * m); printf("    write-back edge %d (kind %c, pack %c unpack %c%s): descW(%d) = [%s] expected [%s]\n", j, c->st->kinds[j - 1],
                           TYN[mo[j].S], TYN[mo[j].D], racy ? ", races with a consumer sharing the producer's copy" : "", j - 1, a, b); }
        if (!ok) {
            fmt_tile(a, sizeof(a), wt, m * m); fmt_tile(b, sizeof(b), mo[j].exp, m * m);
            snprintf(msg, mcap, "write-back edge %d (kind %c, pack %c unpack %c): descW(%d) holds [%s], expected [%s] (column-major, '__' = initial pattern of descW%s)", j, c->st->kinds[j - 1],
                     TYN[mo[j].S], TYN[mo[j].D], j - 1, a, b, racy ? "; selected elements may also hold the marker of the local consumer that shares the producer's copy" : "");
            bad = 1;
        }
    }
    if (world > 1) {
        int who = bad ? myrank : world, first;
        MPI_Allreduce(&who, &first, 1, MPI_INT, MPI_MIN, MPI_COMM_WORLD);
        uint64_t hs[2] = { h, (uint64_t)elems }, hr[2];
        MPI_Allreduce(hs, hr, 2, MPI_UINT64_T, MPI_SUM, MPI_COMM_WORLD);
        h = hr[0]; elems = (long)hr[1];
        if (first < world) { char tmp[SX_ERRLEN]; snprintf(tmp, sizeof(tmp), "%s", msg); MPI_Bcast(tmp, sizeof(tmp), MPI_CHAR, first, MPI_COMM_WORLD); snprintf(msg, mcap, "%s", tmp); bad = 1; }
    }
    alarm(0);
    if (st) {
        st->cases++; st->elems += elems;
        int ntriv = 0;
        for (int j = 1; j <= nc; j++) {
            if (is_wb(c->st->kinds[j - 1])) { st->wb++; if (mo[j].S != T_F || mo[j].D != T_F) { st->wb_conv++; ntriv = 1; } if (racy) st->wb_racy++; continue; }
            if (!mo[j].conv) st->noconv++; else if (c->place[j - 1]) st->conv_remote++; else st->conv_local++; if (mo[j].conv) ntriv = 1;
        }
        st->nontrivial += ntriv;
        sx_h128_t hh = { h, h * 0x9E3779B97F4A7C15ULL + 1 }; sx_set_add(&st->outcomes, hh);
    }
    vdc_free(W); vdc_free(R); vdc_free(A);
    return bad;
}

/* ---------------- enumeration ---------------- */
typedef struct { int minm, maxm, maxc, minc; int skip_all_local; int shard, nshards; const char *only; } box_t;
static const int PAIRS[5][2] = { { T_F, T_F }, { T_L, T_L }, { T_U, T_U }, { T_L, T_U }, { T_U, T_L } };

static int deadline_cut(void)
{
    int cut = 0;
    if (sx_deadline <= 0) return 0;
    if (world == 1) return sx_now() > sx_deadline;
    if (myrank == 0) cut = sx_now() > sx_deadline;
    MPI_Bcast(&cut, 1, MPI_INT, 0, MPI_COMM_WORLD);
    return cut;
}
/* documented unsupported case: with short messages, one output flow reaching the same remote rank with several
 * different remote types (tests/collections/reshape/testing_remote_multiple_outs_same_pred_flow.c) */
static int unsupported_short(const case_t *c)
{
    if (!short_on) return 0;
    for (int r = 1; r < world; r++) {
        int id = -2;
        for (int j = 1; j <= c->st->nc; j++) {
            if (c->place[j - 1] != r) continue;
            char k = c->st->kinds[j - 1];
            int me = (k == 'r' || k == 'x') ? j : (k == 's') ? 100 : -1;
            if (id == -2) id = me; else if (id != me) return 1;
        }
    }
    return 0;
}

typedef struct { const box_t *b; stat_t *st; case_t c; const char *tag; int stop; } enum_t;

static void do_case(enum_t *en)
{
    char cs[512], msg[SX_ERRLEN];
    if (en->stop) return;
    if (unsupported_short(&en->c)) return;
    if (dry_run) { en->st->cases++; return; }                 /* --dry: size of the box only */
    if (deadline_cut()) { en->st->exhaustive = 0; en->stop = 1; return; }
    cur_case = &en->c; cur_tag = en->tag;
    int bad = run_case(&en->c, en->st, msg, sizeof(msg), 0);
    cur_case = NULL;
    stat_t *st = en->st;
    if (bad || (st->nsamples < 3 && (st->cases == 5 || st->cases == 400 || st->cases == 5000))) {
        case_str(cs, sizeof(cs), &en->c);
        if (!bad) snprintf(st->samples[st->nsamples++], 512, "%s", cs);
    }
    if (bad) {
        if (myrank == 0) sx_violation(en->tag, cs, msg);
        st->violations++; st->exhaustive = 0;
        if (st->violations >= max_viol) en->stop = 1;
    }
}
/* types an unpack/input type may take for a given pack/output type: equal packed size only (F:{F}, L:{L,U}, U:{U,L}) */
static const int COMPAT[3][2] = { { T_F, -1 }, { T_L, T_U }, { T_U, T_L } };
/* bind the remaining slots of edge j (1-based) given the bound local output type slots, and recurse */
static void bind_rec(enum_t *en, int j)
{
    case_t *c = &en->c; int nc = c->st->nc;
    if (en->stop) return;
    if (j > nc) {
        /* shared type_remote slot: enumerated only if an 's' consumer is remote */
        int has_s = 0, rem_s = 0;
        for (int i = 1; i <= nc; i++) if (c->st->kinds[i - 1] == 's') { has_s = 1; if (c->place[i - 1]) rem_s = 1; }
        if (!has_s) { do_case(en); return; }
        for (int p = 0; p < (rem_s ? 5 : 1); p++) { c->bind[SLOT_RSO] = PAIRS[rem_s ? p : 1][0]; c->bind[SLOT_RSI] = PAIRS[rem_s ? p : 1][1]; do_case(en); }
        c->bind[SLOT_RSO] = c->bind[SLOT_RSI] = -1;
        return;
    }
    char k = c->st->kinds[j - 1]; int local = (c->place[j - 1] == 0);
    int TO = to_slot(c, j), TI = slot_of("TI", j), RO = slot_of("RO", j), RI = slot_of("RI", j), TD = slot_of("TD", j);
    int to = TO >= 0 ? c->bind[TO] : -1;
    switch (k) {
    case 'n': case 's': case 'o': case 'v': case 't': bind_rec(en, j + 1); break;
    case 'b': for (int q = 0; q < 2; q++) if (COMPAT[to][q] >= 0) { c->bind[TI] = COMPAT[to][q]; bind_rec(en, j + 1); } c->bind[TI] = -1; break;
    case 'i': c->bind[TI] = T_F; bind_rec(en, j + 1); c->bind[TI] = -1; break;
    case 'r': for (int p = 0; p < (local ? 1 : 5); p++) { c->bind[RO] = PAIRS[local ? 1 : p][0]; c->bind[RI] = PAIRS[local ? 1 : p][1]; bind_rec(en, j + 1); } c->bind[RO] = c->bind[RI] = -1; break;
    case 'x':
        if (local) { c->bind[RO] = c->bind[RI] = T_L; for (int q = 0; q < 2; q++) if (COMPAT[to][q] >= 0) { c->bind[TI] = COMPAT[to][q]; bind_rec(en, j + 1); } }
        else { c->bind[TI] = to; for (int p = 0; p < 5; p++) { c->bind[RO] = PAIRS[p][0]; c->bind[RI] = PAIRS[p][1]; bind_rec(en, j + 1); } }
        c->bind[TI] = c->bind[RO] = c->bind[RI] = -1; break;
    case 'd': for (int t = 0; t < 3; t++) { c->bind[TD] = t; bind_rec(en, j + 1); } c->bind[TD] = -1; break;
    case 'e': for (int p = 0; p < 5; p++) { c->bind[TD] = PAIRS[p][0]; c->bind[TI] = PAIRS[p][1]; bind_rec(en, j + 1); } c->bind[TD] = c->bind[TI] = -1; break;
    case 'w': for (int q = 0; q < 2; q++) if (COMPAT[to][q] >= 0) { c->bind[TD] = COMPAT[to][q]; bind_rec(en, j + 1); } c->bind[TD] = -1; break;
    case 'u': c->bind[TD] = T_F; bind_rec(en, j + 1); c->bind[TD] = -1; break;      /* Pack A.type (full): equal packed size only */
    }
}
/* bind the local output type slots (one per block of the structure's naming: edges of one block use the same type NAME, hence
 * always the same type), then the per-edge slots */
static void bind_to(enum_t *en, int t /* slot index 1..3 */)
{
    case_t *c = &en->c; int nc = c->st->nc;
    if (en->stop) return;
    if (t > MAXC) { bind_rec(en, 1); return; }
    int used = 0, only_full = 0;
    for (int j = 1; j <= nc; j++) if (c->st->to[j - 1] - '0' == t) { used = 1; if (c->st->kinds[j - 1] == 't') only_full = 1; }   /* (3) unpacks with the full desc.type */
    if (!used) { bind_to(en, t + 1); return; }
    int S = slot_of("TO", t);
    for (int ty = 0; ty < (only_full ? 1 : 3); ty++) { c->bind[S] = ty; bind_to(en, t + 1); }
    c->bind[S] = -1;
}
static void place_rec(enum_t *en, int j)
{
    case_t *c = &en->c; int nc = c->st->nc;
    if (en->stop) return;
    if (j > nc) {
        int anyrem = 0; for (int i = 0; i < nc; i++) if (c->place[i]) anyrem = 1;
        if (en->b->skip_all_local && !anyrem) return;
        bind_to(en, 1); return;
    }
    char k = c->st->kinds[j - 1];
    for (int r = 0; r < world; r++) {
        if (r && (is_coll(k) || is_wb(k))) break;        /* direct reads of the collection and write-backs must be local to the producer */
        /* no symmetry reduction among consumers of the same kind: the declaration order of the deps is part of the program */
        c->place[j - 1] = r; place_rec(en, j + 1);
    }
}

static void run_box(const box_t *b)
{
    for (int nc = b->minc; nc <= b->maxc; nc++) {
        stat_t st; memset(&st, 0, sizeof(st)); st.exhaustive = 1;
        char tag[64]; snprintf(tag, sizeof(tag), "np%d-short%d-%dedge%s", world, short_on, nc, nc > 1 ? "s" : "");
        double t0 = sx_now(); long nstruct = 0; enum_t en; memset(&en, 0, sizeof(en)); en.b = b; en.st = &st; en.tag = tag;
        char mdone[32] = ""; int mfirst_cut = 0;
        /* tile size outermost: a deadline cuts the box at a tile size (the sizes completed for ALL structures of the shard are reported) */
        for (int m = b->minm; m <= b->maxm && !en.stop; m++) {
            long idx = 0; nstruct = 0;
            for (const c18_struct_t *t = c18_structs; t->name && !en.stop; t++) {
                long before = st.cases;
                if (t->nc != nc) continue;
                if (b->only && strcmp(b->only, t->kinds) && strcmp(b->only, t->key)) continue;
                if ((idx++ % b->nshards) != b->shard) continue;
                nstruct++;
                memset(&en.c, 0, sizeof(en.c)); en.c.st = t; en.c.m = m; for (int s = 0; s < SLOT_COUNT; s++) en.c.bind[s] = -1;
                place_rec(&en, 1);
                if (dry_run && myrank == 0) printf("dry: %s m=%d %s %ld\n", tag, m, t->key, st.cases - before);
            }
            if (!en.stop) snprintf(mdone + strlen(mdone), sizeof(mdone) - strlen(mdone), "%s%d", mdone[0] ? "," : "", m); else if (!mfirst_cut) mfirst_cut = m;
        }
        if (myrank == 0 && (nstruct || !b->only)) {
            char extra[1000]; const char *sp[3] = { st.samples[0], st.samples[1], st.samples[2] };
            snprintf(extra, sizeof(extra), "\"structures\":%ld,\"consumers_with_local_conversion\":%ld,\"consumers_with_remote_conversion\":%ld,\"consumers_without_conversion\":%ld,"
                     "\"copies_found_shared_within_class\":%ld,\"runs_where_producer_tile_was_legitimately_written\":%ld,\"writebacks_checked\":%ld,\"writebacks_with_conversion\":%ld,"
                     "\"writebacks_racing_with_a_consumer_sharing_the_producer_copy\":%ld,\"of_which_observed_holding_that_consumers_marker\":%ld,\"elements_checked\":%ld,\"ranks\":%d,\"short_messages\":%d,\"shard\":\"%d/%d\",\"tile_sizes_completed\":\"%s\",\"tile_size_cut\":%d",
                     nstruct, st.conv_local, st.conv_remote, st.noconv, st.shared_pairs, st.tile_written, st.wb, st.wb_conv, st.wb_racy, st.wb_marker, st.elems, world, short_on, b->shard, b->nshards, mdone, mfirst_cut);
            sx_report(tag, st.cases, st.elems, st.cases, st.nontrivial, (long)st.outcomes.n, st.exhaustive, st.violations, sx_now() - t0, extra, sp, st.nsamples);
        }
        free(st.outcomes.v);
    }
}

int main(int argc, char **argv)
{
    int prov;
    MPI_Init_thread(&argc, &argv, MPI_THREAD_SERIALIZED, &prov);
    MPI_Comm_size(MPI_COMM_WORLD, &world); MPI_Comm_rank(MPI_COMM_WORLD, &myrank);
    box_t b = { 2, 3, 2, 1, 0, 0, 1, NULL };
    for (int i = 1; i < argc; i++) {
        if (!strcmp(argv[i], "--minm") && i + 1 < argc) b.minm = atoi(argv[++i]);
        else if (!strcmp(argv[i], "--maxm") && i + 1 < argc) b.maxm = atoi(argv[++i]);
        else if (!strcmp(argv[i], "--minc") && i + 1 < argc) b.minc = atoi(argv[++i]);
        else if (!strcmp(argv[i], "--maxc") && i + 1 < argc) b.maxc = atoi(argv[++i]);
        else if (!strcmp(argv[i], "--short") && i + 1 < argc) short_on = atoi(argv[++i]);
        else if (!strcmp(argv[i], "--skip-all-local")) b.skip_all_local = 1;
        else if (!strcmp(argv[i], "--maxviol") && i + 1 < argc) max_viol = atoi(argv[++i]);
        else if (!strcmp(argv[i], "--only") && i + 1 < argc) b.only = argv[++i];
        else if (!strcmp(argv[i], "--dry")) dry_run = 1;
        else if (!strcmp(argv[i], "--shard") && i + 1 < argc) sscanf(argv[++i], "%d/%d", &b.shard, &b.nshards);
    }
    if (myrank != 0) for (int i = 1; i < argc; i++) if (!strcmp(argv[i], "--json") && i + 1 < argc) argv[i + 1] = (char *)"/dev/null";
    sx_init(argc, argv, "C18");

    case_t rc_case; int replay_ok = 0;
    if (sx_replay_file) {
        char scen[128], hist[1024]; int np, sh;
        if (sx_read_replay(sx_replay_file, scen, sizeof(scen), hist, sizeof(hist)) || case_parse(hist, &rc_case, &np, &sh)) { fprintf(stderr, "C18: cannot parse replay file\n"); MPI_Finalize(); return 2; }
        if (np != world) { fprintf(stderr, "C18: replay needs %d ranks (launched with %d)\n", np, world); MPI_Finalize(); return 2; }
        short_on = sh; replay_ok = 1;
        if (myrank == 0) printf("replay: %s\n", hist);
    }
    setenv("PARSEC_MCA_bind_threads", "0", 0);                       /* timing knobs only */
    if (world > 1) setenv("PARSEC_MCA_runtime_comm_thread_yield", "2", 0);
    if (!short_on) setenv("PARSEC_MCA_runtime_comm_short_limit", "0", 1);
    signal(SIGSEGV, fatal_handler); signal(SIGABRT, fatal_handler); signal(SIGBUS, fatal_handler); signal(SIGFPE, fatal_handler); signal(SIGALRM, fatal_handler);
    atexit(exit_hook);
    { MPI_Errhandler eh; MPI_Comm_create_errhandler(mpi_error_hook, &eh); MPI_Comm_set_errhandler(MPI_COMM_WORLD, eh); MPI_Comm_set_errhandler(MPI_COMM_SELF, eh); }   /* inherited by the communicators parsec duplicates */
    int pargc = 1; char *pargv_s[2] = { argv[0], NULL }; char **pargv = pargv_s;
    phase = "parsec_init"; parsec = parsec_init(1, &pargc, &pargv); phase = "run";
    if (!parsec) { fprintf(stderr, "C18: parsec_init failed\n"); return 2; }

    if (replay_ok) {
        char msg[SX_ERRLEN];
        cur_case = &rc_case; cur_tag = "replay";
        int bad = run_case(&rc_case, NULL, msg, sizeof(msg), 1);
        cur_case = NULL;
        if (myrank == 0) {
            if (bad) { printf("  %s\n", msg); printf("VIOLATION property=C18 replay=%s\n", sx_replay_file); sx_total_violations++; }
            else printf("replay: case passes\n");
        }
    } else run_box(&b);
    int v = sx_total_violations;
    if (world > 1) MPI_Bcast(&v, 1, MPI_INT, 0, MPI_COMM_WORLD);
    int fr = sx_finish();            /* results are complete before the teardown */
    phase = "types_fini"; types_fini();
    phase = "parsec_fini"; parsec_fini(&parsec);
    phase = "MPI_Finalize"; MPI_Finalize();
    main_done = 1;
    return myrank == 0 ? fr : (v ? 1 : 0);
}
