/* what an engine instance (eng_r0.c / eng_r1.c = the real parsec_mpi_funnelled.c + the virtual MPI) exports to the harness */
#ifndef ENG_API_H
#define ENG_API_H
#include "parsec/parsec_comm_engine.h"
typedef struct {
    int enabled;
    int posted, tested, dyn, dynrecv;                 /* the instance's effective window parameters */
    int last_active, static_idx, cur_size, num_recv, next_tag;
    int sendfifo, recvfifo;                           /* lengths of the two pending queues */
    int dyn_recv_slots, dyn_get_recv_slots, dyn_send_slots;   /* occupied slots of the dynamic region, by kind */
    int reportable;                                   /* completed requests in the array progress() would hand to MPI_Testsome */
    int feedable;                                     /* the feed loop of progress() would install a queued request */
} eng_probe_t;
typedef struct {
    parsec_comm_engine_t *(*init)(parsec_context_t *ctx);     /* this instance's mpi_funnelled_init */
    void (*probe)(eng_probe_t *out);
    void (*teardown_drain)(void);
    void (*reset_hidden)(void);
} eng_api_t;
extern const eng_api_t eng_api_vr0, eng_api_vr1;
#endif
