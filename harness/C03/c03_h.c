/* C03 harness: DTD results equal sequential execution in insertion order.
 * Legs (one executable, --leg):
 *   inproc : bounded-exhaustive program family x window/threshold x API x generator position, free running on
 *            N threads of ONE initialised context per worker process (the scheduler module comes from --sched).
 *   gate   : one execution stream, harness scheduler (dtd_sched.h): DFS over every interleaving of
 *            {insert next task} / {execute ready task T} (gate before every insertion and before the flush, through
 *            the real parsec_taskpool_test) and over every task order inside the runtime's own select calls
 *            (window blocking, final wait).
 * The oracle is the sequential reference model of dtd_driver.h. */
#include "dtd_driver.h"
#include "dtd_sched.h"
#include "dtd_harness.h"

typedef struct {
    const char *leg, *name, *sched, *alpha, *hash;
    int threads, nt_lo, nt_hi, ntiles, maxp, api_mask, nest, jobs, stride, nwin, win[8][2], spin, dup, keep;
    long max_runs_per_case;
} opts_t;
static opts_t O;

static void parse_opts(int argc, char **argv)
{
    O.leg = dh_arg(argc, argv, "--leg", "inproc"); O.name = dh_arg(argc, argv, "--name", O.leg); O.sched = dh_arg(argc, argv, "--sched", "");
    O.alpha = dh_arg(argc, argv, "--alpha", "q"); O.hash = dh_arg(argc, argv, "--hash", "64");
    O.threads = atoi(dh_arg(argc, argv, "--threads", "1"));
    const char *nt = dh_arg(argc, argv, "--nt", "1:3"); O.nt_lo = atoi(nt); O.nt_hi = strchr(nt, ':') ? atoi(strchr(nt, ':') + 1) : O.nt_lo;
    O.ntiles = atoi(dh_arg(argc, argv, "--tiles", "2")); O.maxp = atoi(dh_arg(argc, argv, "--maxp", "2"));
    O.api_mask = atoi(dh_arg(argc, argv, "--api", "3")); O.nest = atoi(dh_arg(argc, argv, "--nest", "0"));
    O.jobs = atoi(dh_arg(argc, argv, "--jobs", "8")); O.stride = atoi(dh_arg(argc, argv, "--stride", "1")); O.spin = atoi(dh_arg(argc, argv, "--spin", "0"));
    O.dup = atoi(dh_arg(argc, argv, "--dup", "1"));      /* 0: no task names a tile twice; 1: all; 2: only programs with such a task */
    dd_norecycle = atoi(dh_arg(argc, argv, "--norecycle", "0"));
    O.keep = atoi(dh_arg(argc, argv, "--keep", "-1"));   /* runtime_keep_highest_priority_task: -1 = default of the leg (gate: 0, so that every ready task goes through select; others: library default 1) */
    O.max_runs_per_case = atol(dh_arg(argc, argv, "--maxruns", "0"));
    const char *w = dh_arg(argc, argv, "--win", "1,1;2,1;4,2;0,0"); O.nwin = 0;
    while (*w && O.nwin < 8) { O.win[O.nwin][0] = (int)strtol(w, (char **)&w, 10); if (*w == ',') w++; O.win[O.nwin][1] = (int)strtol(w, (char **)&w, 10); O.nwin++; if (*w == ';') w++; }
}
static int alpha_build(dd_task_t *alpha, int cap)
{
    int rw_only = (O.alpha[0] == 'q'), allow3 = (O.alpha[0] == 'x');
    return dd_alphabet(alpha, cap, O.ntiles, O.maxp, rw_only, allow3);
}
static parsec_context_t *rt_init(int threads)
{
    if (O.sched && O.sched[0]) setenv("PARSEC_MCA_mca_sched", O.sched, 1);
    /* the default 2^16-bucket task/tile hash tables cost ~7 ms per taskpool in the instrumented build (bucket init loop);
     * their size is irrelevant to the property, --hash default keeps the library defaults */
    if (strcmp(O.hash, "default")) { setenv("PARSEC_MCA_dtd_task_hash_size", O.hash, 1); setenv("PARSEC_MCA_dtd_tile_hash_size", O.hash, 1); }
    int argc = 1; char *av[] = { (char *)"c03", NULL }; char **argv = av;
    parsec_context_t *ctx = parsec_init(threads, &argc, &argv);
    if (!ctx) { fprintf(stderr, "parsec_init failed\n"); exit(2); }
    { extern int parsec_runtime_keep_highest_priority_task; int k = O.keep >= 0 ? O.keep : (!strcmp(O.leg, "gate") ? 0 : 1); parsec_runtime_keep_highest_priority_task = k; O.keep = k; }
    return ctx;
}
static void case_kv(const dd_prog_t *p, const dd_cfg_t *cfg, const char *choices)
{
    char ps[256]; dd_prog_print(p, ps, sizeof(ps));
    dh_case(O.name, "\"harness\":\"c03\",\"leg\":\"%s\",\"program\":\"%s\",\"window\":\"%d\",\"threshold\":\"%d\",\"api\":\"%d\",\"gen_at\":\"%d\",\"threads\":\"%d\",\"sched\":\"%s\",\"tiles\":\"%d\",\"norecycle\":\"%d\",\"keep\":\"%d\",\"choices\":\"%s\"",
            O.leg, ps, cfg->window, cfg->threshold, cfg->api, cfg->gen_at, O.threads, O.sched, O.ntiles, dd_norecycle, O.keep, choices ? choices : "");
}
static uint64_t behaviour_hash(const dd_prog_t *p, const dd_cfg_t *cfg)
{
    /* (program, configuration, execution order by enter stamp, thread of every task) */
    char ps[256]; int n = dd_prog_print(p, ps, sizeof(ps));
    uint64_t h = dh_hash(ps, (size_t)n, 7); h = dh_hash(cfg, sizeof(*cfg), h);
    for (int t = 0; t < p->nt; t++) { int64_t v[2] = { dd_log[t].enter, dd_log[t].th }; h = dh_hash(v, sizeof(v), h); }
    return h;
}
static int run_is_nontrivial(const dd_prog_t *p)
{
    for (int t = 1; t < p->nt; t++) if (dd_log[t].enter < dd_log[t - 1].enter || dd_log[t].th != dd_log[0].th) return 1;
    return 0;
}

/* iterate the canonical programs of this worker's slice */
typedef int (*prog_cb)(const dd_prog_t *p, long pidx, void *arg);
static long for_programs(int j, int J, prog_cb cb, void *arg, double t_end, int *cut)
{
    static dd_task_t alpha[4096]; int na = alpha_build(alpha, 4096); long pidx = 0, mine = 0;
    for (int nt = O.nt_lo; nt <= O.nt_hi; nt++) {
        int idx[DD_MAXT]; memset(idx, 0, sizeof(idx));
        do {
            dd_prog_t p; dd_prog_from_idx(&p, alpha, idx, nt, O.ntiles);
            if (!dd_prog_canonical(&p)) continue;
            if (O.dup != 1) { int d = dd_prog_has_dup(&p); if ((O.dup == 0 && d) || (O.dup == 2 && !d)) continue; }
            long id = pidx++;
            if (id % O.stride) continue;
            if ((id / O.stride) % J != j) continue;
            if (t_end > 0 && dh_now() > t_end) { *cut = 1; return mine; }
            mine++;
            if (cb(&p, id, arg)) return mine;
        } while (dd_odometer_next(idx, nt, na));
    }
    return mine;
}

/* ------------------------------------------------------------------ leg: inproc */
typedef struct { dd_env_t env; dh_stats_t *st; dh_set_t seen; } inproc_t;
static int inproc_case(inproc_t *I, const dd_prog_t *p, const dd_cfg_t *cfg)
{
    dd_ref_t ref; dd_res_t res; char msg[400];
    case_kv(p, cfg, NULL);
    dd_run(&I->env, p, cfg, &res);
    dd_reference(p, &ref);
    I->st->executions++; I->st->transitions += p->nt;
    if (dh_set_add(&I->seen, behaviour_hash(p, cfg))) I->st->outcomes++;
    if (run_is_nontrivial(p)) I->st->nontrivial++;
    if (dd_check_values(p, cfg, &ref, dd_log, res.final, dd_gen_count, msg, sizeof(msg))) {
        dh_violation(msg); I->st->violations++; I->st->exhaustive = 0; return 1;
    }
    return 0;
}
/* configurations of one program: every window pair with the function-pointer API; the library-default window with
 * explicit task classes; with --nest: the generator task taking over at every position g, under the first and the
 * last window pair of the list */
static int cfg_list(const dd_prog_t *p, dd_cfg_t *out)
{
    int n = 0;
    for (int w = 0; w < O.nwin; w++) if (O.api_mask & 1) out[n++] = (dd_cfg_t){ O.win[w][0], O.win[w][1], 0, -1, -1, O.spin };
    if (O.api_mask & 2) out[n++] = (dd_cfg_t){ O.win[O.nwin - 1][0], O.win[O.nwin - 1][1], 1, -1, -1, O.spin };
    if (O.nest) for (int g = 0; g < p->nt; g++) {
        out[n++] = (dd_cfg_t){ O.win[0][0], O.win[0][1], (O.api_mask & 1) ? 0 : 1, g, -1, O.spin };
        if (O.nwin > 1) out[n++] = (dd_cfg_t){ O.win[O.nwin - 1][0], O.win[O.nwin - 1][1], (O.api_mask & 2) ? 1 : 0, g, -1, O.spin };
    }
    return n;
}
static int inproc_prog(const dd_prog_t *p, long pidx, void *arg)
{
    inproc_t *I = (inproc_t *)arg; (void)pidx;
    I->st->states++;
    dd_cfg_t cf[64]; int nc = cfg_list(p, cf);
    for (int c = 0; c < nc; c++) if (inproc_case(I, p, &cf[c]) && I->st->violations >= 3) return 1;
    if (I->st->nsamples < 2 && (I->st->states == 3 || I->st->states == 700)) {
        char ps[256]; dd_prog_print(p, ps, sizeof(ps));
        dh_stats_sample(I->st, "program [%s] threads=%d sched=%s: %d window/api/generator configurations equal the sequential reference (tile a finally %ld)", ps, O.threads, O.sched[0] ? O.sched : "default", nc, (long)*(int64_t *)vdc_elem(I->env.dc, 0));
    }
    return 0;
}
static const char *SCHEDS_ALL[] = { "ap", "gd", "ip", "lfq", "lhq", "ll", "llp", "ltq", "pbq", "rnd", "spq" };
static const char *SCHEDS[11]; static int NSCHEDS = 0;
static void scheds_parse(const char *excl)     /* all 11 modules minus a comma separated exclusion list */
{
    NSCHEDS = 0;
    for (int i = 0; i < 11; i++) { char pat[16]; snprintf(pat, sizeof(pat), ",%s,", SCHEDS_ALL[i]); char hay[128]; snprintf(hay, sizeof(hay), ",%s,", excl); if (!strstr(hay, pat)) SCHEDS[NSCHEDS++] = SCHEDS_ALL[i]; }
}
static void inproc_worker(int j, int J, void *arg, dh_stats_t *st)
{
    (void)arg; inproc_t I; memset(&I, 0, sizeof(I)); I.st = st;
    if (!strcmp(O.leg, "scheds")) { O.sched = SCHEDS[j % NSCHEDS]; j = 0; J = 1; }
    parsec_context_t *ctx = rt_init(O.threads);
    dd_env_init(&I.env, ctx, O.ntiles);
    int cut = 0;
    for_programs(j, J, inproc_prog, &I, dh_deadline_s > 0 ? dh_now() + dh_deadline_s : 0, &cut);
    if (cut) st->exhaustive = 0;
    dd_env_fini(&I.env);
    parsec_fini(&ctx);
}

/* ------------------------------------------------------------------ leg: gate (one stream, DFS) */
typedef struct { dd_env_t env; dh_stats_t *st; dh_set_t seen; double t_end; const unsigned char *replay; int nreplay; int verbose; } gate_t;
static void gate_hook(parsec_taskpool_t *tp, int next)
{
    char lb[16]; if (next >= dd_cur_prog->nt) snprintf(lb, sizeof(lb), "|flush"); else snprintf(lb, sizeof(lb), "|ins%d", next);
    ds_gate(tp, lb);
}
static void gate_livelock(const char *task)
{
    char msg[200]; snprintf(msg, sizeof(msg), "livelock: ready task %s is refused by data_lookup (AGAIN) forever although no other task can run", task);
    dh_violation(msg); fflush(stdout); _exit(77);   /* the parent counts it; the stats of this worker are lost */
}
static int gate_case(gate_t *G, const dd_prog_t *p, const dd_cfg_t *cfg)
{
    static ds_explorer_t ex; dd_ref_t ref; dd_res_t res; char msg[400], cs[DS_MAXPTS * 4];
    dd_reference(p, &ref);
    if (G->replay) ds_begin_replay(&ex, G->replay, G->nreplay); else ds_begin(&ex, 0);
    ex.max_runs = G->replay ? 1 : O.max_runs_per_case;
    int bad = 0;
    while (ds_next(&ex)) {
        if (G->t_end > 0 && dh_now() > G->t_end) { ex.exhaustive = 0; ex.cur = NULL; break; }
        /* the kv of the case names the prefix; the full choice list is added on violation */
        { size_t o = 0; cs[0] = 0; for (int i = 0; i < ex.prefix_len; i++) o += snprintf(cs + o, sizeof(cs) - o, "%s%d", i ? "," : "", ex.prefix[i]); case_kv(p, cfg, cs); }
        dd_run(&G->env, p, cfg, &res);
        ds_choices_str(&ex, cs, sizeof(cs));
        G->st->executions++;
        if (dh_set_add(&G->seen, dh_hash(ex.order, strlen(ex.order), behaviour_hash(p, cfg)))) G->st->outcomes++;
        if (G->verbose) printf("  trace: %s\n  choices: %s\n", ex.order, cs);
        if (dd_check_values(p, cfg, &ref, dd_log, res.final, dd_gen_count, msg, sizeof(msg))) {
            case_kv(p, cfg, cs);
            char m2[3000]; snprintf(m2, sizeof(m2), "%s | trace: %s", msg, ex.order);
            dh_violation(m2); G->st->violations++; bad = 1;
        }
        if (G->st->nsamples < 2 && ex.runs == 5 && (G->st->states == 40 || G->st->states == 400)) {
            char ps[256]; dd_prog_print(p, ps, sizeof(ps));
            dh_stats_sample(G->st, "program [%s] window=%d/%d interleaving: %s", ps, cfg->window, cfg->threshold, ex.order);
        }
        ds_end_run(&ex);
        if (ex.diverged) { fprintf(stderr, "c03 gate: nondeterministic replay\n"); G->st->broken++; break; }
        if (bad) break;
    }
    while (ex.stack) { ds_item_t *n = ex.stack->next; free(ex.stack); ex.stack = n; ex.exhaustive = 0; }
    ds_ex = NULL;
    G->st->transitions += ex.transitions; G->st->nontrivial += ex.nontrivial; G->st->extra[0] += ex.nodes;
    if (ex.max_points > G->st->extra[6]) G->st->extra[6] = ex.max_points;
    if (!ex.exhaustive && !G->replay) G->st->exhaustive = 0;
    return bad;
}
static int gate_prog(const dd_prog_t *p, long pidx, void *arg)
{
    gate_t *G = (gate_t *)arg; (void)pidx;
    G->st->states++;
    for (int w = 0; w < O.nwin; w++) for (int g = -1; g < (O.nest ? p->nt : 0); g++) {
        dd_cfg_t cfg = { O.win[w][0], O.win[w][1], (int)(pidx & 1), g, -1, 0 };
        if (gate_case(G, p, &cfg) && G->st->violations >= 3) return 1;
        if (G->st->broken) return 1;
    }
    return 0;
}
static void gate_worker(int j, int J, void *arg, dh_stats_t *st)
{
    (void)arg; gate_t G; memset(&G, 0, sizeof(G)); G.st = st;
    parsec_context_t *ctx = rt_init(1);
    ds_install(ctx); ds_nstreams = 1; ds_on_livelock = gate_livelock;
    dd_env_init(&G.env, ctx, O.ntiles);
    dd_hook_before_insert = gate_hook;
    G.t_end = dh_deadline_s > 0 ? dh_now() + dh_deadline_s : 0;
    int cut = 0;
    for_programs(j, J, gate_prog, &G, G.t_end, &cut);
    if (cut) st->exhaustive = 0;
    st->extra[2] = ds_again_events;
    dd_env_fini(&G.env);
    ds_uninstall(ctx);
    parsec_fini(&ctx);
}

/* ------------------------------------------------------------------ replay */
static dd_prog_t R_prog; static dd_cfg_t R_cfg; static unsigned char R_ch[DS_MAXPTS]; static int R_nch;
static void replay_worker(int j, int J, void *arg, dh_stats_t *st)
{
    (void)j; (void)J; (void)arg;
    char ps[256]; dd_prog_print(&R_prog, ps, sizeof(ps));
    printf("replay: leg=%s program=[%s] window=%d threshold=%d api=%d gen_at=%d threads=%d sched=%s\n", O.leg, ps, R_cfg.window, R_cfg.threshold, R_cfg.api, R_cfg.gen_at, O.threads, O.sched);
    dd_ref_t ref; dd_reference(&R_prog, &ref);
    for (int t = 0; t < R_prog.nt; t++) { printf("  reference: task %d sees", t); for (int k = 0; k < R_prog.t[t].np; k++) printf(" %s%c=%ld", dd_mode_name[R_prog.t[t].mode[k]], 'a' + R_prog.t[t].tile[k], (long)ref.seen[t][k]); printf("\n"); }
    if (!strcmp(O.leg, "gate")) {
        gate_t G; memset(&G, 0, sizeof(G)); G.st = st; G.replay = R_ch; G.nreplay = R_nch; G.verbose = 1;
        parsec_context_t *ctx = rt_init(1); ds_install(ctx); ds_nstreams = 1; ds_on_livelock = gate_livelock;
        dd_env_init(&G.env, ctx, O.ntiles); dd_hook_before_insert = gate_hook;
        gate_case(&G, &R_prog, &R_cfg);
        for (int t = 0; t < R_prog.nt; t++) { printf("  observed:  task %d saw ", t); for (int k = 0; k < R_prog.t[t].np; k++) printf(" %ld", (long)dd_log[t].seen[k]); printf(" (executions: %d)\n", dd_log[t].count); }
        dd_env_fini(&G.env); ds_uninstall(ctx); parsec_fini(&ctx);
    } else {
        inproc_t I; memset(&I, 0, sizeof(I)); I.st = st;
        parsec_context_t *ctx = rt_init(O.threads); dd_env_init(&I.env, ctx, O.ntiles);
        int tries = 0;
        for (; tries < 5000 && !st->violations; tries++) inproc_case(&I, &R_prog, &R_cfg);
        printf("  free-running case executed %d times, %d violation(s)\n", tries, st->violations);
        for (int t = 0; t < R_prog.nt; t++) { printf("  last run:  task %d saw ", t); for (int k = 0; k < R_prog.t[t].np; k++) printf(" %ld", (long)dd_log[t].seen[k]); printf(" (executions: %d, thread %d)\n", dd_log[t].count, dd_log[t].th); }
        dd_env_fini(&I.env); parsec_fini(&ctx);
    }
}
static char R_leg[32], R_sched[32], R_name[64]; static double R_hang = 0;
static int do_replay(void)
{
    const char *f = dh_replay_file; char b[4096];
    if (dh_replay_get(f, "program", b, sizeof(b)) || dd_prog_parse(&R_prog, b)) { fprintf(stderr, "replay: no/invalid program in %s\n", f); return 2; }
    dh_replay_get(f, "leg", R_leg, sizeof(R_leg)); O.leg = R_leg;
    dh_replay_get(f, "sched", R_sched, sizeof(R_sched)); O.sched = R_sched;
    dh_replay_get(f, "scenario", R_name, sizeof(R_name)); O.name = R_name; O.hash = "64";
    O.threads = dh_replay_int(f, "threads", 1); O.ntiles = dh_replay_int(f, "tiles", 2);
    R_cfg.window = dh_replay_int(f, "window", 0); R_cfg.threshold = dh_replay_int(f, "threshold", 0); R_cfg.api = dh_replay_int(f, "api", 0);
    dd_norecycle = dh_replay_int(f, "norecycle", 0); O.keep = dh_replay_int(f, "keep", -1);
    R_cfg.gen_at = dh_replay_int(f, "gen_at", -1); R_cfg.flush_mask = -1; R_cfg.spin = 0;
    R_nch = 0; if (!dh_replay_get(f, "choices", b, sizeof(b))) { const char *c = b; while (*c && R_nch < DS_MAXPTS) { R_ch[R_nch++] = (unsigned char)strtol(c, (char **)&c, 10); if (*c == ',') c++; } }
    dh_stats_t st; dh_hang_s = 20;
    if (R_hang > 0) dh_hang_s = R_hang;
    dh_pool(1, replay_worker, NULL, &st);
    if (st.violations) { printf("VIOLATION property=C03 replay=%s\n", f); return 1; }
    printf("replay: the case passes\n");
    return st.broken ? 2 : 0;
}

int main(int argc, char **argv)
{
    dh_init(argc, argv, "C03");
    parse_opts(argc, argv);
    R_hang = atof(dh_arg(argc, argv, "--hang", "0"));
    if (dh_replay_file) return do_replay();
    double t0 = dh_now(); dh_stats_t st;
    char extra[300];
    if (!strcmp(O.leg, "gate")) {
        dh_pool(O.jobs, gate_worker, NULL, &st);
        snprintf(extra, sizeof(extra), "\"tree_nodes\":%ld,\"max_choice_points\":%ld,\"again_resubmissions\":%ld,\"programs\":%ld", st.extra[0], st.extra[6], st.extra[2], st.states);
    } else {
        scheds_parse(dh_arg(argc, argv, "--exclude", ""));
        dh_pool(!strcmp(O.leg, "scheds") ? NSCHEDS : O.jobs, inproc_worker, NULL, &st);
        if (!strcmp(O.leg, "scheds")) { static char sl[128]; sl[0] = 0; for (int i = 0; i < NSCHEDS; i++) { strcat(sl, i ? "," : ""); strcat(sl, SCHEDS[i]); } O.sched = sl; }
        snprintf(extra, sizeof(extra), "\"programs\":%ld,\"threads\":%d,\"sched\":\"%s\"", st.states, O.threads, O.sched[0] ? O.sched : "default");
    }
    dh_report(O.name, &st, dh_now() - t0, extra);
    return dh_finish(st.violations, st.broken);
}
