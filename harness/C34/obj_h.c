/* C34: objects are destroyed exactly once when their last reference goes (E1, real parsec_object.h / parsec_object.c).
 *
 * Harness-defined hierarchy (constructors / destructors log into a per-object journal):
 *   L1 : parsec_object_t   (ctor, dtor)
 *   L2 : L1                (ctor, NO dtor)
 *   L3 : L2                (NO ctor, dtor)
 *   L4 : L3                (ctor, dtor)
 * Retain/release scenarios: every controlled thread owns one reference at the start and runs a script over
 * {'+' = PARSEC_OBJ_RETAIN, '-' = PARSEC_OBJ_RELEASE} that never releases a reference it does not own and ends with
 * net -1, so the very last release overall must destroy the object, and nothing else may.
 * Class scenarios: 2-3 threads create the first objects of not yet initialised classes concurrently.
 */
#include "parsec/parsec_config.h"
#include "parsec/class/parsec_object.h"
/* The real parsec_object.c is compiled into this (instrumented) translation unit: its file-static class_lock must be
 * a watched region, otherwise the unlock is not a visible write and a thread parked on the lock's WAIT hook would
 * never be re-enabled by the controlled scheduler. The definitions in the executable take precedence over libparsec's. */
#include "parsec/class/parsec_object.c"
#include "cosched.h"
#include <stdio.h>
#include <string.h>
#include <stdlib.h>

#define MAXT 3
#define JLEN 32
typedef struct { parsec_object_t super; int uid; unsigned magic; } L1;
#define MAGIC 0x0b1ec700u
typedef struct { L1 super; int f2; } L2;
typedef struct { L2 super; int f3; } L3;
typedef struct { L3 super; int f4; } L4;

/* ---- ground truth kept by the harness (threads are serialised by the scheduler; these are not watched) ---- */
static const char *script[MAXT];
static int started[MAXT];            /* operations started by each thread */
static int nthr;
static int destroyer = -1, destroyer_op = -1;


/* journals live outside the objects (the dynamic flavour really frees the storage) */
#define MAXOBJ 8
static char journal[MAXOBJ][JLEN]; static int jn[MAXOBJ]; static int next_uid;
static void jput(L1 *o, char c) { int u = o->uid; if (u < 0 || u >= MAXOBJ || o->magic != (MAGIC | (unsigned)u)) cs_fail("constructor/destructor called on something that is not a live harness object (uid %d)", u); if (jn[u] < JLEN - 1) journal[u][jn[u]++] = c; }
static int ndestroyed(void) { int n = 0; for (int u = 0; u < next_uid; u++) for (int i = 0; i < jn[u]; i++) if (journal[u][i] == 'A') n++; return n; }
#define ndestroy_calls ndestroyed()
static void reset_journals(void) { memset(journal, 0, sizeof(journal)); memset(jn, 0, sizeof(jn)); next_uid = 0; }

/* every destructor checks the ground truth: nobody else may still own a reference */
static void dtor_check(L1 *o, char tag)
{
    int me = cs_self();
    if (me >= 0 && nthr > 0) {
        for (int u = 0; u < nthr; u++) {
            if (u == me) continue;
            CS_CHECK(started[u] == (int)strlen(script[u]),
                     "destructor '%c' runs in T%d while T%d still owns a reference (it has started %d of %zu operations)", tag, me, u, started[u], strlen(script[u]));
        }
        CS_CHECK(started[me] == (int)strlen(script[me]), "destructor '%c' runs in T%d during operation %d, which is not its last release", tag, me, started[me]);
    }
    jput(o, tag);
}
static void c1(L1 *o) { o->uid = next_uid < MAXOBJ ? next_uid++ : -1; o->magic = MAGIC | (unsigned)o->uid; jput(o, 'a'); }
static const char *jof(L1 *o) { return (o && o->uid >= 0 && o->uid < MAXOBJ && o->magic == (MAGIC | (unsigned)o->uid)) ? journal[o->uid] : "(first constructor never ran)"; }
static void d1(L1 *o)
{
    dtor_check(o, 'A');
    if (nthr > 0) { CS_CHECK(destroyer < 0, "object destroyed a second time (by T%d, first by T%d)", cs_self(), destroyer); destroyer = cs_self(); destroyer_op = started[destroyer]; }
}
static void c2(L2 *o) { jput(&o->super, 'b'); o->f2 = 2; }
static void d3(L3 *o) { dtor_check(&o->super.super, 'C'); }
static void c4(L4 *o) { jput(&o->super.super.super, 'd'); o->f4 = 4; }
static void d4(L4 *o) { dtor_check(&o->super.super.super, 'D'); }
PARSEC_OBJ_CLASS_INSTANCE(L1, parsec_object_t, c1, d1);
PARSEC_OBJ_CLASS_INSTANCE(L2, L1, c2, NULL);
PARSEC_OBJ_CLASS_INSTANCE(L3, L2, NULL, d3);
PARSEC_OBJ_CLASS_INSTANCE(L4, L3, c4, d4);
static parsec_class_t *cls_of[5] = { NULL, &L1_class, &L2_class, &L3_class, &L4_class };
static const char *ctor_expect[5] = { "", "a", "ab", "ab", "abd" };
static const char *full_expect[5] = { "", "aA", "abA", "abCA", "abdDCA" };

static void reset_classes(void)
{   /* bring the harness classes back to the "never used" state (the arrays of earlier runs are leaked on purpose) */
    for (int d = 1; d <= 4; d++) { cls_of[d]->cls_initialized = 0; cls_of[d]->cls_depth = 0; cls_of[d]->cls_construct_array = NULL; cls_of[d]->cls_destruct_array = NULL; }
}

/* harness release function for the "static" flavour: real destructor chain, storage kept so the oracle can look at it */
static void keep_release(parsec_object_t *o) { parsec_obj_destruct(o); }
/* the dynamic flavour keeps the library's own release function (parsec_obj_destruct_and_free: real free()) */

static L1 *obj;                      /* the shared object (depth given by the scenario) */
static int depth, dynamic;

static void body(void *a)
{
    int me = (int)(intptr_t)a;
    L1 *mine = obj;                  /* PARSEC_OBJ_RELEASE nulls the caller's pointer when it destroys */
    for (const char *p = script[me]; *p; p++) {
        started[me]++;
        if (*p == '+') { PARSEC_OBJ_RETAIN(mine); }
        else {
            int mine_before = (destroyer == me);
            PARSEC_OBJ_RELEASE(mine);
            if (destroyer == me && !mine_before) {
                CS_CHECK(NULL == mine, "PARSEC_OBJ_RELEASE destroyed the object but left the caller's pointer set");
            } else CS_CHECK(NULL != mine, "PARSEC_OBJ_RELEASE cleared the pointer without destroying the object");
        }
    }
}

static void run_refs(int d, int dyn, int n, const char *s0, const char *s1, const char *s2)
{
    depth = d; dynamic = dyn; nthr = 0;
    memset(started, 0, sizeof(started)); destroyer = destroyer_op = -1; reset_journals();
    script[0] = s0; script[1] = s1; script[2] = s2;
    reset_classes();
    if (dyn) { obj = (L1 *)parsec_obj_new(cls_of[d]); }
    else { obj = calloc(1, sizeof(L4)); PARSEC_OBJ_CONSTRUCT_WRELEASE_INTERNAL(obj, cls_of[d], keep_release); }
    CS_CHECK(!strcmp(journal[0], ctor_expect[d]), "constructors of a depth-%d object ran as '%s', expected '%s'", d, journal[0], ctor_expect[d]);
    CS_CHECK(obj->super.obj_reference_count == 1, "fresh object has reference count %d", obj->super.obj_reference_count);
    for (int t = 1; t < n; t++) PARSEC_OBJ_RETAIN(obj);          /* one reference per thread */
    cs_watch(obj, sizeof(parsec_object_t), "object");
    cs_watch(cls_of[d], sizeof(parsec_class_t), "class");
    nthr = n;
    cs_body_t b[MAXT] = { body, body, body };
    void *args[MAXT] = { (void *)0, (void *)1, (void *)2 };
    cs_run(n, b, args);
    nthr = 0;
    CS_CHECK(ndestroy_calls == 1, "the release function ran %d times, expected exactly once", ndestroy_calls);
    CS_CHECK(destroyer >= 0, "all references were released but no thread destroyed the object");
    CS_CHECK(!strcmp(journal[0], full_expect[d]), "constructor/destructor journal of the depth-%d object is '%s', expected '%s' (each destructor once, most derived first)", d, journal[0], full_expect[d]);
    if (!dyn) CS_CHECK(obj->super.obj_reference_count == 0, "reference count is %d after all references were released", obj->super.obj_reference_count);
    cs_observe("destroyed by T%d op %d journal %s", destroyer, destroyer_op, journal[0]);
}

/* ---- concurrent first construction ---- */
static int cdepth[MAXT];
static L1 *made[MAXT];
static void ctor_body(void *a)
{
    int me = (int)(intptr_t)a, d = cdepth[me];
    L1 *o = (L1 *)parsec_obj_new(cls_of[d]);
    made[me] = o;
    /* a fully constructed object is what NEW must return, whoever initialised the class */
    CS_CHECK(o != NULL && !strcmp(jof(o), ctor_expect[d]), "T%d: constructors of a depth-%d object ran as '%s', expected '%s' (class used before its initialisation was complete)", me, d, o ? jof(o) : "(null)", ctor_expect[d]);
    CS_CHECK(o->super.obj_class == cls_of[d] && o->super.obj_reference_count == 1, "T%d: bad object header", me);
}
static void ctor_then_release_body(void *a)
{
    int me = (int)(intptr_t)a;
    ctor_body(a);
    L1 *o = made[me]; int d = cdepth[me];
    o->super.obj_release = keep_release;
    L1 *p = o; PARSEC_OBJ_RELEASE(p);
    CS_CHECK(p == NULL && !strcmp(jof(o), full_expect[d]), "T%d: journal of its own depth-%d object is '%s', expected '%s'", me, d, jof(o), full_expect[d]);
}
static void run_ctor(int n, int d0, int d1, int d2, int release_too)
{
    nthr = 0; reset_journals();
    cdepth[0] = d0; cdepth[1] = d1; cdepth[2] = d2; memset(made, 0, sizeof(made));
    reset_classes();
    for (int d = 1; d <= 4; d++) if (d == d0 || d == d1 || (n > 2 && d == d2)) cs_watch(cls_of[d], sizeof(parsec_class_t), "class");
    cs_watch(&class_lock, sizeof(class_lock), "class_lock");
    cs_body_t b[MAXT]; void *args[MAXT] = { (void *)0, (void *)1, (void *)2 };
    for (int t = 0; t < MAXT; t++) b[t] = release_too ? ctor_then_release_body : ctor_body;
    cs_run(n, b, args);
    for (int t = 0; t < n; t++) {
        int d = cdepth[t]; parsec_class_t *c = cls_of[d];
        CS_CHECK(c->cls_initialized == 1 && c->cls_depth == d + 1, "class of depth %d: initialized=%d cls_depth=%d", d, c->cls_initialized, c->cls_depth);
        /* arrays: constructors base first, destructors most derived first, NULL terminated */
        int nc = 0, nd = 0; while (c->cls_construct_array[nc]) nc++; while (c->cls_destruct_array[nd]) nd++;
        CS_CHECK(nc == (int)strlen(ctor_expect[d]) && nd == (int)strlen(full_expect[d]) - nc, "class of depth %d has %d constructors and %d destructors", d, nc, nd);
        if (!release_too) {
            made[t]->super.obj_release = keep_release;
            L1 *p = made[t]; PARSEC_OBJ_RELEASE(p);
            CS_CHECK(p == NULL && !strcmp(jof(made[t]), full_expect[d]), "journal of T%d's depth-%d object is '%s', expected '%s'", t, d, jof(made[t]), full_expect[d]);
        }
    }
    CS_CHECK(ndestroy_calls == n, "%d destructions for %d objects", ndestroy_calls, n);
    /* uid = order in which the objects' first constructor ran */
    cs_observe("construction order (uid of T0,T1,T2):");
    for (int t = 0; t < n; t++) cs_observe(" %d", made[t]->uid);
}

#include "obj_scen.inc"
