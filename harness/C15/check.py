import os, json, subprocess
META = dict(
    engine='rt',
    technique='stateless model checking at task granularity: a harness-owned scheduler enumerates every task-level execution order of the real runtime running parsec_compose()d PTG taskpools (one stream), plus a deviation-bounded enumeration for long compositions and a free-running configuration box',
    level_text='For every composition of n<=3 ptgpp-generated chain taskpools (every assignment of 6 pool shapes for n<=2 and 5 for n=3 (quick) / 8 (thorough), 3 driver modes: add-then-start, start-then-add, taskpool_wait on the compound) EVERY task-level execution order on one execution stream is executed on the real runtime; for n in {5,16,17,20} (across the realloc boundary of parsec_compose) every order with <= 1 (quick) / 2 (thorough) deviations from the canonical order; in each execution: every task ran once, the last exit stamp of pool i precedes the first entry stamp of pool i+1, context_wait returned after all of them, the compound completion callback ran exactly once after the last task, taskpool_wait(compound) returned after the last task. Threads {1,2,4} x schedulers {default, ap, ll} run the same oracle free-running.',
    level_note='Task bodies and runtime actions are atomic at this level (instruction-level atomicity of the primitives is C07/C10/C30..); single process (hk-shm, MPI off); pools are W independent chains of L CTL-linked tasks, W<=4, L<=3. The free-running legs enumerate configurations, not schedules. A crash / failed assertion / hang of the runtime on a case is reported as a violation with that case.',
)
RULE = ("hsched DFS: one execution = one complete run (compose, add, start, wait) of the real runtime under one choice list of the "
        "harness scheduler (every select() with >1 pending ready tasks is a choice point, pending tasks in canonical order); states = nodes of the choice tree; "
        "transitions = scheduling decisions; non-trivial = executions that deviate from the canonical order at least once (legs orders/bounded) or run on >1 thread (leg threads); "
        "outcomes = distinct (task execution order, callback position) strings")
ASSUME = ["task bodies and runtime-internal actions are atomic at the task level (one execution stream under hsched)",
          "single process; remote dependencies are not involved"]
def _exe(ctx):
    b = ctx.build('hk-shm')
    gen = os.path.join('/verif/out', 'gen', 'C15'); os.makedirs(gen, exist_ok=True)
    hdir = os.path.dirname(os.path.abspath(__file__))
    r = subprocess.run([os.path.join(b, 'parsec/interfaces/ptg/ptg-compiler/parsec-ptgpp'), '-E', '-i', os.path.join(hdir, 'chain.jdf'), '-o', 'chain', '-f', 'chain'],
                       cwd=gen, capture_output=True, text=True)
    if r.returncode != 0 or not os.path.exists(os.path.join(gen, 'chain.c')):
        import sys, vlib
        sys.stderr.write(r.stdout + r.stderr); raise vlib.Broken('ptgpp failed on chain.jdf')
    return ctx.compile('hk-shm', 'compose', ['compose_h.c', os.path.join(gen, 'chain.c')], instr=False,
                       cflags=['-I' + gen, '-I/verif/engine/rt', '-I/repo/parsec', '-Wno-unused-but-set-variable'])
def check(ctx):
    import vlib
    exe = _exe(ctx)
    q = ctx.tier == 'quick'
    args = ['--outdir', vlib.OUT, '--jobs', str(min(vlib.NJOBS, 12)), '--deadline', str(40 if q else 900)] + ([] if q else ['--thorough'])
    ctx.run_engine(exe, args, label='compose', timeout=(600 if q else 2400))
    return ctx.finish(RULE, ASSUME)
def replay(ctx, path, obj):
    return subprocess.call([_exe(ctx), '--replay', path])
