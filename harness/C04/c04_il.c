/* C04 / C03, instruction-level leg of the REAL DTD runtime (E4 leg 4 = E1/cosched applied to insert vs complete).
 *
 * One worker process = one parsec_init(k) context (k = 2 or 3 execution streams) with a trivial harness-owned
 * scheduler module (FIFO array, one explicit scheduling point per schedule()/select(); a writer refused with AGAIN is
 * offered again when the copies it writes have no reader left).  The k-1 threads created
 * by parsec_init stay parked at the context barrier of the coordinator process and do not exist in the forked
 * cosched workers; the controlled threads of cs_run borrow context->virtual_processes[0]->execution_streams[i].
 *
 * run() = fresh DTD taskpool (parsec_dtd_taskpool_new + the real parsec_context_add_taskpool / parsec_context_start,
 * the master's barrier crossing is interposed), fresh tiles, then cs_run:
 *   thread 0 (es0, "inserter"): the real parsec_dtd_insert_task for the program's tasks in order, the real
 *            parsec_dtd_data_flush_all, the real parsec_taskpool_wait (which executes ready tasks through the real
 *            __parsec_task_progress until the termination detector fires);
 *   thread i (es i, "worker"):  loop { select from the harness queue ; the real __parsec_task_progress } until the
 *            inserter's wait has returned.
 * Scheduling points: every instrumented access of libparsec to the tiles' last_user / last_writer records (incl. the lock
 * word; accesses by the HOLDER of the tile lock are not points) and reference count, to data_copy->readers, to the DTD task
 * descriptors (flow_count, per flow the parent/desc links and the flags word, the data[] pairs, the reference count;
 * registered when the task enters the real parsec_insert_dtd_task / parsec_insert_dtd_flush_task, which the executable
 * interposes), plus one point per queue operation and one inside every body. See harness/C04/NOTES.md.
 * Oracle: the C04 oracle (per-tile writers_in/readers_in, enter/exit stamps) and the C03 oracle (observations and final
 * values equal the sequential reference) of engine/rt/dtd_driver.h.
 */
#define _GNU_SOURCE
#include "dtd_driver.h"
#include "parsec/class/barrier.h"
#include "parsec/mca/sched/sched.h"
#include "parsec/scheduling.h"
#include "cosched.h"
#include "vtsan.h"
#include <dlfcn.h>
#include <pthread.h>
#include <time.h>
#include <unistd.h>
#include <execinfo.h>
#include <sys/mman.h>

#ifndef IL_PROPERTY
#define IL_PROPERTY "C04"
#endif
#ifndef IL_DEFAULT_ORACLE
#define IL_DEFAULT_ORACLE 3            /* bit 0: C03 value oracle, bit 1: C04 exclusion / order oracle */
#endif
#define NOSAN __attribute__((no_sanitize("thread")))
#define ID_F5 "C04-reader-chain-end-published-before-retain"

extern int __parsec_task_progress(parsec_execution_stream_t *es, parsec_task_t *task, int distance);
extern int parsec_runtime_keep_highest_priority_task;

/* ------------------------------------------------------------------ options (per process) */
static int  O_threads = 2, O_keep = 0, O_lifo = 0, O_oracle = IL_DEFAULT_ORACLE, O_trace = 0;
static char O_known[2048] = "";
static int is_known(const char *id) { char h[2100], n[128]; snprintf(h, sizeof(h), ",%s,", O_known); snprintf(n, sizeof(n), ",%s,", id); return strstr(h, n) != NULL; }

/* ------------------------------------------------------------------ programs = scenarios */
#define MAXPROG 1024
static dd_prog_t PROG[MAXPROG]; static char PNAME[MAXPROG][96]; static int NPROG = 0;
static const dd_cfg_t CFG = { 0, 0, 0, -1, -1, 0 };

/* shared statistics (coordinator + all workers): per scenario, points per region class and per thread */
enum { RC_TILE = 0, RC_READERS, RC_TFLOW, RC_TDATA, RC_TREF, RC_QUEUE, RC_BODY, RC_N };
static const char *rc_name[RC_N] = { "tile", "copy.readers", "task.flow", "task.data", "task.refcount", "queue-op", "body" };
typedef struct { long hits[RC_N]; long maxpt[4]; long execs; long again; long overlap_runs; long readers_together; long f5_hits; long spin_waits; long suppressed; } sstat_t;
static sstat_t *SS;

/* ------------------------------------------------------------------ runtime objects */
static parsec_context_t *ctx; static parsec_execution_stream_t *ES[4];
static pthread_t main_thread; static int il_ready = 0;
static vdc_t *DC;
static parsec_taskpool_t *TP;
static parsec_dtd_tile_t *TILE[DD_MAXTILES];
static volatile int g_done;
static int cur_scen = -1;

/* ------------------------------------------------------------------ watch registry (mirror of cosched's, with classes) */
typedef struct { uintptr_t lo, hi; int cls, tile; void *obj; char label[24]; } wreg_t;
static wreg_t WR[64]; static int nwr;
static void w_watch(const volatile void *base, size_t len, int cls, int tile, void *obj, const char *name)
{
    if (nwr >= 62) { fprintf(stderr, "c04_il: too many watched regions\n"); abort(); }
    WR[nwr].lo = (uintptr_t)base; WR[nwr].hi = (uintptr_t)base + len; WR[nwr].cls = cls; WR[nwr].tile = tile; WR[nwr].obj = obj; snprintf(WR[nwr].label, sizeof(WR[nwr].label), "%s", name ? name : ""); nwr++;
    cs_watch(base, len, name);
}
static inline NOSAN wreg_t *w_find(uintptr_t a, int size)
{
    for (int i = 0; i < nwr; i++) if (a < WR[i].hi && a + (size > 0 ? size : 1) > WR[i].lo) return &WR[i];
    return NULL;
}

/* ------------------------------------------------------------------ per-execution bookkeeping */
static int in_walk[8], in_insert[8]; static parsec_dtd_task_t *cur_insert[8];
static long pt_thread[8]; static long hits_local[RC_N]; static int32_t q_word;   /* watched word standing for the harness queue */
#define NWIN 4
static struct { int open, by; parsec_dtd_task_t *reader; } win[DD_MAXTILES][NWIN];   /* per tile: readers published as dead chain end and not yet counted */
static struct { int hit, tile; parsec_dtd_task_t *reader, *inserted; int inserted_is_writer; } f5;
static struct { uintptr_t addr; int n; } spin[8];
static long n_again, n_spinwait, n_suppressed; static int lock_by[DD_MAXTILES]; static int O_csred = 1;

/* program-task id of a DTD task (first VALUE parameter of class "T"), -1 for runtime tasks */
static NOSAN int tid_of(parsec_dtd_task_t *t)
{
    if (!t) return -1;
    const char *n = t->super.task_class->name;
    if (n[0] == 'T' && n[1] == 0) { parsec_dtd_task_param_t *pp = GET_HEAD_OF_PARAM_LIST(t); return *(int *)pp->pointer_to_tile; }
    return -1;
}
static void task_label(parsec_dtd_task_t *t, char *b, size_t n)
{
    int tid = tid_of(t); const char *cn = t->super.task_class->name;
    if (tid >= 0) snprintf(b, n, "T%d", tid);
    else if (!strcmp(cn, "parsec_dtd_data_flush")) snprintf(b, n, "flush(%c)", 'a' + (int)FLOW_OF(t, 0)->tile->key);
    else if (!strcmp(cn, "Fake_FIRST_OUT")) snprintf(b, n, "first(%c)", 'a' + (int)FLOW_OF(t, 0)->tile->key);
    else snprintf(b, n, "%s", cn);
}

static NOSAN int writes_tile(parsec_dtd_task_t *t, parsec_dtd_tile_t *tl)
{
    if (!t) return 0;
    for (int f = 0; f < t->super.task_class->nb_flows; f++) if (FLOW_OF(t, f)->tile == tl && (FLOW_OF(t, f)->op_type & PARSEC_OUTPUT)) return 1;
    return 0;
}

/* ------------------------------------------------------------------ trace (replay only): one line per scheduling point, printed at once
 * (a deadlock or a crash inside the library never returns to the harness) */
static NOSAN void tev_add(int th, int kind, int cls, int tile, int off, void **bt, int nbt, const char *note)
{
    static const char *kn[] = { "read", "write", "atomic-load", "atomic-rmw", "range-read", "range-write", "WAIT", "point" };
    static long seq = 0;
    if (!O_trace) return;
    char where[400] = ""; Dl_info di;
    for (int i = 1; i < nbt; i++) {        /* first frame outside the harness filter and the vtsan shim (which tail-calls for plain accesses) */
        if (!dladdr(bt[i], &di) || !di.dli_fname) continue;
        if (strstr(di.dli_fname, "libvtsan")) continue;
        snprintf(where, sizeof(where), " @%s+0x%lx", di.dli_fname, (unsigned long)((uintptr_t)bt[i] - (uintptr_t)di.dli_fbase - 1));
        break;
    }
    printf("  trace %4ld T%d %-11s %-13s", seq++, th, kn[kind & 7], cls >= 0 ? rc_name[cls] : "-");
    if (tile >= 0) printf(" tile %c", 'a' + tile);
    if (cls >= 0 && cls <= RC_TREF) printf(" +%d", off);
    if (note && note[0]) printf(" [%s]", note);
    printf("%s\n", where);
    fflush(stdout);
}
static void tev_dump(void) { fflush(stdout); }

/* ------------------------------------------------------------------ the access filter in front of cosched's callback */
static vtsan_cb_t il_real_cb;
static NOSAN void il_filter(int kind, void *addr, int size)
{
    int self = cs_self();
    if (self < 0 || !il_real_cb) { if (il_real_cb) il_real_cb(kind, addr, size); return; }
    wreg_t *r = w_find((uintptr_t)addr, size);
    if (!r) return;                      /* not a scheduling point for cosched either */
    volatile int32_t *lockw = NULL; int lock_rmw = 0, close_win = -1;
    if (r->cls == RC_TILE && r->obj) {
        parsec_dtd_tile_t *tl = (parsec_dtd_tile_t *)r->obj;
        lockw = (volatile int32_t *)&tl->last_user.atomic_lock;
        /* F5 window bookkeeping (attribution predicate only; never changes the schedule) */
        if ((uintptr_t)addr == (uintptr_t)&tl->last_user.alive) {
            if (kind == VTSAN_WRITE && in_walk[self] > 0 && tl->last_user.task != NULL && (tl->last_user.op_type & PARSEC_GET_OP_TYPE) == PARSEC_INPUT) {
                for (int w = 0; w < NWIN; w++) if (!win[r->tile][w].open) { win[r->tile][w].open = 1; win[r->tile][w].by = self; win[r->tile][w].reader = tl->last_user.task; break; }
            } else if (kind == VTSAN_READ && in_insert[self] > 0 && !f5.hit && writes_tile(cur_insert[self], tl)) {
                /* a WRITER of this tile (program writer or flush task) is being inserted while a reader is published but not counted
                 * by another thread's walk; readers inserted in the window are harmless by themselves and are not recorded */
                for (int w = 0; w < NWIN; w++) if (win[r->tile][w].open && win[r->tile][w].by != self) {
                    f5.hit = 1; f5.tile = r->tile; f5.reader = win[r->tile][w].reader; f5.inserted = cur_insert[self]; break; }
            }
        }
        if ((uintptr_t)addr == (uintptr_t)lockw) {
            if (kind == VTSAN_WRITE) lock_by[r->tile] = -1;          /* unlock (plain store of 0) */
            lock_rmw = (kind == VTSAN_ATOMIC_RMW);
        } else if (O_csred && lock_by[r->tile] == self && *lockw != 0) {
            /* lock-based reduction: an access to last_user / last_writer by the thread that HOLDS the tile lock is not a
             * scheduling point (every other access to these fields is; a thread that touches them without the lock is
             * still interleaved with the critical section's boundaries) */
            n_suppressed++;
            if (O_trace) { void *bt[5]; int n = backtrace(bt, 5); tev_add(self, kind, r->cls, r->tile, (int)((uintptr_t)addr - r->lo), bt, n, "holds the tile lock: not a point"); }
            return;
        }
    } else if (r->cls == RC_READERS && kind == VTSAN_ATOMIC_RMW) {
        for (int w = 0; w < NWIN; w++) if (win[r->tile][w].open && win[r->tile][w].by == self) close_win = r->tile * NWIN + w;     /* this thread's walk counts its reader now */
    }
    /* a thread that keeps re-reading one watched location (the two unhooked spin loops of overlap_strategies.c wait
     * for DESC_OF(task)->task to be set by the inserting thread) cannot progress before another thread writes */
    if (kind == VTSAN_READ && spin[self].addr == (uintptr_t)addr) {
        if (++spin[self].n >= 6) { n_spinwait++; if (O_trace) tev_add(self, 6, -1, -1, 0, NULL, 0, "spin on one location -> wait"); cs_wait(); spin[self].n = 0; }
    } else { spin[self].addr = (kind == VTSAN_READ) ? (uintptr_t)addr : 0; spin[self].n = 0; }
    hits_local[r->cls]++; pt_thread[self]++;
    if (O_trace) {
        void *bt[5]; int n = backtrace(bt, 5);
        tev_add(self, kind, r->cls, r->tile, (int)((uintptr_t)addr - r->lo), bt, n, r->label);
    }
    il_real_cb(kind, addr, size);
    /* back on the CPU, the access itself executes next and nothing can intervene before it */
    if (lock_rmw && *lockw == 0) lock_by[r->tile] = self;       /* this CAS(0,1) will succeed */
    if (close_win >= 0) win[close_win / NWIN][close_win % NWIN].open = 0;                /* the reader is counted now */
}
static void il_enter_thread(int i)
{
    parsec_set_my_execution_stream(ES[i]);
    if (vtsan_cb != il_filter) { il_real_cb = vtsan_cb; vtsan_cb = il_filter; }
}
/* explicit scheduling point on harness-owned shared state: a read or a write of the watched queue word (a write
 * re-enables waiting threads, a read does not), or a plain write-like point inside a body */
static NOSAN void il_point(int cls, int is_write, const char *note)
{
    int self = cs_self();
    if (self < 0) return;
    hits_local[cls]++; pt_thread[self]++; spin[self].addr = 0;
    if (O_trace) tev_add(self, 7, cls, -1, 0, NULL, 0, note);
    if (cls == RC_QUEUE && il_real_cb) il_real_cb(is_write ? VTSAN_WRITE : VTSAN_READ, &q_word, 4);
    else cs_point_here();
}

/* ------------------------------------------------------------------ interposed library entry points */
/* the master's crossing of the context barrier (parsec_context_start): the other streams' threads are parked there in
 * the coordinator and do not exist in the forked workers */
int parsec_barrier_wait(parsec_barrier_t *barrier)
{
    static int (*real)(parsec_barrier_t *) = NULL;
    if (il_ready && ctx && barrier == &ctx->barrier && pthread_equal(pthread_self(), main_thread)) return 1;
    if (!real) real = (int (*)(parsec_barrier_t *))dlsym(RTLD_NEXT, "parsec_barrier_wait");
    return real(barrier);
}
/* idle back-off of parsec_taskpool_wait / parsec_execute_and_come_back and the usleep of the two spin loops */
int nanosleep(const struct timespec *req, struct timespec *rem)
{
    static int (*real)(const struct timespec *, struct timespec *) = NULL;
    if (cs_self() >= 0) { if (O_trace) tev_add(cs_self(), 6, -1, -1, 0, NULL, 0, "nanosleep -> wait"); cs_wait(); return 0; }
    if (!real) real = (int (*)(const struct timespec *, struct timespec *))dlsym(RTLD_NEXT, "nanosleep");
    return real(req, rem);
}
int usleep(useconds_t us)
{
    static int (*real)(useconds_t) = NULL;
    if (cs_self() >= 0) { cs_wait(); return 0; }
    if (!real) real = (int (*)(useconds_t))dlsym(RTLD_NEXT, "usleep");
    return real(us);
}
static void watch_task(parsec_dtd_task_t *t)
{
    int nf = t->super.task_class->nb_flows; char nm[40], lb[16];
    task_label(t, lb, sizeof(lb));
    int tile = nf > 0 && FLOW_OF(t, 0)->tile ? (int)FLOW_OF(t, 0)->tile->key : -1;
    /* flow_count, then per flow the parent/desc links and the flags word. arena_index, op_type and tile of a flow record
     * are written before the task is reachable from the tile or from a predecessor and never again: reads of them commute
     * with everything and are not scheduling points */
    snprintf(nm, sizeof(nm), "%s.flow_count", lb);
    w_watch(&t->flow_count, sizeof(int32_t), RC_TFLOW, tile, t, nm);
    for (int f = 0; f < nf; f++) {
        int ft = FLOW_OF(t, f)->tile ? (int)FLOW_OF(t, f)->tile->key : -1;
        snprintf(nm, sizeof(nm), "%s.f%d.parent+desc", lb, f);
        w_watch(PARENT_OF(t, f), (size_t)((char *)(DESC_OF(t, f) + 1) - (char *)PARENT_OF(t, f)), RC_TFLOW, ft, t, nm);
        snprintf(nm, sizeof(nm), "%s.f%d.flags", lb, f);
        w_watch(&FLOW_OF(t, f)->flags, sizeof(int), RC_TFLOW, ft, t, nm);
    }
    snprintf(nm, sizeof(nm), "%s.data", lb);
    if (nf > 0) w_watch(&t->super.data[0], (size_t)nf * sizeof(t->super.data[0]), RC_TDATA, tile, t, nm);
    snprintf(nm, sizeof(nm), "%s.ref", lb);
    w_watch(&t->super.super.super.obj_reference_count, sizeof(int32_t), RC_TREF, tile, t, nm);
}
void parsec_insert_dtd_task(parsec_task_t *task)
{
    static void (*real)(parsec_task_t *) = NULL;
    if (!real) real = (void (*)(parsec_task_t *))dlsym(RTLD_NEXT, "parsec_insert_dtd_task");
    int self = cs_self();
    if (self < 0) { real(task); return; }
    watch_task((parsec_dtd_task_t *)task);
    parsec_dtd_task_t *outer = cur_insert[self];
    in_insert[self]++; cur_insert[self] = (parsec_dtd_task_t *)task;
    real(task);
    in_insert[self]--; cur_insert[self] = outer;
}
int parsec_insert_dtd_flush_task(parsec_dtd_task_t *task, parsec_dtd_tile_t *tile)
{
    static int (*real)(parsec_dtd_task_t *, parsec_dtd_tile_t *) = NULL;
    if (!real) real = (int (*)(parsec_dtd_task_t *, parsec_dtd_tile_t *))dlsym(RTLD_NEXT, "parsec_insert_dtd_flush_task");
    int self = cs_self();
    if (self < 0) return real(task, tile);
    watch_task(task);
    parsec_dtd_task_t *outer = cur_insert[self];
    in_insert[self]++; cur_insert[self] = task;
    int rc = real(task, tile);
    in_insert[self]--; cur_insert[self] = outer;
    return rc;
}
void parsec_dtd_ordering_correctly(parsec_execution_stream_t *es, const parsec_task_t *this_task, uint32_t action_mask,
                                   parsec_ontask_function_t *ontask, void *ontask_arg)
{
    static void (*real)(parsec_execution_stream_t *, const parsec_task_t *, uint32_t, parsec_ontask_function_t *, void *) = NULL;
    if (!real) real = (void (*)(parsec_execution_stream_t *, const parsec_task_t *, uint32_t, parsec_ontask_function_t *, void *))dlsym(RTLD_NEXT, "parsec_dtd_ordering_correctly");
    int self = cs_self();
    if (self >= 0) in_walk[self]++;
    real(es, this_task, action_mask, ontask, ontask_arg);
    if (self >= 0) in_walk[self]--;
}

/* ------------------------------------------------------------------ the harness scheduler module */
typedef struct { parsec_task_t *t; int stalled; } qent_t;
static qent_t Q[64]; static int qn; static int q_gave[8];   /* stream got a task at its previous select */
static char ORDER[1024]; static int order_len;
static int q_install(parsec_context_t *c) { (void)c; qn = 0; return 0; }
static int q_flow_init(parsec_execution_stream_t *es, struct parsec_barrier_t *b) { (void)es; (void)b; return 0; }
static void q_remove(parsec_context_t *c) { (void)c; }
static int q_schedule(parsec_execution_stream_t *es, parsec_task_t *ring, int32_t distance)
{
    parsec_task_t *arr[64]; int n = 0; (void)es;
    parsec_list_item_t *it = &ring->super;
    do { if (n >= 64) abort(); arr[n++] = (parsec_task_t *)it; it = (parsec_list_item_t *)it->list_next; } while (it != &ring->super);
    il_point(RC_QUEUE, 1, distance > 0 ? "schedule(AGAIN)" : "schedule");
    for (int i = 0; i < n; i++) {
        PARSEC_LIST_ITEM_SINGLETON(&arr[i]->super);
        if (qn >= 64) abort();
        /* distance > 0 only comes from __parsec_task_progress handing a task back because prepare_input answered AGAIN */
        Q[qn].t = arr[i]; Q[qn].stalled = (distance > 0);
        if (distance > 0) n_again++;
        qn++;
    }
    return 0;
}
/* a refused writer is offered again only when none of the copies it writes has a reader left: with readers > 0
 * data_lookup_of_dtd_task would answer AGAIN again and the retry would only put the task back (no behaviour is lost) */
static NOSAN int q_eligible(int i)
{
    if (!Q[i].stalled) return 1;
    parsec_dtd_task_t *t = (parsec_dtd_task_t *)Q[i].t;
    for (int f = 0; f < t->super.task_class->nb_flows; f++) {
        parsec_data_copy_t *c = t->super.data[f].data_in;
        if (c && (FLOW_OF(t, f)->op_type & PARSEC_OUTPUT) && c->readers > 0) return 0;
    }
    return 1;
}
static parsec_task_t *q_select(parsec_execution_stream_t *es, int32_t *distance)
{
    int me = es->th_id; *distance = 0;
    /* coming back to select after a task means that task is complete, which may have fired the termination detector
     * (not watched): the point counts as a write so that a thread waiting in parsec_taskpool_wait is re-enabled */
    il_point(RC_QUEUE, q_gave[me], q_gave[me] ? "select (previous task complete)" : "select");
    q_gave[me] = 0;
    int pick = -1;
    if (!O_lifo) { for (int i = 0; i < qn; i++) if (q_eligible(i)) { pick = i; break; } }
    else { for (int i = qn - 1; i >= 0; i--) if (q_eligible(i)) { pick = i; break; } }
    if (pick < 0) return NULL;
    parsec_task_t *t = Q[pick].t;
    for (int j = pick; j + 1 < qn; j++) Q[j] = Q[j + 1];
    qn--; q_gave[me] = 1;
    { char lb[16]; task_label((parsec_dtd_task_t *)t, lb, sizeof(lb)); if (order_len + 24 < (int)sizeof(ORDER)) order_len += snprintf(ORDER + order_len, sizeof(ORDER) - order_len, "%s%s@%d", order_len ? " " : "", lb, me); }
    return t;
}
static parsec_sched_module_t q_module = { NULL, { q_install, q_flow_init, q_schedule, q_select, NULL, q_remove } };

/* ------------------------------------------------------------------ controlled threads */
static void body_inside(int tid) { (void)tid; il_point(RC_BODY, 1, "inside body"); }
static void inserter(void *arg)
{
    (void)arg; il_enter_thread(0);
    const dd_prog_t *p = dd_cur_prog;
    for (int t = 0; t < p->nt; t++) dd_insert_one(TP, t);
    parsec_dtd_data_flush_all(TP, &DC->super);
    parsec_taskpool_wait(TP);
    g_done = 1;
    il_point(RC_QUEUE, 1, "wait returned");
}
static void worker(void *arg)
{
    int i = (int)(intptr_t)arg; il_enter_thread(i);
    while (!g_done) {
        int32_t d = 0; parsec_task_t *t;
        /* as __parsec_get_next_task (static inline in scheduling.c): the task kept by __parsec_schedule_vp first */
        if (NULL != (t = ES[i]->next_task)) { ES[i]->next_task = NULL; d = 1; }
        else t = q_select(ES[i], &d);
        if (t) __parsec_task_progress(ES[i], t, d);
        else { if (g_done) break; cs_wait(); }
    }
}

/* ------------------------------------------------------------------ one execution */
static void fail_or_known(const dd_prog_t *p, const char *msg)
{
    /* attribution to finding F5: ONLY when (1) this very execution contains the window - an inserting thread read
     * tile->last_user.alive of tile x after a chain walk of ANOTHER thread published reader R as the dead end
     * of the chain and before that walk counted R in data_copy->readers -, (2) the task being inserted at that moment was a
     * writer of x (program writer or the flush task; readers inserted in the window are not enough) and (3) the failing fact is about R on x: R observed a value of x that differs
     * from the reference, or a writer of x inserted after R did not wait for R (stamps / in-flight counters). */
    int attributed = 0; char why[256] = "";
    if (f5.hit) {
        int R = tid_of(f5.reader), x = f5.tile, W = tid_of(f5.inserted);
        if (R >= 0) {                /* f5.inserted writes x (checked when the hit was recorded) */
            dd_ref_t ref; dd_reference(p, &ref); int fact = 0;
            for (int k = 0; k < p->t[R].np; k++) if (p->t[R].tile[k] == x && p->t[R].mode[k] == DD_R && dd_log[R].count == 1 && dd_log[R].seen[k] != ref.seen[R][k]) fact = 1;
            if (dd_log[R].conflict & (4 | 8)) fact = 1;
            for (int j = R + 1; j < p->nt; j++) for (int k = 0; k < p->t[j].np; k++) if (p->t[j].tile[k] == x && p->t[j].mode[k] != DD_R) {
                if (dd_log[j].conflict & 2) fact = 1;
                if (dd_log[j].count == 1 && dd_log[R].count == 1 && !(dd_log[R].exit < dd_log[j].enter)) fact = 1;
            }
            if (fact) { attributed = 1; snprintf(why, sizeof(why), "reader T%d of tile %c was published as dead chain end before being counted in readers; %s inserted in that window", R, 'a' + x, W >= 0 ? "a writer" : "the flush task"); }
        }
    }
    if (O_trace) tev_dump();
    if (attributed && is_known(ID_F5)) {       /* one line per (program, reader): the schedule-dependent text stays in the replayable message only */
        cs_known("%s scenario=%s: %s; a later writer of the tile ran before or together with that reader (C04 stamps/counters or C03 value oracle)", ID_F5, PNAME[cur_scen], why); return; }
    if (attributed) cs_fail("%s [shape of finding %s, which is not listed in known_findings.json: %s]", msg, ID_F5, why);
    cs_fail("%s", msg);
}

static void run_prog(int idx)
{
    const dd_prog_t *p = &PROG[idx]; cur_scen = idx;
    /* ---- reset everything ---- */
    memset(dd_log, 0, sizeof(dd_log)); dd_gen_count = 0; dd_stamp = 0;
    memset(dd_writers_in, 0, sizeof(dd_writers_in)); memset(dd_readers_in, 0, sizeof(dd_readers_in));
    dd_cur_prog = p; dd_cur_cfg = &CFG; dd_norecycle = 1; dd_nparked = 0;
    dd_hook_body_inside = body_inside;
    nwr = 0; qn = 0; memset(q_gave, 0, sizeof(q_gave)); order_len = 0; ORDER[0] = 0; g_done = 0;
    memset(in_walk, 0, sizeof(in_walk)); memset(in_insert, 0, sizeof(in_insert)); memset(cur_insert, 0, sizeof(cur_insert));
    memset(pt_thread, 0, sizeof(pt_thread)); memset(hits_local, 0, sizeof(hits_local)); memset(win, 0, sizeof(win)); memset(&f5, 0, sizeof(f5)); memset(spin, 0, sizeof(spin));
    n_again = 0; n_spinwait = 0; n_suppressed = 0; il_real_cb = NULL; for (int i = 0; i < DD_MAXTILES; i++) lock_by[i] = -1;
    /* ---- objects ---- */
    if (!DC) { uint32_t ow[DD_MAXTILES] = { 0, 0, 0, 0 }; DC = vdc_new(DD_MAXTILES, sizeof(int64_t), 1, 0, ow); parsec_dtd_data_collection_init(&DC->super); }
    dd_cur_dc = &DC->super;
    for (int i = 0; i < DD_MAXTILES; i++) *(int64_t *)vdc_elem(DC, i) = dd_init_value(i);
    parsec_dtd_window_size = 8000; parsec_dtd_threshold_size = 4000;
    TP = parsec_dtd_taskpool_new();
    dd_nclasses_made = 0; memset(dd_class_tab, 0, sizeof(dd_class_tab));
    if (parsec_context_add_taskpool(ctx, TP) != 0) { fprintf(stderr, "c04_il: add_taskpool failed\n"); abort(); }
    parsec_context_start(ctx);
    for (int i = 0; i < p->ntiles; i++) {
        char nm[24];
        TILE[i] = parsec_dtd_tile_of(&DC->super, (parsec_data_key_t)i);
        snprintf(nm, sizeof(nm), "tile_%c", 'a' + i);
        w_watch(&TILE[i]->last_user, (size_t)((char *)(&TILE[i]->last_writer + 1) - (char *)&TILE[i]->last_user), RC_TILE, i, TILE[i], nm);
        snprintf(nm, sizeof(nm), "tile_%c.ref", 'a' + i);
        w_watch(&TILE[i]->super.super.obj_reference_count, sizeof(int32_t), RC_TILE, i, NULL, nm);
        snprintf(nm, sizeof(nm), "copy_%c.readers", 'a' + i);
        w_watch(&TILE[i]->data_copy->readers, sizeof(int32_t), RC_READERS, i, TILE[i]->data_copy, nm);
    }
    cs_watch(&q_word, sizeof(q_word), "queue");     /* not in the registry: its points are counted by il_point */
    /* ---- the controlled threads ---- */
    cs_body_t b[4] = { inserter, worker, worker, worker }; void *args[4] = { (void *)0, (void *)1, (void *)2, (void *)3 };
    cs_run(O_threads, b, args);
    /* ---- statistics ---- */
    sstat_t *s = &SS[idx];
    __atomic_fetch_add(&s->execs, 1, __ATOMIC_RELAXED); __atomic_fetch_add(&s->again, n_again, __ATOMIC_RELAXED); __atomic_fetch_add(&s->spin_waits, n_spinwait, __ATOMIC_RELAXED); __atomic_fetch_add(&s->suppressed, n_suppressed, __ATOMIC_RELAXED);
    for (int t = 0; t < O_threads; t++) { long o = s->maxpt[t]; while (pt_thread[t] > o && !__atomic_compare_exchange_n(&s->maxpt[t], &o, pt_thread[t], 0, __ATOMIC_RELAXED, __ATOMIC_RELAXED)) ; }
    for (int c = 0; c < RC_N; c++) __atomic_fetch_add(&s->hits[c], hits_local[c], __ATOMIC_RELAXED);
    if (f5.hit) __atomic_fetch_add(&s->f5_hits, 1, __ATOMIC_RELAXED);
    { int ov = 0, rt = 0; for (int i = 0; i < p->nt; i++) { if (dd_log[i].with_reader) rt = 1; for (int j = i + 1; j < p->nt; j++) if (dd_log[i].count && dd_log[j].count && dd_log[j].enter < dd_log[i].exit && dd_log[i].enter < dd_log[j].exit) ov = 1; }
      if (ov) __atomic_fetch_add(&s->overlap_runs, 1, __ATOMIC_RELAXED); if (rt) __atomic_fetch_add(&s->readers_together, 1, __ATOMIC_RELAXED); }
    /* ---- oracle ---- */
    dd_ref_t ref; dd_reference(p, &ref); char msg[700]; int64_t fin[DD_MAXTILES];
    for (int i = 0; i < DD_MAXTILES; i++) fin[i] = *(int64_t *)vdc_elem(DC, i);
    cs_observe("%s |", ORDER);
    for (int t = 0; t < p->nt; t++) cs_observe(" T%d:%ld-%ld", t, (long)dd_log[t].enter, (long)dd_log[t].exit);
    if (n_again) cs_observe(" again=%ld", n_again);
    int bad = 0;
    if (!bad && (O_oracle & 2)) {
        for (int t = 0; t < p->nt && !bad; t++) if (dd_log[t].count != 1) { snprintf(msg, sizeof(msg), "task %d executed %d times", t, dd_log[t].count); bad = 1; }
        if (!bad && dd_check_exclusion(p, dd_log, msg, sizeof(msg))) bad = 1;
    }
    if (!bad && (O_oracle & 1) && dd_check_values(p, &CFG, &ref, dd_log, fin, 0, msg, sizeof(msg))) bad = 1;
    if (bad) { char m2[1800]; snprintf(m2, sizeof(m2), "%s | program [%s], task order: %s", msg, PNAME[idx], ORDER); fail_or_known(p, m2); }
    else if (O_trace) tev_dump();
    /* ---- teardown ---- */
    dd_unpark_all();
    parsec_taskpool_free(TP); TP = NULL;
}

/* trampolines: cosched scenarios carry no argument */
#define T1(n) static void run_##n(void) { run_prog(n); }
#define T8(a) T1(a##0) T1(a##1) T1(a##2) T1(a##3) T1(a##4) T1(a##5) T1(a##6) T1(a##7)
#define T64(a) T8(a##0) T8(a##1) T8(a##2) T8(a##3) T8(a##4) T8(a##5) T8(a##6) T8(a##7)
T64(00) T64(01) T64(02) T64(03) T64(04) T64(05) T64(06) T64(07) T64(010) T64(011) T64(012) T64(013) T64(014) T64(015) T64(016) T64(017)
#define U1(n) run_##n,
#define U8(a) U1(a##0) U1(a##1) U1(a##2) U1(a##3) U1(a##4) U1(a##5) U1(a##6) U1(a##7)
#define U64(a) U8(a##0) U8(a##1) U8(a##2) U8(a##3) U8(a##4) U8(a##5) U8(a##6) U8(a##7)
static void (*const RUNS[MAXPROG])(void) = { U64(00) U64(01) U64(02) U64(03) U64(04) U64(05) U64(06) U64(07) U64(010) U64(011) U64(012) U64(013) U64(014) U64(015) U64(016) U64(017) };

/* ------------------------------------------------------------------ program family */
/* file-name safe program text: tasks separated by '_', parameters by '.'  ("Ra_Wa", "Ra.RWb_Wa") */
static void prog_name(const dd_prog_t *p, char *b, size_t cap)
{
    char ps[128]; dd_prog_print(p, ps, sizeof(ps));
    for (char *c = ps; *c; c++) if (*c == '|') *c = '_';
    snprintf(b, cap, "il-t%d-k%d-%c%d-%s", O_threads, O_keep, O_lifo ? 'l' : 'f', O_csred, ps);
}
static void add_prog(const dd_prog_t *p)
{
    if (NPROG >= MAXPROG) { fprintf(stderr, "c04_il: too many programs\n"); exit(2); }
    PROG[NPROG] = *p; prog_name(p, PNAME[NPROG], sizeof(PNAME[0]));
    for (int i = 0; i < NPROG; i++) if (!strcmp(PNAME[i], PNAME[NPROG])) return;      /* named twice on the command line / by the family */
    NPROG++;
}
static int add_prog_text(const char *s)
{
    char b[128]; snprintf(b, sizeof(b), "%s", s); for (char *c = b; *c; c++) if (*c == '_') *c = '|';
    dd_prog_t p; if (dd_prog_parse(&p, b) || dd_prog_has_dup(&p)) return -1;
    add_prog(&p); return 0;
}
static void add_family(int nt_lo, int nt_hi, int ntiles, int maxp, int stride)
{
    static dd_task_t alpha[4096]; int na = dd_alphabet(alpha, 4096, ntiles, maxp, 1, 0); long pidx = 0;
    for (int nt = nt_lo; nt <= nt_hi; nt++) {
        int idx[DD_MAXT]; memset(idx, 0, sizeof(idx));
        do {
            dd_prog_t p; dd_prog_from_idx(&p, alpha, idx, nt, ntiles);
            if (!dd_prog_canonical(&p) || dd_prog_has_dup(&p)) continue;
            p.ntiles = dd_prog_tiles_used(&p);
            if ((pidx++ % stride) == 0) add_prog(&p);
        } while (dd_odometer_next(idx, nt, na));
    }
}

static void setup(void)
{
    setenv("PARSEC_MCA_bind_threads", "0", 1);
    setenv("PARSEC_MCA_dtd_task_hash_size", "64", 1); setenv("PARSEC_MCA_dtd_tile_hash_size", "64", 1);
    int argc = 1; char *av[] = { (char *)"c04_il", NULL }; char **argv = av;
    main_thread = pthread_self();
    ctx = parsec_init(O_threads, &argc, &argv);
    if (!ctx) { fprintf(stderr, "c04_il: parsec_init failed\n"); exit(2); }
    if (ctx->nb_vp != 1 || ctx->virtual_processes[0]->nb_cores != O_threads) { fprintf(stderr, "c04_il: expected 1 vp with %d streams\n", O_threads); exit(2); }
    for (int i = 0; i < O_threads; i++) { ES[i] = ctx->virtual_processes[0]->execution_streams[i]; if (!ES[i] || ES[i]->th_id != i) { fprintf(stderr, "c04_il: stream %d not initialised\n", i); exit(2); } }
    parsec_remove_scheduler(ctx); parsec_current_scheduler = &q_module; q_module.module.install(ctx);
    parsec_runtime_keep_highest_priority_task = O_keep;
    if (O_keep) for (int i = 0; i < O_threads; i++) ES[i]->scheduler_object = (void *)&q_module;   /* __parsec_schedule_vp keeps a task only for streams that have one */
    il_ready = 1;
    /* the DTD MCA parameters are read by the first taskpool_new */
    parsec_taskpool_t *dummy = parsec_dtd_taskpool_new(); parsec_taskpool_free(dummy);
}

static int replay_scenario(const char *file, char *scen, size_t cap)
{
    FILE *f = fopen(file, "r"); if (!f) return -1;
    static char buf[1 << 20]; size_t n = fread(buf, 1, sizeof(buf) - 1, f); buf[n] = 0; fclose(f);
    char *s = strstr(buf, "\"scenario\":\""); if (!s) return -1; s += 12; char *e = strchr(s, '"'); if (!e) return -1;
    snprintf(scen, cap, "%.*s", (int)(e - s), s); return 0;
}

int main(int argc, char **argv)
{
    char *av[64]; int ac = 0; const char *progs[64]; int nprogs = 0; const char *replay = NULL, *statsfile = NULL;
    int nt_lo = 0, nt_hi = 0, maxp = 1, ntiles = 2, stride = 1;
    for (int i = 0; i < argc && ac < 60; i++) {
        if (!strcmp(argv[i], "--threads") && i + 1 < argc) O_threads = atoi(argv[++i]);
        else if (!strcmp(argv[i], "--keep") && i + 1 < argc) O_keep = atoi(argv[++i]);
        else if (!strcmp(argv[i], "--lifo") && i + 1 < argc) O_lifo = atoi(argv[++i]);
        else if (!strcmp(argv[i], "--oracle") && i + 1 < argc) O_oracle = atoi(argv[++i]);
        else if (!strcmp(argv[i], "--csred") && i + 1 < argc) O_csred = atoi(argv[++i]);
        else if (!strcmp(argv[i], "--known") && i + 1 < argc) snprintf(O_known, sizeof(O_known), "%s", argv[++i]);
        else if (!strcmp(argv[i], "--prog") && i + 1 < argc && nprogs < 64) progs[nprogs++] = argv[++i];
        else if (!strcmp(argv[i], "--nt") && i + 1 < argc) { const char *v = argv[++i]; nt_lo = atoi(v); nt_hi = strchr(v, ':') ? atoi(strchr(v, ':') + 1) : nt_lo; }
        else if (!strcmp(argv[i], "--maxp") && i + 1 < argc) maxp = atoi(argv[++i]);
        else if (!strcmp(argv[i], "--tiles") && i + 1 < argc) ntiles = atoi(argv[++i]);
        else if (!strcmp(argv[i], "--stride") && i + 1 < argc) stride = atoi(argv[++i]);
        else if (!strcmp(argv[i], "--stats") && i + 1 < argc) statsfile = argv[++i];
        else { if (!strcmp(argv[i], "--replay") && i + 1 < argc) replay = argv[i + 1]; av[ac++] = argv[i]; }
    }
    av[ac] = NULL;
    if (replay) {
        char scen[160]; int t, k, cr; char q; char prog[128];
        if (replay_scenario(replay, scen, sizeof(scen)) || sscanf(scen, "il-t%d-k%d-%c%d-%127s", &t, &k, &q, &cr, prog) != 5) { fprintf(stderr, "c04_il: cannot parse the scenario of %s\n", replay); return 2; }
        O_threads = t; O_keep = k; O_lifo = (q == 'l'); O_csred = cr; O_trace = 1; O_known[0] = 0;
        if (add_prog_text(prog)) { fprintf(stderr, "c04_il: bad program %s\n", prog); return 2; }
    } else {
        for (int i = 0; i < nprogs; i++) if (add_prog_text(progs[i])) { fprintf(stderr, "c04_il: bad program %s\n", progs[i]); return 2; }
        if (nt_hi > 0) add_family(nt_lo, nt_hi, ntiles, maxp, stride);
    }
    if (O_threads < 2 || O_threads > 4 || NPROG == 0) { fprintf(stderr, "usage: %s [--threads 2..4] [--keep 0|1] [--lifo 0|1] [--prog Ra_Wa]... [--nt lo:hi --maxp n --tiles n --stride n] + cosched options\n", argv[0]); return 2; }
    SS = (sstat_t *)mmap(NULL, sizeof(sstat_t) * MAXPROG, PROT_READ | PROT_WRITE, MAP_SHARED | MAP_ANONYMOUS, -1, 0);
    static cs_scenario_t scen[MAXPROG];
    for (int i = 0; i < NPROG; i++) { scen[i].name = PNAME[i]; scen[i].run = RUNS[i]; scen[i].max_bound = 0; }
    int rc = cs_main(ac, av, IL_PROPERTY, scen, NPROG, setup);
    if (statsfile) {
        FILE *f = fopen(statsfile, "w");
        if (f) {
            fprintf(f, "{\n");
            for (int i = 0; i < NPROG; i++) {
                sstat_t *s = &SS[i];
                fprintf(f, " \"%s\": {\"executions_counted\":%ld,\"points_per_region\":{", PNAME[i], s->execs);
                for (int c = 0; c < RC_N; c++) fprintf(f, "%s\"%s\":%ld", c ? "," : "", rc_name[c], s->hits[c]);
                fprintf(f, "},\"max_points_per_thread\":[");
                for (int t = 0; t < O_threads; t++) fprintf(f, "%s%ld", t ? "," : "", s->maxpt[t]);
                fprintf(f, "],\"again_resubmissions\":%ld,\"runs_with_bodies_overlapping\":%ld,\"runs_with_readers_together\":%ld,\"runs_with_f5_window_hit\":%ld,\"spin_waits\":%ld,\"accesses_inside_tile_lock_not_points\":%ld}%s\n",
                        s->again, s->overlap_runs, s->readers_together, s->f5_hits, s->spin_waits, s->suppressed, i + 1 < NPROG ? "," : "");
            }
            fprintf(f, "}\n"); fclose(f);
        }
    }
    return rc;
}
