META = dict(
    engine='seqx+cosched',
    technique='explicit-state model checking: BFS to closure over all arrangements of 5-7 distinguishable items (tied priorities) of the real parsec_list_t/dequeue/fifo/sorted-ring code against an array model with stable sorted insertion; plus preemption-bounded exhaustive schedule enumeration (CHESS) of the locked variants with brute-force linearizability',
    level_text='Sequential: every reachable list arrangement of N items (N=5,6 quick; 5,6,7 thorough) x every operation of the alphabet (push/pop/try_pop front/back, push_sorted, chain_sorted, chain_front/back with rings <= 3, unchain, sort, remove, add_before/after, ring_push_sorted/chop; nolock, locked, dequeue and fifo entry points) is executed on the real inline code and compared with the model after a both-ways walk. Concurrent: every schedule with <= b preemptions (b=2 quick, 3 thorough; the three longest scripts b-1) of twelve 2-3 thread scripts over the locked list/dequeue/fifo operations is executed and checked for linearizability, conservation of items and link consistency.',
    level_note='Sorted operations are only applied to sorted lists (documented precondition). Sort oracle: permutation ordered by priority, either direction. Sequential consistency at instrumented accesses; <= 3 threads, <= 2 operations per thread; try_pop may return NULL when it overlaps another operation (documented).',
)
RULE = ("seqx legs: BFS over operation histories on the real list, states = distinct list arrangements (canonical = sequence of item ids), every transition compared with the array model "
        "(non-trivial = shortest history >= 2 ops); cosched legs: every schedule with at most b preemptions, scheduling points = every instrumented access to the list head/tail, "
        "its lock and the items' links (non-trivial = at least one preemption); states = nodes of the explored schedule tree")
KNOWN_ID = 'C31-sort-hides-items-from-unlocked-empty-test'
def build_seq(ctx, ni):
    return ctx.compile('hk-shm', 'listseq%d' % ni, ['list_seq.c'], instr=False, cflags=['-DNI=%d' % ni])
def build_conc(ctx):
    return ctx.compile('hk-shm', 'listconc', ['list_conc.c'], engine='cosched')
def conc_env():
    import os, vlib
    env = dict(os.environ)
    if any(f.get('id') == KNOWN_ID for f in vlib.known_findings()):
        env['C31_KNOWN_SORT_EMPTY'] = '1'
    return env
def check(ctx):
    import os
    quick = ctx.tier == 'quick'
    for ni in ([5, 6] if quick else [5, 6, 7]):
        ctx.run_engine(build_seq(ctx, ni), ['--outdir', '/verif/out', '--deadline', '300'] + ([] if quick else ['--thorough']), label='listseq%d' % ni, timeout=900)
    exe = build_conc(ctx)
    env = conc_env()
    bound = 2 if quick else 3
    env['C31_CAP_HEAVY'] = str(bound - 1)
    os.environ.update({k: env[k] for k in ('C31_CAP_HEAVY', 'C31_KNOWN_SORT_EMPTY') if k in env})
    ctx.run_cosched(exe, bound, deadline=(150 if quick else 1000), label='listconc')
    return ctx.finish(RULE, ["sequential consistency at instrumented accesses (no weak-memory effects)",
                             "sorted insertion is only applied to lists that are sorted (documented precondition)",
                             "gcc -fsanitize=thread instrumentation reports every access to the watched objects"])
def replay(ctx, path, obj):
    import subprocess, re, os
    if obj.get('engine') == 'seqx':
        ni = int(re.search(r'_n(\d+)$', obj['scenario']).group(1))
        return subprocess.call([build_seq(ctx, ni), '--replay', path])
    return subprocess.call([build_conc(ctx), '--replay', path], env=conc_env())
