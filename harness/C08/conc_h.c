/* C08 / E1 leg: concurrent schedule/select on 2-3 borrowed execution streams of a parsec_init'ed context, one
 * scheduler module per process, every interleaving with at most b preemptions (cosched).
 *
 * run() = pristine scheduler (c08_reinstall) + optional sequential pre-fill + cs_run(2..3 scripted threads) +
 * oracle in the main thread: every select result is NULL or a task of this run, and after a sequential drain of all
 * streams every task has been returned exactly as often as it was handed to schedule().
 * Thread t owns stream own[t] (selects only there); a thread may schedule onto its own stream or onto stream 0
 * (what __parsec_schedule_vp / the communication thread do); the "comm" thread owns no stream.
 */
#include "c08_common.h"
#include "cosched.h"

enum { ST_END = 0, ST_SCHED, ST_SEL, ST_RESCHED };
typedef struct { int type, es, n, dist, prio[4]; unsigned char hi[4]; /* task of the HIGH_PRIORITY class (gd: chain_front) */ } step_t;
#define SCHED(es, d, n, ...) { ST_SCHED, es, n, d, { __VA_ARGS__ }, { 0 } }
#define SEL(es)              { ST_SEL, es, 0, 0, { 0 }, { 0 } }
#define RESCHED(es, d)       { ST_RESCHED, es, 1, d, { 0 }, { 0 } }
#define MAXSTEP 4
typedef struct {
    const char *name; int k, nthreads;
    int prefill_es, prefill_n;          /* prefill_n: >0 that many tasks, -1: capacity-1 of the local buffer, -2: capacity of all bounded buffers-1 */
    int prefill_dist;
    step_t th[3][MAXSTEP + 1];
    int max_bound;
    unsigned only_mods;                 /* 0 = all modules, else bit mask */
} scen_t;

#define M(x) (1u << (x))
static const scen_t SCN[] = {
    /* H: minimal two-writer race on stream 0's non-empty queue (owner and a foreign thread push one task each) */
    { "push_push", 2, 2, 0, 2, 0, { { SCHED(0, 0, 1, 50) }, { SCHED(0, 0, 1, 60) } }, 0, 0 },     /* lower than the pre-filled 100,101: llp takes its detach-merge-reattach path */
    /* I: the owner's low-priority push (llp: detach-merge-reattach) races with a foreign RING of 2 resp. 3 tasks: the ring lands on the
     *    detached (empty) queue and must be intercepted completely on re-attach (seeded change C08-1 dropped its last task) */
    { "detach_vs_ring2", 2, 2, 0, 2, 0, { { SCHED(0, 0, 1, 50) }, { SCHED(0, 0, 2, 60, 55) } }, 0, 0 },
    { "detach_vs_ring3", 2, 2, 0, 2, 0, { { SCHED(0, 0, 1, 50), SEL(0) }, { SCHED(0, 1, 3, 60, 55, 40), SEL(1) } }, 0, 0 },
    /* A: a ring arrives on stream 0 while the neighbour looks for work */
    { "sched_vs_steal", 2, 2, 0, 0, 0, { { SCHED(0, 0, 2, 3, 7), SEL(0) }, { SEL(1), SEL(1) } }, 0, 0 },
    /* B: foreign push (distance 1) onto stream 0 while its owner selects and schedules */
    { "foreign_push", 2, 2, 0, 1, 0, { { SEL(0), SCHED(0, 0, 1, 5), SEL(0) }, { SCHED(0, 1, 2, 6, 2), SEL(1) } }, 0, 0 },
    /* C: two writers merge into stream 0's queue that already holds tasks (llp: multi-writer merge; hbb: CAS on slots) */
    { "two_writers", 2, 2, 0, 2, 0, { { SCHED(0, 0, 1, 105), SEL(0) }, { SCHED(0, 0, 2, 106, 1), SEL(1) } }, 0, 0 },
    /* D: the local buffer overflows into its parent while the neighbour steals */
    { "overflow_vs_steal", 2, 2, 0, -1, 0, { { SCHED(0, 0, 3, 4, 9, 1) }, { SEL(1), SEL(1) } }, 0, M(S_LFQ) | M(S_PBQ) | M(S_LTQ) | M(S_LHQ) },
    /* E: a task that answers AGAIN is re-scheduled with distance 1 while the neighbour steals */
    { "resched", 2, 2, 0, 0, 0, { { SCHED(0, 0, 1, 5), SEL(0), RESCHED(0, 1), SEL(0) }, { SEL(1), SCHED(1, 0, 1, 4), SEL(1) } }, 0, 0 },
    /* F: three threads: owner of 0 selects, owner of 1 schedules and selects, the communication thread pushes onto 0 */
    { "three_comm", 3, 3, 0, 0, 0, { { SEL(0), SEL(0) }, { SCHED(1, 0, 2, 3, 8), SEL(1) }, { SCHED(0, 0, 1, 6) } }, 0, 0 },
    /* G: three streams all active: ring on 2, foreign push from 1 onto 0, everybody selects */
    { "three_streams", 3, 3, 0, 1, 0, { { SEL(0), SEL(0) }, { SCHED(0, 1, 1, 7), SEL(1) }, { SCHED(2, 0, 2, 2, 9), SEL(2) } }, 0, 0 },
};
#define NSCN ((int)(sizeof(SCN) / sizeof(SCN[0])))

#define MAXTASK 160
static parsec_task_t *tasks; static int ntasks;
static int n_sched[MAXTASK], n_ret[MAXTASK];
static int results[3][MAXSTEP]; static parsec_task_t *resptr[3][MAXSTEP];
static const scen_t *cur;
static int nregions_used;

static void watch_cb(const volatile void *base, size_t len, const char *name) { if (nregions_used < 60) { cs_watch(base, len, name); nregions_used++; } }

/* ltq allocates (and frees) its heaps while the threads run.  They are NOT watched: a freed heap's memory is
 * recycled by malloc for unrelated blocks in an allocator-state dependent way, which made the set of scheduling
 * points differ between a long-lived worker and a fresh process (cosched reported it as nondeterminism).  The heap
 * TREE is still covered: its child pointers are the tasks' list links, which are watched; only the three header
 * fields (size, priority, top) of a heap are not scheduling points. */
static int task_id(parsec_task_t *t) { if (!t) return -1; if (t < tasks || t >= tasks + ntasks || ((char *)t - (char *)tasks) % sizeof(parsec_task_t)) return -2; return (int)(t - tasks); }
static int tt_distinct;
static parsec_task_t *take_tasks(int n, const int *prio, int base_prio)
{
    parsec_task_t *r[MAXTASK];
    for (int i = 0; i < n; i++) {
        parsec_task_t *t = &tasks[ntasks++];
        t->priority = prio ? prio[i] : base_prio + i;
        t->data[0].data_in = (parsec_data_copy_t *)(uintptr_t)(0x1000 + 64 * (tt_distinct ? 1000 + ntasks : (ntasks - 1) / 2));   /* pairs share an input (ltq), or none does */
        r[i] = t; __sync_fetch_and_add(&n_sched[ntasks - 1], 1);
    }
    return c08_ring(r, n);
}

static void body(void *arg)
{
    int t = (int)(intptr_t)arg; parsec_task_t *last = NULL;
    for (int s = 0; s < MAXSTEP && cur->th[t][s].type != ST_END; s++) {
        const step_t *st = &cur->th[t][s];
        results[t][s] = -9;
        if (st->type == ST_SEL) { last = c08_select(st->es); resptr[t][s] = last; results[t][s] = task_id(last); }
        else if (st->type == ST_SCHED) { parsec_task_t *r[4]; for (int i = 0; i < st->n; i++) r[i] = (parsec_task_t *)(intptr_t)0;
            /* the tasks of this step were reserved before cs_run (deterministic ids) */
            int first = (int)(intptr_t)resptr[t][s]; for (int i = 0; i < st->n; i++) { r[i] = &tasks[first + i]; __sync_fetch_and_add(&n_sched[first + i], 1); }
            C08_SCHEDULE(st->es, c08_ring(r, st->n), st->dist); results[t][s] = first; }
        else if (st->type == ST_RESCHED) {
            int id = task_id(last);
            if (id >= 0) { PARSEC_LIST_ITEM_SINGLETON(&last->super); __sync_fetch_and_add(&n_sched[id], 1); C08_SCHEDULE(st->es, last, st->dist); results[t][s] = id; last = NULL; }
            else results[t][s] = -1;
        }
    }
}

static int local_capacity(void)
{
    switch (c08_mod) {
    case S_LFQ: case S_PBQ: case S_LTQ: case S_LHQ: return (int)PARSEC_MCA_SCHED_LOCAL_QUEUES_OBJECT(ES[0])->task_queue->size;
    default: return 4 * K;
    }
}

static void account(parsec_task_t *t, const char *who)
{
    if (!t) return;
    int id = task_id(t);
    CS_CHECK(id >= 0, "%s: %s returned a pointer that is not a task of this run (%p)", c08_modname, who, (void *)t);
    n_ret[id]++;
    CS_CHECK(n_ret[id] <= n_sched[id], "%s: task #%d was returned %d time(s) but handed to schedule() only %d time(s) (duplicated; last by %s)", c08_modname, id, n_ret[id], n_sched[id], who);
}

static void run_scen(const scen_t *sc)
{
    cur = NULL; nregions_used = 0;
    c08_reinstall(); srand(12345);
    if (!tasks) { if (posix_memalign((void **)&tasks, 64, MAXTASK * sizeof(parsec_task_t))) abort(); }
    memset(tasks, 0, MAXTASK * sizeof(parsec_task_t)); ntasks = 0;
    memset(n_sched, 0, sizeof(n_sched)); memset(n_ret, 0, sizeof(n_ret));
    for (int i = 0; i < MAXTASK; i++) { PARSEC_OBJ_CONSTRUCT(&tasks[i].super, parsec_list_item_t); tasks[i].taskpool = &c08_tp; tasks[i].task_class = &c08_tc_plain; }
    /* spq creates a per-distance list on first use: create the ones this scenario uses now so that they can be watched */
    if (c08_mod == S_SPQ) for (int d = 0; d < 3; d++) { parsec_task_t *w = &tasks[MAXTASK - 1]; PARSEC_LIST_ITEM_SINGLETON(&w->super); C08_SCHEDULE(0, w, d); parsec_task_t *g = c08_select(0); if (g != w) cs_fail("spq: warm-up task not returned"); }
    /* sequential pre-fill */
    int pf = sc->prefill_n; if (pf == -1) pf = local_capacity() - 1;
    tt_distinct = sc->prefill_n < 0;
    if (pf > 0) { if (pf > MAXTASK - 32) pf = MAXTASK - 32; C08_SCHEDULE(sc->prefill_es, take_tasks(pf, NULL, 100), sc->prefill_dist); }
    /* reserve the tasks of every schedule step (ids independent of the interleaving) */
    for (int t = 0; t < sc->nthreads; t++) for (int s = 0; s < MAXSTEP && sc->th[t][s].type != ST_END; s++) {
        resptr[t][s] = NULL; results[t][s] = -9;
        if (sc->th[t][s].type == ST_SCHED) { resptr[t][s] = (parsec_task_t *)(intptr_t)ntasks; for (int i = 0; i < sc->th[t][s].n; i++) { tasks[ntasks].task_class = sc->th[t][s].hi[i] ? &c08_tc_high : &c08_tc_plain; tasks[ntasks++].priority = sc->th[t][s].prio[i]; } }
    }
    /* ltq groups consecutive tasks sharing an input into one heap: pairs share, except in a capacity pre-fill (one heap per task, so that the buffer really fills up) */
    for (int i = (pf > 0 ? pf : 0); i < ntasks; i++) tasks[i].data[0].data_in = (parsec_data_copy_t *)(uintptr_t)(0x1000 + 64 * (i / 2));
    /* watched: the module's shared objects and the tasks' links.
     * lhq's bounded buffers have 24..96 slots; only the first W are watched, W = tasks + re-schedules + 2: a pusher
     * passes slot j only after seeing it occupied, at most `tasks` slots are occupied at a time and a task changes slot
     * only when it is re-scheduled, so slots >= W stay NULL throughout (reads of them are independent of everything).
     * When the pre-fill occupies the buffer, everything is watched. */
    { int nres = 0; for (int t = 0; t < sc->nthreads; t++) for (int s = 0; s < MAXSTEP && sc->th[t][s].type != ST_END; s++) nres += sc->th[t][s].type == ST_RESCHED;
      c08_hbb_prefix = (c08_mod == S_LHQ && sc->prefill_n >= 0) ? ntasks + nres + 2 : 0; }
    c08_regions(watch_cb);
    if (ntasks <= 36) for (int i = 0; i < ntasks; i++) watch_cb(&tasks[i].super.list_next, 2 * sizeof(void *), "task-links");
    else watch_cb(tasks, ntasks * sizeof(parsec_task_t), "tasks");
    cur = sc;
    cs_body_t b[3] = { body, body, body }; void *args[3] = { (void *)0, (void *)1, (void *)2 };
    cs_run(sc->nthreads, b, args);
    cur = NULL;
    /* ---- oracle ---- */
    char who[64];
    for (int t = 0; t < sc->nthreads; t++) for (int s = 0; s < MAXSTEP && sc->th[t][s].type != ST_END; s++) {
        if (sc->th[t][s].type == ST_SEL) { snprintf(who, sizeof(who), "select(stream %d) of thread %d step %d", sc->th[t][s].es, t, s); account(resptr[t][s], who); }
        cs_observe("%d.%d=%d ", t, s, results[t][s]);
    }
    int quiet = 0, rounds = 0; cs_observe("| drain:");
    while (quiet < 2 && rounds < ntasks + 8) {
        int got = 0;
        for (int i = 0; i < K; i++) { parsec_task_t *x = c08_select(i); if (x) { got++; snprintf(who, sizeof(who), "drain select(stream %d)", i); account(x, who); cs_observe(" %d:%d", i, task_id(x)); } }
        quiet = got ? 0 : quiet + 1; rounds++;
    }
    for (int i = 0; i < ntasks; i++)
        CS_CHECK(n_ret[i] == n_sched[i], "%s: task #%d was handed to schedule() %d time(s) but returned %d time(s) after a complete drain of all %d streams (lost)", c08_modname, i, n_sched[i], n_ret[i], K);
}

#define R(i) static void run_##i(void) { run_scen(&SCN[i]); }
R(0) R(1) R(2) R(3) R(4) R(5) R(6) R(7) R(8) R(9)
static void (*const RUNS[])(void) = { run_0, run_1, run_2, run_3, run_4, run_5, run_6, run_7, run_8, run_9 };
_Static_assert(sizeof(RUNS) / sizeof(RUNS[0]) == NSCN, "one run_<i> per scenario");

/* ---- GENERATED scripts (bounded-exhaustive families; the enumeration lives in check.py, see NOTES.md "Generated families") ----
 * A generated script is completely described by its TEXT, which is also its scenario name and therefore stored in the replay file:
 *     <module>_k<K>_g_<P>_<ops of T0>_<ops of T1>[_<ops of T2>]          e.g.  llp_k2_g_H_S00a_S00cb
 *   P     pre-fill of stream 0 before the threads start:  E empty | H two tasks, priorities 100,101 | C capacity-1 tasks of the local buffer, priorities 100..
 *   ops   1..MAXSTEP operations joined by '.':
 *           X<s>            select on stream s
 *           S<s><d><ring>   schedule onto stream s with distance d a ring of 1..3 fresh tasks, one priority letter per task in ring order:
 *                           a=40 b=50 c=60 (below the pre-fill)  x=1040 y=1050 z=1060 (above it); upper case = task of a HIGH_PRIORITY class
 *           R<s><d>         re-schedule onto stream s with distance d the task returned by this thread's latest select (no-op if that was NULL)
 *   Thread t owns stream t when t < K; a thread t >= K owns no stream (the communication thread).
 * Usage contract (scheduling.c, checked here too so that a hand-typed text cannot violate it): X<s> only with s = the thread's own
 * stream; S/R onto the thread's own stream or onto stream 0; R only after an X of the same thread with no R in between. */
#define MAXGEN 1024
static scen_t GSC[MAXGEN]; static char gnames[MAXGEN][128]; static int ngen = 0;
static int letter_prio(int c) { switch (c | 0x20) { case 'a': return 40; case 'b': return 50; case 'c': return 60; case 'x': return 1040; case 'y': return 1050; case 'z': return 1060; } return -1; }
static int parse_generated(const char *txt, const char *mod, int k, scen_t *sc, char *err, size_t elen)
{
    char pfx[32]; int o = snprintf(pfx, sizeof(pfx), "%s_k%d_g_", mod, k);
    memset(sc, 0, sizeof(*sc));
    if (strlen(txt) >= 128) { snprintf(err, elen, "script text too long"); return -1; }
    if (strncmp(txt, pfx, o)) { snprintf(err, elen, "script is not for module %s on %d streams", mod, k); return -1; }
    const char *p = txt + o;
    sc->k = k; sc->prefill_es = 0; sc->prefill_dist = 0;
    switch (*p) { case 'E': sc->prefill_n = 0; break; case 'H': sc->prefill_n = 2; break; case 'C': sc->prefill_n = -1; break; default: snprintf(err, elen, "bad pre-fill '%c'", *p); return -1; }
    p++;
    int t = 0;
    while (*p == '_') {
        p++;
        if (t >= 3) { snprintf(err, elen, "more than 3 threads"); return -1; }
        int own = t < k ? t : -1, s = 0, can_resched = 0;
        for (;;) {
            if (s >= MAXSTEP) { snprintf(err, elen, "more than %d operations in thread %d", MAXSTEP, t); return -1; }
            step_t *st = &sc->th[t][s];
            if (*p == 'X') {
                int es = p[1] - '0'; if (es != own) { snprintf(err, elen, "contract: thread %d selects on stream %d it does not own", t, es); return -1; }
                st->type = ST_SEL; st->es = es; p += 2; can_resched = 1;
            } else if (*p == 'S' || *p == 'R') {
                int es = p[1] - '0', d = p[2] - '0';
                if (es < 0 || es >= k || (es != own && es != 0)) { snprintf(err, elen, "contract: thread %d schedules onto stream %d (neither its own nor stream 0)", t, es); return -1; }
                if (d < 0 || d > 3) { snprintf(err, elen, "bad distance"); return -1; }
                st->es = es; st->dist = d;
                if (*p == 'R') {
                    if (!can_resched) { snprintf(err, elen, "contract: thread %d re-schedules without a preceding select", t); return -1; }
                    st->type = ST_RESCHED; st->n = 1; can_resched = 0; p += 3;
                } else {
                    st->type = ST_SCHED; p += 3;
                    while (letter_prio(*p) >= 0) { if (st->n >= 3) { snprintf(err, elen, "ring of more than 3 tasks"); return -1; } st->prio[st->n] = letter_prio(*p); st->hi[st->n] = (*p >= 'A' && *p <= 'Z'); st->n++; p++; }
                    if (st->n < 1) { snprintf(err, elen, "empty ring"); return -1; }
                }
            } else { snprintf(err, elen, "bad operation at '%s'", p); return -1; }
            s++;
            if (*p == '.') { p++; continue; }
            break;
        }
        t++;
    }
    if (*p || t < 2) { snprintf(err, elen, "trailing text or fewer than 2 threads at '%s'", p); return -1; }
    sc->nthreads = t;
    return 0;
}
static int add_generated(const char *txt, const char *mod, int k)
{
    char err[160];
    if (ngen >= MAXGEN) { fprintf(stderr, "c08: more than %d generated scripts in one invocation\n", MAXGEN); return -1; }
    if (parse_generated(txt, mod, k, &GSC[ngen], err, sizeof(err))) { fprintf(stderr, "c08: generated script '%s' rejected: %s\n", txt, err); return -1; }
    snprintf(gnames[ngen], sizeof(gnames[ngen]), "%s", txt); GSC[ngen].name = gnames[ngen];
    ngen++; return 0;
}
/* cosched scenarios carry a parameterless run(): one trampoline per slot of GSC[] */
#define G1(i) static void grun_##i(void) { run_scen(&GSC[0x##i]); }
#define G16(p) G1(p##0) G1(p##1) G1(p##2) G1(p##3) G1(p##4) G1(p##5) G1(p##6) G1(p##7) G1(p##8) G1(p##9) G1(p##a) G1(p##b) G1(p##c) G1(p##d) G1(p##e) G1(p##f)
#define G256(p) G16(p##0) G16(p##1) G16(p##2) G16(p##3) G16(p##4) G16(p##5) G16(p##6) G16(p##7) G16(p##8) G16(p##9) G16(p##a) G16(p##b) G16(p##c) G16(p##d) G16(p##e) G16(p##f)
G256(0) G256(1) G256(2) G256(3)
#define N1(i) grun_##i,
#define N16(p) N1(p##0) N1(p##1) N1(p##2) N1(p##3) N1(p##4) N1(p##5) N1(p##6) N1(p##7) N1(p##8) N1(p##9) N1(p##a) N1(p##b) N1(p##c) N1(p##d) N1(p##e) N1(p##f)
#define N256(p) N16(p##0) N16(p##1) N16(p##2) N16(p##3) N16(p##4) N16(p##5) N16(p##6) N16(p##7) N16(p##8) N16(p##9) N16(p##a) N16(p##b) N16(p##c) N16(p##d) N16(p##e) N16(p##f)
static void (*const GRUNS[])(void) = { N256(0) N256(1) N256(2) N256(3) };
_Static_assert(sizeof(GRUNS) / sizeof(GRUNS[0]) == MAXGEN, "one trampoline per generated slot");

static const char *g_sched = "lfq"; static int g_k = 2;
static const char *g_only[8]; static int g_nonly = 0;   /* --only <substring>: keep only matching scenarios */
static const char *g_full[8]; static int g_nfull = 0;   /* --full <substring>: only matching scenarios go beyond preemption bound 1 */
static void setup(void) { if (c08_init(g_sched, g_k)) exit(2); }

int main(int argc, char **argv)
{
    /* --sched / --streams / --only / --full / --gen / --gen-file are ours; everything else goes to cosched */
    char *av[64]; int ac = 0;
    const char *gen_txt[MAXGEN]; int ngen_txt = 0; const char *replay = NULL; int check_only = 0;
    static char filebuf[1 << 18];
    for (int i = 0; i < argc && ac < 60; i++) {
        if (!strcmp(argv[i], "--sched") && i + 1 < argc) g_sched = argv[++i];
        else if (!strcmp(argv[i], "--streams") && i + 1 < argc) g_k = atoi(argv[++i]);
        else if (!strcmp(argv[i], "--only") && i + 1 < argc && g_nonly < 8) g_only[g_nonly++] = argv[++i];
        else if (!strcmp(argv[i], "--full") && i + 1 < argc && g_nfull < 8) g_full[g_nfull++] = argv[++i];
        else if (!strcmp(argv[i], "--gen") && i + 1 < argc) { if (ngen_txt < MAXGEN) gen_txt[ngen_txt++] = argv[++i]; else { fprintf(stderr, "c08: too many --gen\n"); return 2; } }
        else if (!strcmp(argv[i], "--gen-file") && i + 1 < argc) {      /* one script text per line */
            FILE *f = fopen(argv[++i], "r"); if (!f) { perror(argv[i]); return 2; }
            size_t n = fread(filebuf, 1, sizeof(filebuf) - 1, f); fclose(f); filebuf[n] = 0;
            for (char *q = strtok(filebuf, "\n"); q; q = strtok(NULL, "\n")) { if (!*q) continue; if (ngen_txt < MAXGEN) gen_txt[ngen_txt++] = q; else { fprintf(stderr, "c08: too many scripts in %s\n", argv[i]); return 2; } }
        }
        else if (!strcmp(argv[i], "--gen-check")) check_only = 1;     /* parse + contract check only */
        else { if (!strcmp(argv[i], "--replay") && i + 1 < argc) replay = argv[i + 1]; av[ac++] = argv[i]; }
    }
    av[ac] = NULL;
    int mod = -1; for (int i = 0; i < S_N; i++) if (!strcmp(g_sched, c08_names[i])) mod = i;
    if (mod < 0) { fprintf(stderr, "unknown scheduler %s\n", g_sched); return 2; }
    /* the replay file of a generated script carries the script text as its scenario name: rebuild the script from it */
    if (replay) {
        static char rb[1 << 16]; FILE *f = fopen(replay, "r");
        if (f) { size_t n = fread(rb, 1, sizeof(rb) - 1, f); fclose(f); rb[n] = 0;
            char *q = strstr(rb, "\"scenario\":\""); if (q) { q += 12; char *e = strchr(q, '"'); if (e) { *e = 0; if (strstr(q, "_g_")) { gen_txt[0] = q; ngen_txt = 1; printf("generated script %s (rebuilt from the scenario text of the replay file)\n", q); } } } }
    }
    for (int i = 0; i < ngen_txt; i++) if (add_generated(gen_txt[i], g_sched, g_k)) return 2;
    if (check_only) { printf("%d generated scripts accepted\n", ngen); return 0; }
    static cs_scenario_t scen[NSCN + MAXGEN]; static char names[NSCN][96]; int n = 0;
    for (int i = 0; i < NSCN && !ngen; i++) {
        if (SCN[i].k != g_k) continue;
        if (SCN[i].only_mods && !(SCN[i].only_mods & M(mod))) continue;
        if (g_nonly) { int hit = 0; for (int f = 0; f < g_nonly; f++) if (strstr(SCN[i].name, g_only[f])) hit = 1; if (!hit) continue; }
        snprintf(names[n], sizeof(names[n]), "%s_k%d_%s", g_sched, g_k, SCN[i].name);
        scen[n].name = names[n]; scen[n].run = RUNS[i]; scen[n].max_bound = SCN[i].max_bound;
        if (mod == S_LHQ && SCN[i].prefill_n < 0) scen[n].max_bound = 1;     /* pre-filled 96-slot buffer: ~700 points per execution */
        if (g_nfull) { int hit = 0; for (int f = 0; f < g_nfull; f++) if (strstr(SCN[i].name, g_full[f])) hit = 1; if (!hit) scen[n].max_bound = 1; }
        n++;
    }
    /* generated scripts replace the hand-written ones in this invocation */
    for (int i = 0; i < ngen; i++) {
        scen[n].name = GSC[i].name; scen[n].run = GRUNS[i]; scen[n].max_bound = 0;
        if (mod == S_LHQ && GSC[i].prefill_n < 0) scen[n].max_bound = 1;
        n++;
    }
    return cs_main(ac, av, "C08", scen, n, setup);
}
