import os, sys, json, time, itertools

sys.path.insert(0, os.path.join(os.environ.get('VERIF_ROOT', '/verif'), 'engine', 'mp'))
import mp  # noqa: E402

META = dict(
    engine='mp+vranks',
    technique='(1) explicit enumeration of a finite box: every setting of the four request-window parameters in {1,2,3,default}^4 x 2..4 processes, each executed as a real multi-process run of a scripted AM / put / get workload on the real communication engine with an exactly-once / byte-exact oracle on every rank; (2) explicit-state search of the real engine (parsec_mpi_funnelled.c compiled twice into one process = 2 virtual ranks) over a virtual MPI whose message completion / reporting order and the interleaving of the ranks\' calls are owned by the explorer: depth-first over choice sequences with replay from fresh engines, states identified by per-rank observation hashes, run to closure on small scripts and with a bound on the number of non-default choices on larger ones',
    level_text='Tier 1 (legs ce-box-n*): for every point of the box (runtime_comm_mpi_am_posted_requests, _am_tested_requests, _dynamic_requests, _dynamic_recv_requests each in {1,2,3,default}; 2, 3 and 4 MPI processes) the real parsec_mpi_funnelled.c engine is initialised, three harness tags plus a control tag are registered, and every rank runs a deterministic script: all-to-all streams of active messages of sizes 0,1,2,3,.. up to the registered length (incl. a 1001-byte tag, sizes on both sides of the 4096-byte eager limit and 64 KiB), bursts several times longer than the posted receive pool, put and get transfers of 0, 1, 4 KiB (1 MiB and 4 MiB on the rows named in NOTES.md) issued in numbers exceeding the dynamic request limit so that requests overflow into the engine\'s pending queues, and a mixed phase with everything at once. Every rank checks: each scripted message delivered exactly once to the callback of its own tag with identical bytes and size, nothing unscripted delivered, each put/get completion signalled exactly once on both sides, the target window byte-identical to the source when completion is signalled, guard bytes around every window untouched (also at the end), source buffers unmodified, every phase terminates. '
               'Tier 2 (legs vmpi-*): for 2 ranks, window parameters in {1,2,3} and small scripts (1-4 active messages of 0 / small / exactly the registered length on 1-2 tags, incl. rendezvous-size ones, and 0-4 put / get transfers of 0, 1 or 4096 bytes per run) the same oracle, the usage checks of the virtual MPI (stale or foreign request handles, restarting an active persistent receive, truncation, a progress() that spins), the engine\'s own assertions, absence of a stuck state with an unfinished script and emptiness of the virtual MPI at the end are decided for EVERY interleaving of the two ranks\' engine calls (next script call / one progress() call) and EVERY order in which MPI may report completed requests (each MPI_Testsome reports any subset of the completed requests of its array) - legs vmpi-am and vmpi-xfer: search run to closure; legs vmpi-dev: all runs with at most d choices different from the default (deliver everything at once, in order), d as stated in the evidence. Leg vmpi-conformance: the deviation-free run of a sample of the same scripts is re-executed step by step on the real engine over the real MPI (one 2-process launch) and must produce the same callbacks in the same order on both ranks.',
    level_note='E5 legs: message timing and MPI completion order are NOT controlled; the enumeration is exhaustive over configurations x process counts x the scripted workload only, each point executed once per run (OpenMPI 4.1.4, ob1/vader shared memory). Usage contracts respected by the scripts: tags are registered before enable(); put is only called when can_serve() (as remote_dep_mpi.c does); remote displacements are 0 and size equals the registered size (the engine ignores both); rendezvous-size active messages are never sent in both directions between two ranks at once (send_am is a blocking MPI_Send); simultaneous gets in both directions between two ranks are issued only when dynamic_recv_requests < dynamic_requests - otherwise the engine can deadlock (known finding C14-get-recv-window-deadlock, reproduced by a dedicated run). Configurations after the first one of a launch reuse the process through the engine\'s own fini/init cycle; any failure is re-run alone in a fresh launch. '
               'Virtual-MPI legs - what the model assumes: 2 ranks; one thread per rank calls the engine; matching is MPI\'s ordered matching per (source, communicator, tag) (mpi_assert_allow_overtaking on the data communicator is accepted and ignored: ordered matching is one of the behaviours it allows); messages of at most 4000 bytes are eager (send complete at the call), longer ones rendezvous (send completes at the match; a rank whose blocking send_am cannot be matched is not enabled); data lands in the receive buffer at the match; a completed request may be reported by any later MPI_Testsome (up to 4 completed requests per call: every subset, more: all / any single one / all but one); collectives of init/enable are not interleaved (both engines are enabled before the search starts, fresh mpi_funnelled_init..fini per explored run; the data-tag counter and the receive-share counter, which fini does not reset, are zeroed by the harness); contiguous byte datatypes only; the dedup of states assumes that the engine is deterministic, does not branch on addresses and reads a receive buffer only after the completion of its request was reported (hash collisions of the 128-bit state name ignored); failures whose run satisfies the predicate of a recorded known finding (mutual gets with dynamic_recv == dynamic stuck with every slot holding a get receive; put data and get data in flight in one direction with equal tags) are attributed to it, anything else is a violation.',
)
RULE = ("box = {1,2,3,default}^4 settings of (am_posted, am_tested, dynamic, dynamic_recv) x n in {2,3,4}; one session of the scripted "
        "workload per point on the real engine; states = distinct box points completed; transitions = engine operations checked by the "
        "rank oracles (AM deliveries + control deliveries + put/get completions on both sides); a session is non-trivial when on some rank "
        "a request overflowed into one of the engine's pending queues (dynamic send/recv fifo seen non-empty or a put deferred because "
        "can_serve() was false) AND one progress() call delivered more messages than the tested window holds; distinct outcomes = distinct "
        "per-session tuples over ranks of (log2 buckets of: times the send fifo / the recv fifo were seen non-empty, puts deferred; largest delivery batch / tested window) - a timing-dependent signature, it shows that the runs differ in how the queues were used. "
        "vmpi-* legs: one scenario = (window parameters, eager limit, script of rank 0 / script of rank 1); transitions A(r) = next script call of rank r, P(r) = one progress() of rank r (enabled only when it would do something), and inside P(r) the subset of completed requests every MPI_Testsome reports; states = distinct pairs of per-rank observation hashes reached (summed over scenarios), transitions = transitions fired from them, executions = runs from fresh engines, "
        "non-trivial = distinct goal states (both scripts finished, oracle and end-of-run audit hold) whose run used a pending queue, deferred a put, reported a strict subset of the completed requests or delivered AMs of one tag out of sending order; distinct outcomes = distinct pairs of per-rank callback sequences at goal states (per scenario, summed); mode full = search to closure, mode dN = at most N non-default choices (default = index 0 = progress before new calls, report everything completed)")
ASSUME = ["MPI message timing / completion order is whatever OpenMPI 4.1.4 (ob1, vader) produces on this machine: not enumerated",
          "the script respects the engine's usage contracts listed in level_note",
          "known finding C14-get-recv-window-deadlock: mutual gets are only scripted where dynamic_recv_requests < dynamic_requests",
          "vmpi-* legs: the virtual MPI's model of the standard (ordered matching, eager <= 4000 bytes < rendezvous, data lands at the match, any completed request may be reported by any later MPI_Testsome, persistent requests inactive after being reported) and its simplifications listed in META.level_note; 2 ranks; scripts and window parameters as listed in the legs",
          "vmpi-* legs: state identity = pair of per-rank observation hashes (deterministic engine, no address-dependent branch, no read of a receive buffer before its completion is reported)"]
KNOWN_ID = 'C14-get-recv-window-deadlock'
KNOWN_ID2 = 'C14-get-put-data-tag-collision'
VALS = [1, 2, 3, 0]     # 0 = default


def eff(c):
    p = c[0] or 6
    t = c[1] or max(p // 4, 1)
    t = min(t, p)
    d = c[2] or 30
    r = min(c[3] or 15, d)
    return (p, t, d, r)


def known_entry(kid=KNOWN_ID):
    p = os.environ.get('VERIF_KNOWN_FINDINGS', os.path.join(os.environ.get('VERIF_ROOT', '/verif'), 'known_findings.json'))
    try:
        for f in json.load(open(p)).get('findings', []):
            if f.get('id') == kid:
                return f
    except Exception:
        pass
    return None


def cfg_str(c, big, mutual):
    return '%d,%d,%d,%d,%d,%d' % (c[0], c[1], c[2], c[3], big, mutual)


def big_level(tier, n, c):
    """which sessions carry the 1 MiB / 4 MiB transfers (they cost seconds when the machine is oversubscribed)"""
    pt_default = (c[0] == 0 and c[1] == 0)
    if tier == 'thorough':
        return 2 if pt_default else 1
    if not pt_default:
        return 0
    if n == 2:
        return 2 if c[3] == 0 else 1
    if n == 3:
        return 2 if (c[2], c[3]) in ((1, 1), (0, 0)) else 0
    return 2 if (c[2], c[3]) == (1, 1) else (1 if (c[2], c[3]) == (0, 0) else 0)


def box(tier):
    """thorough: the whole box {1,2,3,default}^4 x n in {2,3,4} (768 points).  quick: the whole box for n = 2 and, for n = 3 and
    n = 4, the 'cross' of the box (all (posted,tested) with default dynamic limits + all (dynamic,dynamic_recv) with default AM
    limits, 31 points each): 318 points."""
    pts = []
    for n in (2, 3, 4):
        for c in itertools.product(VALS, VALS, VALS, VALS):
            if tier == 'quick' and n >= 3 and not ((c[0] == 0 and c[1] == 0) or (c[2] == 0 and c[3] == 0)):
                continue
            e = eff(c)
            pts.append(dict(n=n, c=c, big=big_level(tier, n, c), mutual=1 if e[3] < e[2] else 0))
    return pts


def build(ctx):
    return ctx.compile('hk-mpi', 'ce_h', ['ce_h.c'], mpi=True, instr=False)


def make_launch(exe, key, n, pts, scale, phase_timeout, timeout, only=0):
    argv = [exe, '--scale', str(scale), '--phase-timeout', str(phase_timeout), '--configs', ';'.join(cfg_str(p['c'], p['big'], p['mutual']) for p in pts)]
    if only:
        argv += ['--only', str(only)]
    return mp.Launch(key=key, n=n, argv=argv, meta=dict(pts=pts), timeout=timeout)


def session_records(res, npts):
    """per configuration index: list over ranks of the session record (or None)"""
    out = []
    for i in range(npts):
        row = []
        for r in range(res.launch.n):
            s = res.ranks.get(r, {}).get('sessions', [])
            row.append(s[i] if i < len(s) else None)
        out.append(row)
    return out


class Acc:
    def __init__(self):
        self.per_n = {}

    def leg(self, n):
        return self.per_n.setdefault(n, dict(points=set(), sessions=0, transitions=0, nontrivial=set(), outcomes=set(), samples=[], inversions=0,
                                             bytes=0, launches=0))

    def add(self, n, pt, row):
        L = self.leg(n)
        L['sessions'] += 1
        L['points'].add(tuple(pt['c']))
        sig = []
        over = False
        burst = False
        for s in row:
            L['transitions'] += s['am_delivered'] + s['ctl_delivered'] + s['put_target'] + s['put_source'] + s['get_source'] + s['get_target']
            L['inversions'] += s['am_inversions']
            L['same_tag'] = L.get('same_tag', 0) + s['same_tag_same_direction']
            L['bytes'] += s['am_bytes'] + s['xfer_bytes']
            o = s['seen_sendfifo'] > 0 or s['seen_recvfifo'] > 0 or s['deferred_puts'] > 0
            b = s['max_batch'] > s['eff'][1]
            over = over or o
            burst = burst or b
            sig.append((min(s['seen_sendfifo'].bit_length(), 12), min(s['seen_recvfifo'].bit_length(), 12), min(s['deferred_puts'].bit_length(), 8), min(s['max_batch'] // max(s['eff'][1], 1), 15)))
        if over and burst:
            L['nontrivial'].add(tuple(pt['c']))
        L['outcomes'].add(tuple(sig))
        if len(L['samples']) < 3:
            s0 = row[0]
            L['samples'].append('n=%d posted,tested,dyn,dynrecv=%s (effective %s) big=%d mutual_gets=%d: rank0 delivered %d AMs (%d bytes, largest batch %d), %d+%d put and %d+%d get completions, send-fifo seen non-empty %d times, recv-fifo %d, %d puts deferred'
                                % (n, list(pt['c']), s0['eff'], pt['big'], pt['mutual'], s0['am_delivered'], s0['am_bytes'], s0['max_batch'], s0['put_target'], s0['put_source'],
                                   s0['get_target'], s0['get_source'], s0['seen_sendfifo'], s0['seen_recvfifo'], s0['deferred_puts']))


def judge(ctx, acc, res, believed):
    """Digest one launch.  Returns (violations, suspects, unrun): violations = list of (pt, message); suspects = points whose
    session did not complete (hang / crash) and must be confirmed alone; unrun = points behind a failed one."""
    pts = res.launch.meta['pts']
    n = res.launch.n
    rows = session_records(res, len(pts))
    viol, suspects, unrun = [], [], []
    acc.leg(n)['launches'] += 1
    for i, (pt, row) in enumerate(zip(pts, rows)):
        if all(s is not None for s in row):
            bad = [s for s in row if s['status'] != 'ok']
            if not bad:
                acc.add(n, pt, row)
                continue
            msgs = ' || '.join(s['message'] for s in bad if s['message'])
            if any(s['status'] == 'violation' for s in bad):
                viol.append((pt, msgs))          # a safety violation observed by a rank oracle: believed at once
            else:
                suspects.append((pt, 'hang: ' + msgs))
            unrun.extend(pts[i + 1:])
            return viol, suspects, unrun
        # some rank has no record for this configuration: the launch died here
        part = ' || '.join(s['message'] for s in row if s is not None and s['message'])
        if 'ce_h:' in res.stderr:       # the harness itself refused (bad configuration, tag not free, parameters not in effect, ...)
            ctx.broken.append('n=%d %s: %s' % (n, list(pt['c']), ' | '.join(x for x in res.stderr.splitlines() if 'ce_h:' in x)[:400]))
            unrun.extend(pts[i + 1:])
            return viol, suspects, unrun
        ck = read_ckpt(res)
        ov = tag_overlap(ck) if ck and all(list(c['cfg']) == list(pt['c']) for c in ck.values()) else None
        if ov:      # the box script itself mixed put and get data in one direction with overlapping tags: a bug of the script
            ctx.broken.append('n=%d %s phase %s: the script violates its own separation rule: %s' % (n, list(pt['c']), ck[0]['phase'], ov))
            unrun.extend(pts[i + 1:])
            return viol, suspects, unrun
        suspects.append((pt, 'launch %s (rc %s) inside this configuration; %s; stderr: %s' % (res.status, res.rc, part, res.stderr[-600:].replace('\n', ' | '))))
        unrun.extend(pts[i + 1:])
        return viol, suspects, unrun
    if not res.ok():
        # all sessions complete but the launch itself failed (shutdown path)
        suspects.append((pts[-1], 'launch %s (rc %s) after the last configuration; stderr: %s' % (res.status, res.rc, res.stderr[-600:].replace('\n', ' | '))))
    return viol, suspects, unrun


def run(ctx, exe, pts, scale, phase_timeout, launch_timeout, chunk, jobs, deadline):
    """Rounds: run every pending point (several per launch); a rank-oracle violation is believed at once; a session that did not
    complete (hang / crash) is re-run ALONE in a fresh launch, nothing else in flight, with 4x the limits - confirmed => violation.
    The run stops at the first believed violation (the remaining points are reported as not run)."""
    root = os.path.join('/tmp', 'verif-mp-C14-%d' % os.getpid())
    acc = Acc()
    violations, unconfirmed = [], []
    pending = list(pts)
    skipped = []
    rnd = 0
    while pending and not violations:
        rnd += 1
        launches = []
        for n in (2, 3, 4):
            mine = [p for p in pending if p['n'] == n]
            per = chunk[n]
            nch = (len(mine) + per - 1) // per
            for i in range(nch):                      # strided: the sessions with big transfers are spread over the launches
                launches.append(make_launch(exe, 'r%d-n%d-%d' % (rnd, n, i), n, mine[i::nch], scale, phase_timeout, launch_timeout))
        launches.sort(key=lambda l: -l.n)             # the longest launches (most ranks) first
        if deadline is not None:
            for l in launches:
                l.kill_at = deadline + 90             # nothing outlives the deadline by much; the sessions a killed launch completed still count
        results, skip = mp.run_box(launches, root, jobs=jobs, timeout=launch_timeout, deadline=deadline, confirm=False, max_ranks=40)
        pending = []
        suspects = []
        for sk in skip:
            skipped.extend(sk.meta['pts'])
        for res in results:
            if os.environ.get('C14_TIMES'):
                sys.stderr.write('launch %s n=%d sessions=%d status=%s elapsed=%.1fs\n' % (res.launch.key, res.launch.n, len(res.launch.meta['pts']), res.status, res.elapsed))
            v, su, u = judge(ctx, acc, res, False)
            violations.extend(v)
            suspects.extend(su)
            pending.extend(u)
        if violations:
            break
        # confirmation: suspects alone in a fresh launch, nothing else in flight, 4x the limits; smallest process count first
        suspects.sort(key=lambda x: x[0]['n'])
        for k, (pt, why) in enumerate(suspects):
            if violations or k >= 3:
                # a violation is already established (or 3 suspects were not reproduced): the others go back to the queue
                pending.append(pt)
                continue
            l = make_launch(exe, 'confirm-n%d-%s' % (pt['n'], '_'.join(map(str, pt['c']))), pt['n'], [pt], scale, 4 * phase_timeout, 4 * launch_timeout)
            res = mp.run_one(l, root, 4 * launch_timeout)
            v, su, u = judge(ctx, acc, res, True)
            violations.extend(v)
            if su:
                violations.append((pt, 'confirmed alone with 4x limits: ' + su[0][1] + ' [first seen: ' + why[:300] + ']'))
            elif not v:
                unconfirmed.append((pt, why))
        if rnd >= 5:
            break
    skipped.extend(pending)
    import shutil
    shutil.rmtree(root, ignore_errors=True)
    return acc, violations, unconfirmed, skipped


def classify_known(res):
    """True iff the only failure of the reproducer is the attributable one: every phase before E completed on every rank, the
    hang is in E-mutual-get, dynamic_recv == dynamic, and the reporting ranks show a queued send while their gets are incomplete."""
    rows = session_records(res, 1)[0]
    if any(s is None for s in rows):
        return False, 'a rank left no record'
    hung = [s for s in rows if s['status'] == 'hang']
    if not hung or any(s['status'] == 'violation' for s in rows):
        return False, 'statuses %s' % [s['status'] for s in rows]
    for s in hung:
        if s['phase'] != 'E-mutual-get' or s['eff'][2] != s['eff'][3] or 'sendfifo NON-EMPTY' not in s['message'] or s['failures'] != 1 or len(s['phase_s']) != 4:
            return False, s['message']
    return True, hung[0]['message']


def read_ckpt(res):
    ck = {}
    for r in range(res.launch.n):
        try:
            ck[r] = json.load(open(os.path.join(res.dir, 'ckpt%d.json' % r)))
        except Exception:
            return None
    return ck


def tag_overlap(ck):
    """The predicate of C14-get-put-data-tag-collision, from the per-rank checkpoints of the phase that was running: a rank a
    sends put data to b while b requests get data from a (same direction a -> b, same communicator), and the data-tag ranges
    [next_tag, next_tag + number of put()/get() calls of the phase) of a (who numbers the puts) and b (who numbers the gets)
    overlap.  Returns a description or None."""
    if len(set((c['phase'], tuple(c['cfg'])) for c in ck.values())) != 1:
        return None          # the ranks were not in the same phase: no statement
    rng = {r: (c['next_tag'], c['next_tag'] + sum(c['serve_to']) + sum(c['get_from'])) for r, c in ck.items()}
    for a in ck:
        for b in ck:
            if a != b and ck[a]['serve_to'][b] > 0 and ck[b]['get_from'][a] > 0 and rng[a][0] < rng[b][1] and rng[b][0] < rng[a][1]:
                return ('rank %d serves puts to rank %d with data tags in [%d,%d) while rank %d gets from rank %d with data tags in [%d,%d)'
                        % (a, b, rng[a][0], rng[a][1], b, a, rng[b][0], rng[b][1]))
    return None


def classify_known2(res):
    """True iff the failure happened in phase F (put data and get data in one direction at once) and tag_overlap() holds."""
    ck = read_ckpt(res)
    if ck is None:
        return False, 'a rank left no checkpoint'
    if any(c['phase'] != 'F-put+get-same-direction' for c in ck.values()):
        return False, 'phases %s' % [c['phase'] for c in ck.values()]
    ov = tag_overlap(ck)
    if ov is None:
        return False, 'no overlapping tag ranges in one direction'
    rows = session_records(res, 1)[0]
    msgs = ' || '.join(x['message'] for x in rows if x is not None and x['message'])
    sym = ('MPI_ERR_TRUNCATE in MPI_Testsome (rc %s)' % res.rc) if 'MPI_ERR_TRUNCATE' in res.stderr else (msgs[:300] or 'launch %s rc %s' % (res.status, res.rc))
    return True, ov + '; symptom: ' + sym


# ------------------------------------------------------------------------------------------------------------------
# tier 2: the real engine x2 over the virtual MPI (c14_v.c, vmpi.c, eng_r0.c, eng_r1.c) + conformance run (c14_real.c)
# ------------------------------------------------------------------------------------------------------------------
EAGER = 4000
ALL_EAGER = 1 << 20


def build_v(ctx):
    return ctx.compile('hk-mpi', 'c14_v', ['c14_v.c', 'vmpi.c', 'eng_r0.c', 'eng_r1.c'], mpi=True, instr=False, cflags=['-Wno-format-truncation'])


def build_real(ctx):
    return ctx.compile('hk-mpi', 'c14_real', ['c14_real.c'], mpi=True, instr=False)


def vmpi_plan(tier):
    """[(leg, mode, scenario)] in the order the workers claim them (cheap and broad first, the big closures last).
    Scenario = 'posted,tested,dyn,dynrecv:eager:ops of rank 0/ops of rank 1' (c14_script.h).  A rank's 'p' (put into me) together
    with the OTHER rank's 'g' (get from me) sends put data and get data in one direction: such scripts only appear in vmpi-known
    (known finding C14-get-put-data-tag-collision)."""
    quick = tier == 'quick'
    S = []

    def add(leg, mode, cfgs, shapes, eager=EAGER):
        for sh in shapes:
            for c in cfgs:
                S.append((leg, mode, '%d,%d,%d,%d:%d:%s' % (tuple(c) + (eager, sh))))
    pt = [(1, 1), (2, 1), (2, 2), (3, 2)] + ([] if quick else [(3, 1), (3, 3)])
    dy = [(1, 1), (2, 1), (2, 2)]
    # -- known findings: dedicated reproducers
    add('vmpi-known', 'full', [(1, 1, 1, 1), (2, 2, 1, 1)], ['g1/g1'])
    add('vmpi-known', 'd4', [(2, 2, 2, 2)], ['g1.g1/g1.g1'])
    add('vmpi-known', 'full', [(2, 2, 2, 2), (1, 1, 1, 1)], ['p1/g1', 'g1/p1'])
    # -- self-check of the state identification: search with dedup vs plain enumeration of all choice sequences (tiny scripts)
    xc = ['a1.a2/a3', 'p1/-', 'g1/-', 'a1.a2.a3/-', 'p1.a1/-', 'b8192.a1/-'] + ([] if quick else ['g1/g1', 'p1/a1', 'g4096/a1', 'a1.a0/a5', 'p4096.a1/-', 'b8192.b1/b0'])
    add('vmpi-selfcheck', 'xcheck', [(2, 2, 2, 1), (1, 1, 1, 1)] + ([] if quick else [(2, 2, 2, 2), (2, 1, 2, 1)]), xc)
    # -- active messages only, search to closure
    am = ['a1.a0.a64/a5', 'a1.a2.a3/-', 'a1.b8192.a3/a2', 'b8192.b1/b0', 'a1.a2/a3.a4', 'b1.b8192.b2/-', 'a0.a0/a0', 'a64.b1/b2.a1']
    if not quick:
        am += ['a1.a2.a3.a4/-', 'b8192.b8192.b1/-', 'a1.b1.a2.b2/-', 'a1.a2.a3/a4.a5', 'a1.b8192/b8192']
    add('vmpi-am', 'full', [p + (2, 1) for p in pt], am)
    add('vmpi-am', 'full', [p + (2, 1) for p in pt if p[1] > 1], [x for x in am if 'b8192' in x], eager=ALL_EAGER)
    # -- bounded-deviation legs on scripts whose closure is out of reach
    dcf = [(1, 1, 1, 1), (2, 2, 2, 1), (2, 2, 2, 2), (2, 1, 3, 1), (2, 2, 3, 3), (3, 2, 3, 2)]
    dev = ['p1.p1.p1/-', 'g1.g1.g1/-', 'g1.g1/g1.g1', 'p1.p4096.p0/-', 'p1.a1/a2.p0', 'p1.g1.a1/a2', 'p4096.g1/a3', 'a1.b8192.a3/a2.a0', 'p1.p1/p1', 'g1.g4096/g0', 'p1.p0.p1.p4096/-', 'g1.g1.g1/g1', 'a1.p1.a2/b8192', 'g4096.a1.g1/a2']
    if quick:
        add('vmpi-dev', 'd3', dcf, dev)
    else:
        # closures of these five take > 10^6 states each (not closed in 120 s per scenario): a deeper bound instead; the longest first
        add('vmpi-dev', 'd6', [(2, 2, 2, 2), (2, 1, 2, 1), (1, 1, 1, 1)], ['g1.g1/g1.g1', 'p1.a1/a2.p0', 'p1.p1.p1/-', 'g1.g1.g1/-', 'p4096.g1/a3'])
        add('vmpi-dev', 'd5', dcf, dev)
        add('vmpi-dev', 'd4', dcf, ['p1.g1.p1/a1', 'a1.p1.a2.g1/a3.a4', 'p1.p1.p1.p1.p1/-', 'g1.g1.g1.g1/-', 'p4096.p4096/p4096.p4096', 'b8192.p1.b1/a1'])
    # -- one or two transfers (with or without an AM), search to closure
    xcf = [p + d for p in ((1, 1), (2, 2)) for d in dy] + ([] if quick else [(2, 1, 3, 2), (3, 2, 3, 3)])
    xf = ['p0/-', 'p1/-', 'p4096/-', 'g0/-', 'g1/-', 'g4096/-', 'p1.a1/a2', 'g4096.a1/a2', 'g1.g4096/-', 'p1.p4096/-', 'p1.g1/-', 'g1/g1', 'p1/p1', 'g4096.p0/-']
    if not quick:
        xf += ['p4096.p1/-', 'g4096.g0/-', 'g1.p4096/-', 'p4096/p4096', 'g4096/g1', 'a1.p1/a5', 'g1.a1/b8192']
    add('vmpi-xfer', 'full', xcf, xf)
    for leg, mode, sc in S:
        r0, r1 = sc.split(':')[2].split('/')
        collide = ('p' in r0 and 'g' in r1) or ('g' in r0 and 'p' in r1)
        assert leg == 'vmpi-known' or not collide, sc
    return S


CONF_QUICK = ['2,1,2,1:4000:a1.a0.a64/a5', '2,2,2,2:4000:a1.b8192.a3/a2', '1,1,2,1:4000:b8192.b1/b0', '3,2,2,1:4000:a1.a2/a3.a4',
              '1,1,1,1:4000:p1.p4096/-', '2,2,2,1:4000:g1.g4096/-', '2,2,1,1:4000:g4096.a1/a2', '1,1,2,2:4000:p1.a1/a2.p0',
              '2,2,2,2:4000:p1.g1.a1/a2', '2,1,3,1:4000:p1.p0.p1.p4096/-', '2,2,2,1:4000:g1.g1/g1.g1', '1,1,1,1:4000:p0/p4096']


def conformance(ctx, exe_v, exe_r, scens, timeout):
    """The deviation-free run of every scenario on the virtual MPI, then the same steps on the real engine over the real MPI
    (ONE 2-process launch for all scenarios); the callbacks seen in every step must be the same on both ranks."""
    import subprocess
    virt = {}
    tdir = os.path.join('/tmp', 'verif-mp-C14c-%d' % os.getpid())
    os.makedirs(tdir, exist_ok=True)
    trace = os.path.join(tdir, 'trace.txt')
    with open(trace, 'w') as f:
        for sc in scens:
            o = subprocess.run([exe_v, '--emit-trace', sc], capture_output=True, text=True, timeout=60)
            try:
                d = json.loads(o.stdout.strip().splitlines()[-1])
            except Exception:
                d = None
            if o.returncode != 0 or not d or d.get('rc') != 0:
                # the deviation-free run itself fails on the virtual MPI: the vmpi legs report it; nothing to compare
                ctx.notes.append('conformance: the deviation-free virtual run of %s does not pass (%s); skipped' % (sc, (o.stdout + o.stderr)[-200:].replace('\n', ' | ')))
                continue
            virt[sc] = d
            f.write('S %s\n' % sc)
            for st in d['steps']:
                f.write('%s %d %d\n' % (st['k'], st['r'], len(st['ev'])))
            f.write('E\n')
    if not virt:
        return
    l = mp.Launch(key='vmpi-conf', n=2, argv=[exe_r, '--trace', trace, '--step-timeout', '20'], env={'PARSEC_MCA_runtime_comm_thread_yield': '2'})
    res = mp.run_one(l, tdir, timeout)
    order = [sc for sc in scens if sc in virt]
    agree, steps, samples, bad, undecided = 0, 0, [], [], []
    for i, sc in enumerate(order):
        rows = []
        for r in (0, 1):
            ss = res.ranks.get(r, {}).get('scenarios', [])
            rows.append(ss[i] if i < len(ss) else None)
        if any(x is None for x in rows):
            undecided.append('%s: the real-MPI launch did not reach it (launch %s rc %s)' % (sc, res.status, res.rc))
            continue
        want = [[st['ev'] if st['r'] == r else [] for st in virt[sc]['steps']] for r in (0, 1)]
        if any(x['status'] == 'fail' for x in rows):
            msg = ' || '.join(x['message'] for x in rows if x['message'])
            rp = ctx.write_replay('vmpi-conf-%d' % i, dict(engine='vmpi-conf', scenario=sc, message=msg[:1500]))
            ctx.violation(rp, 'real-MPI run of scenario %s along the deviation-free trace: %s' % (sc, msg[:1200]))
            continue
        if any(x['status'] != 'ok' for x in rows):
            undecided.append('%s: %s' % (sc, ' || '.join(x['message'] for x in rows if x['message'])[:300]))
            continue
        if rows[0]['steps'] == want[0] and rows[1]['steps'] == want[1]:
            agree += 1
            steps += len(virt[sc]['steps'])
            if len(samples) < 3:
                samples.append('%s: %d steps, rank 0 saw %s, rank 1 saw %s on the virtual and on the real MPI' % (
                    sc, len(virt[sc]['steps']), [e for st in want[0] for e in st], [e for st in want[1] for e in st]))
        else:
            bad.append('%s: virtual %s / real %s' % (sc, json.dumps(want), json.dumps([rows[0]['steps'], rows[1]['steps']])))
    import shutil
    shutil.rmtree(tdir, ignore_errors=True)
    for b in bad:
        ctx.broken.append('the virtual MPI does not conform to the real one on the deviation-free run of ' + b[:1500])
    for u in undecided:
        ctx.notes.append('conformance not decided (real-MPI lock-step run did not complete; not counted): ' + u)
    ctx.add_leg(name='vmpi-conformance', leg='vmpi', engine='mp', states=agree, transitions=steps, executions=agree, nontrivial=agree, distinct_outcomes=agree,
                exhaustive=(agree == len(scens)), samples=samples, scenarios=len(scens), traces_validated_against_impl=agree,
                launch_status=res.status, launch_seconds=round(res.elapsed, 1))


def vmpi_legs(ctx, exe_v, exe_r):
    quick = ctx.tier == 'quick'
    try:
        plan = vmpi_plan(ctx.tier)
        sf = os.path.join('/tmp', 'verif-C14-vmpi-%d.scen' % os.getpid())
        with open(sf, 'w') as f:
            for leg, mode, sc in plan:
                f.write('%s %s %s\n' % (leg, mode, sc))
        known = ','.join(k for k in (KNOWN_ID, KNOWN_ID2) if known_entry(k) is not None)
        from concurrent.futures import ThreadPoolExecutor
        with ThreadPoolExecutor(max_workers=2) as ex:
            cf = ex.submit(conformance, ctx, exe_v, exe_r, CONF_QUICK if quick else CONF_QUICK + [sc for (leg, mode, sc) in plan if leg in ('vmpi-am', 'vmpi-dev')][::7], 120 if quick else 600)
            deadline = int(os.environ.get('C14_VMPI_DEADLINE', 45 if quick else 600))
            ctx.run_engine(exe_v, ['--scen-file', sf, '--jobs', os.environ.get('C14_VMPI_JOBS', '6' if quick else '8'), '--deadline', str(deadline), '--scen-deadline', '25' if quick else '300',
                                   '--known', known or 'none', '--outdir', '/verif/out'] + (['--strict-dup'] if os.environ.get('C14_VMPI_STRICT_DUP') else []), label='vmpi', timeout=deadline + 120)
            cf.result()
        os.unlink(sf)
        for l in ctx.legs:
            if l.get('leg') == 'vmpi' and l.get('max_completed_requests_in_one_testsome', 0) > 4:
                ctx.notes.append('%s: an MPI_Testsome call found %d completed requests; beyond 4 only the subsets all / any single one / all but one (/ none) are explored' % (l.get('name'), l['max_completed_requests_in_one_testsome']))
            if l.get('leg') == 'vmpi' and not l.get('exhaustive') and not l.get('violations'):
                ctx.notes.append('%s: %s of %s scenarios were cut by the deadline (their search did not close / did not finish the bound)' % (l.get('name'), l.get('scenarios_cut_by_deadline'), l.get('scenarios')))
    except Exception as e:       # a problem of the check itself
        import traceback
        ctx.broken.append('vmpi legs: %s' % traceback.format_exc()[-800:])


# dedicated runs for the known findings; each is classified by a predicate computed from what the ranks report
REPRODUCERS = [
    dict(kid=KNOWN_ID, key='known1', n=2, pt=dict(n=2, c=(0, 0, 1, 1), big=0, mutual=5), only=0, phase_timeout=6, classify=classify_known,
         what='n=2 posted,tested,dyn,dynrecv=default,default,1,1: every rank gets from every other rank at once (all gets issued before anybody progresses); all dynamic slots hold receives whose matching sends are queued at the peer behind the peer\'s own receives'),
    dict(kid=KNOWN_ID2, key='known2', n=2, pt=dict(n=2, c=(0, 0, 0, 0), big=0, mutual=2), only=6, phase_timeout=6, classify=classify_known2,
         what='n=2 default windows: rank 0 puts 33 buffers into rank 1 while rank 1 gets 33 buffers from rank 0; put data tags are numbered by the sender, get data tags by the receiver, both from 0: the messages cross-match'),
]


def check(ctx):
    exe = build(ctx)
    quick = ctx.tier == 'quick'
    # tier 2 runs BEFORE tier 1, never at the same time: the timing-sensitive parts of tier 1 (phase time-outs of real launches, the
    # two reproducers) must not compete with the explorer's workers for the cores; and a violation found on the virtual MPI comes
    # with a deterministic replay file, which is then the first one reported
    if not os.environ.get('C14_NO_VMPI'):              # development switch: tier 1 only
        exe_v, exe_r = build_v(ctx), build_real(ctx)
        vmpi_legs(ctx, exe_v, exe_r)
        if ctx.violations:
            ctx.notes.append('tier 1 (real multi-process box) not run: the virtual-MPI legs already reported a violation')
            return ctx.finish(RULE, ASSUME)
    if os.environ.get('C14_ONLY_VMPI'):                # development switch: tier 2 only
        return ctx.finish(RULE, ASSUME)
    t0 = time.time()
    deadline = t0 + (70 if quick else 1000)
    pts = box(ctx.tier)
    # the reproducers of the known findings run concurrently with the box (own launches)
    import shutil
    kroot = os.path.join('/tmp', 'verif-mp-C14k-%d' % os.getpid())
    handles = []
    for rp in REPRODUCERS:
        l = make_launch(exe, rp['key'], rp['n'], [rp['pt']], 1, rp['phase_timeout'], 60, only=rp['only'])
        handles.append((rp, l, mp._start(l, kroot)))
    acc, violations, unconfirmed, skipped = run(ctx, exe, pts, scale=1 if quick else 2, phase_timeout=12 if quick else 25,
                                                launch_timeout=60 if quick else 240, chunk={2: 32, 3: 16, 4: 16} if quick else {2: 32, 3: 32, 4: 32}, jobs=14, deadline=deadline)
    known_notes = []
    for rp, kl, kh in handles:
        kres = mp.Result(kl)
        to = False
        try:
            kh['p'].wait(timeout=90)
        except Exception:
            to = True
            mp._kill(kh)
        mp._collect(kl, kh, kres, to)
        rows = session_records(kres, 1)[0]
        if kres.ok() and all(x is not None and x['status'] == 'ok' for x in rows):
            known_notes.append('reproducer of %s did not fail in this run (timing dependent)' % rp['kid'])
            continue
        isk, why = rp['classify'](kres)
        if isk and known_entry(rp['kid']) is not None:
            ctx.known_finding('id=%s %s: %s' % (rp['kid'], rp['what'], why[:500]))
        else:
            rpf = ctx.write_replay(rp['key'], dict(n=rp['n'], configs=cfg_str(rp['pt']['c'], 0, rp['pt']['mutual']), only=rp['only'], scale=1, phase_timeout=6,
                                                  launch_timeout=60, note=rp['what']))
            ctx.violation(rpf, ('%s%s: %s' % (rp['what'], '' if isk else ' (NOT attributable to the known finding)', why))[:1500])
    shutil.rmtree(kroot, ignore_errors=True)

    for pt, msg in violations:
        rp = ctx.write_replay('n%d-%s' % (pt['n'], '_'.join(map(str, pt['c']))), dict(n=pt['n'], configs=cfg_str(pt['c'], pt['big'], pt['mutual']),
                              scale=1 if quick else 2, phase_timeout=25, launch_timeout=120, message=msg[:3000]))
        ctx.violation(rp, 'n=%d posted,tested,dyn,dynrecv=%s: %s' % (pt['n'], list(pt['c']), msg[:1500]))
    for pt, msg in unconfirmed:
        ctx.notes.append('unconfirmed (passed when re-run alone with 4x limits, not counted): n=%d %s: %s' % (pt['n'], list(pt['c']), msg[:300]))
    ctx.notes.extend(known_notes)
    done_pts = 0
    for n in sorted(acc.per_n):
        L = acc.per_n[n]
        want = sum(1 for p in pts if p['n'] == n)
        done_pts += len(L['points'])
        ctx.add_leg(name='ce-box-n%d' % n, engine='mp', states=len(L['points']), transitions=L['transitions'], executions=L['sessions'],
                    nontrivial=len(L['nontrivial']), distinct_outcomes=len(L['outcomes']), exhaustive=(len(L['points']) == want and not skipped),
                    samples=L['samples'], launches=L['launches'], am_order_inversions=L['inversions'], payload_bytes_checked=L['bytes'], box_points=want)
    if skipped:
        ctx.notes.append('deadline: %d box points not run' % len(skipped))
    ctx.legs.sort(key=lambda l: 0 if str(l.get('name', '')).startswith('ce-box') else 1)
    if not acc.per_n:
        ctx.broken.append('no session completed')
    if not violations and any(L.get('same_tag', 0) for L in acc.per_n.values()):
        ctx.broken.append('the box script put and got between two ranks in one direction with equal data tags: the script is supposed to exclude that')
    return ctx.finish(RULE, ASSUME)


def replay(ctx, path, obj):
    if obj.get('engine') == 'vmpi':
        import subprocess
        known = ','.join(k for k in (KNOWN_ID, KNOWN_ID2) if known_entry(k) is not None)
        return subprocess.call([build_v(ctx), '--replay', path, '--known', known or 'none'])
    if obj.get('engine') == 'vmpi-conf':
        exe_v, exe_r = build_v(ctx), build_real(ctx)
        before = len(ctx.violations)
        conformance(ctx, exe_v, exe_r, [obj['scenario']], 120)
        if len(ctx.violations) > before:
            print('VIOLATION property=C14 replay=%s' % path)
            return 1
        print('replay: no violation reproduced')
        return 0
    exe = build(ctx)
    root = os.path.join('/tmp', 'verif-mp-C14replay-%d' % os.getpid())
    argv = [exe, '--scale', str(obj.get('scale', 1)), '--phase-timeout', str(obj.get('phase_timeout', 25)), '--configs', obj['configs']]
    if obj.get('only'):
        argv += ['--only', str(obj['only'])]
    l = mp.Launch(key='replay', n=obj['n'], argv=argv)
    res = mp.run_one(l, root, obj.get('launch_timeout', 120))
    print('replay: mpiexec -n %d %s' % (obj['n'], ' '.join(argv)))
    print('launch status: %s rc=%s elapsed=%.1fs' % (res.status, res.rc, res.elapsed))
    bad = not res.ok()
    for r in sorted(res.ranks):
        for s in res.ranks[r].get('sessions', []):
            print('  rank %d cfg %s effective %s: %s in phase %s: %s' % (r, s['cfg'], s['eff'], s['status'], s['phase'], s['message'] or '-'))
            print('     delivered %d AMs, %d control messages, put %d/%d get %d/%d completions, fifo use send %d recv %d, deferred puts %d' % (
                s['am_delivered'], s['ctl_delivered'], s['put_target'], s['put_source'], s['get_target'], s['get_source'], s['seen_sendfifo'], s['seen_recvfifo'], s['deferred_puts']))
            bad = bad or s['status'] != 'ok'
    if res.stderr.strip():
        print('stderr: ' + res.stderr[-1500:])
    import shutil
    shutil.rmtree(root, ignore_errors=True)
    if bad:
        print('VIOLATION property=C14 replay=%s' % path)
        return 1
    print('replay: no violation reproduced')
    return 0
