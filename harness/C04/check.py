import os, subprocess
META = dict(
    engine='rt',
    technique='two-stream held-task exploration: every task A of every bounded DTD program is kept inside its body on stream 1 while a harness-owned scheduler '
              'lets stream 0 insert and run everything the real runtime considers ready (DFS over all its task orders); per-tile in-flight counters and enter/exit stamps; '
              'one-stream DFS over all insert/execute interleavings for the ordering half',
    level_text='For every DTD program with <= 2 tasks (and a stride of the 3-task programs; 1-2 parameters per task, modes INPUT/OUTPUT/INOUT, 2 tiles) and every task A of it, '
               'A is held inside its body on the second execution stream until the first stream, which inserts the rest of the program and executes every task the '
               'runtime hands to the scheduler (all orders enumerated, refused writers re-offered after every completion), has nothing left to select; if the runtime lets '
               'a conflicting task start while A is inside, atomic per-tile writers_in/readers_in counters in the bodies see it. For all conflicting pairs (same tile, one '
               'writes) exit(earlier) < enter(later) by global stamps - in particular a writer never starts before a reader inserted before it has left. Readers between the '
               'same writers are observed inside together (reachability witness). A one-stream leg enumerates every insert/execute interleaving for the ordering half.',
    level_note='Hold/order legs: task bodies and runtime actions (prepare_input, completion, insertion) are atomic with respect to each other except for the held body; mt legs: 3-4 free-running streams behind the real scheduler module with every insertion serialised against task prepare/execute/complete on the other streams: instruction-level races '
               'between a completing predecessor and a concurrent insertion are NOT explored (NOTES.md finding F5). Legs run with task-object recycling suppressed and without '
               'tasks naming a tile twice (known findings C03-stale-last-user-aba, C03-dup-tile-reader-count, exercised by the C03 check). runtime_keep_highest_priority_task=0 so '
               'that every ready task passes through the scheduler.',
)
RULE = ("states = canonical programs per leg; executions = complete taskpool cycles (one per explored choice list and held task); transitions = scheduling / gate decisions; "
        "non-trivial = choice list deviates from the default order; outcomes = distinct (program, configuration, held task, trace) signatures; "
        "extra counters per leg: overlapped_with_held = tasks started on stream 0 while the held task was inside, runs_with_readers_together, again_resubmissions")
ASSUME = ["task-level atomicity except for the held body (see level_note)",
          "mt legs: the main thread inserts only while no other stream holds a task (wrapped scheduler module); default window only; overlap of independent tasks is whatever the OS scheduler produces",
          "driver keeps completed task objects out of the class free lists while a taskpool lives (--norecycle); no task names a tile twice",
          "harness scheduler replaces the scheduler module (parsec_current_scheduler); runtime_keep_highest_priority_task=0",
          "DTD hash tables reduced to 64 buckets"]
CFLAGS = ['-I/repo/parsec', '-I/verif/engine/rt']

def build(ctx):
    return ctx.compile('hk-shm', 'c04', ['c04_h.c'], instr=False, cflags=CFLAGS)

def check(ctx):
    exe = build(ctx)
    q = ctx.tier == 'quick'
    common = ['--outdir', '/verif/out', '--norecycle', '1', '--dup', '0']
    only = os.environ.get('C04_LEGS')
    def leg(name, args, deadline):
        if only and name not in only.split(','):
            return
        ctx.run_engine(exe, ['--name', name] + args + common + ['--deadline', str(deadline)], label=name, timeout=deadline + 400)
    if q:
        leg('hold-le2', ['--leg', 'hold', '--nt', '1:2', '--maxp', '2', '--win', '0,0;1,1;2,1', '--jobs', '8'], 150)
        leg('hold-3', ['--leg', 'hold', '--nt', '3:3', '--maxp', '2', '--win', '0,0', '--stride', '96', '--jobs', '8'], 150)
        leg('order-le2', ['--leg', 'gate', '--nt', '1:2', '--maxp', '2', '--win', '0,0;1,1', '--jobs', '8'], 150)
        leg('mt-3t', ['--leg', 'mt', '--threads', '3', '--oracle', '3', '--nt', '1:3', '--maxp', '2', '--win', '0,0', '--api', '3', '--spin', '1000', '--stride', '12', '--jobs', '6'], 150)
    else:
        leg('hold-le2', ['--leg', 'hold', '--nt', '1:2', '--maxp', '3', '--alpha', 't', '--win', '0,0;1,1;2,1;4,2', '--nest', '1', '--jobs', '12'], 240)
        leg('hold-3', ['--leg', 'hold', '--nt', '3:3', '--maxp', '2', '--win', '0,0;1,1', '--stride', '3', '--jobs', '12'], 500)
        leg('order-le2', ['--leg', 'gate', '--nt', '1:2', '--maxp', '2', '--nest', '1', '--jobs', '12'], 150)
        leg('order-3', ['--leg', 'gate', '--nt', '3:3', '--maxp', '2', '--win', '0,0', '--stride', '5', '--jobs', '12'], 250)
        leg('mt-3t', ['--leg', 'mt', '--threads', '3', '--oracle', '3', '--nt', '1:3', '--maxp', '2', '--win', '0,0', '--api', '3', '--spin', '1000', '--stride', '2', '--jobs', '8'], 200)
        leg('mt-4t-scheds', ['--leg', 'mt', '--threads', '4', '--oracle', '3', '--nt', '1:3', '--maxp', '2', '--win', '0,0', '--api', '1', '--spin', '1000', '--stride', '24', '--allscheds', '1', '--exclude', 'll,llp,ip'], 300)
    return ctx.finish(RULE, ASSUME)

def replay(ctx, path, obj):
    exe = build(ctx)
    return subprocess.call([exe, '--replay', path, '--outdir', '/verif/out'])
