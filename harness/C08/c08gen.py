"""C08: bounded-exhaustive families of concurrent schedule/select scripts (see NOTES.md "Generated families").

A script is TEXT (= cosched scenario name = what the replay file stores), parsed and contract-checked again by conc_h.c:
    <module>_k<K>_g_<P>_<ops of T0>_<ops of T1>[_<ops of T2>]
Thread t owns stream t if t < K, else it is the communication thread (owns no stream).
"""
import itertools

MODS = ['ap', 'gd', 'ip', 'lfq', 'lhq', 'll', 'llp', 'ltq', 'pbq', 'rnd', 'spq']
HBB = ('lfq', 'lhq', 'ltq', 'pbq')          # modules with a bounded local buffer: the pre-fill 'C' (capacity-1) exists only for them
# ring menus, simplest first.  Letters: a=40 b=50 c=60 (below the pre-fill 100,101..) x=1040 y=1050 z=1060 (above); upper case = HIGH_PRIORITY class
RINGS = {
    'mini': ['a', 'cb'],                              # 1 task below the pre-fill | 2 tasks, sorted, below
    'core': ['a', 'cb', 'azb'],                       # + 3 tasks, unsorted, straddling the pre-fill
    'full': ['a', 'Z', 'cb', 'bc', 'azb', 'zba'],     # + 1 task above, high-priority class (gd: chain_front) | 2 unsorted | 3 sorted straddling
}
DISTS = [0, 1]
RDISTS = [1]                                  # a task that answers AGAIN is re-scheduled with distance >= 1


def raw_ops(k, rings):
    """the raw alphabet of one thread (before the contract filter): every operation on every stream, simplest first"""
    ops = ['X%d' % s for s in range(k)]
    ops += ['S%d%d%s' % (s, d, r) for r in rings for d in DISTS for s in range(k)]
    ops += ['R%d%d' % (s, d) for d in RDISTS for s in range(k)]
    return ops


def contract_ok(seq, own):
    """usage contract of scheduling.c: select only on the thread's own stream; schedule / re-schedule onto the own stream or stream 0;
    re-schedule only the task returned by the thread's latest select (so: an X earlier in the thread, no R in between)"""
    have = False
    for op in seq:
        s = int(op[1])
        if op[0] == 'X':
            if s != own:
                return False
            have = True
        else:
            if s != 0 and s != own:
                return False
            if op[0] == 'R':
                if not have:
                    return False
                have = False
    return True


def thread_seqs(k, own, rings, maxlen, minlen=1):
    raw = raw_ops(k, rings)
    gen, ok = 0, []
    for n in range(minlen, maxlen + 1):
        for seq in itertools.product(raw, repeat=n):
            gen += 1
            if contract_ok(seq, own):
                ok.append(seq)
    return gen, ok


def ntasks(seq):
    return sum(len(op) - 3 for op in seq if op[0] == 'S')


def family(mod, shape, rings='core', prefills=None, exact=()):
    return family2(mod, shape, rings, prefills, exact)[:2]


def family2(mod, shape, rings='core', prefills=None, exact=()):
    """All scripts  pre-fill x T0: 1..shape[0] ops || T1: 1..shape[1] ops (|| T2: 1..shape[2] ops, T2 = communication thread)
    on K=2 streams; exact = threads that get exactly shape[t] operations (the part of a shape that a smaller shape does not cover).
    Returns (counts, [script text, ...]) in a deterministic order, simplest first (see the sort key below)."""
    k = 2
    if isinstance(rings, str):
        rings = (rings,) * len(shape)           # one ring menu per thread
    if prefills is None:
        prefills = ['E', 'H'] + (['C'] if mod in HBB else [])
    per = []
    gen_total = 1
    for t, a in enumerate(shape):
        g, ok = thread_seqs(k, t if t < k else None, RINGS[rings[t]], a, a if t in exact else 1)
        per.append(ok)
        gen_total *= g
    counts = dict(generated=gen_total * len(prefills), after_contract=0, after_relevance=0, after_symmetry=0)
    out = []
    for combo in itertools.product(*per):
        for p in prefills:
            counts['after_contract'] += 1
            # relevance: a script without any task (empty pre-fill, nobody schedules) cannot lose or duplicate one
            if p == 'E' and not any(ntasks(s) for s in combo):
                continue
            counts['after_relevance'] += 1
            # symmetry: T1 and the communication thread are interchangeable when T1 only schedules onto stream 0
            # (schedule(ES[0], ring, d) does not depend on the caller): keep the pair (T1, T2) in one order only
            if len(combo) == 3 and all(op[0] == 'S' and op[1] == '0' for op in combo[1]) and combo[1] > combo[2]:
                continue
            counts['after_symmetry'] += 1
            # order: fewest operations first; inside that, two interleaved lists (2 : 1): scripts in which every other thread touches
            # stream 0's queue itself (select = steal from stream 0, or schedule onto stream 0) and scripts in which some thread only
            # works on its own stream (they still meet through steals, distance-1 rings and the parent stores); each list by fewest
            # tasks, then pre-fill E, H, C
            away = int(any(all(op[1] != '0' and op[0] != 'X' for op in s) for s in combo[1:]))
            out.append((sum(len(s) for s in combo), away, sum(ntasks(s) for s in combo), 'EHC'.index(p), combo, p))
    out.sort(key=lambda x: (x[0], x[1], x[2], x[3]))          # stable: product order inside
    merged = []
    for nops in sorted(set(x[0] for x in out)):
        meet = [x for x in out if x[0] == nops and x[1] == 0]
        aw = [x for x in out if x[0] == nops and x[1] == 1]
        while meet or aw:
            merged += meet[:2]; meet = meet[2:]
            merged += aw[:1]; aw = aw[1:]
    out = merged
    names = ['%s_k%d_g_%s_%s' % (mod, k, p, '_'.join('.'.join(s) for s in combo)) for _, _, _, _, combo, p in out]
    alphabet = ['T%d: %s' % (t, ' '.join(raw_ops(k, RINGS[rings[t]]))) for t in range(len(shape))]
    return counts, names, alphabet


def describe(name):
    """human-readable expansion of a script text (stored next to it in replay files)"""
    parts = name.split('_')
    mod, k, p, thr = parts[0], int(parts[1][1:]), parts[3], parts[4:]
    pr = dict(a=40, b=50, c=60, x=1040, y=1050, z=1060)
    def op(o):
        if o[0] == 'X':
            return 'select(stream %s)' % o[1]
        if o[0] == 'R':
            return 're-schedule(the task of the latest select, onto stream %s, distance %s)' % (o[1], o[2])
        return 'schedule(stream %s, distance %s, ring of priorities [%s])' % (o[1], o[2], ', '.join(str(pr[c.lower()]) + ('(high-priority class)' if c.isupper() else '') for c in o[3:]))
    return dict(module=mod, streams=k,
                prefill={'E': 'none', 'H': 'stream 0 holds two tasks of priorities 100, 101', 'C': 'stream 0 holds capacity-1 tasks of its local buffer (priorities 100..)'}[p],
                threads=['T%d (%s): %s' % (t, 'owner of stream %d' % t if t < k else 'communication thread', '; '.join(op(o) for o in th.split('.'))) for t, th in enumerate(thr)])


if __name__ == '__main__':
    import sys
    for mod in ('llp', 'lfq'):
        for shape in ((1, 1), (2, 1), (1, 2), (2, 2), (1, 1, 1)):
            for rings in ('core', 'full'):
                c, n = family(mod, shape, rings)
                print(mod, shape, rings, c, n[:3], n[-1])
