#!/usr/bin/env python3
"""Regenerate MANIFEST.json from harness/<id>/check.py metadata (META dict) — keeps the manifest valid at all times."""
import json, os, re, importlib.util, subprocess, sys
VERIF = os.path.dirname(os.path.dirname(os.path.abspath(__file__)))
props = [json.loads(l) for l in open(os.path.join(VERIF, 'properties.jsonl'))]
NA = json.load(open(os.path.join(VERIF, 'tools', 'not_applicable.json')))
checks, na = [], []
engines = {}
for p in props:
    pid = p['id']
    cp = os.path.join(VERIF, 'harness', pid, 'check.py')
    meta = None
    if os.path.exists(cp):
        src = open(cp).read()
        if 'META' in src:
            spec = importlib.util.spec_from_file_location('c_' + pid, cp)
            m = importlib.util.module_from_spec(spec); sys.path.insert(0, os.path.join(VERIF, 'tools')); spec.loader.exec_module(m)
            meta = getattr(m, 'META', None)
    if meta and meta.get('registered', True):
        c = {
            'property_id': pid,
            'quick_cmd': './vcheck %s quick' % pid,
            'evidence_file': 'evidence/%s.json' % pid,
            'replay_cmd_template': './vcheck replay {path}',
            'engine': meta['engine'],
            'level_claimed': {'category': 'model_checking', 'text': meta['level_text'], 'design_ref': meta.get('design_ref', 'DESIGN.md section 5, ' + pid)},
            'level_note': meta['level_note'],
            'technique': meta['technique'],
        }
        if meta.get('thorough', True):
            c['thorough_cmd'] = './vcheck %s thorough' % pid
        checks.append(c)
        for e in meta['engine'].split('+'):
            engines.setdefault(e.strip(), []).append(pid)
    else:
        na.append({'property_id': pid, 'reason': NA.get(pid, 'check not built yet in this tree (planned, see DESIGN.md section 10); nothing is claimed for it')})
hooks_commits = [l.split()[0] for l in subprocess.run(['git', '-C', '/repo', 'log', '--format=%H %s'], capture_output=True, text=True).stdout.splitlines() if ' verif:' in l]
ENG = {
 'cosched': ('engine/cosched', 'E1: preemption-bounded exhaustive schedule exploration of the real code (CHESS-style), points from compiler instrumentation'),
 'seqx': ('engine/seqx', 'E2: exhaustive operation sequences / reachable-state BFS of sequential code against a reference model'),
 'vranks': ('engine/vranks', 'E3: explicit-state search of distributed protocols over the real handlers with virtual ranks'),
 'rt': ('engine/rt', 'E4: whole runtime under exhaustive task-level schedules, program families and configuration boxes'),
 'mp': ('engine/mp', 'E5: real multi-process runs over an enumerated box of programs and configurations'),
}
man = {
 'version': 1,
 'setup_cmd': 'tools/vbuild --configure-all',
 'hooks': {'guard': 'PARSEC_VERIF_HOOKS',
           'enable': 'tools/vbuild <flavour> configures out-of-tree builds of /repo under /verif/.build with -DCMAKE_C_FLAGS=-DPARSEC_VERIF_HOOKS (hk-shm additionally compiled through tools/vcc = gcc -fsanitize=thread compile-only + libvtsan mini runtime)',
           'baseline_off_cmd': 'cmake --build /repo/_build -j16 && ctest --test-dir /repo/_build -j8 --timeout 900',
           'source_commits': hooks_commits, 'add_only': True},
 'engines': [{'name': k, 'path': ENG[k][0], 'serves_properties': sorted(v), 'kind_free_text': ENG[k][1]} for k, v in sorted(engines.items()) if k in ENG],
 'checks': checks,
 'not_applicable': na,
 'notes': 'All checks are model checking (exhaustive enumeration within stated bounds); see DESIGN.md. Exit 2 means the check itself is broken (never used to hide a violation).',
}
json.dump(man, open(os.path.join(VERIF, 'MANIFEST.json'), 'w'), indent=1)
print('MANIFEST: %d checks, %d not_applicable' % (len(checks), len(na)))
try:
    import jsonschema
    jsonschema.validate(man, json.load(open('/root/.vp/MANIFEST.schema.json')))
    print('schema ok')
except ImportError:
    print('(jsonschema not importable in this python; validate with python3-vt)')
