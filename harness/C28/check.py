META = dict(
    engine='seqx',
    technique='explicit-state model checking: BFS to closure over all reachable allocator states (segmentation + size-tree shape + free-list order) of the real zone_malloc.c driven by malloc(k units)/free(live allocation), shadow-map oracle in every state',
    level_text='For every zone size 1..10 units (quick) / 1..13 units (thorough) all reachable allocator states are enumerated to closure on the real implementation, and every malloc/free transition is checked: address inside the zone, unit aligned, no overlap with a live allocation, NULL exactly when no free run of k units exists in the shadow map, adjacent free runs merged, zone_in_use/zone_debug equal the live sum, every free run in exactly one size list of the right key, no empty size list in the tree, search order of the tree. Zones of 14..16 units are explored for all histories of up to 10 operations (thorough).',
    level_note='Sequential use (the allocator serialises callers with one lock); only legal calls (free of a live allocation, size >= 1 byte); unit size 16 bytes, sizes k*16 (k even) and (k-1)*16+1 (k odd, round-up path); which of several sufficient runs is chosen is observed, not constrained.',
)
RULE = ("BFS over malloc/free histories on the real allocator, deduplicated by canonical (segmentation with back pointers, tree shape+colour+keys, "
        "per-size list order) encoding; states = distinct canonical allocator states; a state is non-trivial when its shortest history has >= 2 operations; "
        "every transition runs the full oracle")
def build(ctx):
    return ctx.compile('hk-shm', 'zone', ['zone_h.c'], instr=False)
def check(ctx):
    exe = build(ctx)
    if ctx.tier == 'quick':
        ctx.run_engine(exe, ['--outdir', '/verif/out', '--closure', '1', '10', '--deadline', '70'], label='zone', timeout=600)
    else:
        ctx.run_engine(exe, ['--outdir', '/verif/out', '--closure', '1', '13', '--bounded', '14', '16', '10', '--deadline', '1000'], label='zone', timeout=2400)
    return ctx.finish(RULE, ["sequential use: callers are serialised by the allocator's own lock (lock behaviour is C29's subject)",
                             "only legal calls: free() of live allocations, malloc() of at least one byte"])
def replay(ctx, path, obj):
    import subprocess
    return subprocess.call([build(ctx), '--replay', path])
