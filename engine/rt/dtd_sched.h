/* dtd_sched: harness-owned scheduler module + DFS explorer for the DTD legs (copy-and-extend of hsched.h).
 *
 * Differences from hsched.h:
 *  - thread safe (a spin lock around the pending list), usable with 2 execution streams;
 *  - canonical task identity = (DTD task key) which is the insertion counter of the taskpool (one inserting thread);
 *  - "forced" selection, so that a gate in the driver can offer {insert next task} + {execute ready task T} as ONE choice;
 *  - stall rule: a task re-submitted because its prepare_input returned AGAIN (writer with outstanding readers) is not
 *    offered again before some other task has completed (re-running it earlier is a no-op: nothing it depends on changed);
 *    if only stalled tasks remain and no other stream is busy the task is retried a bounded number of times and then
 *    reported as a livelock;
 *  - HOLD mode (2 streams): stream 1 (the worker) executes exactly one designated task A, which its body keeps "inside"
 *    (spinning in ds_hold_inside) until the main stream has run every other task the runtime considers ready and finds
 *    nothing more to select; main-side waits make the execution deterministic for a given choice list.
 */
#ifndef DTD_SCHED_H
#define DTD_SCHED_H
#include "parsec/runtime.h"
#include "parsec/parsec_internal.h"
#include "parsec/mca/sched/sched.h"
#include "parsec/scheduling.h"
#include "parsec/execution_stream.h"
#include "parsec/class/list_item.h"
#include "parsec/interfaces/dtd/insert_function.h"
#include "parsec/interfaces/dtd/insert_function_internal.h"
#include <stdio.h>
#include <stdlib.h>
#include <string.h>
#include <time.h>
#include <sched.h>

#define DS_MAXPEND 64
#define DS_MAXPTS  512
#define DS_MAXSTREAM 4

typedef struct ds_item_s { struct ds_item_s *next; int len; unsigned char ch[]; } ds_item_t;
typedef struct {
    const unsigned char *prefix; int prefix_len;
    int npts; unsigned char nch[DS_MAXPTS]; unsigned char cho[DS_MAXPTS];
    char order[2048]; int order_len;
    ds_item_t *stack; ds_item_t *cur;
    double deadline; long runs, nodes, transitions, nontrivial, max_runs; int max_points, exhaustive, diverged;
} ds_explorer_t;

typedef struct { parsec_task_t *task; uint64_t key; uint32_t tpid; long stall_epoch; int retries; char name[24]; } ds_pend_t;

static ds_explorer_t *ds_ex = NULL;
static ds_pend_t ds_pend[DS_MAXPEND]; static int ds_npend = 0;
static volatile int ds_lock_word = 0;
static long ds_epoch = 0;                          /* bumped whenever a stream comes back to select (its previous task is complete) */
static uint64_t ds_last_key[DS_MAXSTREAM]; static uint32_t ds_last_tp[DS_MAXSTREAM]; static int ds_last_valid[DS_MAXSTREAM];
static int ds_forced = -1;                         /* index into the eligible list, set by the gate */
static long ds_again_events = 0, ds_livelock = 0;
static int ds_fifo = 0;                            /* no explorer: hand out tasks in canonical order */
static int ds_nstreams = 1;                       /* execution streams of the context */
static int ds_consec_retries = 0;
static void (*ds_on_livelock)(const char *task_name) = NULL;
/* HOLD mode */
static int ds_hold_mode = 0; static int ds_hold_tid = -1;
static volatile int ds_hold_transit = 0, ds_hold_inside = 0, ds_hold_release = 0, ds_hold_finishing = 0, ds_hold_done = 0;
static long ds_hold_overlapped = 0;                /* tasks that started on the main stream while A was inside */

static double ds_now(void) { struct timespec ts; clock_gettime(CLOCK_MONOTONIC, &ts); return ts.tv_sec + ts.tv_nsec * 1e-9; }
static inline void ds_lock(void) { while (__atomic_exchange_n(&ds_lock_word, 1, __ATOMIC_ACQUIRE)) { while (ds_lock_word) __builtin_ia32_pause(); } }
static inline void ds_unlock(void) { __atomic_store_n(&ds_lock_word, 0, __ATOMIC_RELEASE); }

/* program-task id of a pending task, or -1 (runtime task: flush, Fake_FIRST_OUT, generator) */
static int ds_tid_of(parsec_task_t *t)
{
    const char *n = t->task_class->name;
    if (n[0] == 'T' && n[1] == 0) { parsec_dtd_task_param_t *pp = GET_HEAD_OF_PARAM_LIST((parsec_dtd_task_t *)t); return *(int *)pp->pointer_to_tile; }
    return -1;
}
static void ds_name_of(parsec_task_t *t, char *b, size_t n)
{
    const char *cn = t->task_class->name; int tid = ds_tid_of(t);
    if (tid >= 0) snprintf(b, n, "T%d", tid);
    else if (!strcmp(cn, "parsec_dtd_data_flush")) snprintf(b, n, "flush%d", (int)((parsec_dtd_task_t *)t)->ht_item.key);
    else if (!strcmp(cn, "Fake_FIRST_OUT")) snprintf(b, n, "first%d", (int)((parsec_dtd_task_t *)t)->ht_item.key);
    else snprintf(b, n, "%s%d", cn, (int)((parsec_dtd_task_t *)t)->ht_item.key);
}

/* ---- explorer ---- */
static int ds_choose(int n)      /* caller holds the lock or is the only controlled thread */
{
    ds_explorer_t *ex = ds_ex; int c = 0;
    if (!ex || n <= 1) return 0;
    int i = ex->npts;
    if (i >= DS_MAXPTS) { fprintf(stderr, "dtd_sched: too many choice points\n"); abort(); }
    if (i < ex->prefix_len) { c = ex->prefix[i]; if (c >= n) { fprintf(stderr, "dtd_sched: replay diverged at point %d (choice %d of %d)\n", i, c, n); ex->diverged = 1; c = 0; } }
    ex->nch[i] = (unsigned char)n; ex->cho[i] = (unsigned char)c; ex->npts = i + 1;
    return c;
}
static void ds_note(const char *what)
{
    ds_explorer_t *ex = ds_ex;
    if (ex && ex->order_len + 32 < (int)sizeof(ex->order)) ex->order_len += snprintf(ex->order + ex->order_len, sizeof(ex->order) - ex->order_len, "%s%s", ex->order_len ? " " : "", what);
}
static void ds_begin(ds_explorer_t *ex, double deadline_s)
{
    memset(ex, 0, sizeof(*ex)); ex->deadline = deadline_s > 0 ? ds_now() + deadline_s : 0; ex->exhaustive = 1;
    ex->stack = (ds_item_t *)calloc(1, sizeof(ds_item_t)); ds_ex = ex;
}
static void ds_begin_replay(ds_explorer_t *ex, const unsigned char *ch, int n)
{
    memset(ex, 0, sizeof(*ex)); ex->exhaustive = 1;
    ds_item_t *it = (ds_item_t *)calloc(1, sizeof(ds_item_t) + n + 1); it->len = n; memcpy(it->ch, ch, n); ex->stack = it; ex->max_runs = 1; ds_ex = ex;
}
static void ds_reset_run_state(void)
{
    ds_npend = 0; ds_epoch = 0; ds_forced = -1; ds_consec_retries = 0; memset(ds_last_valid, 0, sizeof(ds_last_valid));
    ds_hold_transit = ds_hold_inside = ds_hold_release = ds_hold_finishing = ds_hold_done = 0;
}
static int ds_next(ds_explorer_t *ex)
{
    if (ex->cur) { fprintf(stderr, "dtd_sched: ds_end_run missing\n"); abort(); }
    if (!ex->stack) { ds_ex = NULL; return 0; }
    if ((ex->deadline > 0 && ds_now() > ex->deadline) || (ex->max_runs && ex->runs >= ex->max_runs)) {
        if (!(ex->max_runs && ex->runs >= ex->max_runs && ex->max_runs == 1)) ex->exhaustive = 0;
        while (ex->stack) { ds_item_t *n = ex->stack->next; free(ex->stack); ex->stack = n; } ds_ex = NULL; return 0;
    }
    ex->cur = ex->stack; ex->stack = ex->cur->next;
    ex->prefix = ex->cur->ch; ex->prefix_len = ex->cur->len; ex->npts = 0; ex->order_len = 0; ex->order[0] = 0;
    ds_reset_run_state(); ds_ex = ex;
    return 1;
}
static void ds_end_run(ds_explorer_t *ex)
{
    ds_item_t *it = ex->cur; ex->cur = NULL;
    if (ex->npts < it->len) { fprintf(stderr, "dtd_sched: run shorter (%d points) than its prefix (%d): nondeterminism\n", ex->npts, it->len); ex->diverged = 1; }
    if (ds_npend != 0) { fprintf(stderr, "dtd_sched: %d tasks still pending at end of run\n", ds_npend); ex->diverged = 1; }
    ex->runs++; ex->transitions += ex->npts; ex->nodes += ex->npts - (it->len ? it->len - 1 : 0);
    if (ex->npts > ex->max_points) ex->max_points = ex->npts;
    int dev = 0; for (int i = 0; i < ex->npts; i++) if (ex->cho[i]) dev++;
    if (dev) ex->nontrivial++;
    if (!ex->diverged) for (int i = it->len; i < ex->npts; i++) for (int alt = ex->nch[i] - 1; alt >= 1; alt--) {
        ds_item_t *ni = (ds_item_t *)malloc(sizeof(ds_item_t) + i + 1);
        ni->len = i + 1; memcpy(ni->ch, ex->cho, i); ni->ch[i] = (unsigned char)alt; ni->next = ex->stack; ex->stack = ni;
    }
    free(it);
}
static void ds_choices_str(const ds_explorer_t *ex, char *b, size_t cap)
{
    size_t o = 0; b[0] = 0; for (int i = 0; i < ex->npts && o + 4 < cap; i++) o += snprintf(b + o, cap - o, "%s%d", i ? "," : "", ex->cho[i]);
}

/* ---- scheduler module ---- */
static int ds_sched_install(parsec_context_t *c) { (void)c; ds_npend = 0; return 0; }
static int ds_sched_flow_init(parsec_execution_stream_t *es, struct parsec_barrier_t *b) { (void)es; (void)b; return 0; }
static void ds_sched_remove(parsec_context_t *c) { (void)c; }

static void ds_insert_locked(parsec_task_t *t, int es_id)
{
    if (ds_npend >= DS_MAXPEND) { fprintf(stderr, "dtd_sched: too many pending tasks\n"); abort(); }
    uint64_t key = (uint64_t)((parsec_dtd_task_t *)t)->ht_item.key; uint32_t tpid = t->taskpool ? t->taskpool->taskpool_id : 0;
    int again = (es_id >= 0 && es_id < DS_MAXSTREAM && ds_last_valid[es_id] && ds_last_key[es_id] == key && ds_last_tp[es_id] == tpid);
    int i = ds_npend;
    while (i > 0 && (ds_pend[i - 1].tpid > tpid || (ds_pend[i - 1].tpid == tpid && ds_pend[i - 1].key > key))) { ds_pend[i] = ds_pend[i - 1]; i--; }
    ds_pend[i].task = t; ds_pend[i].key = key; ds_pend[i].tpid = tpid; ds_pend[i].stall_epoch = -1; ds_pend[i].retries = 0;
    ds_name_of(t, ds_pend[i].name, sizeof(ds_pend[i].name));
    if (again) {
        ds_pend[i].stall_epoch = ds_epoch; ds_again_events++;
        ds_last_valid[es_id] = 0;
        if (ds_hold_mode && ds_tid_of(t) == ds_hold_tid) ds_hold_transit = 0;     /* A was refused (AGAIN): it is parked, not in transit */
    }
    ds_npend++;
}
static int ds_sched_schedule(parsec_execution_stream_t *es, parsec_task_t *ring, int32_t distance)
{
    (void)distance;
    parsec_task_t *arr[DS_MAXPEND]; int n = 0;
    parsec_list_item_t *it = &ring->super;
    do { if (n >= DS_MAXPEND) abort(); arr[n++] = (parsec_task_t *)it; it = (parsec_list_item_t *)it->list_next; } while (it != &ring->super);
    ds_lock();
    for (int i = 0; i < n; i++) { PARSEC_LIST_ITEM_SINGLETON(&arr[i]->super); ds_insert_locked(arr[i], es ? es->th_id : -1); }
    ds_unlock();
    return 0;
}
static inline int ds_eligible(int i) { return ds_pend[i].stall_epoch < 0 || ds_pend[i].stall_epoch < ds_epoch; }
static parsec_task_t *ds_take_locked(int i, int es_id)
{
    parsec_task_t *t = ds_pend[i].task;
    if (es_id >= 0 && es_id < DS_MAXSTREAM) { ds_last_key[es_id] = ds_pend[i].key; ds_last_tp[es_id] = ds_pend[i].tpid; ds_last_valid[es_id] = 1; }
    char nm[32]; snprintf(nm, sizeof(nm), "%s%s", ds_pend[i].stall_epoch >= 0 ? "retry:" : "", ds_pend[i].name); ds_note(nm);
    for (int j = i; j + 1 < ds_npend; j++) ds_pend[j] = ds_pend[j + 1];
    ds_npend--;
    return t;
}
static int ds_is_hold_task(int i) { return ds_hold_mode && ds_tid_of(ds_pend[i].task) == ds_hold_tid; }

/* the previous task of stream `me` (if any) is complete: bump the epoch so that stalled tasks are offered again */
static inline void ds_settle_locked(int me)
{
    if (me >= 0 && me < DS_MAXSTREAM && ds_last_valid[me]) { ds_last_valid[me] = 0; ds_epoch++; }
}
static parsec_task_t *ds_sched_select(parsec_execution_stream_t *es, int32_t *distance)
{
    int me = es->th_id; *distance = 0;
    ds_lock();
    ds_settle_locked(me);
    if (ds_hold_mode && me != 0) {
        /* worker: only the hold task */
        if (ds_hold_finishing) { ds_hold_finishing = 0; ds_hold_done = 1; }
        for (int i = 0; i < ds_npend; i++) if (ds_is_hold_task(i) && ds_eligible(i)) { ds_hold_transit = 1; parsec_task_t *t = ds_take_locked(i, me); ds_unlock(); return t; }
        ds_unlock(); return NULL;
    }
    for (;;) {
        if (ds_hold_mode) {
            /* main: wait until the worker has picked A up / finished releasing A's successors */
            int wait = ds_hold_transit || ds_hold_finishing;
            for (int i = 0; i < ds_npend && !wait; i++) if (ds_is_hold_task(i) && ds_eligible(i)) wait = 1;
            if (wait) { ds_unlock(); sched_yield(); ds_lock(); continue; }
        }
        int el[DS_MAXPEND], n = 0;
        for (int i = 0; i < ds_npend; i++) if (!ds_is_hold_task(i) && ds_eligible(i)) el[n++] = i;
        if (n == 0) {
            ds_forced = -1;
            if (ds_hold_mode && ds_hold_inside && !ds_hold_release) { ds_hold_release = 1; ds_hold_finishing = 1; ds_note("release"); ds_unlock(); sched_yield(); ds_lock(); continue; }
            /* only stalled tasks left and no other stream can change anything: bounded retry, then livelock */
            int st = -1; for (int i = 0; i < ds_npend; i++) if (!ds_is_hold_task(i)) { st = i; break; }
            int others_idle = ds_hold_mode ? !(ds_hold_inside || ds_hold_transit || ds_hold_finishing) : (ds_nstreams == 1);
            if (st >= 0 && others_idle) {
                if (ds_consec_retries++ < 3) { parsec_task_t *t = ds_take_locked(st, me); ds_unlock(); return t; }
                ds_livelock++;
                char nm[32]; snprintf(nm, sizeof(nm), "%s", ds_pend[st].name);
                ds_unlock();
                if (ds_on_livelock) ds_on_livelock(nm);
                fprintf(stderr, "dtd_sched: livelock: task %s is refused (AGAIN) although nothing else can run\n", nm);
                return NULL;
            }
            ds_unlock(); return NULL;
        }
        int c;
        if (ds_forced >= 0) { c = ds_forced < n ? ds_forced : 0; ds_forced = -1; }
        else c = ds_fifo ? 0 : ds_choose(n);
        ds_consec_retries = 0;
        if (ds_hold_mode && ds_hold_inside) ds_hold_overlapped++;
        parsec_task_t *t = ds_take_locked(el[c], me);
        ds_unlock();
        return t;
    }
}
static parsec_sched_module_t ds_module = { NULL, { ds_sched_install, ds_sched_flow_init, ds_sched_schedule, ds_sched_select, NULL, ds_sched_remove } };
static void ds_install(parsec_context_t *ctx) { parsec_remove_scheduler(ctx); parsec_current_scheduler = &ds_module; ds_module.module.install(ctx); }
static void ds_uninstall(parsec_context_t *ctx) { (void)ctx; parsec_current_scheduler = NULL; }

/* number of eligible pending tasks (gate) */
static int ds_count_eligible(void) { ds_lock(); ds_settle_locked(0); int n = 0; for (int i = 0; i < ds_npend; i++) if (!ds_is_hold_task(i) && ds_eligible(i)) n++; ds_unlock(); return n; }

/* GATE (one stream): called by the driver before each insertion and before the flush. The explorer chooses between
 * "go on inserting" (0) and "execute eligible pending task c-1" through the real parsec_taskpool_test(). */
static void ds_gate(parsec_taskpool_t *tp, const char *label)
{
    for (;;) {
        int n = ds_count_eligible();
        if (n == 0) break;
        int c = ds_choose(n + 1);
        if (c == 0) break;
        ds_forced = c - 1;
        int before = ds_npend;
        int r = parsec_taskpool_test(tp); (void)before;
        if (r != 1) { fprintf(stderr, "dtd_sched: parsec_taskpool_test ran %d tasks (expected 1)\n", r); if (ds_ex) ds_ex->diverged = 1; break; }
    }
    ds_note(label);
}
/* HOLD: main-side synchronisation point between insertions: wait until the worker has taken A if A is ready */
static void ds_hold_sync(void)
{
    if (!ds_hold_mode) return;
    for (;;) {
        ds_lock();
        int wait = ds_hold_transit || ds_hold_finishing;
        for (int i = 0; i < ds_npend && !wait; i++) if (ds_is_hold_task(i) && ds_eligible(i)) wait = 1;
        ds_unlock();
        if (!wait) return;
        sched_yield();
    }
}
/* HOLD: called from the body of every program task (between enter and exit) */
static void ds_hold_body(int tid)
{
    if (!ds_hold_mode || tid != ds_hold_tid) return;
    ds_lock(); ds_hold_inside = 1; ds_hold_transit = 0; ds_note("[A-in"); ds_unlock();
    while (!ds_hold_release) sched_yield();
    ds_lock(); ds_hold_inside = 0; ds_note("A-out]"); ds_unlock();
}
#endif
