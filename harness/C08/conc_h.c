/* C08 / E1 leg: concurrent schedule/select on 2-3 borrowed execution streams of a parsec_init'ed context, one
 * scheduler module per process, every interleaving with at most b preemptions (cosched).
 *
 * run() = pristine scheduler (c08_reinstall) + optional sequential pre-fill + cs_run(2..3 scripted threads) +
 * oracle in the main thread: every select result is NULL or a task of this run, and after a sequential drain of all
 * streams every task has been returned exactly as often as it was handed to schedule().
 * Thread t owns stream own[t] (selects only there); a thread may schedule onto its own stream or onto stream 0
 * (what __parsec_schedule_vp / the communication thread do); the "comm" thread owns no stream.
 */
#include "c08_common.h"
#include "cosched.h"

enum { ST_END = 0, ST_SCHED, ST_SEL, ST_RESCHED };
typedef struct { int type, es, n, dist, prio[4]; } step_t;
#define SCHED(es, d, n, ...) { ST_SCHED, es, n, d, { __VA_ARGS__ } }
#define SEL(es)              { ST_SEL, es, 0, 0, { 0 } }
#define RESCHED(es, d)       { ST_RESCHED, es, 1, d, { 0 } }
#define MAXSTEP 4
typedef struct {
    const char *name; int k, nthreads;
    int prefill_es, prefill_n;          /* prefill_n: >0 that many tasks, -1: capacity-1 of the local buffer, -2: capacity of all bounded buffers-1 */
    int prefill_dist;
    step_t th[3][MAXSTEP + 1];
    int max_bound;
    unsigned only_mods;                 /* 0 = all modules, else bit mask */
} scen_t;

#define M(x) (1u << (x))
static const scen_t SCN[] = {
    /* H: minimal two-writer race on stream 0's non-empty queue (owner and a foreign thread push one task each) */
    { "push_push", 2, 2, 0, 2, 0, { { SCHED(0, 0, 1, 50) }, { SCHED(0, 0, 1, 60) } }, 0, 0 },     /* lower than the pre-filled 100,101: llp takes its detach-merge-reattach path */
    /* I: the owner's low-priority push (llp: detach-merge-reattach) races with a foreign RING of 2 resp. 3 tasks: the ring lands on the
     *    detached (empty) queue and must be intercepted completely on re-attach (seeded change C08-1 dropped its last task) */
    { "detach_vs_ring2", 2, 2, 0, 2, 0, { { SCHED(0, 0, 1, 50) }, { SCHED(0, 0, 2, 60, 55) } }, 0, 0 },
    { "detach_vs_ring3", 2, 2, 0, 2, 0, { { SCHED(0, 0, 1, 50), SEL(0) }, { SCHED(0, 1, 3, 60, 55, 40), SEL(1) } }, 0, 0 },
    /* A: a ring arrives on stream 0 while the neighbour looks for work */
    { "sched_vs_steal", 2, 2, 0, 0, 0, { { SCHED(0, 0, 2, 3, 7), SEL(0) }, { SEL(1), SEL(1) } }, 0, 0 },
    /* B: foreign push (distance 1) onto stream 0 while its owner selects and schedules */
    { "foreign_push", 2, 2, 0, 1, 0, { { SEL(0), SCHED(0, 0, 1, 5), SEL(0) }, { SCHED(0, 1, 2, 6, 2), SEL(1) } }, 0, 0 },
    /* C: two writers merge into stream 0's queue that already holds tasks (llp: multi-writer merge; hbb: CAS on slots) */
    { "two_writers", 2, 2, 0, 2, 0, { { SCHED(0, 0, 1, 105), SEL(0) }, { SCHED(0, 0, 2, 106, 1), SEL(1) } }, 0, 0 },
    /* D: the local buffer overflows into its parent while the neighbour steals */
    { "overflow_vs_steal", 2, 2, 0, -1, 0, { { SCHED(0, 0, 3, 4, 9, 1) }, { SEL(1), SEL(1) } }, 0, M(S_LFQ) | M(S_PBQ) | M(S_LTQ) | M(S_LHQ) },
    /* E: a task that answers AGAIN is re-scheduled with distance 1 while the neighbour steals */
    { "resched", 2, 2, 0, 0, 0, { { SCHED(0, 0, 1, 5), SEL(0), RESCHED(0, 1), SEL(0) }, { SEL(1), SCHED(1, 0, 1, 4), SEL(1) } }, 0, 0 },
    /* F: three threads: owner of 0 selects, owner of 1 schedules and selects, the communication thread pushes onto 0 */
    { "three_comm", 3, 3, 0, 0, 0, { { SEL(0), SEL(0) }, { SCHED(1, 0, 2, 3, 8), SEL(1) }, { SCHED(0, 0, 1, 6) } }, 0, 0 },
    /* G: three streams all active: ring on 2, foreign push from 1 onto 0, everybody selects */
    { "three_streams", 3, 3, 0, 1, 0, { { SEL(0), SEL(0) }, { SCHED(0, 1, 1, 7), SEL(1) }, { SCHED(2, 0, 2, 2, 9), SEL(2) } }, 0, 0 },
};
#define NSCN ((int)(sizeof(SCN) / sizeof(SCN[0])))

#define MAXTASK 160
static parsec_task_t *tasks; static int ntasks;
static int n_sched[MAXTASK], n_ret[MAXTASK];
static int results[3][MAXSTEP]; static parsec_task_t *resptr[3][MAXSTEP];
static const scen_t *cur;
static int nregions_used;

static void watch_cb(const volatile void *base, size_t len, const char *name) { if (nregions_used < 60) { cs_watch(base, len, name); nregions_used++; } }

/* ltq allocates (and frees) its heaps while the threads run.  They are NOT watched: a freed heap's memory is
 * recycled by malloc for unrelated blocks in an allocator-state dependent way, which made the set of scheduling
 * points differ between a long-lived worker and a fresh process (cosched reported it as nondeterminism).  The heap
 * TREE is still covered: its child pointers are the tasks' list links, which are watched; only the three header
 * fields (size, priority, top) of a heap are not scheduling points. */
static int task_id(parsec_task_t *t) { if (!t) return -1; if (t < tasks || t >= tasks + ntasks || ((char *)t - (char *)tasks) % sizeof(parsec_task_t)) return -2; return (int)(t - tasks); }
static int tt_distinct;
static parsec_task_t *take_tasks(int n, const int *prio, int base_prio)
{
    parsec_task_t *r[MAXTASK];
    for (int i = 0; i < n; i++) {
        parsec_task_t *t = &tasks[ntasks++];
        t->priority = prio ? prio[i] : base_prio + i;
        t->data[0].data_in = (parsec_data_copy_t *)(uintptr_t)(0x1000 + 64 * (tt_distinct ? 1000 + ntasks : (ntasks - 1) / 2));   /* pairs share an input (ltq), or none does */
        r[i] = t; __sync_fetch_and_add(&n_sched[ntasks - 1], 1);
    }
    return c08_ring(r, n);
}

static void body(void *arg)
{
    int t = (int)(intptr_t)arg; parsec_task_t *last = NULL;
    for (int s = 0; s < MAXSTEP && cur->th[t][s].type != ST_END; s++) {
        const step_t *st = &cur->th[t][s];
        results[t][s] = -9;
        if (st->type == ST_SEL) { last = c08_select(st->es); resptr[t][s] = last; results[t][s] = task_id(last); }
        else if (st->type == ST_SCHED) { parsec_task_t *r[4]; for (int i = 0; i < st->n; i++) r[i] = (parsec_task_t *)(intptr_t)0;
            /* the tasks of this step were reserved before cs_run (deterministic ids) */
            int first = (int)(intptr_t)resptr[t][s]; for (int i = 0; i < st->n; i++) { r[i] = &tasks[first + i]; __sync_fetch_and_add(&n_sched[first + i], 1); }
            C08_SCHEDULE(st->es, c08_ring(r, st->n), st->dist); results[t][s] = first; }
        else if (st->type == ST_RESCHED) {
            int id = task_id(last);
            if (id >= 0) { PARSEC_LIST_ITEM_SINGLETON(&last->super); __sync_fetch_and_add(&n_sched[id], 1); C08_SCHEDULE(st->es, last, st->dist); results[t][s] = id; last = NULL; }
            else results[t][s] = -1;
        }
    }
}

static int local_capacity(void)
{
    switch (c08_mod) {
    case S_LFQ: case S_PBQ: case S_LTQ: case S_LHQ: return (int)PARSEC_MCA_SCHED_LOCAL_QUEUES_OBJECT(ES[0])->task_queue->size;
    default: return 4 * K;
    }
}

static void account(parsec_task_t *t, const char *who)
{
    if (!t) return;
    int id = task_id(t);
    CS_CHECK(id >= 0, "%s: %s returned a pointer that is not a task of this run (%p)", c08_modname, who, (void *)t);
    n_ret[id]++;
    CS_CHECK(n_ret[id] <= n_sched[id], "%s: task #%d was returned %d time(s) but handed to schedule() only %d time(s) (duplicated; last by %s)", c08_modname, id, n_ret[id], n_sched[id], who);
}

static void run_scen(const scen_t *sc)
{
    cur = NULL; nregions_used = 0;
    c08_reinstall(); srand(12345);
    if (!tasks) { if (posix_memalign((void **)&tasks, 64, MAXTASK * sizeof(parsec_task_t))) abort(); }
    memset(tasks, 0, MAXTASK * sizeof(parsec_task_t)); ntasks = 0;
    memset(n_sched, 0, sizeof(n_sched)); memset(n_ret, 0, sizeof(n_ret));
    for (int i = 0; i < MAXTASK; i++) { PARSEC_OBJ_CONSTRUCT(&tasks[i].super, parsec_list_item_t); tasks[i].taskpool = &c08_tp; tasks[i].task_class = &c08_tc_plain; }
    /* spq creates a per-distance list on first use: create the ones this scenario uses now so that they can be watched */
    if (c08_mod == S_SPQ) for (int d = 0; d < 3; d++) { parsec_task_t *w = &tasks[MAXTASK - 1]; PARSEC_LIST_ITEM_SINGLETON(&w->super); C08_SCHEDULE(0, w, d); parsec_task_t *g = c08_select(0); if (g != w) cs_fail("spq: warm-up task not returned"); }
    /* sequential pre-fill */
    int pf = sc->prefill_n; if (pf == -1) pf = local_capacity() - 1;
    tt_distinct = sc->prefill_n < 0;
    if (pf > 0) { if (pf > MAXTASK - 32) pf = MAXTASK - 32; C08_SCHEDULE(sc->prefill_es, take_tasks(pf, NULL, 100), sc->prefill_dist); }
    /* reserve the tasks of every schedule step (ids independent of the interleaving) */
    for (int t = 0; t < sc->nthreads; t++) for (int s = 0; s < MAXSTEP && sc->th[t][s].type != ST_END; s++) {
        resptr[t][s] = NULL; results[t][s] = -9;
        if (sc->th[t][s].type == ST_SCHED) { resptr[t][s] = (parsec_task_t *)(intptr_t)ntasks; for (int i = 0; i < sc->th[t][s].n; i++) tasks[ntasks++].priority = sc->th[t][s].prio[i]; }
    }
    /* ltq groups consecutive tasks sharing an input into one heap: pairs share, except in a capacity pre-fill (one heap per task, so that the buffer really fills up) */
    for (int i = (pf > 0 ? pf : 0); i < ntasks; i++) tasks[i].data[0].data_in = (parsec_data_copy_t *)(uintptr_t)(0x1000 + 64 * (i / 2));
    /* watched: the module's shared objects and the tasks' links.
     * lhq's bounded buffers have 24..96 slots; only the first W are watched, W = tasks + re-schedules + 2: a pusher
     * passes slot j only after seeing it occupied, at most `tasks` slots are occupied at a time and a task changes slot
     * only when it is re-scheduled, so slots >= W stay NULL throughout (reads of them are independent of everything).
     * When the pre-fill occupies the buffer, everything is watched. */
    { int nres = 0; for (int t = 0; t < sc->nthreads; t++) for (int s = 0; s < MAXSTEP && sc->th[t][s].type != ST_END; s++) nres += sc->th[t][s].type == ST_RESCHED;
      c08_hbb_prefix = (c08_mod == S_LHQ && sc->prefill_n >= 0) ? ntasks + nres + 2 : 0; }
    c08_regions(watch_cb);
    if (ntasks <= 36) for (int i = 0; i < ntasks; i++) watch_cb(&tasks[i].super.list_next, 2 * sizeof(void *), "task-links");
    else watch_cb(tasks, ntasks * sizeof(parsec_task_t), "tasks");
    cur = sc;
    cs_body_t b[3] = { body, body, body }; void *args[3] = { (void *)0, (void *)1, (void *)2 };
    cs_run(sc->nthreads, b, args);
    cur = NULL;
    /* ---- oracle ---- */
    char who[64];
    for (int t = 0; t < sc->nthreads; t++) for (int s = 0; s < MAXSTEP && sc->th[t][s].type != ST_END; s++) {
        if (sc->th[t][s].type == ST_SEL) { snprintf(who, sizeof(who), "select(stream %d) of thread %d step %d", sc->th[t][s].es, t, s); account(resptr[t][s], who); }
        cs_observe("%d.%d=%d ", t, s, results[t][s]);
    }
    int quiet = 0, rounds = 0; cs_observe("| drain:");
    while (quiet < 2 && rounds < ntasks + 8) {
        int got = 0;
        for (int i = 0; i < K; i++) { parsec_task_t *x = c08_select(i); if (x) { got++; snprintf(who, sizeof(who), "drain select(stream %d)", i); account(x, who); cs_observe(" %d:%d", i, task_id(x)); } }
        quiet = got ? 0 : quiet + 1; rounds++;
    }
    for (int i = 0; i < ntasks; i++)
        CS_CHECK(n_ret[i] == n_sched[i], "%s: task #%d was handed to schedule() %d time(s) but returned %d time(s) after a complete drain of all %d streams (lost)", c08_modname, i, n_sched[i], n_ret[i], K);
}

#define R(i) static void run_##i(void) { run_scen(&SCN[i]); }
R(0) R(1) R(2) R(3) R(4) R(5) R(6) R(7) R(8) R(9)
static void (*const RUNS[])(void) = { run_0, run_1, run_2, run_3, run_4, run_5, run_6, run_7, run_8, run_9 };
_Static_assert(sizeof(RUNS) / sizeof(RUNS[0]) == NSCN, "one run_<i> per scenario");

static const char *g_sched = "lfq"; static int g_k = 2;
static const char *g_only[8]; static int g_nonly = 0;   /* --only <substring>: keep only matching scenarios */
static const char *g_full[8]; static int g_nfull = 0;   /* --full <substring>: only matching scenarios go beyond preemption bound 1 */
static void setup(void) { if (c08_init(g_sched, g_k)) exit(2); }

int main(int argc, char **argv)
{
    /* --sched / --streams are ours; everything else goes to cosched */
    char *av[64]; int ac = 0;
    for (int i = 0; i < argc && ac < 60; i++) {
        if (!strcmp(argv[i], "--sched") && i + 1 < argc) g_sched = argv[++i];
        else if (!strcmp(argv[i], "--streams") && i + 1 < argc) g_k = atoi(argv[++i]);
        else if (!strcmp(argv[i], "--only") && i + 1 < argc && g_nonly < 8) g_only[g_nonly++] = argv[++i];
        else if (!strcmp(argv[i], "--full") && i + 1 < argc && g_nfull < 8) g_full[g_nfull++] = argv[++i];
        else av[ac++] = argv[i];
    }
    av[ac] = NULL;
    int mod = -1; for (int i = 0; i < S_N; i++) if (!strcmp(g_sched, c08_names[i])) mod = i;
    if (mod < 0) { fprintf(stderr, "unknown scheduler %s\n", g_sched); return 2; }
    static cs_scenario_t scen[NSCN]; static char names[NSCN][96]; int n = 0;
    for (int i = 0; i < NSCN; i++) {
        if (SCN[i].k != g_k) continue;
        if (SCN[i].only_mods && !(SCN[i].only_mods & M(mod))) continue;
        if (g_nonly) { int hit = 0; for (int f = 0; f < g_nonly; f++) if (strstr(SCN[i].name, g_only[f])) hit = 1; if (!hit) continue; }
        snprintf(names[n], sizeof(names[n]), "%s_k%d_%s", g_sched, g_k, SCN[i].name);
        scen[n].name = names[n]; scen[n].run = RUNS[i]; scen[n].max_bound = SCN[i].max_bound;
        if (mod == S_LHQ && SCN[i].prefill_n < 0) scen[n].max_bound = 1;     /* pre-filled 96-slot buffer: ~700 points per execution */
        if (g_nfull) { int hit = 0; for (int f = 0; f < g_nfull; f++) if (strstr(SCN[i].name, g_full[f])) hit = 1; if (!hit) scen[n].max_bound = 1; }
        n++;
    }
    return cs_main(ac, av, "C08", scen, n, setup);
}
