META = dict(
    engine='seqx',
    technique='exhaustive enumeration of three finite input boxes (strings, argv edits, option arrangements) on the real argv.c / cmd_line.c against reference functions, each case in a crash-isolating worker',
    level_text='Every string over {a,b,delimiter} up to length 6 (quick) / 10 (thorough) plus tokens around the 128-byte buffer, every argv of <= 4 elements with every delete/insert/insert_element/append/prepend/append_unique/copy/join_range argument combination, and every arrangement of <= 4 (quick) / 6 (thorough) tokens from a 17-token alphabet over three declared options (0/1/2 parameters, short / single-dash / long names, combined shorts, "--", unknown options and tokens) x ignore_unknown are executed on the real code and compared with reference functions; heap blocks of argv.c are exact-size with red zones.',
    level_note='Inputs outside the boxes (longer strings, more tokens, other option tables, typed option destinations / MCA-bound options) are not covered; argv.c is compiled into the harness TU with malloc/realloc/free/strdup routed to a red-zone allocator, cmd_line.c is the library build.',
)
RULE = ("full-box enumeration; states = distinct outcomes (result arrays / return codes / reported options+tail), transitions = executions = cases run; "
        "a case is non-trivial when the string has >= 2 fields, the edit changes the array, or the command line contains at least one recognised option")


def build(ctx):
    return ctx.compile('hk-shm', 'argv', ['argv_h.c'], instr=False)


def check(ctx):
    quick = ctx.tier == 'quick'
    ctx.run_engine(build(ctx), ['--outdir', '/verif/out', '--deadline', '80' if quick else '1000', '--maxlen', '6' if quick else '10', '--maxtok', '4' if quick else '6'],
                   label='argv', timeout=1500)
    return ctx.finish(RULE, ["split_with_empty treats a trailing delimiter as a terminator (no empty field after it), as the implementation documents by example of Perl's split",
                             "when parsec_argv_delete is asked to delete more tokens than exist the resulting *argc is undocumented (observations counted, not judged)"])


def replay(ctx, path, obj):
    import subprocess
    return subprocess.call([build(ctx), '--replay', path])
