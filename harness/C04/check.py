import os, subprocess, json
META = dict(
    engine='rt+cosched',
    technique='two-stream held-task exploration: every task A of every bounded DTD program is kept inside its body on stream 1 while a harness-owned scheduler '
              'lets stream 0 insert and run everything the real runtime considers ready (DFS over all its task orders); per-tile in-flight counters and enter/exit stamps; '
              'one-stream DFS over all insert/execute interleavings for the ordering half; instruction-level legs: preemption-bounded exhaustive schedule enumeration (cosched) of the real '
              'parsec_dtd_insert_task against the real completion path (complete_hook_of_dtd / parsec_dtd_release_deps / parsec_dtd_ordering_correctly / data_lookup_of_dtd_task) on 2-3 controlled threads',
    level_text='For every DTD program with <= 2 tasks (and a stride of the 3-task programs; 1-2 parameters per task, modes INPUT/OUTPUT/INOUT, 2 tiles) and every task A of it, '
               'A is held inside its body on the second execution stream until the first stream, which inserts the rest of the program and executes every task the '
               'runtime hands to the scheduler (all orders enumerated, refused writers re-offered after every completion), has nothing left to select; if the runtime lets '
               'a conflicting task start while A is inside, atomic per-tile writers_in/readers_in counters in the bodies see it. For all conflicting pairs (same tile, one '
               'writes) exit(earlier) < enter(later) by global stamps - in particular a writer never starts before a reader inserted before it has left. Readers between the '
               'same writers are observed inside together (reachability witness). A one-stream leg enumerates every insert/execute interleaving for the ordering half. '
               'Instruction-level legs (il-*): for the program (R a ; W a) every schedule with <= 2 preemptions (thorough: 3 attempted) of an inserting thread (real parsec_dtd_insert_task, flush_all, '
               'parsec_taskpool_wait on stream 0) against 1-2 worker threads (real __parsec_task_progress on streams 1-2), scheduling points at every instrumented access to the tiles, '
               'data_copy->readers and the DTD task descriptors; the same with <= 2 preemptions for writer->reader, writer->writer and reader->reader on one tile, and with <= 1 preemption '
               '(thorough: 2 for all one-parameter programs) for a stride of all programs <= 2 tasks; same counters/stamps oracle plus the C03 value oracle.',
    level_note='Hold/order legs: task bodies and runtime actions (prepare_input, completion, insertion) are atomic with respect to each other except for the held body; mt legs: 3-4 free-running streams behind the real scheduler module with every insertion serialised against task prepare/execute/complete on the other streams: instruction-level races between a completing predecessor and a concurrent insertion are explored only by the il legs, within their bounds: '
               '2 (3) threads, preemption bound 2 (1) per the leg names, programs <= 2 (3) tasks, sequentially consistent interleavings at the watched objects; accesses to tile->last_user/last_writer made by the '
               'holder of the tile lock and reads of a flow record\'s write-once fields are not scheduling points; the harness queue replaces the scheduler module; a refused writer is re-offered only when its copies have no reader. '
               'The il legs reproduce finding F5 (reader chain end published before the reader is counted): attributed to known finding C04-reader-chain-end-published-before-retain only if that id is listed in known_findings.json, otherwise reported as a violation. Legs run with task-object recycling suppressed and without '
               'tasks naming a tile twice (known findings C03-stale-last-user-aba, C03-dup-tile-reader-count, exercised by the C03 check). runtime_keep_highest_priority_task=0 so '
               'that every ready task passes through the scheduler.',
)
RULE = ("states = canonical programs per leg; executions = complete taskpool cycles (one per explored choice list and held task); transitions = scheduling / gate decisions; "
        "non-trivial = choice list deviates from the default order; outcomes = distinct (program, configuration, held task, trace) signatures; "
        "extra counters per leg: overlapped_with_held = tasks started on stream 0 while the held task was inside, runs_with_readers_together, again_resubmissions. "
        "il legs (engine cosched): one leg entry per program; executions = complete schedules (each a full create/insert/flush/wait/free cycle of a real DTD taskpool under the controlled scheduler), "
        "states = nodes of the schedule tree, transitions = scheduling points passed, non-trivial = schedules with >= 1 preemption, outcomes = distinct (task->stream order, enter/exit stamps, AGAIN count) strings; "
        "points_per_region = scheduling points by watched object class summed over the executions, max_points_per_thread, bound_completed")
ASSUME = ["hold/order/mt legs: task-level atomicity except for the held body (see level_note)",
          "mt legs: the main thread inserts only while no other stream holds a task (wrapped scheduler module); default window only; overlap of independent tasks is whatever the OS scheduler produces",
          "driver keeps completed task objects out of the class free lists while a taskpool lives (--norecycle); no task names a tile twice",
          "harness scheduler replaces the scheduler module (parsec_current_scheduler); runtime_keep_highest_priority_task=0",
          "DTD hash tables reduced to 64 buckets",
          "il legs: sequential consistency at instrumented accesses; lock-based reduction (accesses to last_user/last_writer by the holder of the tile lock are not scheduling points); reads of write-once flow fields "
          "(op_type, tile, arena_index) are not scheduling points; harness FIFO queue instead of a scheduler module, runtime_keep_highest_priority_task=0 (1 in one thorough leg); the two unhooked spin loops of "
          "overlap_strategies.c and the nanosleep back-off of parsec_taskpool_wait are turned into waits by the harness; termination-detector counters are not watched (C10)"]
CFLAGS = ['-I/repo/parsec', '-I/verif/engine/rt']

def build(ctx):
    return ctx.compile('hk-shm', 'c04', ['c04_h.c'], instr=False, cflags=CFLAGS)

# ---- instruction-level legs (E4 leg 4): c04_il.c = cosched over the real insert / complete paths on 2-3 borrowed streams
ID_F5 = 'C04-reader-chain-end-published-before-retain'
SAME_TILE = ['Ra', 'Wa', 'RWa', 'Ra_RWa', 'Ra_Ra', 'Wa_Ra', 'RWa_Ra', 'Wa_Wa', 'Wa_RWa', 'RWa_Wa', 'RWa_RWa']     # + Ra_Wa (leg il-f5) = every program <= 2 tasks with 1 parameter per task on ONE tile

def build_il(ctx):
    return ctx.compile('hk-shm', 'il', ['c04_il.c'], engine='cosched', cflags=CFLAGS, ldflags=['-ldl'])

def il_known_ids():
    p = os.environ.get('VERIF_KNOWN_FINDINGS') or os.path.join(os.environ.get('VERIF_ROOT', '/verif'), 'known_findings.json')
    try:
        fs = json.load(open(p)).get('findings', [])
    except Exception:
        return []
    return [f['id'] for f in fs if isinstance(f, dict) and f.get('id', '').startswith(('C04-', 'C03-'))]

def il_leg(ctx, exe, name, args, bound, deadline, jobs=8, only=None):
    """one cosched invocation = one parsec_init'ed context configuration; every program is a scenario"""
    if only and name not in only.split(','):
        return
    import vlib
    os.environ['PARSEC_MCA_bind_threads'] = '0'
    stats = os.path.join(vlib.OUT, 'res', '%s-%s-stats.json' % (ctx.pid, name))
    if os.path.exists(stats):
        os.unlink(stats)
    n0 = len(ctx.legs)
    ctx.run_engine(exe, list(args) + ['--bound', str(bound), '--scenario', 'all', '--jobs', str(jobs), '--outdir', vlib.OUT, '--deadline', str(int(deadline)),
                                      '--known', ','.join(il_known_ids()), '--stats', stats], label=name, timeout=deadline + 400)
    try:
        st = json.load(open(stats))
    except Exception:
        st = {}
    for l in ctx.legs[n0:]:
        l.pop('region_hits', None)            # cosched's per-index table is meaningless with regions registered while the threads run
        l.update(st.get(l.get('name'), {}))
        if l.get('executions', 0) > 0 and st.get(l.get('name')) and not all(st[l['name']]['points_per_region'].get(k, 0) > 0 for k in ('tile', 'copy.readers', 'task.flow', 'task.data', 'task.refcount', 'queue-op', 'body')):
            ctx.broken.append('%s/%s: a watched region class recorded no scheduling point (harness defect)' % (name, l.get('name')))

def il_legs(ctx, only):
    exe = build_il(ctx)
    if os.environ.get('VERIF_KNOWN_FINDINGS'):
        ctx.notes.append('il legs: known findings read from %s (VERIF_KNOWN_FINDINGS), ids used: %s' % (os.environ['VERIF_KNOWN_FINDINGS'], ','.join(il_known_ids())))
    P = lambda names: sum((['--prog', n] for n in names), [])
    if ctx.tier == 'quick':
        il_leg(ctx, exe, 'il-f5', ['--prog', 'Ra_Wa'], 2, 75, only=only)                               # reader, then writer inserted while the reader's activation is in flight
        il_leg(ctx, exe, 'il-same-b2', P(['Wa_Ra', 'Wa_Wa', 'Ra_Ra']), 2, 105, only=only)               # writer->reader, writer->writer, reader chain growing under the walk
        il_leg(ctx, exe, 'il-le2-b1', P(SAME_TILE) + ['--nt', '1:2', '--maxp', '2', '--stride', '10'], 1, 120, only=only)
        il_leg(ctx, exe, 'il-t3-b1', ['--threads', '3', '--prog', 'Ra_Wa'], 1, 45, only=only)
    else:
        # legs that cannot finish (bound 3, two-parameter / three-task programs at bound 2, 3 threads at bound 2) get short fixed deadlines and report the bound they completed
        il_leg(ctx, exe, 'il-f5-b3', ['--prog', 'Ra_Wa'], 3, 120, jobs=12, only=only)
        il_leg(ctx, exe, 'il-le2p1-b2', ['--nt', '1:2', '--maxp', '1'], 2, 240, jobs=12, only=only)
        il_leg(ctx, exe, 'il-le2p2-b1', ['--nt', '1:2', '--maxp', '2', '--stride', '3'], 1, 180, jobs=12, only=only)
        il_leg(ctx, exe, 'il-p2-b2', P(['Ra.Wb_Wa.Rb', 'Ra.Rb_Wa.Wb', 'RWa.Rb_Rb.Wa']), 2, 60, jobs=12, only=only)
        il_leg(ctx, exe, 'il-3p1-b1', ['--nt', '3:3', '--maxp', '1', '--stride', '3'], 1, 120, jobs=12, only=only)
        il_leg(ctx, exe, 'il-3p1-b2', P(['Ra_Ra_Wa', 'Ra_Wa_Ra', 'Wa_Ra_Ra']), 2, 60, jobs=12, only=only)
        il_leg(ctx, exe, 'il-t3-b1', ['--threads', '3'] + P(['Ra_Wa', 'Ra_Ra', 'Wa_Ra', 'Ra_Ra_Wa']), 1, 180, jobs=12, only=only)
        il_leg(ctx, exe, 'il-t3-b2', ['--threads', '3', '--prog', 'Ra_Wa'], 2, 40, jobs=12, only=only)
        il_leg(ctx, exe, 'il-keep1-b2', ['--keep', '1'] + P(['Ra_Wa', 'Wa_Ra']), 2, 60, jobs=12, only=only)
        il_leg(ctx, exe, 'il-lifo-b2', ['--lifo', '1'] + P(['Ra_Wa', 'Wa_Ra']), 2, 60, jobs=12, only=only)

def check(ctx):
    exe = build(ctx)
    q = ctx.tier == 'quick'
    common = ['--outdir', '/verif/out', '--norecycle', '1', '--dup', '0']
    only = os.environ.get('C04_LEGS')
    def leg(name, args, deadline):
        if only and name not in only.split(','):
            return
        ctx.run_engine(exe, ['--name', name] + args + common + ['--deadline', str(deadline)], label=name, timeout=deadline + 400)
    if q:
        leg('hold-le2', ['--leg', 'hold', '--nt', '1:2', '--maxp', '2', '--win', '0,0;1,1;2,1', '--jobs', '8'], 150)
        leg('hold-3', ['--leg', 'hold', '--nt', '3:3', '--maxp', '2', '--win', '0,0', '--stride', '96', '--jobs', '8'], 150)
        leg('order-le2', ['--leg', 'gate', '--nt', '1:2', '--maxp', '2', '--win', '0,0;1,1', '--jobs', '8'], 150)
        leg('mt-3t', ['--leg', 'mt', '--threads', '3', '--oracle', '3', '--nt', '1:3', '--maxp', '2', '--win', '0,0', '--api', '3', '--spin', '1000', '--stride', '12', '--jobs', '6'], 150)
    else:
        leg('hold-le2', ['--leg', 'hold', '--nt', '1:2', '--maxp', '3', '--alpha', 't', '--win', '0,0;1,1;2,1;4,2', '--nest', '1', '--jobs', '12'], 240)
        leg('hold-3', ['--leg', 'hold', '--nt', '3:3', '--maxp', '2', '--win', '0,0;1,1', '--stride', '3', '--jobs', '12'], 500)
        leg('order-le2', ['--leg', 'gate', '--nt', '1:2', '--maxp', '2', '--nest', '1', '--jobs', '12'], 150)
        leg('order-3', ['--leg', 'gate', '--nt', '3:3', '--maxp', '2', '--win', '0,0', '--stride', '5', '--jobs', '12'], 250)
        leg('mt-3t', ['--leg', 'mt', '--threads', '3', '--oracle', '3', '--nt', '1:3', '--maxp', '2', '--win', '0,0', '--api', '3', '--spin', '1000', '--stride', '2', '--jobs', '8'], 200)
        leg('mt-4t-scheds', ['--leg', 'mt', '--threads', '4', '--oracle', '3', '--nt', '1:3', '--maxp', '2', '--win', '0,0', '--api', '1', '--spin', '1000', '--stride', '24', '--allscheds', '1', '--exclude', 'll,llp,ip'], 300)
    il_legs(ctx, only)
    return ctx.finish(RULE, ASSUME)

def replay(ctx, path, obj):
    if obj.get('engine') == 'cosched':
        return replay_il(ctx, build_il(ctx), path)
    exe = build(ctx)
    return subprocess.call([exe, '--replay', path, '--outdir', '/verif/out'])

def replay_il(ctx, exe, path):
    """re-execute the recorded schedule; the harness prints one line per scheduling point (thread, access, object, code address):
    resolve the code addresses to function / file:line"""
    import re
    os.environ['PARSEC_MCA_bind_threads'] = '0'
    r = subprocess.run([exe, '--replay', path], capture_output=True, text=True)
    lines = r.stdout.splitlines()
    want = {}
    for ln in lines:
        m = re.search(r' @(\S+)\+0x([0-9a-f]+)$', ln)
        if m:
            want.setdefault(m.group(1), set()).add(m.group(2))
    sym = {}
    for f, offs in want.items():
        offs = sorted(offs)
        try:
            out = subprocess.run(['addr2line', '-f', '-s', '-e', f] + ['0x' + o for o in offs], capture_output=True, text=True).stdout.splitlines()
            for i, o in enumerate(offs):
                sym[(f, o)] = '%s %s' % (out[2 * i], out[2 * i + 1])
        except Exception:
            pass
    for ln in lines:
        m = re.search(r' @(\S+)\+0x([0-9a-f]+)$', ln)
        if m and (m.group(1), m.group(2)) in sym:
            ln = ln[:m.start()] + '  <- ' + sym[(m.group(1), m.group(2))]
        print(ln)
    import sys
    sys.stderr.write(r.stderr)
    return r.returncode
