META = dict(
    engine='seqx',
    technique='explicit-state model checking: BFS to closure over all reachable (coherency, version-order, owner, readers) states of a data item with 2-4 device copies, driving the real parsec_data_start/end_transfer_ownership_to_copy through the stage-in call protocol, shadow model of which copy holds which version',
    level_text='For 2, 3 (quick) and 4 (thorough) device copies and three initial situations (created on the CPU, fresh, received/shared), every sequence of (device, R / W / RW / RW-without-version-bump) accesses is explored until no new canonical state appears (closure, which covers the length-8 bound of the property); after every access: at most one OWNED copy and it is the one the data names as owner, a transfer was requested exactly when the access reads and the target is not up to date in the shadow model, the named source holds the newest version, a writing access made the target the owner.',
    level_note='Each access is an atomic start -> (copy version) -> end -> (bump) -> release step, as the callers perform it under the data lock; overlapping transfers (target left INVALID/UNDER_TRANSFER while another access starts) are not in the alphabet. Versions are abstracted to their order for state identity (the library only compares them). EXCLUSIVE is never produced by the runtime and is not an initial state here.',
)
RULE = ("BFS over access histories on the real parsec_data_t / parsec_data_copy_t objects, deduplicated by canonical state "
        "(owner, per copy: coherency, version rank, readers, shadow validity); a state is non-trivial when its shortest history has >= 2 accesses; "
        "every transition evaluates the four clauses of the statement against the shadow model")


def build(ctx, n):
    return ctx.compile('hk-shm', 'own%d' % n, ['own_h.c'], instr=False, cflags=['-DNDEV=%d' % n])


FINDING = 'C26-owner-read-demotes-owned'


def known_args():
    import vlib
    listed = any(f.get('id') == FINDING for f in vlib.known_findings())
    return ['--known-owner-read'] if listed else []


def check(ctx):
    for n in ([2, 3] if ctx.tier == 'quick' else [2, 3, 4]):
        ctx.run_engine(build(ctx, n), ['--outdir', '/verif/out', '--deadline', '60' if ctx.tier == 'quick' else '600'] + known_args(), label='own%d' % n, timeout=1200)
    return ctx.finish(RULE, ["accesses to one data item are serialised by its lock (as every caller does); no overlapping transfers",
                             "the caller maintains versions as device_gpu.c does: a transferred copy takes the source's version, a producing write adds 1"])


def replay(ctx, path, obj):
    import subprocess, re
    n = int(re.search(r'own_(\d)dev', obj['scenario']).group(1))
    return subprocess.call([build(ctx, n), '--replay', path] + known_args())
