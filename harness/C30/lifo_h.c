/* C30: the lock-free LIFO is a linearizable stack (E1, real parsec_lifo_t). */
#include "parsec/parsec_config.h"
#include "parsec/class/lifo.h"
#include "cosched.h"
#include <stdio.h>
#include <string.h>
#include <stdlib.h>

#define NITEMS 33                  /* 0..5: the hand-written scripts; generated scripts: 0..2 initial content, 3 + 10 t + j = j-th fresh item of thread t */
#define NOSAN __attribute__((no_sanitize_thread, noinline))
enum { OP_PUSH, OP_POP, OP_TRYPOP, OP_CHAIN2, OP_CHAIN3 };
typedef struct { int type; int a, b, c; int res; long call, ret; } op_t;   /* a,b,c: item ids (pushed / chained, a = first of the ring), res: popped id or -1 */
#define MAXOPS 12
static op_t ops[MAXOPS]; static int nops;
static parsec_lifo_t *lifo;
static parsec_list_item_t *items[NITEMS];
static int init_stack[NITEMS], ninit;             /* bottom .. top */
static int final_stack[NITEMS], nfinal;           /* top .. bottom */

static int id_of(parsec_list_item_t *it) { if (!it) return -1; for (int i = 0; i < NITEMS; i++) if (items[i] == it) return i; return -2; }
static const char *opname[] = { "push", "pop", "try_pop", "chain", "chain3" };

static int new_op(int type, int a, int b) { int k = __sync_fetch_and_add(&nops, 1); if (k >= MAXOPS) abort(); ops[k].type = type; ops[k].a = a; ops[k].b = b; ops[k].c = -1; ops[k].res = -9; return k; }
static void do_push(int a) { int k = new_op(OP_PUSH, a, -1); ops[k].call = cs_stamp(); parsec_lifo_push(lifo, items[a]); ops[k].ret = cs_stamp(); }
static int do_pop(void) { int k = new_op(OP_POP, -1, -1); ops[k].call = cs_stamp(); parsec_list_item_t *it = parsec_lifo_pop(lifo); ops[k].ret = cs_stamp(); ops[k].res = id_of(it); return ops[k].res; }
static int do_trypop(void) { int k = new_op(OP_TRYPOP, -1, -1); ops[k].call = cs_stamp(); parsec_list_item_t *it = parsec_lifo_try_pop(lifo); ops[k].ret = cs_stamp(); ops[k].res = id_of(it); return ops[k].res; }
static void do_chain2(int a, int b)
{   /* ring a -> b (a first) */
    int k = new_op(OP_CHAIN2, a, b);
    items[a]->list_next = items[b]; items[a]->list_prev = items[b];
    items[b]->list_next = items[a]; items[b]->list_prev = items[a];
    ops[k].call = cs_stamp(); parsec_lifo_chain(lifo, items[a]); ops[k].ret = cs_stamp();
}

/* ring a -> b -> c (a first, c = tail = a->list_prev): with three items list_prev differs from list_next */
NOSAN static void link3(int a, int b, int c)
{
    items[a]->list_next = items[b]; items[b]->list_next = items[c]; items[c]->list_next = items[a];
    items[a]->list_prev = items[c]; items[b]->list_prev = items[a]; items[c]->list_prev = items[b];
}
static void do_chain3(int a, int b, int c)
{
    int k = new_op(OP_CHAIN3, a, b); ops[k].c = c;
    link3(a, b, c);
    ops[k].call = cs_stamp(); parsec_lifo_chain(lifo, items[a]); ops[k].ret = cs_stamp();
}

/* sequential model check of one candidate order */
static int seq_check(const int *order, int n, void *ctx)
{
    (void)ctx;
    int st[3 * MAXOPS + NITEMS + 4], sp = 0;
    for (int i = 0; i < ninit; i++) st[sp++] = init_stack[i];
    for (int i = 0; i < n; i++) {
        op_t *o = &ops[order[i]];
        switch (o->type) {
        case OP_PUSH: st[sp++] = o->a; break;
        case OP_CHAIN2: st[sp++] = o->b; st[sp++] = o->a; break;
        case OP_CHAIN3: st[sp++] = o->c; st[sp++] = o->b; st[sp++] = o->a; break;
        case OP_POP: { int e = sp ? st[--sp] : -1; if (e != o->res) return 0; } break;
        case OP_TRYPOP:
            if (o->res == -1) {
                /* NULL: either empty, or (documented weak semantics) it overlapped another operation */
                if (sp != 0) { int overl = 0; for (int j = 0; j < n; j++) if (&ops[j] != o && ops[j].call < o->ret && o->call < ops[j].ret) overl = 1; if (!overl) return 0; }
            } else { int e = sp ? st[--sp] : -1; if (e != o->res) return 0; }
            break;
        }
    }
    if (sp != nfinal) return 0;
    for (int i = 0; i < sp; i++) if (st[sp - 1 - i] != final_stack[i]) return 0;
    return 1;
}

static void setup_lifo(int n_init)
{
    lifo = PARSEC_OBJ_NEW(parsec_lifo_t);
    for (int i = 0; i < NITEMS; i++) items[i] = PARSEC_OBJ_NEW(parsec_list_item_t);
    ninit = n_init; nops = 0;
    for (int i = 0; i < n_init; i++) { init_stack[i] = n_init - 1 - i; }   /* item 0 on top */
    for (int i = 0; i < n_init; i++) parsec_lifo_push(lifo, items[init_stack[i]]);
    cs_watch(&lifo->lifo_head, sizeof(lifo->lifo_head), "lifo_head");
    for (int i = 0; i < NITEMS; i++) cs_watch(&items[i]->list_next, 2 * sizeof(void *), "item");
}

static void finish_and_check(void)
{
    /* walk what is left in the lifo (bounded: detects cycles) */
    nfinal = 0; int seen[NITEMS] = {0};
    for (parsec_list_item_t *it = lifo->lifo_head.data.item; it; it = (parsec_list_item_t *)it->list_next) {
        int id = id_of(it);
        CS_CHECK(id >= 0, "lifo contains an unknown pointer %p", (void *)it);
        CS_CHECK(!seen[id], "item %d appears twice in the lifo (cycle/duplicate)", id);
        CS_CHECK(nfinal < NITEMS, "lifo longer than the number of items");
        seen[id] = 1; final_stack[nfinal++] = id;
    }
    /* conservation: #insertions - #pops == still in the lifo, per item */
    int popped[NITEMS] = {0}, inserted[NITEMS] = {0};
    for (int k = 0; k < nops; k++) CS_CHECK(ops[k].res != -2, "pop returned a pointer that is not an item");
    for (int k = 0; k < nops; k++) if ((ops[k].type == OP_POP || ops[k].type == OP_TRYPOP) && ops[k].res >= 0) popped[ops[k].res]++;
    for (int i = 0; i < ninit; i++) inserted[init_stack[i]]++;
    for (int k = 0; k < nops; k++) { if (ops[k].type == OP_PUSH) inserted[ops[k].a]++; if (ops[k].type == OP_CHAIN2) { inserted[ops[k].a]++; inserted[ops[k].b]++; } if (ops[k].type == OP_CHAIN3) { inserted[ops[k].a]++; inserted[ops[k].b]++; inserted[ops[k].c]++; } }
    for (int i = 0; i < NITEMS; i++)
        CS_CHECK(inserted[i] - popped[i] == seen[i], "item %d: inserted %d times, popped %d times, in lifo %d (lost or duplicated)", i, inserted[i], popped[i], seen[i]);
    cs_span_t sp[MAXOPS];
    for (int k = 0; k < nops; k++) { sp[k].call = ops[k].call; sp[k].ret = ops[k].ret; }
    char buf[400]; int o = 0;
    for (int k = 0; k < nops; k++) {
        if (ops[k].type == OP_CHAIN3) o += snprintf(buf + o, sizeof(buf) - o, "%s(%d,%d,%d)=%d ", opname[ops[k].type], ops[k].a, ops[k].b, ops[k].c, ops[k].res);
        else o += snprintf(buf + o, sizeof(buf) - o, "%s(%d,%d)=%d ", opname[ops[k].type], ops[k].a, ops[k].b, ops[k].res);
    }
    o += snprintf(buf + o, sizeof(buf) - o, "| final:");
    for (int i = 0; i < nfinal; i++) o += snprintf(buf + o, sizeof(buf) - o, " %d", final_stack[i]);
    CS_CHECK(cs_linearizable(sp, nops, seq_check, NULL), "history not linearizable w.r.t. a sequential stack: %s", buf);
    cs_observe("%s", buf);
}

/* ---- scenario 1: ABA seeker. stack top->bottom: 0,1,2. T0: pop. T1: pop,pop,push(first popped) ---- */
static void s1_t0(void *a) { (void)a; do_pop(); }
static void s1_t1(void *a) { (void)a; int x = do_pop(); do_pop(); if (x >= 0) do_push(x); }
static void scen_aba(void) { setup_lifo(3); cs_body_t b[] = { s1_t0, s1_t1 }; cs_run(2, b, NULL); finish_and_check(); }

/* ---- scenario 2: push || pop || push on a 1-element stack ---- */
static void s2_t0(void *a) { (void)a; do_push(3); }
static void s2_t1(void *a) { (void)a; do_pop(); }
static void s2_t2(void *a) { (void)a; do_push(4); }
static void scen_ppp(void) { setup_lifo(1); cs_body_t b[] = { s2_t0, s2_t1, s2_t2 }; cs_run(3, b, NULL); finish_and_check(); }

/* ---- scenario 3: chain(ring of 2) || pop,pop || push ---- */
static void s3_t0(void *a) { (void)a; do_chain2(3, 4); }
static void s3_t1(void *a) { (void)a; do_pop(); do_pop(); }
static void s3_t2(void *a) { (void)a; do_push(5); }
static void scen_chain(void) { setup_lifo(1); cs_body_t b[] = { s3_t0, s3_t1, s3_t2 }; cs_run(3, b, NULL); finish_and_check(); }

/* ---- scenario 4: try_pop || try_pop || push, stack of 2 ---- */
static void s4_t0(void *a) { (void)a; do_trypop(); }
static void s4_t1(void *a) { (void)a; do_trypop(); }
static void s4_t2(void *a) { (void)a; do_push(5); }
static void scen_try(void) { setup_lifo(2); cs_body_t b[] = { s4_t0, s4_t1, s4_t2 }; cs_run(3, b, NULL); finish_and_check(); }

/* ---- scenario 5: ABA with three threads: pop || pop,push(x) || pop ---- */
static void s5_t1(void *a) { (void)a; int x = do_pop(); if (x >= 0) do_push(x); }
static void scen_aba3(void) { setup_lifo(3); cs_body_t b[] = { s1_t0, s5_t1, s1_t0 }; cs_run(3, b, NULL); finish_and_check(); }

/* ---- scenario 6: uninterrupted chained ring pops in ring order (sequential sanity + concurrent pop) ---- */
static void s6_t0(void *a) { (void)a; do_chain2(3, 4); int x = do_pop(); (void)x; }
static void s6_t1(void *a) { (void)a; do_pop(); }
static void scen_chain2(void) { setup_lifo(0); cs_body_t b[] = { s6_t0, s6_t1 }; cs_run(2, b, NULL); finish_and_check(); }


/* ==================================================================================================================
 * Generated (bounded-exhaustive) script families.
 *
 *   script = pre-state N<n> (n = 0..3 items in the lifo, item 0 on top)  x  T0: a ops || T1: b ops (|| T2: c ops)
 *   op     = p  pop                       t  try_pop
 *            u  push a fresh item         b  push back the OLDEST item this thread popped and still holds (skipped when it holds none)
 *            c  chain a ring of 2 fresh items            C  chain a ring of 3 fresh items (tail != second item)
 * The argument domain is as small as it can be: an operation either brings its own (fresh) items - renaming them changes nothing -
 * or RE-USES an item popped earlier by the same thread ('b'): re-use of an address is what makes operations on a lifo collide (ABA);
 * all operations collide on the single head.
 * Family = ALL scripts of a shape, minus those that violate the usage contract ('b' where the thread cannot hold an item: an item may
 * only be pushed by the thread that owns it, i.e. popped it), up to renaming of threads of equal length.
 * Text of a script (= scenario name, stored in the replay file):  g.N<n>.<ops of T0>.<ops of T1>[.<ops of T2>]   e.g. g.N3.ppb.p
 * Selection: C30_GEN="shape=3,1;ops=ptubcC;pre=0123;range=lo:hi"  (ops1=... gives T1/T2 a smaller alphabet than T0; with ops1 the threads
 *            are not interchangeable unless they have the same alphabet: see g_canonical)
 * ================================================================================================================== */
static const char gopl[] = "ptubcC";
typedef struct { int ninit, nthr, len[3]; char s[3][6]; char name[48]; } gdef_t;
static gdef_t *gdefs; static int ngdefs, capgdefs;
static long gen_raw, gen_contract;

static void g_thread(const gdef_t *g, int t)
{
    int held[8], nh = 0, hh = 0, fresh = 3 + 10 * t;
    for (int j = 0; j < g->len[t]; j++) {
        switch (g->s[t][j]) {
        case 'p': { int x = do_pop(); if (x >= 0) held[nh++] = x; } break;
        case 't': { int x = do_trypop(); if (x >= 0) held[nh++] = x; } break;
        case 'u': do_push(fresh++); break;
        case 'b': if (hh < nh) do_push(held[hh++]); break;
        case 'c': do_chain2(fresh, fresh + 1); fresh += 2; break;
        case 'C': do_chain3(fresh, fresh + 1, fresh + 2); fresh += 3; break;
        }
    }
}
static const gdef_t *cur_g;
static void g_t0(void *a) { (void)a; g_thread(cur_g, 0); }
static void g_t1(void *a) { (void)a; g_thread(cur_g, 1); }
static void g_t2(void *a) { (void)a; g_thread(cur_g, 2); }
static void run_g(const gdef_t *g) { cur_g = g; setup_lifo(g->ninit); cs_body_t b[] = { g_t0, g_t1, g_t2 }; cs_run(g->nthr, b, NULL); finish_and_check(); }

static void g_name(gdef_t *g)
{
    int o = snprintf(g->name, sizeof(g->name), "g.N%d", g->ninit);
    for (int t = 0; t < g->nthr; t++) { g->name[o++] = '.'; for (int j = 0; j < g->len[t]; j++) g->name[o++] = g->s[t][j]; }
    g->name[o] = 0;
}
static int g_parse(const char *txt, gdef_t *g)
{
    memset(g, 0, sizeof(*g));
    if (strncmp(txt, "g.N", 3) || txt[3] < '0' || txt[3] > '3' || strlen(txt) >= sizeof(g->name)) return -1;
    g->ninit = txt[3] - '0';
    int t = -1;
    for (const char *q = txt + 4; *q; q++) {
        if (*q == '.') { if (++t >= 3) return -1; continue; }
        if (t < 0 || !strchr(gopl, *q) || g->len[t] >= 5) return -1;
        g->s[t][g->len[t]++] = *q;
    }
    if (t < 1) return -1;
    for (int i = 0; i <= t; i++) if (!g->len[i]) return -1;
    g->nthr = t + 1; strcpy(g->name, txt);
    return 0;
}
/* usage contract: a thread pushes only items it owns. 'b' is generated only where the thread may hold an item (more pops than
 * push-backs before it in program order); if the pops returned NULL at run time the 'b' is skipped. */
static int g_contract(const gdef_t *g)
{
    for (int t = 0; t < g->nthr; t++) { int h = 0; for (int j = 0; j < g->len[t]; j++) { char c = g->s[t][j]; if (c == 'p' || c == 't') h++; if (c == 'b' && --h < 0) return 0; } }
    return 1;
}
static int g_distinct_t0;      /* ops1 given: T0 draws from another alphabet than T1/T2 and is not interchangeable with them */
static int g_canonical(const gdef_t *g)
{
    /* threads of equal length are interchangeable: keep the script whose threads (of equal length) are in non-decreasing order */
    for (int t = g_distinct_t0 ? 1 : 0; t + 1 < g->nthr; t++) if (g->len[t] == g->len[t + 1] && strncmp(g->s[t], g->s[t + 1], g->len[t]) > 0) return 0;
    return 1;
}
static void gen_family(const char *spec, int list_only)
{
    int shape[3] = {1, 1, 0}, nthr = 2, prel[4], npre = 0; char opsel[8] = "", opsel1[8] = ""; long lo = 0, hi = -1;
    char buf[256]; snprintf(buf, sizeof(buf), "%s", spec);
    for (char *tok = strtok(buf, ";"); tok; tok = strtok(NULL, ";")) {
        if (!strncmp(tok, "shape=", 6)) nthr = sscanf(tok + 6, "%d,%d,%d", &shape[0], &shape[1], &shape[2]);
        else if (!strncmp(tok, "ops=", 4)) { int n = 0; for (char *c = tok + 4; *c; c++) if (strchr(gopl, *c) && n < 6) opsel[n++] = *c; opsel[n] = 0; }
        else if (!strncmp(tok, "ops1=", 5)) { int n = 0; for (char *c = tok + 5; *c; c++) if (strchr(gopl, *c) && n < 6) opsel1[n++] = *c; opsel1[n] = 0; }   /* alphabet of T1, T2 (default: ops) */
        else if (!strncmp(tok, "pre=", 4)) { for (char *c = tok + 4; *c; c++) if (*c >= '0' && *c <= '3' && npre < 4) prel[npre++] = *c - '0'; }
        else if (!strncmp(tok, "range=", 6)) sscanf(tok + 6, "%ld:%ld", &lo, &hi);
        else { fprintf(stderr, "C30: bad C30_GEN token '%s'\n", tok); exit(2); }
    }
    if (!opsel1[0]) strcpy(opsel1, opsel); else g_distinct_t0 = strcmp(opsel, opsel1) != 0;
    int na = (int)strlen(opsel), na1 = (int)strlen(opsel1), total = 0;
    if (nthr < 2 || nthr > 3 || !na || !npre) { fprintf(stderr, "C30: incomplete C30_GEN '%s'\n", spec); exit(2); }
    for (int t = 0; t < nthr; t++) { if (shape[t] < 1 || shape[t] > 3) { fprintf(stderr, "C30: bad shape (1..3 operations per thread)\n"); exit(2); } total += shape[t]; }
    if (total > 7) { fprintf(stderr, "C30: shape too large\n"); exit(2); }
    int radix[8]; { int q = 0; for (int t = 0; t < nthr; t++) for (int j = 0; j < shape[t]; j++) radix[q++] = t ? na1 : na; }
    long ncomb = 1; for (int i = 0; i < total; i++) ncomb *= radix[i];
    long idx = 0;
    for (int pi = 0; pi < npre; pi++) for (long c = 0; c < ncomb; c++) {
        gdef_t g; memset(&g, 0, sizeof(g)); g.ninit = prel[pi]; g.nthr = nthr;
        int dig[8]; long r = c; for (int i = total - 1; i >= 0; i--) { dig[i] = (int)(r % radix[i]); r /= radix[i]; }
        int q = 0; for (int t = 0; t < nthr; t++) { g.len[t] = shape[t]; for (int j = 0; j < shape[t]; j++) g.s[t][j] = (t ? opsel1 : opsel)[dig[q++]]; }
        gen_raw++;
        if (!g_contract(&g)) continue;
        gen_contract++;
        if (!g_canonical(&g)) continue;
        long me = idx++;
        if (me < lo || (hi >= 0 && me >= hi)) continue;
        if (ngdefs == capgdefs) { capgdefs = capgdefs ? 2 * capgdefs : 256; gdefs = realloc(gdefs, capgdefs * sizeof(gdef_t)); }
        g_name(&g); gdefs[ngdefs++] = g;
    }
    if (list_only) {
        printf("{\"spec\":\"%s\",\"alphabet\":%d,\"generated\":%ld,\"after_contract\":%ld,\"after_relevance\":%ld,\"after_symmetry\":%ld,\"scripts\":[", spec, na, gen_raw, gen_contract, gen_contract, idx);
        for (int i = 0; i < ngdefs; i++) printf("%s\"%s\"", i ? "," : "", gdefs[i].name);
        printf("]}\n");
    }
}
/* cosched scenarios carry a parameterless run(): one trampoline per slot of gdefs[] */
#define MAXGEN 4096
#define G1(h)   static void gr_##h(void) { run_g(&gdefs[0x##h]); }
#define G16(h)  G1(h##0) G1(h##1) G1(h##2) G1(h##3) G1(h##4) G1(h##5) G1(h##6) G1(h##7) G1(h##8) G1(h##9) G1(h##a) G1(h##b) G1(h##c) G1(h##d) G1(h##e) G1(h##f)
#define G256(h) G16(h##0) G16(h##1) G16(h##2) G16(h##3) G16(h##4) G16(h##5) G16(h##6) G16(h##7) G16(h##8) G16(h##9) G16(h##a) G16(h##b) G16(h##c) G16(h##d) G16(h##e) G16(h##f)
G256(0) G256(1) G256(2) G256(3) G256(4) G256(5) G256(6) G256(7) G256(8) G256(9) G256(a) G256(b) G256(c) G256(d) G256(e) G256(f)
#define A1(h)   gr_##h,
#define A16(h)  A1(h##0) A1(h##1) A1(h##2) A1(h##3) A1(h##4) A1(h##5) A1(h##6) A1(h##7) A1(h##8) A1(h##9) A1(h##a) A1(h##b) A1(h##c) A1(h##d) A1(h##e) A1(h##f)
#define A256(h) A16(h##0) A16(h##1) A16(h##2) A16(h##3) A16(h##4) A16(h##5) A16(h##6) A16(h##7) A16(h##8) A16(h##9) A16(h##a) A16(h##b) A16(h##c) A16(h##d) A16(h##e) A16(h##f)
static void (*const gtramp[MAXGEN])(void) = { A256(0) A256(1) A256(2) A256(3) A256(4) A256(5) A256(6) A256(7) A256(8) A256(9) A256(a) A256(b) A256(c) A256(d) A256(e) A256(f) };
static int gen_main(int argc, char **argv)
{
    if (ngdefs > MAXGEN) { fprintf(stderr, "C30: %d generated scripts in one invocation (max %d): use range=\n", ngdefs, MAXGEN); return 2; }
    if (ngdefs == 0) { fprintf(stderr, "C30: the selection holds no script\n"); return 2; }
    cs_scenario_t *sc = calloc(ngdefs, sizeof(*sc));
    for (int i = 0; i < ngdefs; i++) { sc[i].name = gdefs[i].name; sc[i].run = gtramp[i]; }
    return cs_main(argc, argv, "C30", sc, ngdefs, NULL);
}

static cs_scenario_t scenarios[] = {
    { "aba_pop_vs_pop_pop_push", scen_aba, 0 },
    { "push_pop_push", scen_ppp, 0 },
    { "chain_pop_push", scen_chain, 0 },
    { "trypop_trypop_push", scen_try, 0 },
    { "aba3", scen_aba3, 0 },
    { "chain_order", scen_chain2, 0 },
};
int main(int argc, char **argv)
{
    /* generated families: C30_GEN=<spec> explores (a range of) a family; --gen-list prints it; the replay file of a generated script
     * carries the script text as its scenario name, from which the script is rebuilt */
    for (int i = 1; i < argc; i++) {
        if (!strcmp(argv[i], "--gen-list")) { const char *g = getenv("C30_GEN"); if (!g) return 2; gen_family(g, 1); return 0; }
        if (!strcmp(argv[i], "--replay") && i + 1 < argc) {
            FILE *f = fopen(argv[i + 1], "r"); char buf[4096]; size_t n = f ? fread(buf, 1, sizeof(buf) - 1, f) : 0; if (f) fclose(f); buf[n] = 0;
            char *q = strstr(buf, "\"scenario\":\"g.");
            if (q) {
                q += 12; char *e = strchr(q, '"'); if (!e) return 2; *e = 0;
                gdefs = calloc(1, sizeof(gdef_t)); ngdefs = 1;
                if (g_parse(q, &gdefs[0])) { fprintf(stderr, "C30: cannot parse the script text '%s'\n", q); return 2; }
                printf("generated script %s (rebuilt from the scenario text of the replay file)\n", q);
                return gen_main(argc, argv);
            }
        }
    }
    if (getenv("C30_GEN") && *getenv("C30_GEN")) { gen_family(getenv("C30_GEN"), 0); return gen_main(argc, argv); }
    return cs_main(argc, argv, "C30", scenarios, sizeof(scenarios) / sizeof(scenarios[0]), NULL);
}
