/* C04: DTD never runs conflicting accesses at the same time. Machinery: engine/rt/dtd_main.h (legs hold / gate / inproc). */
#define DTD_PROPERTY "C04"
#define DTD_DEFAULT_ORACLE 2      /* per-tile writers_in / readers_in counters + enter/exit stamps of conflicting pairs */
#include "dtd_main.h"
