/* C07: a task becomes ready exactly once, when its last input arrives (E1/cosched on the real parsec.c).
 *
 * Each controlled thread plays a completing predecessor and calls the real
 *   parsec_release_local_OUT_dependencies() -> tc->find_deps() -> tc->update_deps()
 * for "its" flow(s) of one or two successor task instances. The successor's task class is built by hand
 * (mask or counter mode, goal 1..4, optional inputs read straight from a collection, an optional control flow whose
 * presence depends on the instance, an optional control gather), find_deps is parsec_default_find_deps (array) or
 * parsec_hash_find_deps (hash table, first touch inserts concurrently), execution streams are fake but carry real
 * thread mempools. tc->update_deps points to a thin harness wrapper around the real parsec_update_deps_with_mask /
 * _with_counter that records the verdict at the moment it is produced.
 */
#include "parsec/parsec_config.h"
#include "parsec/parsec_internal.h"
#include "parsec/interfaces/interface.h"
#include "parsec/mempool.h"
#include "parsec/execution_stream.h"
#include "parsec/class/parsec_hash_table.h"
#include "parsec/utils/mca_param.h"
#include "cosched.h"
#include <stdio.h>
#include <string.h>
#include <stdlib.h>
#include <malloc.h>

#define NT 3
#define NINST 2
#define MAXF 6
#define MAXREL 4
enum { MASK = 0, COUNTER = 1 };
enum { ARRAY = 0, HASH = 1 };
typedef struct { int inst, flow; } rel_t;                       /* flow -1 terminates */
typedef struct {
    const char *name;
    int mode, backend;
    int k;              /* data flows 0..k-1 released by predecessors */
    int m;              /* data flows k..k+m-1 read straight from a collection (never released) */
    int ctl;            /* 1: one more flow (index k+m), a control that instance 1 expects and instance 0 does not */
    int gather;         /* >0: one more flow (control gather) that expects `gather` releases (counter mode only) */
    int nthreads, ninst;
    int qb, tb;         /* preemption bound in the quick / thorough tier (0 = not run) */
    rel_t rel[NT][MAXREL + 1];
} cfg_t;

static const cfg_t *C;
static parsec_taskpool_t *tp;
static parsec_task_class_t *tc;
static parsec_flow_t flows[MAXF]; static parsec_dep_t deps_in[MAXF]; static parsec_flow_t origin_flow;
static parsec_expr_t cond_expr, gather_expr; static parsec_symbol_t sym;
static parsec_task_t tmpl[NINST], origin[NT];
static parsec_execution_stream_t *es[NT];
static parsec_mempool_t ctx_mp, dep_mp;
static parsec_task_t *ring[NT];
static parsec_hash_table_t *ht;
/* ground truth (not watched) */
static int expected[NINST], started[NINST], returned[NINST], ready_count[NINST], ready_by[NINST], ready_flow[NINST];
static char verdicts[NT][24]; static int nverd[NT];
static int nflows_total;

static int32_t cond_fn(const parsec_taskpool_t *t, const parsec_assignment_t *l) { (void)t; return l[0].value == 1; }
static int32_t gather_fn(const parsec_taskpool_t *t, const parsec_assignment_t *l) { (void)t; (void)l; return C->gather; }
static parsec_key_t make_key(const parsec_taskpool_t *t, const parsec_assignment_t *l) { (void)t; return (parsec_key_t)(uintptr_t)(l[0].value + 1); }

/* the hook: tc->update_deps. Calls the real function and records what it decided, at once. */
static int my_update_deps(parsec_taskpool_t *t, const parsec_task_t *task, parsec_dependency_t *d,
                          const parsec_task_t *org, const parsec_flow_t *of, const parsec_flow_t *df)
{
    int inst = task->locals[0].value, me = cs_self();
    int r = (C->mode == MASK) ? parsec_update_deps_with_mask(t, task, d, org, of, df)
                              : parsec_update_deps_with_counter(t, task, d, org, of, df);
    if (me >= 0 && nverd[me] < 20) verdicts[me][nverd[me]++] = r ? 'R' : '-';
    if (r) {
        ready_count[inst]++;
        CS_CHECK(ready_count[inst] == 1, "instance %d declared ready a second time (by T%d releasing flow %d; first by T%d releasing flow %d); dependency word now 0x%x",
                 inst, me, df->flow_index, ready_by[inst], ready_flow[inst], *d);
        CS_CHECK(started[inst] == expected[inst], "instance %d declared ready by T%d (flow %d) although only %d of its %d required releases have started; dependency word 0x%x",
                 inst, me, df->flow_index, started[inst], expected[inst], *d);
        ready_by[inst] = me; ready_flow[inst] = df->flow_index;
    }
    return r;
}

static void body(void *arg)
{
    int me = (int)(intptr_t)arg;
    for (int i = 0; C->rel[me][i].flow >= 0; i++) {
        int inst = C->rel[me][i].inst, f = C->rel[me][i].flow;
        started[inst]++;
        int rc = parsec_release_local_OUT_dependencies(es[me], &origin[me], &origin_flow, &tmpl[inst], &flows[f], NULL, &ring[me],
                                                       (data_repo_t *)(uintptr_t)(0x5000 + inst), (parsec_data_copy_t *)(uintptr_t)(0x100 * (me + 1) + f),
                                                       (data_repo_entry_t *)(uintptr_t)(0x7000 + f));
        returned[inst]++;
        CS_CHECK(rc == PARSEC_SUCCESS, "parsec_release_local_OUT_dependencies returned %d", rc);
    }
}

static int lockw[8], nlockw;
static void discover_bucket_locks(void)
{   /* the bucket type is private to parsec_hash_table.c: find the lock words by taking the locks through the public API */
    parsec_key_handle_t kh; volatile int32_t *w = (volatile int32_t *)ht->rw_hash->buckets;
    int nw = (int)(malloc_usable_size(ht->rw_hash->buckets) / 4), nb = 1 << ht->rw_hash->nb_bits;
    nlockw = 0;
    for (uintptr_t c = 1; c < 64 && nlockw < nb; c++) {
        int before[64], found = -1;
        for (int i = 0; i < nw && i < 64; i++) before[i] = w[i];
        parsec_hash_table_lock_bucket_handle(ht, (parsec_key_t)c, &kh);
        for (int i = 0; i < nw && i < 64; i++) if (w[i] != before[i]) { CS_CHECK(found < 0 && before[i] == 0 && w[i] == 1, "harness: cannot identify the bucket lock word"); found = i; }
        parsec_hash_table_unlock_bucket_handle(ht, &kh);
        CS_CHECK(found >= 0 && w[found] == 0, "harness: bucket lock word not found");
        int known = 0; for (int i = 0; i < nlockw; i++) if (lockw[i] == found) known = 1;
        if (!known) lockw[nlockw++] = found;
    }
    CS_CHECK(nlockw == nb, "harness: bucket discovery failed");
}

static void run_cfg(const cfg_t *c)
{
    C = c;
    memset(expected, 0, sizeof(expected)); memset(started, 0, sizeof(started)); memset(returned, 0, sizeof(returned));
    memset(ready_count, 0, sizeof(ready_count)); memset(verdicts, 0, sizeof(verdicts)); memset(nverd, 0, sizeof(nverd));
    for (int i = 0; i < NINST; i++) { ready_by[i] = -1; ready_flow[i] = -1; }
    memset(flows, 0, sizeof(flows)); memset(deps_in, 0, sizeof(deps_in)); memset(tmpl, 0, sizeof(tmpl)); memset(origin, 0, sizeof(origin)); memset(ring, 0, sizeof(ring));
    /* ---- the successor's task class ---- */
    tp = calloc(1, sizeof(*tp)); tc = calloc(1, sizeof(*tc));
    tp->dependencies_array = calloc(1, sizeof(void *));
    cond_expr.op = PARSEC_EXPR_OP_INLINE; cond_expr.u_expr.v_func.type = PARSEC_RETURN_TYPE_INT32; cond_expr.u_expr.v_func.func.inline_func_int32 = cond_fn;
    gather_expr.op = PARSEC_EXPR_OP_INLINE; gather_expr.u_expr.v_func.type = PARSEC_RETURN_TYPE_INT32; gather_expr.u_expr.v_func.func.inline_func_int32 = gather_fn;
    memset(&sym, 0, sizeof(sym)); sym.name = "i"; sym.context_index = 0;
    int nf = 0;
    static char names[MAXF][8];
    for (int f = 0; f < c->k + c->m; f++, nf++) {
        snprintf(names[nf], 8, "D%d", nf); flows[nf].name = names[nf]; flows[nf].sym_type = PARSEC_SYM_IN;
        flows[nf].flow_flags = PARSEC_FLOW_ACCESS_READ | PARSEC_FLOW_HAS_IN_DEPS; flows[nf].flow_index = (uint8_t)nf;
        deps_in[nf].task_class_id = (f < c->k) ? 1 : PARSEC_LOCAL_DATA_TASK_CLASS_ID; deps_in[nf].belongs_to = &flows[nf];
        flows[nf].dep_in[0] = &deps_in[nf];
    }
    int ctl_flow = -1, gather_flow = -1;
    if (c->ctl) {
        ctl_flow = nf; snprintf(names[nf], 8, "C%d", nf); flows[nf].name = names[nf]; flows[nf].sym_type = PARSEC_SYM_IN;
        flows[nf].flow_flags = PARSEC_FLOW_ACCESS_NONE; flows[nf].flow_index = (uint8_t)nf;
        deps_in[nf].task_class_id = 1; deps_in[nf].cond = &cond_expr; deps_in[nf].belongs_to = &flows[nf]; flows[nf].dep_in[0] = &deps_in[nf]; nf++;
    }
    if (c->gather) {
        gather_flow = nf; snprintf(names[nf], 8, "G%d", nf); flows[nf].name = names[nf]; flows[nf].sym_type = PARSEC_SYM_IN;
        flows[nf].flow_flags = PARSEC_FLOW_ACCESS_NONE; flows[nf].flow_index = (uint8_t)nf;
        deps_in[nf].task_class_id = 1; deps_in[nf].ctl_gather_nb = &gather_expr; deps_in[nf].belongs_to = &flows[nf]; flows[nf].dep_in[0] = &deps_in[nf]; nf++;
    }
    nflows_total = nf;
    origin_flow.name = "O"; origin_flow.sym_type = PARSEC_SYM_OUT; origin_flow.flow_flags = PARSEC_FLOW_ACCESS_WRITE; origin_flow.flow_index = 0;
    tc->name = "SUCC"; tc->task_class_id = 0; tc->nb_flows = (uint8_t)nf; tc->nb_parameters = 1; tc->nb_locals = 1;
    tc->params[0] = &sym; tc->locals[0] = &sym;
    for (int f = 0; f < nf; f++) tc->in[f] = &flows[f];
    tc->flags = (uint16_t)((c->mode == MASK ? PARSEC_USE_DEPS_MASK : 0) | ((c->m || c->ctl) ? PARSEC_HAS_IN_IN_DEPENDENCIES : 0) | (c->gather ? PARSEC_HAS_CTL_GATHER : 0));
    tc->dependencies_goal = (c->mode == MASK) ? (parsec_dependency_t)((1u << nf) - 1) : (parsec_dependency_t)c->k;   /* what parsec-ptgpp would emit */
    tc->make_key = make_key; tc->key_functions = &parsec_hash_table_generic_key_fn;
    tc->find_deps = (c->backend == ARRAY) ? parsec_default_find_deps : parsec_hash_find_deps;
    tc->update_deps = my_update_deps;
    /* ---- what each instance needs ---- */
    for (int i = 0; i < c->ninst; i++) expected[i] = c->k + ((c->ctl && i == 1) ? 1 : 0) + c->gather;
    {   /* the scripts must release exactly that */
        int cnt[NINST] = {0};
        for (int t = 0; t < c->nthreads; t++) for (int j = 0; c->rel[t][j].flow >= 0; j++) cnt[c->rel[t][j].inst]++;
        for (int i = 0; i < c->ninst; i++) CS_CHECK(cnt[i] == expected[i], "harness: configuration %s releases %d inputs of instance %d, expected %d", c->name, cnt[i], i, expected[i]);
    }
    /* ---- execution streams with real mempools ---- */
    parsec_mempool_construct(&ctx_mp, PARSEC_OBJ_CLASS(parsec_task_t), sizeof(parsec_task_t), offsetof(parsec_task_t, mempool_owner), NT);
    parsec_mempool_construct(&dep_mp, NULL, sizeof(parsec_hashable_dependency_t), offsetof(parsec_hashable_dependency_t, mempool_owner), NT);
    void *helts[NT * NINST]; int nh = 0;
    for (int t = 0; t < NT; t++) {
        es[t] = calloc(1, sizeof(parsec_execution_stream_t)); es[t]->th_id = t;
        es[t]->context_mempool = &ctx_mp.thread_mempools[t]; es[t]->dependencies_mempool = &dep_mp.thread_mempools[t];
        void *x[NINST];
        for (int j = 0; j < NINST; j++) { x[j] = parsec_thread_mempool_allocate(es[t]->dependencies_mempool); helts[nh++] = x[j]; }
        for (int j = 0; j < NINST; j++) parsec_thread_mempool_free(es[t]->dependencies_mempool, x[j]);
        origin[t].taskpool = tp; origin[t].task_class = tc; origin[t].locals[0].value = 100 + t;
    }
    for (int i = 0; i < c->ninst; i++) { tmpl[i].taskpool = tp; tmpl[i].task_class = tc; tmpl[i].locals[0].value = i; tmpl[i].priority = 10 + i; }
    /* ---- dependency storage ---- */
    parsec_dependencies_t *darr = NULL;
    if (c->backend == ARRAY) {
        darr = calloc(1, sizeof(parsec_dependencies_t) + NINST * sizeof(parsec_dependency_t));
        darr->flags = PARSEC_DEPENDENCIES_FLAG_FINAL; darr->min = 0; darr->max = NINST - 1;
        tp->dependencies_array[0] = darr;
        cs_watch(&darr->u.dependencies[0], NINST * sizeof(parsec_dependency_t), "dependency_words");
    } else {
        ht = calloc(1, sizeof(*ht));
        parsec_hash_table_init(ht, offsetof(parsec_hashable_dependency_t, ht_item), 1, parsec_hash_table_generic_key_fn, NULL);
        tp->dependencies_array[0] = (parsec_dependencies_t *)ht;
        discover_bucket_locks();
        for (int i = 0; i < nlockw; i++) cs_watch((int32_t *)ht->rw_hash->buckets + lockw[i], 4, "bucket_lock");
        for (int i = 0; i < nh; i++) cs_watch(&((parsec_hashable_dependency_t *)helts[i])->dependency, sizeof(parsec_dependency_t), "hashed_dependency");
    }
    cs_body_t b[NT] = { body, body, body }; void *a[NT] = { (void *)0, (void *)1, (void *)2 };
    cs_run(c->nthreads, b, a);
    /* ---- oracle at the end: every instance is ready exactly once and sits in exactly one ring ---- */
    int in_rings[NINST] = {0};
    for (int t = 0; t < NT; t++) {
        if (!ring[t]) continue;
        parsec_list_item_t *it = &ring[t]->super; int n = 0;
        do {
            parsec_task_t *nt_ = (parsec_task_t *)it;
            CS_CHECK(nt_->task_class == tc && nt_->taskpool == tp, "ready ring of T%d holds a task with a wrong class/taskpool", t);
            int inst = nt_->locals[0].value;
            CS_CHECK(inst >= 0 && inst < c->ninst, "ready ring of T%d holds an unknown instance %d", t, inst);
            in_rings[inst]++;
            CS_CHECK(ready_by[inst] == t, "instance %d is in the ready ring of T%d but was declared ready by T%d", inst, t, ready_by[inst]);
            int f = ready_flow[inst];
            CS_CHECK(nt_->data[f].data_in == (parsec_data_copy_t *)(uintptr_t)(0x100 * (t + 1) + f) && nt_->data[f].source_repo == (data_repo_t *)(uintptr_t)(0x5000 + inst),
                     "ready copy of instance %d does not carry the data of the release that completed it", inst);
            CS_CHECK(nt_->priority == 10 + inst, "ready copy of instance %d lost its priority", inst);
            it = (parsec_list_item_t *)it->list_next;
            CS_CHECK(++n <= NINST, "ready ring of T%d is corrupted", t);
        } while (it != &ring[t]->super);
    }
    char out[200]; int o = 0;
    for (int i = 0; i < c->ninst; i++) {
        CS_CHECK(returned[i] == expected[i], "harness: not all releases of instance %d returned", i);
        parsec_dependency_t w;
        if (c->backend == ARRAY) w = darr->u.dependencies[i];
        else { parsec_hashable_dependency_t *hd = parsec_hash_table_nolock_find(ht, make_key(tp, tmpl[i].locals)); CS_CHECK(hd != NULL, "instance %d has no dependency record in the hash table", i); w = hd->dependency; }
        CS_CHECK(ready_count[i] == 1 && in_rings[i] == 1, "all %d required inputs of instance %d were released but it was handed to the scheduler %d time(s) (update_deps said ready %d time(s)); dependency word 0x%x",
                 expected[i], i, in_rings[i], ready_count[i], w);
        if (c->mode == MASK) CS_CHECK((w & tc->dependencies_goal) == tc->dependencies_goal, "instance %d: final mask 0x%x misses bits of the goal 0x%x", i, w, tc->dependencies_goal);
        else CS_CHECK(w == 0, "instance %d: final counter is %d, not 0", i, (int)w);
        o += snprintf(out + o, sizeof(out) - o, "i%d:T%d.f%d ", i, ready_by[i], ready_flow[i]);
    }
    if (c->backend == HASH) {   /* no duplicate records for one instance */
        int used = 0; for (int t = 0; t < NT; t++) { int n = 0; for (parsec_list_item_t *it = dep_mp.thread_mempools[t].mempool.lifo_head.data.item; it; it = (parsec_list_item_t *)it->list_next) n++; used += NINST - n; }
        CS_CHECK(used == c->ninst, "%d dependency records were allocated for %d task instances", used, c->ninst);
    }
    cs_observe("%s| %s %s %s", out, verdicts[0], verdicts[1], verdicts[2]);
}

#define X {0,-1}
/* flows: data 0..k-1, then m collection inputs, then the control (index k+m), then the gather */
static const cfg_t cfgs[] = {
    /* name                 mode     backend k m ctl g  nt ni qb tb  releases per thread {inst,flow} */
    { "mask_array_g2",       MASK,    ARRAY, 2,0,0,0,  2,2, 3,4, { { {0,0},{1,1},X }, { {1,0},{0,1},X }, { X } } },
    { "mask_array_g3",       MASK,    ARRAY, 3,0,0,0,  3,2, 1,4, { { {0,0},{1,0},X }, { {0,1},{1,1},X }, { {1,2},{0,2},X } } },
    { "mask_array_g4",       MASK,    ARRAY, 4,0,0,0,  3,1, 1,4, { { {0,0},{0,3},X }, { {0,1},X }, { {0,2},X } } },
    { "mask_array_g1_in2",   MASK,    ARRAY, 1,2,0,0,  2,2, 3,4, { { {0,0},X }, { {1,0},X }, { X } } },
    { "mask_array_g2_in1_ctl", MASK,  ARRAY, 2,1,1,0,  3,2, 1,4, { { {0,0},{1,1},X }, { {1,0},{0,1},X }, { {1,3},X } } },
    { "mask_hash_g2",        MASK,    HASH,  2,0,0,0,  2,2, 2,3, { { {0,0},{1,1},X }, { {1,0},{0,1},X }, { X } } },
    { "mask_hash_g3",        MASK,    HASH,  3,0,0,0,  3,1, 1,3, { { {0,0},X }, { {0,1},X }, { {0,2},X } } },
    { "mask_hash_g2_in1_ctl", MASK,   HASH,  2,1,1,0,  3,2, 1,2, { { {0,0},{1,1},X }, { {1,0},{0,1},X }, { {1,3},X } } },
    { "counter_array_g2",    COUNTER, ARRAY, 2,0,0,0,  2,2, 3,4, { { {0,0},{1,1},X }, { {1,0},{0,1},X }, { X } } },
    { "counter_array_g3",    COUNTER, ARRAY, 3,0,0,0,  3,2, 1,4, { { {0,0},{1,0},X }, { {0,1},{1,1},X }, { {1,2},{0,2},X } } },
    { "counter_array_g4",    COUNTER, ARRAY, 4,0,0,0,  3,1, 1,4, { { {0,0},{0,3},X }, { {0,1},X }, { {0,2},X } } },
    { "counter_array_g1_in2", COUNTER, ARRAY, 1,2,0,0, 2,2, 3,4, { { {0,0},X }, { {1,0},X }, { X } } },
    { "counter_array_g1_ctl_gather2", COUNTER, ARRAY, 1,0,1,2, 3,2, 1,4, { { {0,0},{1,2},{1,1},X }, { {0,2},{1,0},X }, { {0,2},{1,2},X } } },
    { "counter_hash_g2",     COUNTER, HASH,  2,0,0,0,  2,2, 2,3, { { {0,0},{1,1},X }, { {1,0},{0,1},X }, { X } } },
    { "counter_hash_g3",     COUNTER, HASH,  3,0,0,0,  3,1, 1,3, { { {0,0},X }, { {0,1},X }, { {0,2},X } } },
    { "counter_hash_g2_gather2", COUNTER, HASH, 2,0,0,2, 3,1, 1,2, { { {0,0},{0,2},X }, { {0,1},X }, { {0,2},X } } },
};
#define NCFG ((int)(sizeof(cfgs) / sizeof(cfgs[0])))
#define R(i) static void run_##i(void) { run_cfg(&cfgs[(i) < NCFG ? (i) : 0]); }
R(0) R(1) R(2) R(3) R(4) R(5) R(6) R(7) R(8) R(9) R(10) R(11) R(12) R(13) R(14) R(15) R(16) R(17) R(18) R(19)
static void (*runners[])(void) = { run_0, run_1, run_2, run_3, run_4, run_5, run_6, run_7, run_8, run_9, run_10, run_11, run_12, run_13, run_14, run_15, run_16, run_17, run_18, run_19 };
static cs_scenario_t scenarios[20];
static void setup(void)
{
    parsec_mca_param_init();
    parsec_hash_tables_init();
    /* lazy class initialisation outside the controlled runs */
    parsec_mempool_t mp; parsec_mempool_construct(&mp, PARSEC_OBJ_CLASS(parsec_task_t), sizeof(parsec_task_t), offsetof(parsec_task_t, mempool_owner), 1);
    void *x = parsec_thread_mempool_allocate(&mp.thread_mempools[0]); parsec_thread_mempool_free(&mp.thread_mempools[0], x);
}
int main(int argc, char **argv)
{
    int quick = getenv("C07_QUICK") && atoi(getenv("C07_QUICK")), n = 0;
    for (int i = 0; i < NCFG; i++) {
        int b = quick ? cfgs[i].qb : cfgs[i].tb;
        if (b == 0) continue;
        scenarios[n].name = cfgs[i].name; scenarios[n].run = runners[i]; scenarios[n].max_bound = b; n++;
    }
    return cs_main(argc, argv, "C07", scenarios, n, setup);
}
