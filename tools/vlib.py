"""Shared driver library for the /verif checks (build, compile harness, run engines, evidence)."""
import json, os, subprocess, sys, time, shlex, glob

VERIF = os.environ.get('VERIF_ROOT', '/verif')
REPO = os.environ.get('VERIF_REPO', '/repo')
BUILD = os.path.join(VERIF, '.build')
OUT = os.path.join(VERIF, 'out')
NJOBS = int(os.environ.get('VERIF_JOBS', str(os.cpu_count() or 4)))


class Broken(Exception):
    pass


def sh(cmd, **kw):
    return subprocess.run(cmd, **kw)


def known_findings():
    p = os.path.join(VERIF, 'known_findings.json')
    if not os.path.exists(p):
        return []
    return json.load(open(p)).get('findings', [])


class Ctx:
    def __init__(self, pid, tier):
        self.pid = pid
        self.tier = tier
        self.seed = int(os.environ.get('VERIF_SEED', '0') or 0)
        self.t0 = time.time()
        self.legs = []
        self.violations = []      # (replay, message)
        self.known = []           # strings
        self.broken = []
        self.assumptions = []
        self.notes = []
        self.deadline = None
        os.makedirs(os.path.join(OUT, 'replay'), exist_ok=True)
        os.makedirs(os.path.join(OUT, 'bin'), exist_ok=True)
        os.makedirs(os.path.join(OUT, 'res'), exist_ok=True)

    # ---------------- time budget ----------------
    def set_budget(self, seconds):
        self.deadline = self.t0 + seconds

    def remaining(self):
        if self.deadline is None:
            return 1e9
        return max(0.0, self.deadline - time.time())

    # ---------------- build ----------------
    def build(self, flavour):
        r = sh([os.path.join(VERIF, 'tools', 'vbuild'), flavour], capture_output=True, text=True)
        if r.returncode != 0:
            sys.stderr.write(r.stdout + r.stderr)
            raise Broken('build of flavour %s failed' % flavour)
        return r.stdout.strip().splitlines()[-1]

    def flags(self, flavour):
        b = os.path.join(BUILD, flavour)
        inc = ['-I%s/parsec/include' % b, '-I%s' % b, '-I%s/parsec/include' % REPO, '-I%s' % REPO,
               '-I%s/engine/cosched' % VERIF, '-I%s/engine/seqx' % VERIF, '-I%s/engine/vranks' % VERIF, '-I%s/engine/rt' % VERIF, '-I%s/vtsan' % BUILD]
        defs = ['-DBUILDING_PARSEC', '-D_GNU_SOURCE', '-DPARSEC_VERIF_HOOKS']
        cf = ['-std=gnu11', '-O1', '-g', '-mcx16', '-Wall', '-Wno-unused-function', '-Wno-unused-variable', '-Wno-unused-parameter']
        ld = ['-L%s/parsec' % b, '-Wl,-rpath,%s/parsec' % b, '-lparsec', '-lpthread', '-lm', '-ldl', '-lhwloc']
        return inc, defs, cf, ld

    def compile(self, flavour, name, srcs, engine=None, instr=None, cflags=(), ldflags=(), link_parsec=True, memops=False, mpi=False):
        """Compile a harness executable; returns its path. srcs relative to harness/<pid>/ or absolute."""
        b = self.build(flavour)
        inc, defs, cf, ld = self.flags(flavour)
        if instr is None:
            instr = (flavour == 'hk-shm')
        exe = os.path.join(OUT, 'bin', '%s-%s' % (self.pid, name))
        hdir = os.path.join(VERIF, 'harness', self.pid)
        objs = []
        env = dict(os.environ)
        cc = os.path.join(VERIF, 'tools', 'vcc')
        if mpi:
            env['VCC_REAL'] = '/usr/bin/mpicc'
        allsrc = [(s if os.path.isabs(s) else os.path.join(hdir, s), instr) for s in srcs]
        if engine == 'cosched':
            allsrc.append((os.path.join(VERIF, 'engine/cosched/cosched.c'), False))
            if memops:
                allsrc.append((os.path.join(VERIF, 'engine/cosched/cs_memops.c'), False))
        # object cache keyed by the hash of the PREPROCESSED translation unit + flags: a change anywhere in
        # /repo's headers, the generated config, the harness or the engine changes the key, so nothing stale is reused
        import hashlib, shutil
        cdir = os.path.join(OUT, 'cache')
        os.makedirs(cdir, exist_ok=True)
        jobs = []
        for i, (s, ins) in enumerate(allsrc):
            o = exe + '.%d.o' % i
            objs.append(o)
            e = dict(env)
            if not ins:
                e['VCC_NOINSTR'] = '1'
            extra = ['-fno-builtin'] if s.endswith('cs_memops.c') else []
            base = [cc] + cf + extra + list(cflags) + defs + inc
            jobs.append((s, o, e, base, subprocess.Popen(base + ['-E', s], env=e, stdout=subprocess.PIPE, stderr=subprocess.PIPE)))
        procs = []
        for s, o, e, base, pp in jobs:
            out, err = pp.communicate()
            if pp.returncode != 0:
                sys.stderr.write(err.decode(errors='replace'))
                raise Broken('preprocessing of %s failed' % s)
            h = hashlib.sha256(out + b'\0' + ' '.join(base).encode() + b'\0' + e.get('VCC_NOINSTR', '0').encode() + e.get('VCC_REAL', '').encode()).hexdigest()
            co = os.path.join(cdir, h + '.o')
            if os.path.exists(co):
                shutil.copyfile(co, o)
                continue
            procs.append((s, o, co, subprocess.Popen(base + ['-c', s, '-o', o], env=e, stdout=subprocess.PIPE, stderr=subprocess.STDOUT, text=True)))
        for s, o, co, p in procs:
            out, _ = p.communicate()
            if p.returncode != 0:
                sys.stderr.write(out)
                raise Broken('compilation of %s failed' % s)
            try:
                tmp = co + '.%d.tmp' % os.getpid()
                shutil.copyfile(o, tmp); os.replace(tmp, co)
            except OSError:
                pass
        r = sh([cc] + objs + ['-o', exe] + (ld if link_parsec else ['-lpthread', '-lm']) + list(ldflags), env=env, capture_output=True, text=True)
        if r.returncode != 0:
            sys.stderr.write(r.stdout + r.stderr)
            raise Broken('link of %s failed' % exe)
        return exe

    # ---------------- engines ----------------
    def run_engine(self, exe, args, label=None, timeout=None, env=None):
        """Run a harness executable that follows the common protocol:
        writes a result JSON to --json, prints VIOLATION / KNOWN-FINDING lines, exit 0/1/2."""
        label = label or os.path.basename(exe)
        js = os.path.join(OUT, 'res', '%s-%s-%d.json' % (self.pid, label, len(self.legs)))
        if os.path.exists(js):
            os.unlink(js)
        cmd = [exe] + list(args) + ['--json', js]
        try:
            r = sh(cmd, capture_output=True, text=True, timeout=timeout, env=env)
        except subprocess.TimeoutExpired:
            self.broken.append('%s: timed out after %ss' % (label, timeout))
            return None
        sys.stderr.write(r.stderr)
        for line in r.stdout.splitlines():
            if line.startswith('VIOLATION '):
                rp = line.split('replay=', 1)[1].strip() if 'replay=' in line else ''
                self.violations.append((rp, label))
                print(line)
            elif line.startswith('KNOWN-FINDING:'):
                if line not in self.known:
                    self.known.append(line)
                    print(line)
            elif line.startswith('  '):
                print(line)
        res = None
        if os.path.exists(js):
            try:
                res = json.load(open(js))
            except Exception as e:
                self.broken.append('%s: unreadable result JSON (%s)' % (label, e))
        if r.returncode not in (0, 1):
            self.broken.append('%s: exit status %d\n%s' % (label, r.returncode, (r.stderr or '')[-2000:]))
        if r.returncode == 1 and not any(v[1] == label for v in self.violations):
            self.broken.append('%s: exit 1 without a VIOLATION line' % label)
        if res:
            for sc in res.get('scenarios', []):
                sc['leg'] = label
                sc.setdefault('engine', res.get('engine', '?'))
                self.legs.append(sc)
                if sc.get('broken'):
                    self.broken.append('%s/%s: harness nondeterminism or internal error' % (label, sc.get('name')))
        return res

    def run_cosched(self, exe, bound, scenario='all', deadline=None, label=None, extra=()):
        args = ['--bound', str(bound), '--scenario', scenario, '--jobs', str(NJOBS), '--outdir', OUT] + list(extra)
        if deadline:
            args += ['--deadline', str(int(deadline))]
        return self.run_engine(exe, args, label=label, timeout=(deadline or 3000) + 600)

    def add_leg(self, **kw):
        self.legs.append(kw)

    def violation(self, replay, msg):
        self.violations.append((replay, msg))
        print('VIOLATION property=%s replay=%s' % (self.pid, replay))
        print('  ' + msg)

    def known_finding(self, text):
        line = 'KNOWN-FINDING: property=%s %s' % (self.pid, text)
        if line not in self.known:
            self.known.append(line)
            print(line)

    def write_replay(self, name, obj):
        p = os.path.join(OUT, 'replay', '%s-%s.json' % (self.pid, name))
        obj = dict(obj)
        obj.setdefault('property', self.pid)
        json.dump(obj, open(p, 'w'), indent=1)
        return p

    # ---------------- evidence ----------------
    def finish(self, rule, assumptions=()):
        wall = time.time() - self.t0
        states = sum(int(l.get('states', 0)) for l in self.legs)
        trans = sum(int(l.get('transitions', 0)) for l in self.legs)
        evals = sum(int(l.get('executions', l.get('evaluations', 0))) for l in self.legs)
        nontriv = sum(int(l.get('nontrivial', 0)) for l in self.legs)
        outcomes = sum(int(l.get('distinct_outcomes', 0)) for l in self.legs)
        samples = []
        for l in self.legs:
            for s in l.get('samples', [])[:2]:
                samples.append({'leg': '%s/%s' % (l.get('leg', ''), l.get('name', '')), 'case': s})
        samples = samples[:24]
        exhaustive = bool(self.legs) and all(l.get('exhaustive', False) for l in self.legs)
        legs_summary = []
        for l in self.legs:
            d = {k: l[k] for k in l if k not in ('samples',)}
            legs_summary.append(d)
        ev = {
            'property_id': self.pid, 'tier': self.tier, 'seed': self.seed, 'level': 'model_checking',
            'coverage': {
                'states': states, 'transitions': trans, 'traces_validated_against_impl': evals,
                'samples': samples if samples else ['(no sample recorded)'],
                'evaluations': evals, 'distinct_nontrivial': nontriv, 'distinct_outcomes': outcomes,
                'rule': rule, 'exhaustive': exhaustive, 'legs': legs_summary,
                'known_findings_reported': self.known, 'notes': self.notes,
            },
            'assumptions': list(assumptions) + self.assumptions,
            'wall_s': round(wall, 2), 'violations': len(self.violations),
        }
        os.makedirs(os.path.join(VERIF, 'evidence'), exist_ok=True)
        if (not self.broken or self.violations) and not os.environ.get('VERIF_NO_EVIDENCE'):
            json.dump(ev, open(os.path.join(VERIF, 'evidence', '%s.json' % self.pid), 'w'), indent=1)
        print('%s %s: %d legs, states=%d transitions=%d executions=%d nontrivial=%d exhaustive=%s violations=%d known=%d wall=%.1fs'
              % (self.pid, self.tier, len(self.legs), states, trans, evals, nontriv, exhaustive, len(self.violations), len(self.known), wall))
        if self.violations:
            return 1
        if self.broken:
            for b in self.broken:
                sys.stderr.write('BROKEN: %s\n' % b)
            return 2
        return 0
