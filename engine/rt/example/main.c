#include "hsched.h"
#include "vdc.h"
#include "parsec/arena.h"
#include "t1.h"
static long nexec[3][16];
void vlog(int cls, int k, int64_t in, int64_t *out) { nexec[cls][k]++; *out = in * 3 + cls + 1; }
int main(int argc, char **argv)
{
    int NT = argc > 1 ? atoi(argv[1]) : 2;
    parsec_context_t *parsec = parsec_init(1, &argc, &argv);
    hs_install(parsec);
    hs_explorer_t *ex = malloc(sizeof(*ex)); hs_begin(ex, -1, 60);
    double t0 = hs_now();
    while (hs_next(ex)) {
        memset(nexec, 0, sizeof(nexec));
        vdc_t *A = vdc_new(NT, sizeof(int64_t), 1, 0, NULL);
        for (int i = 0; i < NT; i++) *(int64_t *)vdc_elem(A, i) = 100 + i;
        parsec_t1_taskpool_t *tp = parsec_t1_new(&A->super, NT);
        parsec_arena_datatype_set_type(&tp->arenas_datatypes[PARSEC_t1_DEFAULT_ADT_IDX], sizeof(int64_t), PARSEC_ARENA_ALIGNMENT_SSE, PARSEC_DATATYPE_NULL);
        parsec_context_add_taskpool(parsec, &tp->super);
        parsec_context_start(parsec);
        parsec_context_wait(parsec);
        for (int k = 0; k < NT; k++) if (nexec[0][k] != 1 || nexec[2][k] != 1 || nexec[1][2*k] != 1 || nexec[1][2*k+1] != 1) { printf("BAD counts\n"); return 1; }
        if (ex->runs == 0) printf("order: %s | A0=%ld\n", ex->order, (long)*(int64_t *)vdc_elem(A, 0));
        parsec_taskpool_free(&tp->super);
        vdc_free(A);
        hs_end_run(ex);
    }
    printf("NT=%d runs=%ld nodes=%ld maxpts=%d exhaustive=%d %.2fs\n", NT, ex->runs, ex->nodes, ex->max_points, ex->exhaustive, hs_now() - t0);
    hs_uninstall(parsec);
    parsec_fini(&parsec);
    return 0;
}
