import os, sys, time
sys.path.insert(0, os.path.join(os.environ.get('VERIF_ROOT', '/verif'), 'engine', 'rt'))
import ptgfam, ptgrun
sys.path.insert(0, os.path.join(os.environ.get('VERIF_ROOT', '/verif'), 'harness', 'C02'))
import il

META = dict(
    engine='rt+cosched',
    technique='bounded-exhaustive PTG-IR program family x exhaustive task-level schedule enumeration (harness scheduler, in-process DFS) x exhaustive configuration box (11 schedulers x threads x 2 dependency back-ends x mask/counter dependency modes x start-up chunking); reference interpreter gives predecessor sets, the value of every input flow and the final collection contents; plus (legs il-*) preemption-bounded exhaustive INSTRUCTION-level schedule enumeration (cosched) of two execution streams running the real generated code of five small join / fan-out / chain / chunked-start-up taskpools on both dependency back-ends',
    level_text='For every program of an enumerated family of dependency shapes (RW chains, ternary routing, range fan-out, CTL gather, multi-flow fan-in, collection inputs mixed with task inputs, WRITE/NEW/NULL flows, reduction tree, 2-D wavefront, strided ranges; start-up condition grid; both dependency back-ends; mask and counter modes) every task body starts only after all predecessors named by its active input deps completed, reads on every input flow exactly the value the reference interpreter predicts, and the final collection contents equal the reference: under EVERY task-level order for the small variants (deviation-bounded above) and free-running over the whole configuration box. Legs il-*: for five 3-4 task programs (two producers joined in mask mode, CTL gather in counter mode, fan-out 2 sharing one repo entry, RW chain with a side reader, chunked start-up with a join) x 2 back-ends, every interleaving of stream 0 (parsec_context_add_taskpool + parsec_context_wait) and stream 1 (worker loop) with <= 1 preemption (quick; <= 2 for the join shapes; thorough <= 2 everywhere, <= 3 for the smallest join) at instrumented accesses to the taskpool counters, dependency tables, repositories and entries, scheduler queue: same oracle plus exactly-once execution, termination callback once and last, no repo entry leaked or reclaimed twice.',
    level_note='Programs are restricted to those PaRSEC defines (interpreter refuses unordered conflicting accesses to a copy, NULL forwarding, mismatched in/out deps). On the non-distributed hk-shm flavour the generated complete_hook does not copy a flow back to a collection element it did not come from (code under #if DISTRIBUTED), so write-backs are in-place only. Task bodies atomic at the schedule level; instruction-level races of the readiness test / repo reclamation are C07 / C25 and, on whole taskpools, the il legs (sequential consistency, 2 streams, harness FIFO scheduler, bounds as stated).',
)
RULE = ("programs: explicit enumeration (ptgfam.c02_family), validated by the reference interpreter; hsched leg: DFS over every choice of the next ready task for variants with <= K instances, "
        "deviation-bounded DFS above; in every run every body checks predecessor completion, the value on each input flow and NULL-ness, the driver checks final collection contents; "
        "non-trivial = order with >= 1 non-canonical choice (hs) / run using >= 2 threads (free); distinct outcomes = distinct body completion orders")
ORACLE = 2 | 4 | 8


def prepare(ctx):
    quick = ctx.tier == 'quick'
    progs, refused = ptgfam.c02_family(ctx.tier)
    t0 = time.time()
    R = ptgrun.Runner(ctx)
    t1 = time.time()
    exes = R.build_all(progs)
    ctx.notes.append('library build %.1fs, programs build (ptgpp + cc, %d programs x 2 back-ends) %.1fs' % (t1 - t0, len(progs), time.time() - t1))
    grid = ','.join('%d:%d' % (i, c) for i in (1, 2, 0) for c in (1, 3, 0))
    if quick:
        hs, fr, kn = ptgrun.make_jobs(progs, exes, ORACLE, True, '0,1:1', '0,1:1', (1, 2, 4), 2, 5, 2, 14, 16)
    else:
        hs, fr, kn = ptgrun.make_jobs(progs, exes, ORACLE, False, '0,1:1,2:3', grid, (1, 2, 3, 4, 8), 2, 6, 3, 75, 200)
    ctx.notes.append('%d programs, %d variants; %d variants refused by the reference interpreter' % (len(progs), sum(len(p.variants) for p in progs), refused))
    return R, hs, fr, kn


def check(ctx):
    import time
    from concurrent.futures import ThreadPoolExecutor
    # Order of the legs: the exhaustive task-level leg (hsched, deterministic), then the instruction-level legs (il, deterministic,
    # replayable), then the free-running configuration box (configurations, not schedules: a failure there may not replay).
    # The il executables (ptgpp + instrumented cc) are built in the background meanwhile.
    t2 = time.time()
    fut = ThreadPoolExecutor(1).submit(il.build, ctx)
    il_only = bool(os.environ.get('VERIF_IL_ONLY'))   # debugging aid: VERIF_IL_ONLY=1 runs the il legs alone (no evidence written)
    if il_only:
        os.environ.setdefault('VERIF_NO_EVIDENCE', '1')
    else:
        R, hs, fr, kn = prepare(ctx)
        R.run_jobs(hs, 'hsched-all-task-orders')
    B = fut.result()
    ctx.notes.append('il legs: executables (ptgpp + instrumented cc, 5 programs x 2 back-ends) ready %.1fs after the start of the check' % (time.time() - t2))
    if not ctx.violations:
        il.run(ctx, B)
    if not il_only:
        R.run_jobs(fr, 'free-running-configuration-box')
        if kn:
            R.run_jobs(kn, 'recorded-findings', stop_on_violation=False)
        ctx.notes += R.notes
        R.cleanup()
    return ctx.finish(RULE + '; ' + il.RULE, il.ASSUME + ['task bodies and runtime actions atomic at the task level (primitives: E1 checks C07/C25)',
                             'single process, shared memory (hk-shm): write-back to a collection only in place',
                             'reference interpreter (engine/rt/ptgir.py) defines the valid-program semantics and the body function'])


def replay(ctx, path, obj):
    if obj.get('engine') == 'cosched':
        return il.replay(ctx, path, obj)
    return ptgrun.replay(ctx, path, obj, ptgfam.c02_family('thorough')[0])
