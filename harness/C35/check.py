META = dict(
    engine='seqx+cosched',
    technique='explicit-state model checking: BFS to closure over all reachable contents of the real parsec_hbbuffer_t (sizes 1..4) and all reachable forests of the real scheduler max-heap (insert/remove/split_and_steal over 5-8 tasks with tied priorities) against set models; plus preemption-bounded exhaustive schedule enumeration (CHESS) of concurrent push_all / push_all_by_priority / pop_best on one buffer',
    level_text='Sequential: for buffer sizes 1..4 and N tasks (N=5,6 quick; 5..8 thorough) every reachable buffer content x every operation (push_all and push_all_by_priority of every ring of <= 3 free tasks at distance 0, single tasks at distance 1/2, pop_best) is executed on the real code: buffer + parent store = pushed - popped as sets, overflow only when the buffer is full, pop_best returns a maximal-priority held task. Every reachable forest of up to 3 heaps over the N tasks x every insert/remove/split_and_steal is executed: every task in exactly one heap or returned exactly once, returned task has the maximal priority, top/priority/size fields right, max-heap order, complete-tree shape. Concurrent: every schedule with <= b preemptions (b=2 quick, 4 thorough) of seven 2-3 thread scripts on buffers of size 1-2 (forced overflow and CAS contention, one ABA seeker): nothing lost or duplicated, then a quiescent drain pops in non-increasing priority.',
    level_note='push_all_by_priority is only given rings in decreasing priority order (its contract). Priority preference under concurrency is not claimed (documented ABA window); sequential consistency at instrumented accesses; <= 3 threads, <= 2 operations per thread.',
)
RULE = ("seqx legs: BFS over operation histories on the real objects, states = distinct canonical contents (buffer: slot -> task; heaps: sorted pre-order encodings of every heap), every transition compared with the set model "
        "(non-trivial = shortest history >= 2 ops); cosched legs: every schedule with at most b preemptions, scheduling points = every instrumented access to the buffer slots (non-trivial = at least one preemption); states = nodes of the explored schedule tree")
def build_seq(ctx, nt):
    return ctx.compile('hk-shm', 'hbbseq%d' % nt, ['hbb_seq.c'], instr=False, cflags=['-DNT=%d' % nt])
def build_conc(ctx):
    return ctx.compile('hk-shm', 'hbbconc', ['hbb_conc.c'], engine='cosched')
def check(ctx):
    quick = ctx.tier == 'quick'
    for nt in ([5, 6] if quick else [5, 6, 7, 8]):
        ctx.run_engine(build_seq(ctx, nt), ['--outdir', '/verif/out', '--deadline', '600'] + ([] if quick else ['--thorough']), label='hbbseq%d' % nt, timeout=1200)
    ctx.run_cosched(build_conc(ctx), 2 if quick else 4, deadline=(100 if quick else 900), label='hbbconc')
    return ctx.finish(RULE, ["sequential consistency at instrumented accesses (no weak-memory effects)",
                             "push_all_by_priority receives rings sorted by decreasing priority (its contract)",
                             "the max-heap is used sequentially (documented: not thread safe, protected by the upper level)"])
def replay(ctx, path, obj):
    import subprocess, re
    if obj.get('engine') == 'seqx':
        nt = int(re.search(r'_n(\d+)$', obj['scenario']).group(1))
        return subprocess.call([build_seq(ctx, nt), '--replay', path])
    return subprocess.call([build_conc(ctx), '--replay', path])
