import os, json, subprocess, sys
sys.path.insert(0, os.path.join(os.environ.get('VERIF_ROOT', '/verif'), 'harness', 'C02'))
import il          # instruction-level leg of the real PTG runtime (harness/C02/il.py, c02_il.c), here on parsec_compose()d pools
META = dict(
    engine='rt+cosched',
    technique='stateless model checking at task granularity: a harness-owned scheduler enumerates every task-level execution order of the real runtime running parsec_compose()d PTG taskpools (one stream), plus a deviation-bounded enumeration for long compositions and a free-running configuration box; plus (legs il-*-compose*) preemption-bounded exhaustive instruction-level schedule enumeration (cosched) of two execution streams running a compound of 3 (thorough also 4) real generated PTG taskpools',
    level_text='For every composition of n<=3 ptgpp-generated chain taskpools (every assignment of 6 pool shapes for n<=2 and 5 for n=3 (quick) / 8 (thorough), 3 driver modes: add-then-start, start-then-add, taskpool_wait on the compound) EVERY task-level execution order on one execution stream is executed on the real runtime; for n in {5,16,17,20} (across the realloc boundary of parsec_compose) every order with <= 1 (quick) / 2 (thorough) deviations from the canonical order; in each execution: every task ran once, the last exit stamp of pool i precedes the first entry stamp of pool i+1, context_wait returned after all of them, the compound completion callback ran exactly once after the last task, taskpool_wait(compound) returned after the last task. Threads {1,2,4} x schedulers {default, ap, ll} run the same oracle free-running. Legs il-*-compose3 (thorough also compose4): parsec_compose of 3 (4) one-task / two-task PTG pools x 2 dependency back-ends on two controlled execution streams (stream 0: add_taskpool(compound) + context_wait; stream 1: worker loop; next_task retention off so that the pool enabled by a completion callback can run on the other stream while the callback is still executing), every interleaving with <= 1 preemption (thorough <= 2) at instrumented accesses to the compound (completed_taskpools, pending actions, monitor), the member pools counters / dependency tables / repositories, the scheduler queue and active_taskpools: same oracle (each task once, pools strictly one after another, compound callback once after the last task and before context_wait returns, no hang, no failed assertion).',
    level_note='Task bodies and runtime actions (completion callbacks included) are atomic in the task-level legs (instruction-level atomicity of the primitives is C07/C10/C30..; the il legs interleave the callbacks with the other stream at instruction level, 2 streams, sequential consistency, bounds as stated); single process (hk-shm, MPI off); pools are W independent chains of L CTL-linked tasks, W<=4, L<=3. The free-running legs enumerate configurations, not schedules. A crash / failed assertion / hang of the runtime on a case is reported as a violation with that case.',
)
RULE = ("hsched DFS: one execution = one complete run (compose, add, start, wait) of the real runtime under one choice list of the "
        "harness scheduler (every select() with >1 pending ready tasks is a choice point, pending tasks in canonical order); states = nodes of the choice tree; "
        "transitions = scheduling decisions; non-trivial = executions that deviate from the canonical order at least once (legs orders/bounded) or run on >1 thread (leg threads); "
        "outcomes = distinct (task execution order, callback position) strings")
ASSUME = ["task bodies and runtime-internal actions are atomic at the task level (one execution stream under hsched)",
          "single process; remote dependencies are not involved"]
def _exe(ctx):
    b = ctx.build('hk-shm')
    gen = os.path.join('/verif/out', 'gen', 'C15'); os.makedirs(gen, exist_ok=True)
    hdir = os.path.dirname(os.path.abspath(__file__))
    r = subprocess.run([os.path.join(b, 'parsec/interfaces/ptg/ptg-compiler/parsec-ptgpp'), '-E', '-i', os.path.join(hdir, 'chain.jdf'), '-o', 'chain', '-f', 'chain'],
                       cwd=gen, capture_output=True, text=True)
    if r.returncode != 0 or not os.path.exists(os.path.join(gen, 'chain.c')):
        import sys, vlib
        sys.stderr.write(r.stdout + r.stderr); raise vlib.Broken('ptgpp failed on chain.jdf')
    return ctx.compile('hk-shm', 'compose', ['compose_h.c', os.path.join(gen, 'chain.c')], instr=False,
                       cflags=['-I' + gen, '-I/verif/engine/rt', '-I/repo/parsec', '-Wno-unused-but-set-variable'])
IL_PROGS = ['il_one', 'il_two']
def check(ctx):
    import vlib
    from concurrent.futures import ThreadPoolExecutor
    fut = ThreadPoolExecutor(1).submit(il.build, ctx, IL_PROGS)      # il executables built in the background
    exe = _exe(ctx)
    q = ctx.tier == 'quick'
    common = ['--outdir', vlib.OUT, '--jobs', str(min(vlib.NJOBS, 12))] + ([] if q else ['--thorough'])
    # order: the schedule-exhaustive legs first (task-level DFS legs of compose_h, then the instruction-level il legs), the
    # free-running box ("threads") last: the first reported violation then has a deterministic replay
    for leg, dl in (('empty', 10 if q else 30), ('bounded', 15 if q else 120), ('orders', 30 if q else 420)):
        if not ctx.violations:
            ctx.run_engine(exe, common + ['--leg', leg, '--deadline', str(dl)], label='compose-' + leg, timeout=dl + 600)
    B = fut.result()
    if not ctx.violations:
        il.run(ctx, B, c01_only=True, names=IL_PROGS, compose=3)
        if not q and not ctx.violations:
            il.run(ctx, B, c01_only=True, names=['il_one'], compose=4)
    if not ctx.violations:
        dl = 30 if q else 250
        ctx.run_engine(exe, common + ['--leg', 'threads', '--deadline', str(dl)], label='compose-threads', timeout=dl + 600)
    return ctx.finish(RULE + '; ' + il.RULE, ASSUME + il.ASSUME)
def replay(ctx, path, obj):
    if obj.get('engine') == 'cosched':
        return il.replay(ctx, path, obj)
    return subprocess.call([_exe(ctx), '--replay', path])
