/* C19: matrix datatypes select exactly the specified elements (E2 / seqx, the whole box, hk-mpi flavour).
 *
 * Every point of the box is handed to the REAL constructors (parsec_matrix_define_datatype and the helpers it dispatches to,
 * plus the parsec_matrix_adt_{define,new}_{rect,upper,lower,square} wrappers); the resulting MPI datatype is observed only through
 * MPI_Pack (which elements, in which order), MPI_Type_get_extent and MPI_Type_size.
 * Reference model (kept boring): the mathematical region of an m x n tile stored column-major with leading dimension ld,
 *   full  : all (r,c);   upper : r <= c (diag != 0) / r < c (diag == 0);   lower : r >= c (diag != 0) / r > c (diag == 0)
 * enumerated column by column, rows ascending.
 */
#include "parsec/parsec_config.h"
#include "parsec/runtime.h"
#include "parsec/constants.h"
#include "parsec/arena.h"
#include "parsec/data_dist/matrix/matrix.h"
#include "seqx.h"
#include <mpi.h>
#include <signal.h>
#include <unistd.h>

/* non-static helpers of matrixtypes.c without a prototype in any header (the property's anchors) */
int parsec_matrix_define_contiguous(parsec_datatype_t oldtype, unsigned int nb_elem, int resized, parsec_datatype_t *newtype);
int parsec_matrix_define_rectangle(parsec_datatype_t oldtype, unsigned int mb, unsigned int nb, unsigned int ld, int resized, parsec_datatype_t *newtype);
int parsec_matrix_define_triangle(parsec_datatype_t oldtype, int uplo, int diag, unsigned int m, unsigned int n, unsigned int ld, parsec_datatype_t *newtype);

enum { A_DATATYPE, A_HELPER, A_ADT_DEFINE, A_ADT_NEW, A_NAPI };
static const char *api_name[] = { "define_datatype", "helper", "adt_define", "adt_new" };
enum { U_FULL, U_UPPER, U_LOWER };
static const char *uplo_name[] = { "full", "upper", "lower" };
static const parsec_matrix_uplo_t uplo_val[] = { PARSEC_MATRIX_FULL, PARSEC_MATRIX_UPPER, PARSEC_MATRIX_LOWER };
typedef struct { int api, uplo, diag, m, n, ld, rs, ty; } case_t;   /* rs: resized argument; ty: 0 int32, 1 double, 2 int8 */
static void case_str(const case_t *c, char *b, size_t cap)
{ snprintf(b, cap, "api=%s uplo=%s diag=%d m=%d n=%d ld=%d resized=%d type=%d", api_name[c->api], uplo_name[c->uplo], c->diag, c->m, c->n, c->ld, c->rs, c->ty); }
static int case_parse(const char *s, case_t *c)
{
    char a[32], u[32];
    if (sscanf(s, "api=%31s uplo=%31s diag=%d m=%d n=%d ld=%d resized=%d type=%d", a, u, &c->diag, &c->m, &c->n, &c->ld, &c->rs, &c->ty) != 8) return -1;
    c->api = c->uplo = -1;
    for (int k = 0; k < A_NAPI; k++) if (!strcmp(a, api_name[k])) c->api = k;
    for (int k = 0; k < 3; k++) if (!strcmp(u, uplo_name[k])) c->uplo = k;
    return (c->api < 0 || c->uplo < 0) ? -1 : 0;
}
static MPI_Datatype elem_type(int ty) { return ty == 0 ? parsec_datatype_int_t : ty == 1 ? parsec_datatype_double_t : parsec_datatype_int8_t; }
static int elem_size(int ty) { return ty == 0 ? 4 : ty == 1 ? 8 : 1; }

static long n_pack = 0, n_elems = 0;
static int g_verbose = 0;
static char g_cur[256]; static const char *g_scen = "?";

/* value stored at linear element index x of the source buffer (distinct, small enough for int8) */
static long val_of(long x) { return x + 1; }
static void put(char *buf, int ty, long x, long v) { if (ty == 0) ((int32_t *)buf)[x] = (int32_t)v; else if (ty == 1) ((double *)buf)[x] = (double)v; else ((int8_t *)buf)[x] = (int8_t)v; }
static long get(const char *buf, int ty, long x) { return ty == 0 ? (long)((const int32_t *)buf)[x] : ty == 1 ? (long)((const double *)buf)[x] : (long)((const int8_t *)buf)[x]; }

#define FAIL(...) do { snprintf(err, SX_ERRLEN, __VA_ARGS__); return 1; } while (0)
/* expected region -> list of linear indices r + c*ld */
static int region(const case_t *c, long *idx)
{
    int k = 0, with = c->diag != 0;
    for (int col = 0; col < c->n; col++) for (int r = 0; r < c->m; r++) {
        int in = c->uplo == U_FULL ? 1 : c->uplo == U_UPPER ? (with ? r <= col : r < col) : (with ? r >= col : r > col);
        if (in) idx[k++] = r + (long)col * c->ld;
    }
    return k;
}

static int check_type(const case_t *c, MPI_Datatype t, long arena_elem_size, char *sig, size_t sigcap, char *err)
{
    static long idx[4096]; static char src[1 << 16], out[1 << 16];
    int es = elem_size(c->ty), ne = region(c, idx);
    long tile = (long)c->ld * c->n, foot = (long)(c->n - 1) * c->ld + c->m;
    MPI_Aint lb = -1, ext = -1; int tsize = -1;
    if (MPI_Type_get_extent(t, &lb, &ext) != MPI_SUCCESS || MPI_Type_size(t, &tsize) != MPI_SUCCESS) FAIL("MPI cannot query the type");
    if (lb != 0) FAIL("lower bound of the type is %ld, expected 0", (long)lb);
    if (tsize != ne * es) FAIL("type selects %d bytes = %d elements, the region has %d elements", tsize, tsize / es, ne);
    /* extent: covers the tile footprint ((n-1)*ld+m elements), never more than the ld x n tile; exact when resizing is requested/documented */
    long want_lo = foot * es, want_hi = tile * es;
    if (c->uplo == U_FULL && c->rs >= 0) want_lo = want_hi = (long)c->rs * es;
    if (c->uplo != U_FULL) want_lo = want_hi;                       /* triangles are resized to the tile by the constructor */
    if (ext < want_lo || ext > want_hi) FAIL("extent is %ld bytes, expected %s%ld bytes (tile ld*n*size = %ld, footprint ((n-1)*ld+m)*size = %ld)", (long)ext,
                                            want_lo == want_hi ? "" : "between the footprint and ", want_lo == want_hi ? want_lo : want_hi, tile * es, foot * es);
    if (arena_elem_size >= 0 && arena_elem_size != (long)ext) FAIL("arena element size %ld differs from the datatype extent %ld", arena_elem_size, (long)ext);
    /* pack 2 consecutive items: the second one starts one extent further */
    int cnt = 2; long span = ((long)ext * (cnt - 1)) / es + tile + 8;
    if ((size_t)span * es > sizeof(src)) FAIL("harness buffer too small");
    for (long x = 0; x < span; x++) put(src, c->ty, x, c->ty == 2 ? (val_of(x) % 127) : val_of(x));
    memset(out, 0x5a, sizeof(out));
    int pos = 0;
    if (MPI_Pack(src, cnt, t, out, (int)sizeof(out), &pos, MPI_COMM_WORLD) != MPI_SUCCESS) FAIL("MPI_Pack failed");
    n_pack++;
    if (pos != cnt * ne * es) FAIL("MPI_Pack wrote %d bytes for %d items, the region has %d elements of %d bytes", pos, cnt, ne, es);
    size_t so = 0; sig[0] = 0;
    for (int it = 0; it < cnt; it++) for (int k = 0; k < ne; k++) {
        long x = idx[k] + (it * (long)ext) / es, got = get(out, c->ty, (long)it * ne + k), want = c->ty == 2 ? (val_of(x) % 127) : val_of(x);
        n_elems++;
        if (got != want) {
            long gx = got - 1;       /* which source element was packed instead (exact for int32/double) */
            FAIL("item %d, packed element #%d is source element (row %ld, col %ld) [value %ld], expected (row %ld, col %ld) [value %ld]", it, k,
                 c->ty == 2 ? -1 : (gx - (it * (long)ext) / es) % c->ld, c->ty == 2 ? -1 : (gx - (it * (long)ext) / es) / c->ld, got, idx[k] % c->ld, idx[k] / c->ld, want);
        }
        if (it == 0 && so + 8 < sigcap) so += (size_t)snprintf(sig + so, sigcap - so, "%ld,", idx[k]);
    }
    if (so + 32 < sigcap) snprintf(sig + so, sigcap - so, "|ext=%ld", (long)ext);
    if (g_verbose) printf("    %d elements, extent %ld bytes, first item packs linear indices %s\n", ne, (long)ext, sig);
    return 0;
}

static int run_case(const case_t *c, char *sig, size_t sigcap, char *err)
{
    MPI_Datatype t = MPI_DATATYPE_NULL, old = elem_type(c->ty); int rc = 0; ptrdiff_t ext = -1;
    case_str(c, g_cur, sizeof(g_cur));
    switch (c->api) {
    case A_DATATYPE:
        rc = parsec_matrix_define_datatype(&t, old, uplo_val[c->uplo], c->diag, (unsigned)c->m, (unsigned)c->n, (unsigned)c->ld, c->rs, &ext);
        if (rc != PARSEC_SUCCESS) FAIL("parsec_matrix_define_datatype returned %d", rc);
        rc = check_type(c, t, -1, sig, sigcap, err);
        if (!rc) { MPI_Aint lb, e2; MPI_Type_get_extent(t, &lb, &e2); if ((long)ext != (long)e2) { snprintf(err, SX_ERRLEN, "extent reported through the out-parameter (%ld) differs from the datatype's extent (%ld)", (long)ext, (long)e2); rc = 1; } }
        parsec_type_free(&t); return rc;
    case A_HELPER:
        if (c->uplo == U_FULL) rc = (c->rs == -2) ? parsec_matrix_define_contiguous(old, (unsigned)(c->ld * c->n), -1, &t)
                                                   : parsec_matrix_define_rectangle(old, (unsigned)c->m, (unsigned)c->n, (unsigned)c->ld, c->rs, &t);
        else rc = parsec_matrix_define_triangle(old, (int)uplo_val[c->uplo], c->diag, (unsigned)c->m, (unsigned)c->n, (unsigned)c->ld, &t);
        if (rc != PARSEC_SUCCESS) FAIL("helper constructor returned %d", rc);
        { case_t c2 = *c; if (c2.rs == -2) c2.rs = -1; rc = check_type(&c2, t, -1, sig, sigcap, err); }
        parsec_type_free(&t); return rc;
    case A_ADT_DEFINE: case A_ADT_NEW: {
        parsec_arena_datatype_t sadt, *adt = &sadt;
        if (c->api == A_ADT_DEFINE) {
            PARSEC_OBJ_CONSTRUCT(&sadt, parsec_arena_datatype_t);
            if (c->uplo == U_FULL) rc = (c->rs == -2) ? parsec_matrix_adt_define_square(adt, old, (unsigned)c->m) : parsec_matrix_adt_define_rect(adt, old, (unsigned)c->m, (unsigned)c->n, (unsigned)c->ld);
            else if (c->uplo == U_UPPER) rc = parsec_matrix_adt_define_upper(adt, old, c->diag, (unsigned)c->m);
            else rc = parsec_matrix_adt_define_lower(adt, old, c->diag, (unsigned)c->m);
            if (rc != PARSEC_SUCCESS) FAIL("parsec_matrix_adt_define_* returned %d", rc);
        } else {
            if (c->uplo == U_FULL) adt = (c->rs == -2) ? parsec_matrix_adt_new_square(old, (unsigned)c->m) : parsec_matrix_adt_new_rect(old, (unsigned)c->m, (unsigned)c->n, (unsigned)c->ld);
            else if (c->uplo == U_UPPER) adt = parsec_matrix_adt_new_upper(old, c->diag, (unsigned)c->m);
            else adt = parsec_matrix_adt_new_lower(old, c->diag, (unsigned)c->m);
            if (!adt) FAIL("parsec_matrix_adt_new_* returned NULL");
        }
        if (!adt->arena) FAIL("wrapper did not create an arena");
        { case_t c2 = *c; if (c2.rs == -2) c2.rs = -1; rc = check_type(&c2, adt->opaque_dtt, (long)adt->arena->elem_size, sig, sigcap, err); }
        if (c->api == A_ADT_DEFINE) parsec_matrix_arena_datatype_destruct_free_type(adt); else parsec_matrix_adt_free(&adt);
        return rc; }
    }
    return 0;
}

static void on_signal(int sig)
{
    char msg[200]; snprintf(msg, sizeof(msg), "real code died with signal %d (%s) while building / packing this type", sig, strsignal(sig));
    sx_violation(g_scen, g_cur, msg);
    if (sx_json) { fprintf(sx_json, "%s{\"name\":\"%s\",\"engine\":\"seqx\",\"states\":0,\"transitions\":0,\"executions\":0,\"nontrivial\":0,\"distinct_outcomes\":0,\"exhaustive\":false,\"violations\":1,\"samples\":[]}\n]}\n", sx_json_first ? "" : ",\n", g_scen); fflush(sx_json); }
    _exit(1);
}

/* ---- scenarios ---- */
typedef struct { long cases, nontrivial; int violations, cut; sx_set_t out; char samples[3][512]; int ns; } acc_t;
static acc_t A;
static void do_case(const case_t *c)
{
    static char sig[4096], err[SX_ERRLEN], cs[256];
    if (A.cut || A.violations >= 5) return;
    if (sx_deadline > 0 && (A.cases & 255) == 0 && sx_now() > sx_deadline) { A.cut = 1; return; }
    A.cases++;
    if (run_case(c, sig, sizeof(sig), err)) { case_str(c, cs, sizeof(cs)); sx_violation(g_scen, cs, err); A.violations++; return; }
    int nontriv = (c->uplo == U_FULL) ? (c->ld > c->m && c->n > 1) : (c->n > 1 && c->m > 1);
    A.nontrivial += nontriv;
    if (sx_set_add(&A.out, sx_hash(sig, strlen(sig))) && nontriv && A.ns < 3 && (A.out.n % 97) == 5) { case_str(c, cs, sizeof(cs)); snprintf(A.samples[A.ns++], sizeof(A.samples[0]), "%s -> %.300s", cs, sig); }
}
static void begin(const char *name) { g_scen = name; memset(&A, 0, sizeof(A)); n_pack = n_elems = 0; }
static void end_scen(double t0, const char *bounds)
{
    const char *sp[3] = { A.samples[0], A.samples[1], A.samples[2] }; char extra[600];
    snprintf(extra, sizeof(extra), "\"mpi_pack_calls\":%ld,\"elements_compared\":%ld,\"bounds\":\"%s\"", n_pack, n_elems, bounds);
    sx_report(g_scen, A.cases, n_elems, n_pack, A.nontrivial, (long)A.out.n, !A.cut && !A.violations, A.violations, sx_now() - t0, extra, sp, A.ns);
    sx_total_violations += 0; free(A.out.v);
}

int main(int argc, char **argv)
{
    sx_init(argc, argv, "C19");
    double t_init = sx_now();
    int prov; if (MPI_Init_thread(&argc, &argv, MPI_THREAD_SERIALIZED, &prov) != MPI_SUCCESS) { fprintf(stderr, "MPI_Init failed\n"); return 2; }
    if (sx_deadline > 0) sx_deadline += sx_now() - t_init;     /* the budget is for the enumeration; MPI start-up can take a minute on a loaded machine */
    MPI_Comm_set_errhandler(MPI_COMM_WORLD, MPI_ERRORS_RETURN);
    struct sigaction sa; memset(&sa, 0, sizeof(sa)); sa.sa_handler = on_signal; sa.sa_flags = SA_NODEFER | SA_RESETHAND;
    sigaction(SIGSEGV, &sa, NULL); sigaction(SIGBUS, &sa, NULL); sigaction(SIGFPE, &sa, NULL); sigaction(SIGABRT, &sa, NULL);
    int rcx = 0;
    if (sx_replay_file) {
        char sc[128], h[1024], sig[4096], err[SX_ERRLEN]; case_t c;
        if (sx_read_replay(sx_replay_file, sc, sizeof(sc), h, sizeof(h)) || case_parse(h, &c)) { fprintf(stderr, "cannot parse %s\n", sx_replay_file); MPI_Finalize(); return 2; }
        g_verbose = 1; g_scen = "replay"; printf("replay: %s\n", h);
        if (run_case(&c, sig, sizeof(sig), err)) { printf("  -> %s\nVIOLATION property=C19 replay=%s\n", err, sx_replay_file); rcx = 1; }
        else printf("replay: case passes\n");
        fflush(stdout); MPI_Finalize(); return rcx;
    }
    int T = sx_tier_thorough, M = T ? 24 : 12, L = T ? 6 : 3;    /* m,n in 1..M, ld in m..m+L */
    double t0; case_t c;
    /* 1. the stated box through parsec_matrix_define_datatype, for int32, double and int8 elements */
    for (int ty = 0; ty < 3; ty++) {
        char nm[64]; snprintf(nm, sizeof(nm), "define_datatype_%s_m%d", ty == 0 ? "int32" : ty == 1 ? "double" : "int8", M);
        begin(nm); t0 = sx_now(); memset(&c, 0, sizeof(c)); c.api = A_DATATYPE; c.ty = ty;
        for (c.m = 1; c.m <= M; c.m++) for (c.n = 1; c.n <= M; c.n++) for (c.ld = c.m; c.ld <= c.m + L; c.ld++)
        for (c.diag = 0; c.diag < 2; c.diag++) for (c.uplo = 0; c.uplo < 3; c.uplo++) {
            c.rs = -1; do_case(&c);
            if (c.uplo == U_FULL && c.diag == 0) { c.rs = c.ld * c.n; do_case(&c); c.rs = 1; do_case(&c); c.rs = c.ld * c.n + 2; do_case(&c); }   /* documented resizing (full types) */
        }
        end_scen(t0, T ? "m,n 1..24, ld m..m+6, diag 0..1, uplo full/upper/lower, resized {-1; full: ld*n, 1, ld*n+2}" : "m,n 1..12, ld m..m+3, diag 0..1, uplo full/upper/lower, resized {-1; full: ld*n, 1, ld*n+2}");
    }
    /* 2. the helpers called directly (define_rectangle incl. its own mb==ld branch, define_contiguous, define_triangle) */
    begin("helpers_direct"); t0 = sx_now(); memset(&c, 0, sizeof(c)); c.api = A_HELPER; c.ty = 0;
    for (c.m = 1; c.m <= M; c.m++) for (c.n = 1; c.n <= M; c.n++) for (c.ld = c.m; c.ld <= c.m + L; c.ld++) {
        c.uplo = U_FULL; c.diag = 0; c.rs = -1; do_case(&c); c.rs = c.ld * c.n; do_case(&c);
        if (c.ld == c.m) { c.rs = -2; do_case(&c); }
        for (c.uplo = U_UPPER; c.uplo <= U_LOWER; c.uplo++) for (c.diag = 0; c.diag < 2; c.diag++) { c.rs = -1; do_case(&c); }
    }
    end_scen(t0, "parsec_matrix_define_{rectangle,contiguous,triangle} directly, same m,n,ld,diag box as the first leg of this tier, int32");
    /* 3. arena-datatype wrappers */
    begin("adt_wrappers"); t0 = sx_now(); memset(&c, 0, sizeof(c));
    for (c.api = A_ADT_DEFINE; c.api <= A_ADT_NEW; c.api++) for (c.ty = 0; c.ty < 3; c.ty++) for (c.m = 1; c.m <= M; c.m++) {
        c.uplo = U_FULL; c.diag = 0; c.rs = -1;
        for (c.n = 1; c.n <= M; c.n++) for (c.ld = c.m; c.ld <= c.m + L; c.ld++) do_case(&c);            /* rect */
        c.n = c.m; c.ld = c.m; c.rs = -2; do_case(&c);                                                          /* square */
        c.rs = -1;
        for (c.uplo = U_UPPER; c.uplo <= U_LOWER; c.uplo++) for (c.diag = 0; c.diag < 2; c.diag++) do_case(&c); /* upper / lower */
    }
    end_scen(t0, "parsec_matrix_adt_{define,new}_{rect,square,upper,lower}: rect m,n,ld box; square/upper/lower m 1..M, diag 0..1; int32, double, int8; arena element size = extent");
    fflush(stdout);
    rcx = sx_finish();
    MPI_Finalize();
    return rcx;
}
