import os, vlib
META = dict(
    engine='cosched',
    technique='stateless model checking: preemption-bounded exhaustive schedule enumeration (CHESS) of real PARSEC_OBJ_RETAIN/RELEASE/NEW on harness-defined class hierarchies with a logging destructor chain and ownership ground truth',
    level_text='Every schedule with <= b preemptions (retain/release scripts and 2-thread construction: b=2 quick, 5 thorough; 3-thread construction: b=1 quick, 2 thorough) of all 2- and 3-thread combinations of balanced retain/release scripts of length <= 5 (hierarchy depth 1..4, static and malloc-ed objects) and of seven concurrent first-construction scripts is executed on the real object system; the destructor journal must be each level exactly once, most derived first, inside the last release overall and while no other thread still owns a reference; concurrently constructed objects must be fully constructed and the class descriptor consistent.',
    level_note='Sequential consistency at instrumented accesses; 2-3 threads, <= 5 operations per thread; the class lock itself (file-static in parsec_object.c) is not a scheduling point, its blocking hook is.',
)
RULE = ("cosched: every schedule of each 2-3 thread retain/release or first-construction script over the real parsec_object_t/parsec_class_t "
        "with at most b preemptions (scheduling points = every instrumented access to the object header and to the class descriptors, plus the "
        "class lock's WAIT hook); non-trivial = at least one preemption; states = nodes of the schedule tree; distinct outcomes = distinct "
        "(destroying thread, destroying operation, journal) resp. construction orders")
SRC = ['obj_h.c']
def check(ctx):
    exe = ctx.compile('hk-shm', 'obj', SRC, engine='cosched')
    def leg(sets, bound, deadline):
        env = dict(os.environ); env['C34_SET'] = sets
        args = ['--bound', str(bound), '--jobs', str(min(vlib.NJOBS, 6 if ctx.tier == 'quick' else 12)), '--outdir', vlib.OUT, '--deadline', str(deadline)]
        ctx.run_engine(exe, args, label='obj-%s-b%d' % (sets.replace(',', '+'), bound), timeout=deadline + 600, env=env)
    if ctx.tier == 'quick':
        leg('quick', 2, 40)
        leg('ctor3', 1, 15)
    else:
        leg('quick,more', 5, 450)
        leg('ctor3', 2, 250)
    return ctx.finish(RULE, ["sequential consistency at instrumented accesses (no weak-memory effects)",
                             "gcc -fsanitize=thread instrumentation reports every access to the watched objects",
                             "threads respect the ownership contract (never release a reference they do not own)"])
def replay(ctx, path, obj):
    import subprocess
    exe = ctx.compile('hk-shm', 'obj', SRC, engine='cosched')
    return subprocess.call([exe, '--replay', path])
