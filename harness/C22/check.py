import os, subprocess
META = dict(
    engine='rt',
    technique='stateless model checking at task granularity: every task-level execution order (harness-owned scheduler, master stream only) of the real apply / map_operator / tree-reduction taskpools over all small matrix shapes, plus a free-running configuration box',
    level_text='parsec_apply (apply.jdf through parsec_apply_New): all shapes mt,nt in 1..4 x uplo in {full, upper, lower}; parsec_map_operator: all shapes 1..4 x 1..4 x destination {none, other matrix, in place} with 1, 2 and 4 generator chains (a context with that many execution streams of which only the master is handed tasks, so chain interleavings are enumerated deterministically); the repository reduce.jdf tree (compiled by the freshly built ptgpp, its printf-only BODY macro-replaced by an integer + hook) for 1..9 tiles. Regions of <= 5 tiles (quick; 7 thorough; the reduction trees always): EVERY task-level execution order is run on the real runtime; larger ones: every order with <= 1 (quick) / 2 (thorough) deviations from the canonical order. In each execution the operator call log must contain every tile of the region exactly once and no other tile, with the right tile pointer, descriptor, op_args and uplo argument, the tile contents must be the sequential result, and the reduction root must deliver the sequential fold (tile i = 10^i, so every decimal digit counts how often a tile was folded in). Threads {1,2,4} x schedulers {default, ap, ll} run the same oracles free-running.',
    level_note='Single process (hk-shm, P=Q=1, 1x1-element integer tiles). The "equals the sequential fold" half of C22 is a KNOWN FINDING for the built-in reductions: the bodies of reduce.jdf / reduce_col.jdf / reduce_row.jdf apply no operator (C22-reduce-bodies-ignore-operator) and parsec_reduce_col_New / parsec_reduce_row_New address tiles outside the matrix on every shape (C22-reduce-rowcol-wrapper-bounds); leg builtin-reductions runs them unmodified and accepts exactly those two signatures. What is decided for reductions is the dependency structure of the reduce.jdf tree (each tile consumed exactly once, one root). MPI-less builds generate no write-back of the tree result into R (jdf2c emits it under DISTRIBUTED only): the value sent to R is read in the root task. Task bodies are atomic at this level.',
)
RULE = ("hsched DFS: one execution = one complete run of the operator taskpool on the real runtime under one choice list (every select() with >1 pending ready tasks "
        "is a choice point); states = nodes of the choice trees; transitions = scheduling decisions; non-trivial = executions deviating from the canonical order "
        "(orders legs) or running on >1 thread (threads leg); outcomes = distinct operator call sequences")
ASSUME = ["task bodies and runtime-internal actions are atomic at the task level", "single process, P=Q=1 block-cyclic distribution",
          "built-in reductions: known findings C22-reduce-bodies-ignore-operator and C22-reduce-rowcol-wrapper-bounds"]
KF = ['C22-reduce-bodies-ignore-operator', 'C22-reduce-rowcol-wrapper-bounds']
def _exe(ctx):
    import sys, vlib
    b = ctx.build('hk-shm')
    gen = os.path.join('/verif/out', 'gen', 'C22'); os.makedirs(gen, exist_ok=True)
    r = subprocess.run([os.path.join(b, 'parsec/interfaces/ptg/ptg-compiler/parsec-ptgpp'), '-E', '-i', os.path.join(vlib.REPO, 'parsec/data_dist/matrix/reduce.jdf'), '-o', 'c22red', '-f', 'c22red'],
                       cwd=gen, capture_output=True, text=True)
    if r.returncode != 0 or not os.path.exists(os.path.join(gen, 'c22red.c')):
        sys.stderr.write(r.stdout + r.stderr); raise vlib.Broken('ptgpp failed on reduce.jdf')
    return ctx.compile('hk-shm', 'ops', ['ops_h.c', 'reduce_wrap.c'], instr=False,
                       cflags=['-I' + gen, '-I/verif/engine/rt', '-I/repo/parsec', '-Wno-unused-but-set-variable', '-Wno-format-truncation', '-Wno-misleading-indentation', '-Wno-unused-label'])
def _known():
    import vlib
    ids = [f.get('id') for f in vlib.known_findings()]
    return ','.join(k for k in KF if k in ids) or '-'
def check(ctx):
    import vlib
    exe = _exe(ctx)
    q = ctx.tier == 'quick'
    args = ['--known', _known(), '--outdir', vlib.OUT, '--jobs', str(min(vlib.NJOBS, 12))]
    args += ['--maxall', '5', '--maxdev', '1', '--deadline', '45'] if q else ['--maxall', '7', '--maxdev', '2', '--deadline', '1000', '--thorough']
    ctx.run_engine(exe, args, label='ops', timeout=(600 if q else 2400))
    return ctx.finish(RULE, ASSUME)
def replay(ctx, path, obj):
    return subprocess.call([_exe(ctx), '--replay', path, '--known', _known()])
