/* C17 (single process legs): DTD data flush returns the last written value to the owner. Machinery: engine/rt/dtd_main.h. */
#define DTD_PROPERTY "C17"
#define DTD_DEFAULT_ORACLE 4      /* owner copy after flush(+wait) == value of the last inserted writer */
#include "dtd_main.h"
