"""C41: bounded-exhaustive families of concurrent register/lookup/set/get/test_and_set scripts (see NOTES.md "Generated families").

A script is TEXT (= cosched scenario name = what the replay file stores), parsed and contract-checked again by info_conc.c:
    g_<P>_<ops of T0>_<ops of T1>[_<ops of T2>]        every operation is 2 characters
"""
import itertools

# operation alphabets, simplest first (see info_conc.c for the meaning of each token); the r-tokens use the identifier returned by the
# thread's own latest register
ALPHABETS = {
    # focus on slot 1 (the slot that needs growth in pre-states A and B), one register, one lookup
    'mini': dict(base=['G1', 'S1', 'N1', 'S0', 'Rx', 'Lx'], dyn=['Sr', 'Gr']),
    'std': dict(base=['G0', 'G1', 'S0', 'S1', 'N0', 'N1', 'V0', 'Rx', 'Ry', 'Lx'], dyn=['Sr', 'Gr']),
    'full': dict(base=['G0', 'G1', 'S0', 'S1', 'N0', 'N1', 'V0', 'V1', 'Rx', 'Ry', 'Lx', 'La'], dyn=['Sr', 'Gr', 'Nr']),
}
PRESTATES = {'A': 'a,b registered; array initialised after a: slot 0 exists (empty), slot 1 needs growth (realloc path)',
             'B': 'a,b registered; array initialised before any registration: slots 0 and 1 need growth (calloc path)',
             'C': 'a,b registered; array initialised after both, slot 0 = P4: growth only after a new registration'}


def contract_ok(seq):
    """set/get/test_and_set only with identifiers that are registered when the call is made: 0, 1 (pre-state) or the identifier
    returned by a register of the same thread (r-tokens need an R earlier in the thread)"""
    have = False
    for op in seq:
        if op[1] == 'r' and not have:
            return False
        if op[0] == 'R':
            have = True
    return True


def thread_seqs(alpha, maxlen, minlen=1, no_v=False):
    toks = [t for t in alpha['base'] + alpha['dyn'] if not (no_v and t[0] == 'V')]
    gen, ok = 0, []
    for n in range(minlen, maxlen + 1):
        for seq in itertools.product(toks, repeat=n):
            gen += 1
            if contract_ok(seq):
                ok.append(seq)
    return gen, ok


def family(shape, alphabet='std', prestates='ABC', exact=()):
    """All scripts pre-state x T0: 1..shape[0] ops || T1: 1..shape[1] ops (|| T2: 1..shape[2] ops); exact = threads with exactly
    shape[t] operations.  Up to thread renaming: the threads differ only in the value they write (V(t)) and 'the other value' W(t);
    with 2 threads swapping T0 and T1 renames P1<->P2 consistently, so for equal bounds the pair is kept in one order only;
    with 3 threads the V tokens (test_and_set expecting the other thread's value) are left out, which makes all three threads
    interchangeable: only sorted triples are kept (a shape like (2,1,1): T1 and T2 interchangeable).
    Returns (counts, names, alphabet description), simplest first: fewest operations, then pre-state round-robin."""
    alpha = ALPHABETS[alphabet]
    three = len(shape) == 3
    per, gen_total = [], 1
    for t, a in enumerate(shape):
        g, ok = thread_seqs(alpha, a, a if t in exact else 1, no_v=three)
        per.append(ok); gen_total *= g
    counts = dict(generated=gen_total * len(prestates), after_contract=0, after_symmetry=0)
    out = []
    for combo in itertools.product(*per):
        counts['after_contract'] += len(prestates)
        keep = True
        for i in range(len(shape)):
            for j in range(i + 1, len(shape)):
                # threads i and j are interchangeable when they are given the same set of sequences
                if shape[i] == shape[j] and ((i in exact) == (j in exact)) and combo[i] > combo[j]:
                    keep = False
        if not keep:
            continue
        for p in prestates:
            counts['after_symmetry'] += 1
            out.append((sum(len(s) for s in combo), combo, p))
    out.sort(key=lambda x: x[0])          # stable: product order, pre-states adjacent
    names = ['g_%s_%s' % (p, '_'.join(''.join(s) for s in combo)) for _, combo, p in out]
    return counts, names, ' '.join(alpha['base'] + alpha['dyn']) + (' (without V*)' if three else '')


def describe(name):
    parts = name.split('_')
    p, thr = parts[1], parts[2:]
    V = ['P1', 'P2', 'P3']; W = ['P2', 'P1', 'P1']
    def op(t, o):
        k, a = o[0], o[1]
        idt = {'0': 'id 0 (a)', '1': 'id 1 (b)', 'r': 'the id returned by its own register'}.get(a)
        if k == 'G': return 'get(%s)' % idt
        if k == 'S': return 'set(%s, %s)' % (idt, V[t])
        if k == 'N': return 'test_and_set(%s, new=%s, expected=NULL)' % (idt, V[t])
        if k == 'V': return 'test_and_set(%s, new=%s, expected=%s)' % (idt, V[t], W[t])
        if k == 'R': return 'register(%s)' % ('c (destructor only)' if a == 'x' else 'd (no constructor, no destructor)')
        return 'lookup(%s)' % ('c' if a == 'x' else 'a')
    return dict(prestate=PRESTATES[p], threads=['T%d: %s' % (t, '; '.join(op(t, th[i:i + 2]) for i in range(0, len(th), 2))) for t, th in enumerate(thr)])


if __name__ == '__main__':
    for shape, al, ex in (((1, 1), 'std', ()), ((1, 1), 'full', ()), ((2, 1), 'mini', (0,)), ((2, 1), 'std', (0,)), ((2, 2), 'mini', (0, 1)), ((2, 2), 'std', (0, 1)), ((1, 1, 1), 'std', ()), ((2, 1, 1), 'mini', (0,))):
        c, n, a = family(shape, al, 'ABC', ex)
        print(shape, al, ex, c, n[:4], n[-1])
