import json
import os
import subprocess
import sys

META = dict(
    engine='vranks+mp',
    technique='explicit-state search of the collective activation protocol on the real handlers: for every root, every family of '
              'destination sets and every topology, the real parsec_remote_dep_activate / parsec_remote_dep_propagate / gather callback / '
              'child predicates / rank<->bit mapping (remote_dep.c compiled into the harness) are driven over N virtual ranks with a '
              'stubbed send path until quiescence; deliveries are counted per (rank, output)',
    level_text='For all roots, all families of non-empty destination sets of 1..3 outputs over N virtual ranks (quick: N<=7 for 1-2 outputs, '
               'N<=5 for 3; thorough: N<=15 / 9 / 6 (deadline permitting 16 / 10 / 7) for 1 / 2 / 3 outputs, plus all sets of bounded size across the 32- and 64-rank bank boundaries) and the three topologies '
               'selected through the real MCA parameter, the messages emitted by the real activation/propagation code are delivered until '
               'quiescence and every (rank, output) pair is checked to be delivered exactly once, nothing outside the sets. The chain and '
               'binomial topologies with several outputs whose sets differ FAIL on the unchanged tree (known findings '
               'C13-chain-relay-missing-output, C13-binomial-relay-missing-output): those cases are reported as KNOWN-FINDING only when '
               'every lost pair satisfies the attribution rule (activated only by relays that do not consume the output) and the entry is '
               'recorded; anything else (one output, star, duplicate, foreign delivery, silent rank, failed assertion) is a violation. '
               'Thorough adds real MPI runs of a generated two-output program over all contiguous destination ranges on 3 and 4 processes '
               'x 3 topologies, each cross-checked against the E3 verdict for the same case.',
    level_note='Handler-level model: one activation = one atomic handler call (the handlers of different messages share no state, so '
               'delivery order is irrelevant); the outputs carried by a message are those selected by the real remote_dep_mpi_pack_dep (short messages off, comm-engine pack = memcpy); '
               'the root-side structure is built as parsec_release_dep_fct builds it; a receiver is always allowed to propagate (in the '
               'real runtime a receiver that waits for a never-sent output stalls instead). Real-MPI leg: one program shape, root 0, OpenMPI message order, wall-clock budget (launches not started are reported).',
)
RULE = ("every (topology, #outputs, N, root, family of destination sets) is one case = one complete handler-level trace on the real code; "
        "states = handler invocations (root activation + one propagate per delivered message), transitions = messages; a case is "
        "non-trivial when a relay (non-root) sends a message or the root sends >= 2; distinct outcomes = distinct (root, ordered message "
        "list with payloads) signatures")
FINDINGS = {1: 'C13-chain-relay-missing-output', 2: 'C13-binomial-relay-missing-output'}   # topology number -> known_findings id
HERE = os.path.dirname(os.path.abspath(__file__))


def known_topologies():
    """Bit mask of the topologies whose lost (rank, output) pairs may be attributed to a recorded finding.
    An entry covers its own topology; an entry may also list several in an optional key "topologies": ["chain", "binomial"]."""
    path = os.environ.get('VERIF_KNOWN_FINDINGS', '/verif/known_findings.json')
    try:
        entries = [f for f in json.load(open(path)).get('findings', []) if f.get('property') == 'C13']
    except (OSError, ValueError):
        return 0
    mask = 0
    names = {'chain': 1, 'binomial': 2}
    for f in entries:
        for t, fid in FINDINGS.items():
            if f.get('id') == fid:
                mask |= 1 << t
                for n in f.get('topologies', []):
                    if n in names:
                        mask |= 1 << names[n]
    return mask


def build(ctx):
    return ctx.compile('hk-mpi', 'coll', ['coll_h.c'], instr=False, mpi=True)


def check(ctx):
    quick = ctx.tier == 'quick'
    known = known_topologies()
    exe = build(ctx)
    if quick:
        # nout:Nmin-Nmax[:variant[:max set size]] ; all sets unless a size cap is given
        plan = '1:2-7,2:2-7,3:2-5,2:2-5:1,2:2-5:2,1:31-33:0:2,2:33-33:0:1'
        deadline = 50
    else:
        # all sets: 1 output N<=15, 2 outputs N<=9, 3 outputs N<=6; iterator variants; bounded set sizes across the 32/64-rank bank
        # boundaries of rank_bits; then stretch bounds that the deadline may cut (reported exhaustive:false)
        plan = ('1:2-15,2:2-9,3:2-6,2:2-8:1,2:2-8:2,3:2-5:3,1:2-10:3,'
                '1:31-34:0:3,1:63-66:0:2,2:32-34:0:1,3:33-33:0:1,'
                '1:16-16,3:7-7,2:10-10')
        deadline = 420

    def one(topo):
        ctx.run_engine(exe, ['--topo', str(topo), '--plan', plan, '--known-topos', str(known), '--outdir', '/verif/out',
                             '--deadline', str(deadline)], label='coll-%s' % ('star', 'chain', 'binomial')[topo], timeout=deadline + 300)
    if quick:
        for topo in (0, 1, 2):
            one(topo)
    else:                                   # the three topologies are independent processes
        from concurrent.futures import ThreadPoolExecutor
        with ThreadPoolExecutor(max_workers=3) as ex:
            list(ex.map(one, (0, 1, 2)))
        ctx.legs.sort(key=lambda l: (l.get('leg', ''), l.get('outputs', 0), l.get('variant', 0), l.get('max_set_size', 0), l.get('N', 0)))
    for t, fid in FINDINGS.items():
        ctx.notes.append('known_findings entry for topology %s (%s): %s' % (('star', 'chain', 'binomial')[t], fid,
                         'present' if known >> t & 1 else 'ABSENT - every failing case under this topology is a violation'))
    # per topology and N: cases / failing but fully attributed to a recorded finding / failing and NOT attributable (must be 0)
    table = {}
    for l in ctx.legs:
        if 'topology' in l:
            t = table.setdefault('%s/N=%d' % (l['topology'], l['N']), dict(cases=0, failing_attributed=0, failing_unattributable=0))
            t['cases'] += l['cases']
            t['failing_attributed'] += l['failing_attributed_to_known_finding']
            t['failing_unattributable'] += l['failing_unattributable']
    ctx.notes.append({'per_topology_N': table})
    if not quick and not ctx.violations and not ctx.broken:
        sys.path.insert(0, HERE)
        import mp_repro
        mp_repro.run(ctx, known, exe)
    return ctx.finish(RULE, [
        "a process that receives an activation always propagates it (the model does not stall a receiver that waits for a missing output)",
        "a message delivers exactly the outputs that the real remote_dep_mpi_pack_dep selects for the peer (runtime_comm_short_limit = 0)",
        "PTG taskpools (DTD always uses the star predicate)",
    ])


def replay(ctx, path, obj):
    if obj.get('engine') == 'mp':
        sys.path.insert(0, HERE)
        import mp_repro
        return mp_repro.replay(ctx, path, obj, known_topologies())
    return subprocess.call([build(ctx), '--replay', path, '--known-topos', str(known_topologies())])
