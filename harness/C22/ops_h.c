/* C22: parsec_apply visits each tile of the requested region exactly once; parsec_map_operator visits each tile
 * once; the reduce.jdf tree consumes every tile exactly once and its result equals the sequential fold.
 * E4 / rt engine: the real library operators (apply.jdf through parsec_apply_New, map_operator.c) and the repo's
 * reduce.jdf (compiled by the freshly built ptgpp; its BODY, which is only a printf in the repo, is replaced by an
 * integer-add hook through a macro - see reduce_wrap.c) run on the real runtime.
 *
 *  leg apply-orders : mt,nt in 1..4 x uplo {full, upper, lower}; <= MAXALL tiles in the region: EVERY task-level
 *                     order (hsched, one stream); larger regions: every order with <= D deviations.
 *  leg map-orders   : mt,nt in 1..4 x cores {1,2,4} x dest {NULL, B, in place}: the context has `cores` execution
 *                     streams (the operator creates one generator chain per core) but only the master stream is
 *                     handed tasks, so EVERY task-level interleaving of the chains is enumerated deterministically
 *                     (<= MAXALL tiles: all; larger: deviation bounded).
 *  leg reduce-orders: mt in 1..9 (column of tiles), every task-level order.
 *  leg threads      : free running, threads {1,2,4} x schedulers {default, ap, ll}, all shapes (configuration box).
 */
#include "hsched.h"
#include "waitrt.h"
#include "parsec/arena.h"
#include "parsec/data_dist/matrix/matrix.h"
#include "parsec/data_dist/matrix/two_dim_rectangle_cyclic.h"
#include <stdarg.h>
#include <fcntl.h>
#include <sys/resource.h>
#include "parsec/data_dist/matrix/reduce.h"

#define MAXD 6
extern parsec_taskpool_t *c22_reduce_tree_new(parsec_tiled_matrix_t *A, parsec_tiled_matrix_t *R, void *neutral);
extern void c22_reduce_tree_free(parsec_taskpool_t *tp);

static int visits[MAXD][MAXD], badarg, nlog; static char logbuf[1024]; static int loglen;
static int exp_uplo;           /* uplo given to parsec_apply */
static const parsec_tiled_matrix_t *exp_desc; static void *exp_args;
static int *g_Amat, g_mt, g_nt;
static int idle_selects = 0;
static int master_only = 0;

static void logtile(int m, int n) { if (loglen + 8 < (int)sizeof(logbuf)) loglen += snprintf(logbuf + loglen, sizeof(logbuf) - loglen, "%d%d ", m, n); nlog++; }

/* unary operator of parsec_apply */
static int op_unary(struct parsec_execution_stream_s *es, const parsec_tiled_matrix_t *d, void *A, int uplo, int m, int n, void *args)
{
    (void)es;
    if (m < 0 || n < 0 || m >= MAXD || n >= MAXD) { badarg |= 1; return 0; }
    __sync_add_and_fetch(&visits[m][n], 1);
    { static volatile int lk = 0; while (__sync_lock_test_and_set(&lk, 1)) ; logtile(m, n); __sync_lock_release(&lk); }
    if (d != exp_desc || args != exp_args) badarg |= 2;
    if (m >= g_mt || n >= g_nt) { badarg |= 1; return 0; }
    if (A != (void *)&g_Amat[n * g_mt + m]) badarg |= 4;                       /* the tile handed over is tile (m,n) of the collection */
    if (uplo != (m == n ? exp_uplo : (int)PARSEC_MATRIX_FULL)) badarg |= 8;     /* diagonal tiles get uplo, the others FULL */
    *(int *)A += 1000;
    return 0;
}
/* operator of parsec_map_operator */
static int *g_Bmat; static int map_mode;   /* 0: dest NULL, 1: dest = B, 2: in place */
static int op_map(struct parsec_execution_stream_s *es, const void *src, void *dst, void *op_data, ...)
{
    (void)es; va_list ap; va_start(ap, op_data); int m = va_arg(ap, int), n = va_arg(ap, int); va_end(ap);
    if (m < 0 || n < 0 || m >= g_mt || n >= g_nt) { badarg |= 1; return 0; }
    __sync_add_and_fetch(&visits[m][n], 1);
    { static volatile int lk = 0; while (__sync_lock_test_and_set(&lk, 1)) ; logtile(m, n); __sync_lock_release(&lk); }
    if (op_data != exp_args) badarg |= 2;
    if (src != (const void *)&g_Amat[n * g_mt + m]) badarg |= 4;
    if (map_mode == 1 && dst != (void *)&g_Bmat[n * g_mt + m]) badarg |= 16;
    if (map_mode == 2 && dst != (void *)&g_Amat[n * g_mt + m]) badarg |= 16;
    if (map_mode && dst) *(int *)dst = *(const int *)src + 1000;
    return 0;
}

static void mat_init(parsec_matrix_block_cyclic_t *A, int mt, int nt, const char *key, int base)
{
    parsec_matrix_block_cyclic_init(A, PARSEC_MATRIX_INTEGER, PARSEC_MATRIX_TILE, 0, 1, 1, mt, nt, 0, 0, mt, nt, 1, 1, 1, 1, 0, 0);
    A->mat = parsec_data_allocate((size_t)A->super.nb_local_tiles * A->super.bsiz * parsec_datadist_getsizeoftype(A->super.mtype));
    for (int i = 0; i < mt * nt; i++) ((int *)A->mat)[i] = base + i;
    parsec_data_collection_set_key(&A->super.super, (char *)key);
}
static void mat_fini(parsec_matrix_block_cyclic_t *A) { parsec_data_free(A->mat); parsec_tiled_matrix_destroy(&A->super); }

typedef struct { char op; int mt, nt, uplo, mode, threads; const char *sched; } cfg_t;   /* op: 'a' apply, 'm' map, 'r' reduce tree */
static const int UPLO[3] = { PARSEC_MATRIX_FULL, PARSEC_MATRIX_UPPER, PARSEC_MATRIX_LOWER }; static const char *UPN[3] = { "full", "upper", "lower" };
static int in_region(int u, int m, int n) { return u == 0 || (u == 1 ? n >= m : m >= n); }
static int region_size(const cfg_t *c) { int k = 0; for (int m = 0; m < c->mt; m++) for (int n = 0; n < c->nt; n++) if (c->op != 'a' || in_region(c->uplo, m, n)) k++; return c->op == 'r' ? c->mt : k; }
static void cfg_str(const cfg_t *c, char *b, size_t n)
{
    snprintf(b, n, "op=%s mt=%d nt=%d uplo=%s dest=%d threads=%d sched=%s", c->op == 'a' ? "apply" : c->op == 'm' ? "map" : "reduce", c->mt, c->nt, UPN[c->uplo], c->mode, c->threads, c->sched ? c->sched : "hsched");
}
static int cfg_parse(const char *cas, cfg_t *c)
{
    char v[64]; memset(c, 0, sizeof(*c));
    if (!wr_case_get(cas, "op", v, sizeof(v))) return -1; c->op = v[0];
    c->mt = (int)wr_case_int(cas, "mt", 1); c->nt = (int)wr_case_int(cas, "nt", 1); c->mode = (int)wr_case_int(cas, "dest", 0); c->threads = (int)wr_case_int(cas, "threads", 1);
    if (wr_case_get(cas, "uplo", v, sizeof(v))) c->uplo = !strcmp(v, "upper") ? 1 : !strcmp(v, "lower") ? 2 : 0;
    static char sch[32]; if (wr_case_get(cas, "sched", sch, sizeof(sch)) && strcmp(sch, "hsched")) c->sched = sch;
    return (c->mt < 1 || c->nt < 1 || c->mt >= (c->op == 'r' ? 10 : MAXD) || c->nt >= MAXD) ? -1 : 0;
}

/* reduce-tree hook (called from the BODY of the repo's reduce.jdf, see reduce_wrap.c) */
static int red_root_val, red_root_hits, red_tasks;
void c22_reduce_body(void *A, void *B, void *C, void *neutral, int l, int p, int depth)
{
    *(int *)C = *(int *)A + (B ? *(int *)B : *(int *)neutral);
    red_tasks++; if (loglen + 8 < (int)sizeof(logbuf)) loglen += snprintf(logbuf + loglen, sizeof(logbuf) - loglen, "%d.%d ", l, p);
    if (l == depth + 1) { red_root_val = *(int *)C; red_root_hits++; (void)p; }   /* the task whose C goes to R(p,0) */
}

static int run_case(parsec_context_t *parsec, const cfg_t *c, char *err, size_t errlen, char *outcome, size_t outlen)
{
    parsec_matrix_block_cyclic_t A, B; int bad = 0; err[0] = 0;
    memset(visits, 0, sizeof(visits)); badarg = 0; nlog = 0; loglen = 0; logbuf[0] = 0; idle_selects = 0;
    int mt = c->mt, nt = c->op == 'r' ? 1 : c->nt;
    mat_init(&A, mt, nt, "A", 1); mat_init(&B, c->op == 'r' ? 1 : mt, nt, "B", 500);
    g_Amat = (int *)A.mat; g_Bmat = (int *)B.mat; g_mt = mt; g_nt = nt; exp_desc = &A.super; static int cookie; exp_args = &cookie;
    if (c->op == 'a') {
        exp_uplo = UPLO[c->uplo];
        int rc = parsec_apply(parsec, (parsec_matrix_uplo_t)UPLO[c->uplo], &A.super, op_unary, exp_args);
        if (rc != PARSEC_SUCCESS) { bad = 1; snprintf(err, errlen, "parsec_apply returned %d", rc); }
        for (int m = 0; m < mt && !bad; m++) for (int n = 0; n < nt && !bad; n++) {
            int want = in_region(c->uplo, m, n);
            if (visits[m][n] != want) { bad = 1; snprintf(err, errlen, "operator called %d times on tile (%d,%d), expected %d (uplo=%s, %dx%d tiles)", visits[m][n], m, n, want, UPN[c->uplo], mt, nt); }
            else if (g_Amat[n * mt + m] != 1 + n * mt + m + 1000 * want) { bad = 1; snprintf(err, errlen, "tile (%d,%d) holds %d after the operation, expected %d", m, n, g_Amat[n * mt + m], 1 + n * mt + m + 1000 * want); }
        }
    } else if (c->op == 'm') {
        map_mode = c->mode;
        parsec_taskpool_t *tp = parsec_map_operator_New(&A.super, c->mode == 0 ? NULL : c->mode == 1 ? &B.super : &A.super, op_map, exp_args);
        parsec_context_add_taskpool(parsec, tp); parsec_context_start(parsec); int rc = parsec_context_wait(parsec);
        if (rc != PARSEC_SUCCESS) { bad = 1; snprintf(err, errlen, "parsec_context_wait returned %d", rc); }
        parsec_taskpool_free(tp);
        for (int m = 0; m < mt && !bad; m++) for (int n = 0; n < nt && !bad; n++) {
            int i = n * mt + m;
            if (visits[m][n] != 1) { bad = 1; snprintf(err, errlen, "map operator called %d times on tile (%d,%d) (%dx%d tiles, %d cores)", visits[m][n], m, n, mt, nt, c->threads); }
            else if (c->mode == 1 && (g_Bmat[i] != 1 + i + 1000 || g_Amat[i] != 1 + i)) { bad = 1; snprintf(err, errlen, "tile (%d,%d): src %d dest %d after the map, expected %d / %d", m, n, g_Amat[i], g_Bmat[i], 1 + i, 1 + i + 1000); }
            else if (c->mode == 2 && g_Amat[i] != 1 + i + 1000) { bad = 1; snprintf(err, errlen, "tile (%d,%d) holds %d after the in-place map, expected %d", m, n, g_Amat[i], 1 + i + 1000); }
        }
    } else {
        /* reduce tree over the tiles of column 0: tile i holds 10^i, so the decimal digits of the result count how often each tile was folded in */
        static int neutral = 0; int p10 = 1, want = 0;
        for (int i = 0; i < mt; i++) { g_Amat[i] = p10; want += p10; p10 *= 10; }
        g_Bmat[0] = -1; red_root_val = -1; red_root_hits = 0; red_tasks = 0;
        parsec_taskpool_t *tp = c22_reduce_tree_new(&A.super, &B.super, &neutral);
        parsec_context_add_taskpool(parsec, tp); parsec_context_start(parsec); int rc = parsec_context_wait(parsec);
        if (rc != PARSEC_SUCCESS) { bad = 1; snprintf(err, errlen, "parsec_context_wait returned %d", rc); }
        c22_reduce_tree_free(tp);
        /* MPI-less builds generate no write-back of a NEW flow into R (jdf2c: "#if defined(DISTRIBUTED)"), so the value that the
         * root task sends to R(0,0) is taken from the root task's C */
        if (!bad && red_root_hits != 1) { bad = 1; snprintf(err, errlen, "%d tasks send a result to R (expected exactly one root) for %d tiles", red_root_hits, mt); }
        if (!bad && red_root_val != want) { bad = 1; snprintf(err, errlen, "reduction of %d tiles (tile i = 10^i, operator +) produced %d, sequential fold gives %d (each decimal digit = how often that tile was folded in)", mt, red_root_val, want); }
        for (int i = 0, q = 1; i < mt && !bad; i++, q *= 10) if (g_Amat[i] != q) { bad = 1; snprintf(err, errlen, "input tile %d was modified by the reduction (%d)", i, g_Amat[i]); }
        if (loglen + 24 < (int)sizeof(logbuf)) loglen += snprintf(logbuf + loglen, sizeof(logbuf) - loglen, "R=%d", red_root_val);
    }
    if (!bad && badarg) { bad = 1; snprintf(err, errlen, "operator called with wrong arguments (mask %d: 1 tile index out of range, 2 descriptor/op_args, 4 tile pointer, 8 uplo, 16 dest pointer)", badarg); }
    if (outcome) snprintf(outcome, outlen, "%s", logbuf);
    mat_fini(&A); mat_fini(&B);
    return bad;
}

static parsec_task_t *c22_select(parsec_execution_stream_t *es, int32_t *distance)
{
    if (master_only && es->th_id != 0) { *distance = 0; return NULL; }
    if (hs_npend == 0) {
        if (++idle_selects > 2000) { wr_fail("deadlock: the wait call keeps polling, no task is ready and the work is not complete"); fflush(stdout); _exit(0); }
    } else idle_selects = 0;
    return hs_sched_select(es, distance);
}
static void cho_str(const unsigned char *ch, int n, char *b, size_t len) { int o = 0; b[0] = 0; for (int i = 0; i < n && o + 8 < (int)len; i++) o += snprintf(b + o, len - o, "%s%d", i ? "." : "", ch[i]); if (!n) snprintf(b, len, "-"); }

static parsec_context_t *init_ctx(int threads, const char *sched)
{
    if (sched) setenv("PARSEC_MCA_mca_sched", sched, 1);
    setenv("PARSEC_MCA_bind_threads", "0", 1);
    int argc = 1; char *argv0[] = { (char *)"c22", NULL }; char **argv = argv0;
    parsec_context_t *p = parsec_init(threads, &argc, &argv);
    if (!p) { fprintf(stderr, "parsec_init failed\n"); _exit(3); }
    return p;
}

static int MAXALL = 6, MAXDEV = 1;
static void explore_cfg(parsec_context_t *parsec, hs_explorer_t *ex, const cfg_t *c)
{
    char cs[256], chs[2048], err[512], outc[1024];
    cfg_str(c, cs, sizeof(cs));
    double rem = wr_deadline > 0 ? wr_deadline - wr_now() : 0; if (wr_deadline > 0 && rem < 0.05) { wr_leg->exhaustive = 0; return; }
    int all = c->op == 'r' || region_size(c) <= MAXALL;   /* the reduction trees (<= 9 tiles) are always explored completely */
    hs_begin(ex, all ? -1 : MAXDEV, rem);
    while (hs_next(ex)) {
        cho_str(ex->prefix, ex->prefix_len, chs, sizeof(chs));
        wr_setcase("%s cho=%s", cs, chs);
        int bad = run_case(parsec, c, err, sizeof(err), outc, sizeof(outc));
        if (bad) { wr_fail("%s | operator calls: %s | task order: %s", err, outc, ex->order); fflush(stdout); wr_leg->exhaustive = 0; wr_leg->done = 1; _exit(0); }
        wr_outcome(outc);
        if (wr_leg->nsamples < 2 && ex->runs == 5) { char s[1024]; snprintf(s, sizeof(s), "%s cho=%s => %s", cs, chs, outc); wr_sample(s); }
        wr_leg->executions++;
        hs_end_run(ex);
    }
    wr_leg->states += ex->nodes; wr_leg->transitions += ex->transitions; wr_leg->nontrivial += ex->nontrivial;
    if (!ex->exhaustive) wr_leg->exhaustive = 0;
    wr_leg->aux[0]++; if (all) wr_leg->aux[1]++;
}

typedef struct { char op; int cores; } leg_arg_t;
static void leg_orders(int slice, int nslices, void *arg_)
{
    leg_arg_t *la = (leg_arg_t *)arg_;
    parsec_context_t *parsec = init_ctx(la->cores, NULL);
    master_only = la->cores > 1;
    hs_install(parsec); hs_module.module.select = c22_select;
    hs_explorer_t *ex = (hs_explorer_t *)malloc(sizeof(*ex));
    cfg_t c; memset(&c, 0, sizeof(c)); c.op = la->op; c.threads = la->cores; int idx = 0;
    if (la->op == 'a') {
        /* big configurations first (better balance) */
        for (int pass = 0; pass < 2; pass++) for (int mt = 4; mt >= 1; mt--) for (int nt = 4; nt >= 1; nt--) for (int u = 0; u < 3; u++) {
            c.mt = mt; c.nt = nt; c.uplo = u; int big = region_size(&c) >= 5 && region_size(&c) <= MAXALL;
            if (big != (pass == 0)) continue;
            if ((idx++ % nslices) != slice) continue;
            explore_cfg(parsec, ex, &c);
        }
    } else if (la->op == 'm') {
        for (int pass = 0; pass < 2; pass++) for (int mt = 4; mt >= 1; mt--) for (int nt = 4; nt >= 1; nt--) for (int mode = 0; mode < 3; mode++) {
            c.mt = mt; c.nt = nt; c.mode = mode; int big = mt * nt >= 5 && mt * nt <= MAXALL;
            if (big != (pass == 0)) continue;
            if ((idx++ % nslices) != slice) continue;
            explore_cfg(parsec, ex, &c);
        }
    } else {
        for (int mt = 9; mt >= 1; mt--) { if ((idx++ % nslices) != slice) continue; c.mt = mt; c.nt = 1; explore_cfg(parsec, ex, &c); }
    }
    hs_uninstall(parsec);
    parsec_fini(&parsec);
}

static const int TH[] = { 1, 2, 4 }; static const char *SCHEDS[] = { NULL, "ap", "ll" };
static int with_reduce = 1;
static void leg_threads(int slice, int nslices, void *arg_)
{
    (void)nslices; (void)arg_;
    int threads = TH[slice % 3]; const char *sched = SCHEDS[slice / 3];
    parsec_context_t *parsec = init_ctx(threads, sched);
    int reps = wr_thorough ? 20 : 2; char cs[256], err[512], outc[1024];
    cfg_t c; memset(&c, 0, sizeof(c)); c.threads = threads; c.sched = sched ? sched : "default";
    for (int o = 0; o < 3; o++) for (int mt = 1; mt <= (o == 2 ? 9 : 4); mt++) for (int nt = 1; nt <= (o == 2 ? 1 : 4); nt++) for (int v = 0; v < (o == 2 ? 1 : 3); v++) {
        if (o == 2 && !with_reduce) continue;
        c.op = "amr"[o]; c.mt = mt; c.nt = nt; c.uplo = o == 0 ? v : 0; c.mode = o == 1 ? v : 0;
        cfg_str(&c, cs, sizeof(cs));
        for (int r = 0; r < reps; r++) {
            if (wr_expired()) { wr_leg->exhaustive = 0; goto out; }
            wr_setcase("%s rep=%d", cs, r);
            int bad = run_case(parsec, &c, err, sizeof(err), outc, sizeof(outc));
            if (bad) { wr_fail("%s | operator calls: %s", err, outc); fflush(stdout); wr_leg->exhaustive = 0; wr_leg->done = 1; _exit(0); }
            wr_outcome(outc); wr_leg->executions++; wr_leg->transitions += region_size(&c); if (threads > 1) wr_leg->nontrivial++;
        }
        wr_leg->states++; wr_leg->aux[0]++;
        if (wr_leg->nsamples < 1 && o == 1 && mt == 3 && nt == 3) { char s[1024]; snprintf(s, sizeof(s), "%s => %s", cs, outc); wr_sample(s); }
    }
out:
    parsec_fini(&parsec);
}

static void leg_replay(int slice, int nslices, void *arg_)
{
    (void)slice; (void)nslices; const char *cas = (const char *)arg_;
    cfg_t c; if (cfg_parse(cas, &c)) { fprintf(stderr, "cannot parse case [%s]\n", cas); _exit(3); }
    char err[512], outc[1024], cs[256], v[4096]; cfg_str(&c, cs, sizeof(cs));
    if (!c.sched) {
        parsec_context_t *parsec = init_ctx(c.threads, NULL); master_only = c.threads > 1;
        hs_install(parsec); hs_module.module.select = c22_select;
        hs_explorer_t *ex = (hs_explorer_t *)malloc(sizeof(*ex)); hs_begin(ex, 0, 0);
        unsigned char ch[HS_MAXPTS]; int nch = 0;
        if (wr_case_get(cas, "cho", v, sizeof(v)) && strcmp(v, "-")) for (char *t = strtok(v, "."); t; t = strtok(NULL, ".")) ch[nch++] = (unsigned char)atoi(t);
        hs_item_t *it = (hs_item_t *)calloc(1, sizeof(hs_item_t) + nch + 1); it->len = nch; memcpy(it->ch, ch, nch); free(ex->stack); ex->stack = it;
        hs_next(ex);
        wr_setcase("%s", cas);
        int bad = run_case(parsec, &c, err, sizeof(err), outc, sizeof(outc));
        printf("  replay %s\n  task order: %s\n  operator calls (tile mn in call order): %s\n", cs, ex->order, outc);
        if (bad) wr_fail("%s", err); else { printf("  replay: case passes\n"); hs_end_run(ex); hs_uninstall(parsec); parsec_fini(&parsec); }
    } else {
        parsec_context_t *parsec = init_ctx(c.threads, strcmp(c.sched, "default") ? c.sched : NULL);
        int bad = 0; wr_setcase("%s", cas);
        for (int r = 0; r < 200 && !bad; r++) { bad = run_case(parsec, &c, err, sizeof(err), outc, sizeof(outc)); wr_leg->progress++; }
        printf("  replay (free running, up to 200 repetitions) %s\n  last operator calls: %s\n", cs, outc);
        if (bad) wr_fail("%s", err); else { printf("  replay: case passes\n"); parsec_fini(&parsec); }
    }
}

/* ---- leg "builtin-reductions": the library's own reduction taskpools, unmodified -------------------------------
 * parsec_reduce_new (reduce.jdf as compiled into libparsec), parsec_reduce_col_New, parsec_reduce_row_New with an integer +
 * operator. Each call runs in its own process (stderr captured). Signatures:
 *   "no-fold"  : the run completes but the destination does not hold the sequential fold  -> C22-reduce-bodies-ignore-operator
 *   "bounds"   : abort on the two_dim_rectangle_cyclic bounds assertion (tile row mt / column nt addressed) -> C22-reduce-rowcol-wrapper-bounds
 * anything else (other crash, hang, wrong signature for the call) is a violation; so is a listed signature whose id is not in known_findings.json. */
static int op_sum(struct parsec_execution_stream_s *es, const void *src, void *dst, void *op_data, ...) { (void)es; (void)op_data; *(int *)dst += *(const int *)src; return 0; }
static const char *known_ids = "";
static int builtin_child(int which, int mt, int nt)
{
    parsec_context_t *parsec = init_ctx(1, NULL);
    parsec_matrix_block_cyclic_t A, B; static int neutral = 0;
    mat_init(&A, mt, nt, "A", 1); mat_init(&B, which == 0 ? 1 : mt, which == 0 ? 1 : nt, "B", 0);
    int want = 0; for (int i = 0; i < mt * nt; i++) { if (which == 0 && i >= mt) break; want += ((int *)A.mat)[i]; }
    for (int i = 0; i < (which == 0 ? 1 : mt * nt); i++) ((int *)B.mat)[i] = -1;
    parsec_taskpool_t *tp;
    if (which == 0) { tp = (parsec_taskpool_t *)parsec_reduce_new(&A.super, &B.super, &neutral);
        parsec_arena_datatype_set_type(&((parsec_reduce_taskpool_t *)tp)->arenas_datatypes[PARSEC_reduce_DEFAULT_ADT_IDX], sizeof(int), PARSEC_ARENA_ALIGNMENT_SSE, PARSEC_DATATYPE_NULL); }
    else if (which == 1) tp = parsec_reduce_col_New(&A.super, &B.super, op_sum, NULL);
    else tp = parsec_reduce_row_New(&A.super, &B.super, op_sum, NULL);
    if (!tp) return 40;
    parsec_context_add_taskpool(parsec, tp); parsec_context_start(parsec); int rc = parsec_context_wait(parsec);
    if (rc != 0) return 41;
    /* does any destination tile hold the fold of the tiles it should combine? (which==0: column 0 of A into B(0,0)) */
    int ok = which == 0 ? ((int *)B.mat)[0] == want : 0;
    return ok ? 0 : 42;
}
static int bf_which = -1, bf_mt, bf_nt;   /* replay filter */
static void leg_builtin(void)
{
    double t0 = wr_now(); long execs = 0, nknown = 0; int viol = 0; wr_set_t sigs = {0}; char sample[2][1024]; int ns = 0;
    static const char *WN[3] = { "parsec_reduce_new", "parsec_reduce_col_New", "parsec_reduce_row_New" };
    typedef struct { int which, mt, nt, fd; pid_t pid; } job_t; job_t jobs[64]; int nj = 0;
    int mx = (wr_thorough || bf_which >= 0) ? 5 : 3;
    for (int which = 0; which < 3; which++) for (int mt = 1; mt <= (which == 0 ? 5 : mx); mt++) for (int nt = 1; nt <= (which == 0 ? 1 : mx); nt++) {
        if (bf_which >= 0 && (which != bf_which || mt != bf_mt || nt != bf_nt)) continue;
        int pfd[2]; if (pipe(pfd)) { perror("pipe"); exit(2); }
        fflush(stdout); fflush(stderr);
        pid_t pid = fork();
        if (pid == 0) { struct rlimit rl = { 0, 0 }; setrlimit(RLIMIT_CORE, &rl); close(pfd[0]); dup2(pfd[1], 2); int dn = open("/dev/null", O_WRONLY); dup2(dn, 1); alarm(60); _exit(builtin_child(which, mt, nt)); }
        close(pfd[1]); jobs[nj].which = which; jobs[nj].mt = mt; jobs[nj].nt = nt; jobs[nj].fd = pfd[0]; jobs[nj].pid = pid; nj++;
    }
    for (int j = 0; j < nj; j++) {
        int which = jobs[j].which, mt = jobs[j].mt, nt = jobs[j].nt; pid_t pid = jobs[j].pid;
        char cas[256]; snprintf(cas, sizeof(cas), "op=builtin call=%s mt=%d nt=%d", WN[which], mt, nt);
        char eb[4096]; int el = 0, r; while ((r = (int)read(jobs[j].fd, eb + el, sizeof(eb) - 1 - el)) > 0) el += r; eb[el] = 0; close(jobs[j].fd);
        int st; waitpid(pid, &st, 0); execs++;
        const char *sig = NULL, *id = NULL; char msg[600];
        if (WIFEXITED(st) && WEXITSTATUS(st) == 0) sig = "fold";
        else if (WIFEXITED(st) && WEXITSTATUS(st) == 42) { sig = "no-fold"; id = "C22-reduce-bodies-ignore-operator"; }
        else if (WIFSIGNALED(st) && WTERMSIG(st) == SIGABRT && strstr(eb, "two_dim_rectangle_cyclic.c") && strstr(eb, "Assertion") && (strstr(eb, "< dc->super.nt") || strstr(eb, "< dc->super.mt")) && which != 0) { sig = "bounds"; id = "C22-reduce-rowcol-wrapper-bounds"; }
        char so[300]; snprintf(so, sizeof(so), "%s:%s", WN[which], sig ? sig : "other"); wr_set_add(&sigs, wr_hash(so, strlen(so)));
        if (ns < 2 && (execs == 2 || execs == 8)) snprintf(sample[ns++], 1024, "%s => %s", cas, sig ? sig : "other");
        if (sig && !id) continue;
        if (id && strstr(known_ids, id)) { nknown++; wr_known_finding("id=%s %s", id, !strcmp(sig, "bounds") ? "parsec_reduce_col_New / parsec_reduce_row_New address tile row mt / column nt (bounds assertion of the 2D block-cyclic collection)" : "the built-in tree reduction completes but its destination does not hold the fold of the tiles (bodies apply no operator)"); continue; }
        if (id) snprintf(msg, sizeof(msg), "signature '%s' of known finding %s, which is not listed in known_findings.json", sig, id);
        else { for (char *q = eb; *q; q++) if (*q == '\n') *q = ' '; snprintf(msg, sizeof(msg), "unexpected failure of the built-in reduction (wait status 0x%x): %.400s", st, eb); }
        wr_violation("builtin-reductions", cas, msg); viol++;
    }
    const char *sp[2] = { sample[0], sample[1] }; char extra[128]; snprintf(extra, sizeof(extra), "\"known_finding_hits\":%ld", nknown);
    wr_report("builtin-reductions", execs, execs, execs, 0, (long)sigs.n, !wr_expired() && !viol, viol, wr_now() - t0, extra, sp, ns);
}

int main(int argc, char **argv)
{
    wr_init(argc, argv, "C22");
    int jobs = 8; const char *only = NULL;
    for (int i = 1; i < argc; i++) {
        if (!strcmp(argv[i], "--jobs") && i + 1 < argc) jobs = atoi(argv[++i]);
        else if (!strcmp(argv[i], "--leg") && i + 1 < argc) only = argv[++i];
        else if (!strcmp(argv[i], "--maxall") && i + 1 < argc) MAXALL = atoi(argv[++i]);
        else if (!strcmp(argv[i], "--maxdev") && i + 1 < argc) MAXDEV = atoi(argv[++i]);
        else if (!strcmp(argv[i], "--no-reduce")) with_reduce = 0;
        else if (!strcmp(argv[i], "--known") && i + 1 < argc) known_ids = argv[++i];
    }
    static const char *aux[] = { "configurations", "configurations_all_orders", NULL };
    if (wr_replay_file) {
        static char scen[128], cas[WR_CASELEN];
        if (wr_read_replay(wr_replay_file, scen, sizeof(scen), cas, sizeof(cas))) { fprintf(stderr, "cannot read replay file\n"); return 2; }
        if (strstr(cas, "op=builtin")) {
            char v[64]; wr_case_get(cas, "call", v, sizeof(v)); bf_which = !strcmp(v, "parsec_reduce_new") ? 0 : !strcmp(v, "parsec_reduce_col_New") ? 1 : 2;
            bf_mt = (int)wr_case_int(cas, "mt", 1); bf_nt = (int)wr_case_int(cas, "nt", 1); leg_builtin();
            if (!wr_total_violations) printf("  replay: case passes\n");
            return wr_finish();
        }
        wr_run_legs("replay", 1, leg_replay, cas, 60, NULL);
        return wr_finish();
    }
    if (!only || !strcmp(only, "builtin")) leg_builtin();
    /* deciding legs first (70% of the time budget), free-running configuration box last */
    double full_deadline = wr_deadline;
    if (full_deadline > 0 && !only) wr_deadline = full_deadline - 0.3 * (full_deadline - wr_now());
    leg_arg_t a = { 'a', 1 }, m1 = { 'm', 1 }, m2 = { 'm', 2 }, m4 = { 'm', 4 }, r = { 'r', 1 };
    if (with_reduce && (!only || !strcmp(only, "reduce"))) wr_run_legs("reduce-orders", 3, leg_orders, &r, 600, aux);
    if (!only || !strcmp(only, "map")) { wr_run_legs("map-orders-1core", 1, leg_orders, &m1, 600, aux); wr_run_legs("map-orders-2cores", jobs > 4 ? 4 : jobs, leg_orders, &m2, 600, aux); wr_run_legs("map-orders-4cores", jobs > 6 ? 6 : jobs, leg_orders, &m4, 600, aux); }
    if (!only || !strcmp(only, "apply")) wr_run_legs("apply-orders", jobs, leg_orders, &a, 600, aux);
    wr_deadline = full_deadline; if (full_deadline > 0 && full_deadline < wr_now() + 15) wr_deadline = wr_now() + 15;   /* the box always gets a minimum share */
    if (!only || !strcmp(only, "threads")) wr_run_legs("threads", 9, leg_threads, NULL, 240, aux);
    return wr_finish();
}
