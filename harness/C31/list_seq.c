/* C31 (E2 leg): lists, dequeues and fifos keep their contents and order — sequential operation histories on the
 * REAL parsec_list_t / parsec_dequeue_t / parsec_fifo_t (inline functions of list.h, list_item.h, dequeue.h, fifo.h),
 * BFS to closure over all list arrangements of NI distinguishable items with tied priorities, against an array model
 * with *stable* sorted insertion. */
#include "parsec/parsec_config.h"
#include "parsec/class/list.h"
#include "parsec/class/dequeue.h"
#include "parsec/class/fifo.h"
#include "guard.h"
#include <stddef.h>

#ifndef NI
#define NI 5
#endif
#define MAXRING 3

typedef struct { parsec_list_item_t super; int prio; int id; } elt_t;
#define OFF offsetof(elt_t, prio)

enum { K_PUSH_FRONT, K_PUSH_BACK, K_POP_FRONT, K_POP_BACK, K_TRY_POP_FRONT, K_TRY_POP_BACK, K_PUSH_SORTED, K_CHAIN_SORTED,
       K_CHAIN_FRONT, K_CHAIN_BACK, K_UNCHAIN, K_SORT, K_REMOVE, K_ADD_BEFORE, K_ADD_AFTER, K_RING_PUSH_SORTED, K_RING_CHOP };
static const char *kname[] = { "pushf", "pushb", "popf", "popb", "trypopf", "trypopb", "pushsorted", "chainsorted",
                               "chainf", "chainb", "unchain", "sort", "remove", "addbefore", "addafter", "ringpushsorted", "ringchop" };
/* API flavours */
enum { F_NOLOCK, F_LOCKED, F_DEQUEUE, F_FIFO, F_RING };
static const char *fname[] = { "list_nolock", "list_locked", "dequeue", "fifo", "ring_sorted" };

typedef struct { int kind, a, b, n, r[MAXRING]; } opdef_t;       /* a,b: item ids; r[0..n): ring members in ring order */
static opdef_t ops[256]; static int nops_total;
static int flavour = F_NOLOCK;
static int prios[NI];

typedef struct {
    parsec_list_t *list;                       /* real object (flavours list/dequeue/fifo) */
    parsec_list_item_t *ring;                  /* real object (flavour ring) */
    elt_t e[NI];
    int m[NI], mn;                             /* model: ids front..back (ring: head..) */
} obj_t;

static int in_model(obj_t *o, int id) { for (int i = 0; i < o->mn; i++) if (o->m[i] == id) return 1; return 0; }
static int model_sorted_desc(obj_t *o) { for (int i = 0; i + 1 < o->mn; i++) if (prios[o->m[i]] < prios[o->m[i + 1]]) return 0; return 1; }
static void m_insert(obj_t *o, int pos, int id) { for (int i = o->mn; i > pos; i--) o->m[i] = o->m[i - 1]; o->m[pos] = id; o->mn++; }
static void m_remove(obj_t *o, int pos) { for (int i = pos; i + 1 < o->mn; i++) o->m[i] = o->m[i + 1]; o->mn--; }
/* stable insertion in a non-increasing list: after every element of priority >= the new one */
static void m_insert_sorted(obj_t *o, int id) { int pos = 0; while (pos < o->mn && prios[o->m[pos]] >= prios[id]) pos++; m_insert(o, pos, id); }

static void *fresh(void)
{
    obj_t *o = calloc(1, sizeof(obj_t));
    for (int i = 0; i < NI; i++) { PARSEC_OBJ_CONSTRUCT(&o->e[i].super, parsec_list_item_t); o->e[i].prio = prios[i]; o->e[i].id = i; }
    if (flavour == F_DEQUEUE) o->list = (parsec_list_t *)PARSEC_OBJ_NEW(parsec_dequeue_t);
    else if (flavour == F_FIFO) o->list = (parsec_list_t *)PARSEC_OBJ_NEW(parsec_fifo_t);
    else if (flavour != F_RING) o->list = PARSEC_OBJ_NEW(parsec_list_t);
    g_hist_reset();
    return o;
}
static void destroy(void *p) { obj_t *o = p; if (o->list) { /* detach without destructing asserts */ free(o->list); } free(o); }

static void opname(int op, char *b, size_t cap)
{
    opdef_t *d = &ops[op]; int n = snprintf(b, cap, "%s", kname[d->kind]);
    if (d->kind == K_ADD_BEFORE || d->kind == K_ADD_AFTER) snprintf(b + n, cap - n, ":%d@%d", d->a, d->b);
    else if (d->n) { for (int i = 0; i < d->n; i++) n += snprintf(b + n, cap - n, "%c%d", i ? ',' : ':', d->r[i]); }
    else if (d->a >= 0) snprintf(b + n, cap - n, ":%d", d->a);
}

static int enabled(void *p, int op)
{
    obj_t *o = p; opdef_t *d = &ops[op];
    switch (d->kind) {
    case K_PUSH_FRONT: case K_PUSH_BACK: return !in_model(o, d->a);
    case K_PUSH_SORTED: case K_RING_PUSH_SORTED: return !in_model(o, d->a) && model_sorted_desc(o);     /* documented precondition: the list is sorted */
    case K_CHAIN_SORTED: if (!model_sorted_desc(o)) return 0; /* fallthrough */
    case K_CHAIN_FRONT: case K_CHAIN_BACK: for (int i = 0; i < d->n; i++) if (in_model(o, d->r[i])) return 0; return 1;
    case K_REMOVE: return in_model(o, d->a);
    case K_ADD_BEFORE: case K_ADD_AFTER: return !in_model(o, d->a) && in_model(o, d->b);
    case K_RING_CHOP: return o->mn > 0;
    default: return 1;
    }
}

#define FAIL(...) do { snprintf(err, SX_ERRLEN, __VA_ARGS__); return 1; } while (0)
static int idof(obj_t *o, volatile parsec_list_item_t *it) { elt_t *e = (elt_t *)it; if (e < &o->e[0] || e > &o->e[NI - 1] || ((char *)e - (char *)o->e) % sizeof(elt_t)) return -1; return (int)(e - o->e); }

/* build a ring out of free items with the real ring functions */
static parsec_list_item_t *make_ring(obj_t *o, opdef_t *d)
{
    parsec_list_item_t *ring = parsec_list_item_singleton(&o->e[d->r[0]].super);
    for (int i = 1; i < d->n; i++) { parsec_list_item_singleton(&o->e[d->r[i]].super); parsec_list_item_ring_push(ring, &o->e[d->r[i]].super); }
    return ring;
}
/* check that 'head' is a consistent ring whose members, in order, are ids[0..n) */
static int check_ring(obj_t *o, parsec_list_item_t *head, const int *ids, int n, const char *what, char *err)
{
    if (n == 0) { if (head != NULL) FAIL("%s: expected no ring (NULL), got a pointer", what); return 0; }
    if (head == NULL) FAIL("%s: returned NULL, expected a ring of %d items", what, n);
    volatile parsec_list_item_t *it = head;
    for (int i = 0; i < n; i++) {
        int id = idof(o, it);
        if (id != ids[i]) FAIL("%s: position %d of the ring holds item %d, expected item %d", what, i, id, ids[i]);
        volatile parsec_list_item_t *nx = it->list_next;
        if (idof(o, nx) < 0) FAIL("%s: next pointer of item %d leaves the items", what, id);
        if (nx->list_prev != it) FAIL("%s: prev link of the successor of item %d is inconsistent", what, id);
        it = nx;
    }
    if (it != head) FAIL("%s: ring does not close after %d items", what, n);
    return 0;
}

/* compare the real list with the model; walks both directions */
static int check_list(obj_t *o, char *err)
{
    parsec_list_t *l = o->list; parsec_list_item_t *g = &l->ghost_element; int n = 0;
    volatile parsec_list_item_t *prev = g;
    for (volatile parsec_list_item_t *it = g->list_next; it != g; prev = it, it = it->list_next) {
        int id = idof(o, it);
        if (id < 0) FAIL("forward walk reaches a pointer that is neither an item nor the ghost after %d items", n);
        if (n >= NI) FAIL("forward walk longer than the number of items (cycle)");
        if (it->list_prev != prev) FAIL("prev link of item %d does not point to its predecessor", id);
        if (n >= o->mn || o->m[n] != id) FAIL("position %d holds item %d (prio %d), model expects %s%d", n, id, prios[id], n < o->mn ? "item " : "end, size ", n < o->mn ? o->m[n] : o->mn);
        n++;
    }
    if (g->list_prev != prev) FAIL("tail pointer does not point to the last item");
    if (n != o->mn) FAIL("list holds %d items, model %d", n, o->mn);
    /* the library's own iterators and queries */
    int k = 0; PARSEC_LIST_NOLOCK_REV_ITERATOR(l, ri, { if (k >= n || idof(o, ri) != o->m[n - 1 - k]) { k = -100; break; } k++; });
    if (k != n) FAIL("reverse iterator does not enumerate the model back to front");
    if (parsec_list_nolock_is_empty(l) != (o->mn == 0)) FAIL("nolock_is_empty = %d with %d items", parsec_list_nolock_is_empty(l), o->mn);
    if (parsec_list_is_empty(l) != (o->mn == 0)) FAIL("is_empty = %d with %d items", parsec_list_is_empty(l), o->mn);
    for (int i = 0; i < NI; i++) if (parsec_list_nolock_contains(l, &o->e[i].super) != in_model(o, i)) FAIL("nolock_contains(item %d) = %d, model %d", i, !in_model(o, i), in_model(o, i));
    if (l->atomic_lock != 0) FAIL("the list lock is left taken");
    return 0;
}

static int apply_list(obj_t *o, opdef_t *d, char *err)
{
    parsec_list_t *l = o->list; parsec_list_item_t *it = NULL; int locked = flavour != F_NOLOCK;
    parsec_list_item_t *A = d->a >= 0 ? &o->e[d->a].super : NULL;
    switch (d->kind) {
    case K_PUSH_FRONT:
        if (flavour == F_DEQUEUE) parsec_dequeue_push_front(l, A); else if (locked) parsec_list_push_front(l, A); else parsec_list_nolock_push_front(l, A);
        m_insert(o, 0, d->a); break;
    case K_PUSH_BACK:
        if (flavour == F_FIFO) parsec_fifo_push(l, A); else if (flavour == F_DEQUEUE) parsec_dequeue_push_back(l, A); else if (locked) parsec_list_push_back(l, A); else parsec_list_nolock_push_back(l, A);
        m_insert(o, o->mn, d->a); break;
    case K_POP_FRONT: case K_TRY_POP_FRONT: {
        int tr = d->kind == K_TRY_POP_FRONT;
        if (flavour == F_FIFO) it = tr ? parsec_fifo_try_pop(l) : parsec_fifo_pop(l);
        else if (flavour == F_DEQUEUE) it = tr ? parsec_dequeue_try_pop_front(l) : parsec_dequeue_pop_front(l);
        else if (locked) it = tr ? parsec_list_try_pop_front(l) : parsec_list_pop_front(l);
        else it = tr ? parsec_list_try_pop_front(l) : parsec_list_nolock_pop_front(l);
        int want = o->mn ? o->m[0] : -1, got = it ? idof(o, it) : -1;
        if (it && got < 0) FAIL("%s returned a pointer that is not an item", kname[d->kind]);
        if (got != want) FAIL("%s returned item %d, expected %d (-1 = NULL)", kname[d->kind], got, want);
        if (o->mn) m_remove(o, 0);
    } break;
    case K_POP_BACK: case K_TRY_POP_BACK: {
        int tr = d->kind == K_TRY_POP_BACK;
        if (flavour == F_DEQUEUE) it = tr ? parsec_dequeue_try_pop_back(l) : parsec_dequeue_pop_back(l);
        else if (locked) it = tr ? parsec_list_try_pop_back(l) : parsec_list_pop_back(l);
        else it = tr ? parsec_list_try_pop_back(l) : parsec_list_nolock_pop_back(l);
        int want = o->mn ? o->m[o->mn - 1] : -1, got = it ? idof(o, it) : -1;
        if (it && got < 0) FAIL("%s returned a pointer that is not an item", kname[d->kind]);
        if (got != want) FAIL("%s returned item %d, expected %d (-1 = NULL)", kname[d->kind], got, want);
        if (o->mn) m_remove(o, o->mn - 1);
    } break;
    case K_PUSH_SORTED:
        if (locked) parsec_list_push_sorted(l, A, OFF); else parsec_list_nolock_push_sorted(l, A, OFF);
        m_insert_sorted(o, d->a); break;
    case K_CHAIN_SORTED: {
        parsec_list_item_t *ring = make_ring(o, d);
        if (locked) parsec_list_chain_sorted(l, ring, OFF); else parsec_list_nolock_chain_sorted(l, ring, OFF);
        for (int i = 0; i < d->n; i++) m_insert_sorted(o, d->r[i]);      /* ring members are inserted one after the other, in ring order */
    } break;
    case K_CHAIN_FRONT: {
        parsec_list_item_t *ring = make_ring(o, d);
        if (flavour == F_DEQUEUE) parsec_dequeue_chain_front(l, ring); else if (locked) parsec_list_chain_front(l, ring); else parsec_list_nolock_chain_front(l, ring);
        for (int i = d->n - 1; i >= 0; i--) m_insert(o, 0, d->r[i]);
    } break;
    case K_CHAIN_BACK: {
        parsec_list_item_t *ring = make_ring(o, d);
        if (flavour == F_FIFO) parsec_fifo_chain(l, ring); else if (flavour == F_DEQUEUE) parsec_dequeue_chain_back(l, ring); else if (locked) parsec_list_chain_back(l, ring); else parsec_list_nolock_chain_back(l, ring);
        for (int i = 0; i < d->n; i++) m_insert(o, o->mn, d->r[i]);
    } break;
    case K_UNCHAIN: {
        it = locked ? parsec_list_unchain(l) : parsec_list_nolock_unchain(l);
        if (check_ring(o, it, o->m, o->mn, "unchain", err)) return 1;
        o->mn = 0;
    } break;
    case K_SORT: {
        int before[NI], nb = o->mn; memcpy(before, o->m, sizeof(before));
        if (locked) parsec_list_sort(l, OFF); else parsec_list_nolock_sort(l, OFF);
        /* oracle for sort: a permutation of the previous content, monotone by priority (the statement says "ordered", either direction) */
        parsec_list_item_t *g = &l->ghost_element; int n = 0, seen[NI] = {0}, got[NI];
        for (volatile parsec_list_item_t *x = g->list_next; x != g; x = x->list_next) {
            int id = idof(o, x);
            if (id < 0) FAIL("after sort the list reaches a pointer that is not an item");
            if (n >= NI || seen[id]) FAIL("after sort item %d appears twice (cycle or duplicate)", id);
            seen[id] = 1; got[n++] = id;
        }
        if (n != nb) FAIL("sort changed the number of items: %d -> %d", nb, n);
        for (int i = 0; i < nb; i++) if (!seen[before[i]]) FAIL("sort lost item %d", before[i]);
        int inc = 1, dec = 1; for (int i = 0; i + 1 < n; i++) { if (prios[got[i]] > prios[got[i + 1]]) inc = 0; if (prios[got[i]] < prios[got[i + 1]]) dec = 0; }
        if (!inc && !dec) FAIL("sort result is not ordered by priority");
        memcpy(o->m, got, sizeof(int) * n);            /* the order among ties is whatever the implementation chose */
    } break;
    case K_REMOVE: {
        int pos = 0; while (o->m[pos] != d->a) pos++;
        it = parsec_list_nolock_remove(l, A);
        int want = pos ? o->m[pos - 1] : -1, got = it == &l->ghost_element ? -1 : idof(o, it);
        if (got != want) FAIL("remove(item %d) returned predecessor %d, expected %d (-1 = ghost)", d->a, got, want);
        m_remove(o, pos);
    } break;
    case K_ADD_BEFORE: { int pos = 0; while (o->m[pos] != d->b) pos++; parsec_list_nolock_add_before(l, &o->e[d->b].super, A); m_insert(o, pos, d->a); } break;
    case K_ADD_AFTER: { int pos = 0; while (o->m[pos] != d->b) pos++;
        if (locked) parsec_list_add_after(l, &o->e[d->b].super, A); else parsec_list_nolock_add_after(l, &o->e[d->b].super, A);
        m_insert(o, pos + 1, d->a); } break;
    }
    return check_list(o, err);
}

static int apply_ring(obj_t *o, opdef_t *d, char *err)
{
    if (d->kind == K_RING_PUSH_SORTED) {
        o->ring = parsec_list_item_ring_push_sorted(o->ring, &o->e[d->a].super, OFF);
        /* documented: inserted before the first p with !(item lower than p); the property only asks for an ordered ring:
         * the model takes the position from the real ring after checking order and membership */
        int want[NI], n = o->mn + 1, seen[NI] = {0}, k = 0; volatile parsec_list_item_t *x = o->ring;
        if (!x) FAIL("ring_push_sorted returned NULL");
        do { int id = idof(o, x); if (id < 0) FAIL("ring reaches a pointer that is not an item"); if (k >= NI || seen[id]) FAIL("item %d twice in the ring / ring does not close", id); seen[id] = 1; want[k++] = id; x = x->list_next; } while (x != o->ring);
        if (k != n) FAIL("ring holds %d items, expected %d", k, n);
        if (!seen[d->a]) FAIL("pushed item %d is not in the ring", d->a);
        for (int i = 0; i < o->mn; i++) if (!seen[o->m[i]]) FAIL("item %d was lost from the ring", o->m[i]);
        /* relative order of the previous members unchanged */
        for (int i = 0, j = 0; i < k; i++) { if (want[i] == d->a) continue; if (want[i] != o->m[j]) FAIL("ring_push_sorted reordered existing members"); j++; }
        for (int i = 0; i + 1 < k; i++) if (prios[want[i]] < prios[want[i + 1]]) FAIL("ring not in non-increasing priority order after ring_push_sorted(item %d prio %d): position %d has prio %d, next %d", d->a, prios[d->a], i, prios[want[i]], prios[want[i + 1]]);
        memcpy(o->m, want, sizeof(int) * k); o->mn = k;
    } else { /* chop the head: remaining ring starts at the second element */
        parsec_list_item_t *rest = parsec_list_item_ring_chop(o->ring);
        m_remove(o, 0); o->ring = rest;
    }
    return check_ring(o, o->ring, o->m, o->mn, "ring", err);
}

static int apply(void *p, int op, char *err)
{
    obj_t *o = p; char nm[64]; opname(op, nm, sizeof(nm)); g_hist_add(nm);
    G_OP_BEGIN(); int rc = flavour == F_RING ? apply_ring(o, &ops[op], err) : apply_list(o, &ops[op], err); G_OP_END();
    return rc;
}
static size_t canon(void *p, char *b, size_t cap) { obj_t *o = p; (void)cap; for (int i = 0; i < o->mn; i++) b[i] = (char)('0' + o->m[i]); return (size_t)o->mn; }

/* ---- alphabets ---- */
static void add_op(int kind, int a, int b) { opdef_t *d = &ops[nops_total++]; memset(d, 0, sizeof(*d)); d->kind = kind; d->a = a; d->b = b; }
static void add_rings(int kind, int maxlen)
{
    for (int len = 1; len <= maxlen; len++) {
        int idx[MAXRING] = {0};
        for (;;) {
            int ok = 1; for (int i = 0; i < len; i++) for (int j = 0; j < i; j++) if (idx[i] == idx[j]) ok = 0;
            if (ok) { if (nops_total >= 255) { fprintf(stderr, "alphabet too large\n"); exit(2); } opdef_t *d = &ops[nops_total++]; memset(d, 0, sizeof(*d)); d->kind = kind; d->a = -1; d->n = len; for (int i = 0; i < len; i++) d->r[i] = idx[i]; }
            int c = len - 1; while (c >= 0 && ++idx[c] == NI) idx[c--] = 0; if (c < 0) break;
        }
    }
}
static void build_alphabet(int fl, int variant)
{
    nops_total = 0; flavour = fl;
    if (fl == F_RING) { for (int i = 0; i < NI; i++) add_op(K_RING_PUSH_SORTED, i, -1); add_op(K_RING_CHOP, -1, -1); return; }
    for (int i = 0; i < NI; i++) { if (fl != F_FIFO) add_op(K_PUSH_FRONT, i, -1); add_op(K_PUSH_BACK, i, -1); }
    add_op(K_POP_FRONT, -1, -1); add_op(K_TRY_POP_FRONT, -1, -1);
    if (fl != F_FIFO) { add_op(K_POP_BACK, -1, -1); add_op(K_TRY_POP_BACK, -1, -1); }
    if (fl == F_FIFO) { add_rings(K_CHAIN_BACK, NI > 6 ? 2 : 3); return; }
    if (fl == F_DEQUEUE) { add_rings(K_CHAIN_FRONT, NI > 5 ? 2 : 3); add_rings(K_CHAIN_BACK, NI > 5 ? 2 : 3); return; }
    /* list flavours; the alphabet is split in two variants to stay below 256 operations */
    add_op(K_UNCHAIN, -1, -1); add_op(K_SORT, -1, -1);
    for (int i = 0; i < NI; i++) add_op(K_PUSH_SORTED, i, -1);
    if (variant == 0) {       /* sorted chains (rings <= 3) */
        add_rings(K_CHAIN_SORTED, NI > 5 ? (NI > 6 ? 2 : 3) : 3);
        if (fl == F_NOLOCK) for (int i = 0; i < NI; i++) add_op(K_REMOVE, i, -1);
    } else {                  /* plain chains, positional insertion, removal */
        add_rings(K_CHAIN_FRONT, NI > 5 ? 2 : 3); add_rings(K_CHAIN_BACK, 2);
        if (fl == F_NOLOCK) for (int i = 0; i < NI; i++) add_op(K_REMOVE, i, -1);
        for (int i = 0; i < NI; i++) for (int j = 0; j < NI; j++) if (i != j) { if (fl == F_NOLOCK) add_op(K_ADD_BEFORE, i, j); add_op(K_ADD_AFTER, i, j); }
    }
    if (nops_total > 255) { fprintf(stderr, "alphabet too large (%d)\n", nops_total); exit(2); }
}

/* priority assignments (ties on purpose) */
static const int PRIOSETS[][8] = { { 1, 2, 2, 3, 3, 2, 1, 3 }, { 2, 2, 2, 2, 2, 2, 2, 2 }, { 3, 1, 2, 1, 3, 2, 2, 1 }, { -1, 0, 0, 1, -1, 1, 0, -1 }, { 5, 4, 3, 2, 1, 0, -1, -2 } };
#define NPRIOSETS 5

static void scen_name(char *b, size_t cap, int fl, int variant, int ps) { snprintf(b, cap, "%s_v%d_p%d_n%d", fname[fl], variant, ps, NI); }
static int setup_scen(const char *name)
{
    for (int fl = 0; fl <= F_RING; fl++) for (int v = 0; v < 2; v++) for (int ps = 0; ps < NPRIOSETS; ps++) {
        char nm[64]; scen_name(nm, sizeof(nm), fl, v, ps);
        if (!strcmp(nm, name)) { for (int i = 0; i < NI; i++) prios[i] = PRIOSETS[ps][i]; build_alphabet(fl, v); return 0; }
    }
    return -1;
}

int main(int argc, char **argv)
{
    sx_init(argc, argv, "C31");
    g_install();
    static char nm[64];
    if (sx_replay_file) {
        char h[4096]; if (sx_read_replay(sx_replay_file, nm, sizeof(nm), h, sizeof(h))) return 2;
        if (setup_scen(nm)) { fprintf(stderr, "unknown scenario %s (item count of this binary: %d)\n", nm, NI); return 2; }
        sx_system_t sys = { nm, nops_total, fresh, destroy, enabled, apply, canon, opname, 0, 0 };
        return sx_replay_named(&sys, h);
    }
    int nps = sx_tier_thorough ? NPRIOSETS : 3;
    for (int fl = 0; fl <= F_RING; fl++) for (int v = 0; v < 2; v++) for (int ps = 0; ps < nps; ps++) {
        if (v == 1 && fl != F_NOLOCK && fl != F_LOCKED) continue;
        if ((fl == F_DEQUEUE || fl == F_FIFO || v == 1) && ps > 0 && !(fl == F_RING)) { if (ps > 0) continue; }   /* priorities are irrelevant without sorted operations */
        scen_name(nm, sizeof(nm), fl, v, ps); g_scen = nm; setup_scen(nm);
        sx_system_t sys = { nm, nops_total, fresh, destroy, enabled, apply, canon, opname, 0, 0 };
        sx_stats_t st; sx_bfs(&sys, &st);
    }
    return sx_finish();
}
