/* Expectation table emitted by ptgir.py (reference interpreter) and consumed by ptg_driver.c.
 * One executable = one PTG program (ptgpp-generated C) + its table + the generic driver. */
#ifndef PTG_EXP_H
#define PTG_EXP_H
#include <stdint.h>
#include "parsec/runtime.h"
struct vdc_s;
struct parsec_execution_stream_s;

#define PTG_MAXP 8
#define PTG_MAXL 12
#define PTG_MAXF 8

typedef struct {
    int cls, np, p[PTG_MAXP];       /* class index, parameters (in parameter order) */
    int nl, l[PTG_MAXL];            /* all locals in declaration order (= the assignment array) */
    int pred_off, npred;            /* predecessor instances: preds[pred_off .. pred_off+npred) */
    unsigned in_mask, out_mask, null_mask;   /* flows read / written by the body / whose data is NULL */
    uint64_t in_val[PTG_MAXF];      /* expected value read on each flow of in_mask */
    uint64_t out_val[PTG_MAXF];     /* value the body writes on each flow of out_mask (informative) */
    const char *name;               /* "TA(1, 2)" */
    int prio;
} ptg_inst_t;

typedef struct {
    const char *name;               /* "NT=3" */
    int ninst; const ptg_inst_t *inst; const int *preds;
    const int *coll_n; const uint64_t **coll_init; const uint64_t **coll_final;
    const int *glob;
} ptg_variant_t;

typedef struct {
    const char *name; int ncls; const char **cls_name; const int *cls_nflows; const int *cls_nparams;
    int ncoll; int nvar; const ptg_variant_t *var;
    parsec_taskpool_t *(*make)(struct vdc_s **colls, const int *glob);
} ptg_program_t;

extern const ptg_program_t ptg_program;

/* called from every generated task body */
int ptg_body(struct parsec_execution_stream_s *es, parsec_task_t *task, int cls, int np, const int *p, int nl, const int *l, int nf, void **f);
#endif
