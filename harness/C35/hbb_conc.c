/* C35 (E1 leg): concurrent push / pop on one hierarchical bounded buffer never loses or duplicates a task
 * (real parsec/hbbuffer.c from libparsec, every schedule with a bounded number of preemptions).
 * The priority preference of pop_best is only claimed at quiescence (the source documents an ABA window for
 * push_all_by_priority), so under concurrency the oracle is conservation; a final quiescent drain checks the order. */
#include "parsec/parsec_config.h"
#include "parsec/parsec_internal.h"
#include "parsec/hbbuffer.h"
#include "cosched.h"
#include <stdio.h>
#include <string.h>
#include <stdlib.h>

#define NT 6
enum { O_PUSH, O_PUSHPRIO, O_POP, O_END };
typedef struct { int type, a, b, c; } step_t;           /* ring a[,b[,c]] */
typedef struct { const char *name; int size; int prios[NT]; int ninit, init[NT]; int nthreads; step_t script[3][3]; } scen_t;
static const scen_t *cur;
static parsec_hbbuffer_t *buf;
static parsec_task_t *tasks;
/* per-thread logs (private to each controlled thread: no sharing, no scheduling points) */
static int popped[3][4], npopped[3], pop_null[3];
static int parent_got[4][NT], nparent[4];               /* index 3 = main thread */
static char perr[4][160];

static int id_of(volatile void *p) { parsec_task_t *t = (parsec_task_t *)p; if (!p) return -1; if (t < tasks || t >= tasks + NT) return -2; return (int)(t - tasks); }
static void parent_push(void *store, parsec_list_item_t *elt, int32_t distance)
{
    (void)store; (void)distance; int me = cs_self(); if (me < 0 || me > 2) me = 3;
    if (!elt) { snprintf(perr[me], sizeof(perr[me]), "parent store received NULL"); return; }
    volatile parsec_list_item_t *x = elt; int n = 0;
    do {
        int id = id_of(x);
        if (id < 0 || n++ >= NT) { snprintf(perr[me], sizeof(perr[me]), "ring given to the parent store is broken (foreign pointer or does not close)"); return; }
        if (nparent[me] < NT) parent_got[me][nparent[me]++] = id;
        x = x->list_next;
    } while (x != elt);
}
static parsec_list_item_t *mkring(const step_t *s)
{
    parsec_list_item_t *r = PARSEC_LIST_ITEM_SINGLETON(&tasks[s->a].super);
    if (s->b >= 0) { PARSEC_LIST_ITEM_SINGLETON(&tasks[s->b].super); parsec_list_item_ring_push(r, &tasks[s->b].super); }
    if (s->c >= 0) { PARSEC_LIST_ITEM_SINGLETON(&tasks[s->c].super); parsec_list_item_ring_push(r, &tasks[s->c].super); }
    return r;
}
static void body(void *arg)
{
    int t = (int)(intptr_t)arg;
    for (int i = 0; i < 3 && cur->script[t][i].type != O_END; i++) {
        const step_t *s = &cur->script[t][i];
        if (s->type == O_PUSH) parsec_hbbuffer_push_all(buf, mkring(s), 0);
        else if (s->type == O_PUSHPRIO) parsec_hbbuffer_push_all_by_priority(buf, mkring(s), 0);
        else { parsec_list_item_t *it = parsec_hbbuffer_pop_best(buf, parsec_execution_context_priority_comparator); if (it) popped[t][npopped[t]++] = id_of(it); else pop_null[t]++; }
    }
}
static void run_scen(const scen_t *s)
{
    cur = s; memset(popped, 0, sizeof(popped)); memset(npopped, 0, sizeof(npopped)); memset(pop_null, 0, sizeof(pop_null));
    memset(nparent, 0, sizeof(nparent)); memset(perr, 0, sizeof(perr));
    tasks = calloc(NT, sizeof(parsec_task_t));
    for (int i = 0; i < NT; i++) { PARSEC_OBJ_CONSTRUCT(&tasks[i].super, parsec_list_item_t); tasks[i].priority = s->prios[i]; }
    buf = parsec_hbbuffer_new(s->size, 1, parent_push, (void *)1);
    int pushed[NT] = {0};
    for (int i = 0; i < s->ninit; i++) { step_t st = { O_PUSH, s->init[i], -1, -1 }; parsec_hbbuffer_push_all(buf, mkring(&st), 0); pushed[s->init[i]] = 1; }
    CS_CHECK(nparent[3] == 0, "scenario set-up overflowed the buffer");
    cs_watch(&buf->items[0], s->size * sizeof(void *), "hbbuffer_slots");
    cs_body_t b[3] = { body, body, body }; void *args[3] = { (void *)0, (void *)1, (void *)2 };
    cs_run(s->nthreads, b, args);

    for (int t = 0; t < s->nthreads; t++) for (int i = 0; i < 3 && s->script[t][i].type != O_END; i++) if (s->script[t][i].type != O_POP) { const step_t *x = &s->script[t][i]; pushed[x->a]++; if (x->b >= 0) pushed[x->b]++; if (x->c >= 0) pushed[x->c]++; }
    for (int t = 0; t < 4; t++) CS_CHECK(!perr[t][0], "%s", perr[t]);
    /* conservation: every pushed task is in exactly one place */
    int inbuf[NT] = {0}, inpar[NT] = {0}, inpop[NT] = {0}, held = 0;
    for (int k = 0; k < s->size; k++) { volatile parsec_list_item_t *x = buf->items[k]; if (!x) continue; int id = id_of(x); CS_CHECK(id >= 0, "slot %d holds a pointer that is not a task", k); inbuf[id]++; held++; }
    for (int t = 0; t < 3; t++) { for (int i = 0; i < nparent[t]; i++) inpar[parent_got[t][i]]++; for (int i = 0; i < npopped[t]; i++) { CS_CHECK(popped[t][i] >= 0, "pop_best returned a pointer that is not a task"); inpop[popped[t][i]]++; } }
    char out[300]; int o = 0;
    for (int i = 0; i < NT; i++) {
        int total = inbuf[i] + inpar[i] + inpop[i];
        CS_CHECK(total <= 1 || !pushed[i], "task %d is in %d places (buffer %d, parent store %d, popped %d): duplicated", i, total, inbuf[i], inpar[i], inpop[i]);
        CS_CHECK(total == pushed[i], "task %d pushed %d time(s) but found %d time(s) (buffer %d, parent store %d, popped %d): %s", i, pushed[i], total, inbuf[i], inpar[i], inpop[i], total < pushed[i] ? "lost" : "appeared from nowhere");
        if (pushed[i]) o += snprintf(out + o, sizeof(out) - o, "%d:%c ", i, inbuf[i] ? 'B' : inpar[i] ? 'P' : 'X');
    }
    for (int t = 0; t < s->nthreads; t++) { o += snprintf(out + o, sizeof(out) - o, "| T%d pops:", t); for (int i = 0; i < npopped[t]; i++) o += snprintf(out + o, sizeof(out) - o, " %d", popped[t][i]); if (pop_null[t]) o += snprintf(out + o, sizeof(out) - o, " null*%d", pop_null[t]); }
    /* a pop may return NULL only if the buffer could have been empty at some point: with more pushed-and-kept tasks than pops this
     * is not decidable without linearization; the quiescent part of the statement is checked by draining now */
    int last = 1000000, drained = 0;
    for (;;) {
        parsec_list_item_t *it = parsec_hbbuffer_pop_best(buf, parsec_execution_context_priority_comparator);
        if (!it) break;
        int id = id_of(it); CS_CHECK(id >= 0 && inbuf[id] == 1, "quiescent pop_best returned a task the buffer did not hold"); inbuf[id] = 0;
        CS_CHECK(tasks[id].priority <= last, "quiescent pop_best returned priority %d after priority %d (not the best first)", tasks[id].priority, last);
        last = tasks[id].priority; drained++;
    }
    CS_CHECK(drained == held, "quiescent drain returned %d tasks, buffer held %d", drained, held);
    cs_observe("%s", out);
}
#define E { O_END, -1, -1, -1 }
static const scen_t scens[] = {
    /* size 1: overflow and CAS contention on the single slot */
    { "s1_push2_push1_pop", 1, { 1, 2, 3, 1, 2, 3 }, 0, { 0 }, 3, { { { O_PUSH, 0, 1, -1 }, E }, { { O_PUSH, 2, -1, -1 }, E }, { { O_POP, -1, -1, -1 }, E } } },
    { "s1_prio_prio_pop", 1, { 1, 2, 3, 1, 2, 3 }, 1, { 0 }, 3, { { { O_PUSHPRIO, 2, -1, -1 }, E }, { { O_PUSHPRIO, 1, -1, -1 }, E }, { { O_POP, -1, -1, -1 }, E } } },
    /* size 2 */
    { "s2_prio2_prio1_pop2", 2, { 1, 2, 3, 1, 2, 3 }, 0, { 0 }, 3, { { { O_PUSHPRIO, 2, 0, -1 }, E }, { { O_PUSHPRIO, 1, -1, -1 }, E }, { { O_POP, -1, -1, -1 }, { O_POP, -1, -1, -1 }, E } } },
    { "s2_full_prio_pop_pop", 2, { 1, 2, 3, 1, 2, 3 }, 2, { 0, 1 }, 3, { { { O_PUSHPRIO, 2, -1, -1 }, E }, { { O_POP, -1, -1, -1 }, E }, { { O_POP, -1, -1, -1 }, E } } },
    { "s2_push_prio_pop", 2, { 1, 2, 3, 1, 2, 3 }, 1, { 3 }, 3, { { { O_PUSH, 0, 1, -1 }, E }, { { O_PUSHPRIO, 2, 4, -1 }, E }, { { O_POP, -1, -1, -1 }, E } } },
    /* ABA seeker: the popper removes the candidate a by-priority pusher is about to replace, and pushes it back */
    { "s2_aba_prio_vs_pop_push", 2, { 1, 2, 3, 1, 2, 3 }, 2, { 0, 1 }, 2, { { { O_PUSHPRIO, 2, -1, -1 }, E }, { { O_POP, -1, -1, -1 }, { O_PUSH, 3, -1, -1 }, E } } },
    { "s2_pop_pop_push3", 2, { 1, 2, 3, 1, 2, 3 }, 1, { 0 }, 3, { { { O_POP, -1, -1, -1 }, E }, { { O_POP, -1, -1, -1 }, E }, { { O_PUSH, 1, 2, 3 }, E } } },
};
#define R(i) static void r##i(void) { run_scen(&scens[i]); }
R(0) R(1) R(2) R(3) R(4) R(5) R(6)
static cs_scenario_t scenarios[] = {
    { "s1_push2_push1_pop", r0, 0 }, { "s1_prio_prio_pop", r1, 0 }, { "s2_prio2_prio1_pop2", r2, 0 }, { "s2_full_prio_pop_pop", r3, 0 },
    { "s2_push_prio_pop", r4, 0 }, { "s2_aba_prio_vs_pop_push", r5, 0 }, { "s2_pop_pop_push3", r6, 0 },
};
int main(int argc, char **argv) { return cs_main(argc, argv, "C35", scenarios, sizeof(scenarios) / sizeof(scenarios[0]), NULL); }
