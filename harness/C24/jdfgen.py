"""Grammar-based ENUMERATION of JDF (PTG) programs for C24.

A program = one subject task class S whose shape is given by a spec (numbers of parameters, locals, flows,
input / output dependencies per flow, flow kinds, dependency targets, guards, ranges, properties) + automatically
derived peer task classes (one per task-to-task dependency of S) that carry the mirror dependency, so that every
text built from a spec is a *valid* JDF program unless the spec exceeds a limit of the build
(MAX_LOCAL_COUNT, MAX_PARAM_COUNT, MAX_DEP_IN_COUNT, MAX_DEP_OUT_COUNT).
Near-valid texts are produced by the mutation operators at the end (applied to valid texts).
Everything is deterministic: the same (limits, tier) gives the same list of texts in the same order.
"""
import itertools

HEADER = '''extern "C" %{
#include "parsec/data_distribution.h"
%}

A   [type = "parsec_data_collection_t*"]
NT  [type = int]
'''


def flow(kind, ins=(), outs=(), name=None):
    return dict(kind=kind, ins=list(ins), outs=list(outs), name=name)


def dep(t, guard=None, other=None, rng=False, props=''):
    """t: 'data' | 'task' | 'new' | 'null' ; guard: None | 'bin' | 'tern' (other = target of the false branch)"""
    return dict(t=t, guard=guard, other=other, rng=rng, props=props)


class Spec(dict):
    pass


def spec(np_=1, nl=1, flows=None, tprops='', bprops='', prio=False, tag='', derived=False, args=(), iters=0):
    """derived: the second parameter is defined by an expression of the first (p1 = p0 + 1) and the third ranges up to it; args: extra ptgpp options"""
    return Spec(np=np_, nl=nl, flows=flows if flows is not None else [flow('RW', [dep('data')], [dep('data')])],
                tprops=tprops, bprops=bprops, prio=prio, tag=tag, derived=derived, args=list(args), iters=iters)
    # iters: number of local-definition iterators ([ i0 = 0 .. 1, ... ]) on an extra output dep of the first flow; each needs one more local slot


def classify(sp, lim):
    """'over' if a count certainly exceeds a limit of the build, 'edge' if a ternary makes the count ambiguous at the limit, else 'within'."""
    over = False; edge = False
    if sp['np'] + sp['nl'] + sp.get('iters', 0) > lim['MAX_LOCAL_COUNT']:      # iterator slots count as locals (jdf_generate_task_typedef)
        over = True
    fl = sp['flows']
    if len(fl) > lim['MAX_PARAM_COUNT']:
        over = True
    fin = sum(1 for f in fl if f['kind'] in ('RW', 'READ', 'CTL'))
    fout = sum(1 for f in fl if f['kind'] in ('RW', 'WRITE', 'CTL'))
    if sum(1 for f in fl if f['kind'] in ('RW', 'READ')) > lim['MAX_PARAM_COUNT'] or sum(1 for f in fl if f['kind'] in ('RW', 'WRITE')) > lim['MAX_PARAM_COUNT']:
        over = True
    for f in fl:
        ni, no = len(f['ins']), len(f['outs'])
        ti = sum(1 for d in f['ins'] if d['guard'] == 'tern'); to = sum(1 for d in f['outs'] if d['guard'] == 'tern')
        if ni > lim['MAX_DEP_IN_COUNT'] or no > lim['MAX_DEP_OUT_COUNT']:
            over = True
        elif ni + ti > lim['MAX_DEP_IN_COUNT'] or no + to > lim['MAX_DEP_OUT_COUNT']:
            edge = True
    return 'over' if over else 'edge' if edge else 'within'


def render(sp):
    """-> (text, info) ; info has the names needed by the mutation operators"""
    np_, nl = sp['np'], sp['nl']
    params = ['p%d' % i for i in range(np_)]
    zeros = ', '.join(['k'] + ['0'] * (np_ - 1))
    if sp.get('derived'):
        zeros = ', '.join((['k', 'k+1'] + ['0'] * (np_ - 2))[:np_])
    hdr = HEADER
    if 'make_key_fn' in sp['tprops']:
        hdr = hdr.replace('%}\n', 'static parsec_key_t my_key(const parsec_taskpool_t *tp, const parsec_assignment_t *locals)\n{ (void)tp; return (parsec_key_t)locals[0].value; }\n%}\n', 1)
    out = [hdr]
    peers = []
    iter_peer = None
    L = []
    L.append('S(%s)%s' % (', '.join(params), (' [%s]' % sp['tprops']) if sp['tprops'] else ''))
    L.append('  p0 = 0 .. NT-1')
    for i in range(1, np_):
        if sp.get('derived') and i == 1:
            L.append('  p1 = p0 + 1')
        elif sp.get('derived') and i == 2:
            L.append('  p2 = 0 .. p1-1')
        else:
            L.append('  p%d = 0 .. %d' % (i, i % 2))
    for i in range(nl):
        L.append('  l%d = %s' % (i, ['p0 + %d' % i, '(p0 %% %d)' % (i + 2), 'NT - p0'][i % 3]))
    L.append(': A(p0)')
    L.append('')
    nctl = 0
    first_task_call = None
    for fi, f in enumerate(sp['flows']):
        kind = f['kind']
        fname = f['name'] or ('C%d' % fi if kind == 'CTL' else 'F%d' % fi)
        lines = []

        def target(d, direction, di, branch=0):
            nonlocal first_task_call
            t = d['t'] if branch == 0 else d['other']
            if t == 'data':
                return 'A(p0)'
            if t == 'new':
                return 'NEW'
            if t == 'null':
                return 'NULL'
            pn = 'Q%s%d_%d%s' % ('I' if direction == 'in' else 'O', fi, di, 'b' if branch else '')
            g = 'G'
            arg = 'p0 .. p0+1' if (d['rng'] and branch == 0) else 'p0'
            peers.append((pn, direction, kind, fname, d, di))
            call = '%s %s(%s)' % (g, pn, arg)
            if first_task_call is None:
                first_task_call = (pn, call)
            return call

        for di, d in enumerate(f['ins']):
            g = ''
            if d['guard'] == 'bin':
                g = '(p0 == %d) ? ' % di
            if d['guard'] == 'tern':
                s = '<- (p0 == %d) ? %s : %s' % (di, target(d, 'in', di), target(d, 'in', di, 1))
            else:
                s = '<- ' + g + target(d, 'in', di)
            if d['props']:
                s += '  [%s]' % d['props']
            lines.append(s)
        for di, d in enumerate(f['outs']):
            g = ''
            if d['guard'] == 'bin':
                g = '(p0 == %d) ? ' % di
            if d['guard'] == 'tern':
                s = '-> (p0 == %d) ? %s : %s' % (di, target(d, 'out', di), target(d, 'out', di, 1))
            else:
                s = '-> ' + g + target(d, 'out', di)
            if d['props']:
                s += '  [%s]' % d['props']
            lines.append(s)
        if fi == 0 and sp.get('iters', 0) and kind in ('RW', 'WRITE'):
            k = sp['iters']
            its = ', '.join('i%d = 0 .. 1' % j for j in range(k))
            lines.append('-> [ %s ] (p0 >= 0) ? %s QIT(p0, %s)' % (its, fname, ', '.join('i%d' % j for j in range(k))))
            iter_peer = (fname, k)
        head = '  %-5s %s ' % (kind, fname)
        if not lines:
            L.append(head.rstrip())
        for li, s in enumerate(lines):
            L.append((head if li == 0 else ' ' * len(head)) + s)
    L.append('')
    if sp['prio']:
        L.append('; p0')
    L.append('BODY%s' % ((' [%s]' % sp['bprops']) if sp['bprops'] else ''))
    L.append('{')
    L.append('    /* subject task */')
    L.append('}')
    L.append('END')
    out.append('\n'.join(L) + '\n')
    for (pn, direction, kind, fname, d, di) in peers:
        P = ['', '%s(k)' % pn, '  k = 0 .. NT-1', ': A(k)', '']
        sref = '%s S(%s)' % (fname, zeros)
        if kind == 'CTL':
            P.append('  CTL G %s %s' % ('->' if direction == 'in' else '<-', sref))
        elif direction == 'in':      # the peer produces the data S reads
            P.append('  RW G <- A(k)')
            P.append('       -> %s%s' % ('(k == %d) ? ' % di if d['guard'] else '', sref))
        else:                        # the peer consumes what S sends
            P.append('  READ G <- %s' % sref)
        P += ['', 'BODY', '{', '    /* peer */', '}', 'END']
        out.append('\n'.join(P) + '\n')
    if iter_peer:
        fname, k = iter_peer
        P = ['', 'QIT(k, %s)' % ', '.join('i%d' % j for j in range(k)), '  k = 0 .. NT-1'] + ['  i%d = 0 .. 1' % j for j in range(k)] + [': A(k)', '',
             '  READ %s <- %s S(%s)' % (fname, fname, zeros), '', 'BODY', '{', '    /* iterator peer */', '}', 'END']
        out.append('\n'.join(P) + '\n')
    text = '\n'.join(out)
    info = dict(first_task_call=first_task_call, peers=[p[0] for p in peers], nparams=np_)
    return text, info


# ----------------------------------------------------------------------------------------- enumeration
def five(mx):
    return [1, 2, mx - 1, mx, mx + 1]


def in_deps(n, pattern, kind):
    """n input deps; pattern 0: all from tasks, 1: cycle data/task/new|null/task, 2: with one ternary"""
    if kind == 'WRITE':
        return [dep('new')] if n else []
    r = []
    for i in range(n):
        guard = 'bin' if n > 1 else None
        if kind == 'CTL':
            r.append(dep('task', guard, rng=(pattern == 1 and i == 0)))
            continue
        if pattern == 0:
            r.append(dep('task', guard))
        elif pattern == 1:
            t = ['data', 'task', 'new' if kind == 'RW' else 'null', 'task'][i % 4]
            r.append(dep(t, guard if (guard or t in ('data', 'task')) else 'bin'))
        else:
            r.append(dep('task', 'tern', other='data') if i == 0 else dep('task', guard))
    return r


def out_deps(n, pattern, kind):
    r = []
    for i in range(n):
        guard = 'bin' if (n > 1 and i % 2 == 1) else None
        if kind == 'CTL':
            r.append(dep('task', guard, rng=(pattern == 1 and i == 0)))
        elif pattern == 0:
            r.append(dep('task', guard))
        elif pattern == 1:
            t = ['task', 'data', 'task'][i % 3] if kind != 'READ' else 'task'
            r.append(dep(t, guard, rng=(t == 'task' and i % 3 == 2)))
        else:
            r.append(dep('task', 'tern', other='task') if i == 0 else dep('task', guard))
    return r


def filler_flow(kind, i):
    if kind == 'RW':
        return flow('RW', [dep('data')], [dep('data')])
    if kind == 'READ':
        return flow('READ', [dep('data')], [])
    if kind == 'WRITE':
        return flow('WRITE', [dep('new')], [dep('task')])
    return flow('CTL', [], [dep('task')])


def flows_n(n, kinds, ni=1, no=1, pi=0, po=0):
    """n flows with kinds cycling through `kinds`; flow 0 carries ni/no deps, the others are fillers"""
    k0 = kinds[0]
    fl = [flow(k0, in_deps(ni, pi, k0) if k0 != 'WRITE' else in_deps(1, 0, 'WRITE'), out_deps(no, po, k0) if k0 != 'READ' or no else [])]
    for i in range(1, n):
        fl.append(filler_flow(kinds[i % len(kinds)], i))
    return fl


def enumerate_specs(lim, tier):
    """the valid / over-limit programs (no mutation yet). Returns list of (name, spec)."""
    ML, MP, MI, MO = lim['MAX_LOCAL_COUNT'], lim['MAX_PARAM_COUNT'], lim['MAX_DEP_IN_COUNT'], lim['MAX_DEP_OUT_COUNT']
    S = []
    thorough = tier == 'thorough'
    # A1. parameters x locals (both in {1,2,MAX-1,MAX,MAX+1}; quick: the sweep of one with the other at 1 + the corner cases)
    for np_ in five(MP):
        for nl in five(ML):
            tot = np_ + nl
            if not thorough and not (nl == 1 or np_ == 1 or tot in (ML, ML + 1)):
                continue
            if tot > 2 * ML + 2:
                continue
            S.append(('np%d_nl%d' % (np_, nl), spec(np_, nl)))
    for np_ in ([MP - 1, MP, MP + 1] if True else []):
        S.append(('np%d_nl0' % np_, spec(np_, 0)))
    # parameters + locals exactly around the limit
    for tot in (ML - 1, ML, ML + 1):
        for np_ in ((1, 2, tot // 2) if thorough else (2,)):
            S.append(('tot%d_np%d' % (tot, np_), spec(np_, tot - np_)))
    # A1b. local-definition iterators: named parameters + locals around the limit x 1..2 iterator slots (seeded change C24-1: the
    #      limit check must count the iterator slots)
    for k in (1, 2):
        for tot in (ML - 3, ML - 2, ML - 1, ML):
            S.append(('it%d_tot%d' % (k, tot), spec(1, tot - 1, iters=k)))
    # A2. number of flows x kind mix
    kindsets = [('RW',), ('READ',), ('WRITE',), ('CTL',), ('RW', 'READ', 'WRITE', 'CTL'), ('READ', 'WRITE')]
    for nf in five(MP):
        for ks in (kindsets if thorough else [kindsets[0], kindsets[4], kindsets[5]]):
            S.append(('nf%d_%s' % (nf, ''.join(k[0] + k[-1] for k in ks)), spec(2, 1, flows_n(nf, ks))))
    # in-flows or out-flows alone at the limit (READ+WRITE mixes where the total exceeds but each direction does not)
    for (nr, nw) in ([(MP // 2 + 1, MP // 2), (MP, 1), (1, MP), (MP, MP)] if thorough else [(MP // 2 + 1, MP // 2)]):
        fl = [filler_flow('READ', i) for i in range(nr)] + [filler_flow('WRITE', i) for i in range(nw)]
        S.append(('nr%d_nw%d' % (nr, nw), spec(1, 1, fl)))
    # A3. input deps of one flow x kind x target pattern
    for ni in five(MI):
        for kind in (('RW', 'READ', 'CTL') if thorough else ('RW', 'CTL')):
            for pi in ((0, 1, 2) if kind != 'CTL' else (0, 1)):
                if not thorough and pi == 2 and ni not in (MI, 2):
                    continue
                S.append(('ni%d_%s_p%d' % (ni, kind, pi), spec(1, 1, flows_n(1, (kind,), ni=ni, no=1, pi=pi))))
    # A4. output deps of one flow x kind x target pattern
    for no in five(MO):
        for kind in (('RW', 'READ', 'WRITE', 'CTL') if thorough else ('RW', 'WRITE')):
            for po in ((0, 1, 2) if kind != 'CTL' else (0, 1)):
                if not thorough and po == 2 and no not in (MO, 2):
                    continue
                S.append(('no%d_%s_p%d' % (no, kind, po), spec(1, 1, flows_n(1, (kind,), ni=1, no=no, pi=0, po=po))))
    # B. pairs of extremes
    ext = lambda m: (m, m + 1)
    pairs = []
    for ni in ext(MI):
        for no in ext(MO):
            pairs.append(('ni%d_no%d' % (ni, no), spec(1, 1, flows_n(1, ('RW',), ni=ni, no=no, pi=1, po=1))))
    for nf in ext(MP):
        for ni in ext(MI):
            pairs.append(('nf%d_ni%d' % (nf, ni), spec(1, 1, flows_n(nf, ('RW', 'READ'), ni=ni, no=1))))
        for no in ext(MO):
            pairs.append(('nf%d_no%d' % (nf, no), spec(1, 1, flows_n(nf, ('RW', 'WRITE'), ni=1, no=no))))
        for tot in ext(ML):
            pairs.append(('nf%d_tot%d' % (nf, tot), spec(2, tot - 2, flows_n(nf, ('RW', 'READ', 'WRITE', 'CTL')))))
    for tot in ext(ML):
        for ni in ext(MI):
            pairs.append(('tot%d_ni%d' % (tot, ni), spec(tot - 1, 1, flows_n(1, ('RW',), ni=ni, no=2))))
    S += pairs if thorough else pairs[::3]
    # C. small programs: kind x input target x guard x output target x range x properties
    props_in = ['', 'type = DEFAULT', 'type_remote = DEFAULT', 'displ_remote = 0', 'type = DEFAULT layout = parsec_datatype_int_t count = 1 displ = 0']
    small = []
    for kind in ('RW', 'READ', 'WRITE', 'CTL'):
        ins_opts = {
            'RW': [('data', None), ('task', None), ('new', None), ('data', 'tern:task'), ('task', 'tern:new'), ('null', 'tern:task'), ('task', 'bin'), ('data', 'tern:data'), ('new', 'tern:data')],
            'READ': [('data', None), ('task', None), ('data', 'tern:task'), ('null', 'tern:task'), ('task', 'tern:data'), ('data', 'tern:data')],
            'WRITE': [('new', None), (None, None)],
            'CTL': [('task', None), ('task', 'bin'), ('task', 'rng'), (None, None)],
        }[kind]
        outs_opts = {
            'RW': [('data', None), ('task', None), ('task', 'bin'), ('task', 'rng'), ('task', 'tern:data'), ('data', 'tern:task'), ('data', 'tern:data'), (None, None)],
            'READ': [(None, None), ('task', None), ('task', 'bin'), ('task', 'rng'), ('task', 'tern:task')],
            'WRITE': [('task', None), ('data', None), ('task', 'rng'), ('task', 'tern:data')],
            'CTL': [('task', None), ('task', 'bin'), ('task', 'rng'), (None, None)],
        }[kind]
        for (it, ig), (ot, og) in itertools.product(ins_opts, outs_opts):
            if it is None and ot is None:
                continue
            def mk(t, g):
                if t is None:
                    return []
                if g and g.startswith('tern:'):
                    return [dep(t, 'tern', other=g[5:])]
                if g == 'rng':
                    return [dep(t, None, rng=True)]
                return [dep(t, g)]
            small.append(('k%s_i%s%s_o%s%s' % (kind, it, ('-' + ig.replace(':', '')) if ig else '', ot, ('-' + og.replace(':', '')) if og else ''),
                          spec(2, 1, [flow(kind, mk(it, ig), mk(ot, og))])))
    S += small if thorough else small[::5]
    # properties and options (on a 2-flow program)
    base_fl = lambda pin, pout: [flow('RW', [dep('data', 'tern', other='task', props=pin)], [dep('task', props=pout), dep('data', 'bin')]), flow('READ', [dep('task')], [])]
    propsets = [(pi, po) for pi in props_in for po in (['', 'type = DEFAULT', 'type_remote = DEFAULT', 'displ_remote = 0'] if thorough else [''])]
    for i, (pi, po) in enumerate(propsets):
        S.append(('props%d' % i, spec(2, 1, base_fl(pi, po))))
    for i, (tp, bp, pr) in enumerate([('profile = off', '', False), ('high_priority = on', '', True), ('', 'type = CPU', False), ('make_key_fn = my_key', '', False), ('', '', True),
                                      ('profile = off high_priority = on', 'type = CPU', True)] if thorough else [('profile = off', '', True), ('', 'type = CPU', False)]):
        S.append(('opts%d' % i, spec(2, 2, base_fl('', ''), tprops=tp, bprops=bp, prio=pr)))
    # D. parameter definitions (derived parameter followed by a range that depends on it) x dependency back-end
    for np_ in ((2, 3, 4) if thorough else (3,)):
        for fl_i, fl in enumerate([None, base_fl('', '')] if thorough else [None]):
            S.append(('derived_np%d_f%d' % (np_, fl_i), spec(np_, 1, fl, derived=True)))
    # E. the non-default dependency back-end (-M index-array) on a spread of the programs above
    ia = []
    for n, s in S:
        pick = n.startswith(('derived', 'k', 'opts', 'props')) or n in ('np1_nl1', 'np2_nl1', 'np%d_nl1' % MP, 'nf2_RW', 'nf%d_RW' % MP, 'nf%d_RW' % (MP + 1), 'ni%d_RW_p1' % MI, 'ni%d_RW_p1' % (MI + 1), 'no%d_RW_p1' % MO, 'no%d_RW_p1' % (MO + 1))
        if pick:
            s2 = Spec(s); s2['args'] = ['-M', 'index-array']; ia.append((n + '@ia', s2))
    S += ia if thorough else [x for x in ia if x[0].startswith('derived')] + [x for x in ia if not x[0].startswith('derived')][::4]
    # de-duplicate by name, keep order
    seen = set(); R = []
    for n, s in S:
        if n in seen:
            continue
        seen.add(n); s['tag'] = n; R.append((n, s))
    return R


# ----------------------------------------------------------------------------------------- mutations (near-valid texts)
def _replace_once(text, old, new):
    i = text.find(old)
    if i < 0:
        return None
    return text[:i] + new + text[i + len(old):]


def mutations(text, info):
    """yield (name, mutated_text) ; each makes ONE local change to a valid text"""
    ftc = info['first_task_call']
    M = []
    M.append(('noEND', _replace_once(text, '}\nEND\n', '}\n')))
    M.append(('noBODY', _replace_once(text, 'BODY\n{', '{') or _replace_once(text, 'BODY', '')))
    M.append(('noPartition', _replace_once(text, ': A(p0)\n', '\n')))
    M.append(('undefSymbolRange', _replace_once(text, 'p0 = 0 .. NT-1', 'p0 = 0 .. NTX-1')))
    M.append(('paramNotDefined', _replace_once(text, '  p0 = 0 .. NT-1\n', '')))
    M.append(('unbalancedParen', _replace_once(text, ': A(p0)', ': A(p0')))
    M.append(('globalShadow', _replace_once(text, 'NT  [type = int]\n', 'NT  [type = int]\nF0  [type = int]\n')))
    M.append(('dupTask', text + '\nS(k)\n  k = 0 .. NT-1\n: A(k)\n  RW X <- A(k)\n       -> A(k)\nBODY\n{\n}\nEND\n'))
    M.append(('noGlobalType', _replace_once(text, 'NT  [type = int]', 'NT')))
    M.append(('undefData', _replace_once(text, ': A(p0)', ': B(p0)')))
    M.append(('emptyFlowName', _replace_once(text, ' F0 ', '  ')))
    M.append(('newAsOutput', _replace_once(text, '-> A(p0)', '-> NEW')))
    M.append(('nullAsOutput', _replace_once(text, '-> A(p0)', '-> NULL')))
    M.append(('dataArity', _replace_once(text, '<- A(p0)', '<- A(p0, 0, 1)')))
    M.append(('badFlowKind', _replace_once(text, '  RW ', '  RX ') or _replace_once(text, '  READ ', '  REED ')))
    M.append(('cCodeInRange', _replace_once(text, 'p0 = 0 .. NT-1', 'p0 = 0 .. %{ return NT-1; %}')))
    # (no mutation inside embedded C code: ptgpp copies it verbatim and cannot be expected to validate it)
    if ftc:
        pn, call = ftc
        M.append(('unknownTask', _replace_once(text, call, call.replace(pn, 'NOSUCH' + pn))))
        M.append(('arityLess', _replace_once(text, call, call.replace('(p0', '('))))
        M.append(('arityMore', _replace_once(text, call, call.replace(')', ', 0)'))))
        M.append(('unknownFlow', _replace_once(text, call, call.replace('G ', 'GX ', 1))))
        M.append(('undefSymbolArg', _replace_once(text, call, call.replace('p0', 'zz', 1))))
        M.append(('taskAsData', _replace_once(text, call, call.replace('G ', '', 1))))
        # remove the mirror dependency in the peer ("input dep without mirror output" / "output without mirror input")
        i = text.find('\n%s(k)' % pn)
        if i >= 0:
            j = text.find('BODY', i)
            seg = text[i:j]
            for pat in ('       -> ', '  READ G <- ', '  CTL G '):
                k = seg.find(pat)
                if k >= 0:
                    e = seg.find('\n', k)
                    if pat == '       -> ':
                        seg2 = seg[:k] + seg[e + 1:]
                    elif pat == '  READ G <- ':
                        seg2 = seg[:k] + '  READ G <- A(k)' + seg[e:]
                    else:
                        seg2 = seg[:k] + '  CTL G -> G %s(k)' % pn + seg[e:]
                    M.append(('noMirror', text[:i] + seg2 + text[j:]))
                    break
            M.append(('peerWrongFlow', text[:i] + seg.replace(' S(', ' SX(') + text[j:]))
    M.append(('guardUndef', _replace_once(text, '(p0 == 0) ?', '(qq == 0) ?') or _replace_once(text, '(p0 == 1) ?', '(qq == 1) ?')))
    M.append(('rangeInData', _replace_once(text, '<- A(p0)', '<- A(p0 .. p0+1)')))
    M.append(('truncated', text[:max(10, int(len(text) * 0.6))]))
    M.append(('noProlog', _replace_once(text, 'extern "C" %{', '%{')))
    return [(n, t) for n, t in M if t is not None and t != text]
