META = dict(
    engine='cosched',
    technique='stateless model checking: preemption-bounded exhaustive schedule enumeration (CHESS) of the real parsec_lifo_t, linearizability by brute force',
    level_text='Every schedule with <= b preemptions (b=2..4 per script in quick - 4 for the two-thread ABA seeker -, 3..6 in thorough) of six 2-3 thread scripts (ABA seekers, chain, try_pop) over the real LIFO is executed; each history is checked for linearizability against a sequential stack plus conservation of items and absence of cycles.',
    level_note='Sequential consistency at instrumented accesses (gcc -fsanitize=thread instrumentation + own runtime); 2-3 threads, <= 4 operations per thread; weak-memory effects (missing fences) are out of reach.',
)
RULE = ("cosched: every schedule of each 2-3 thread script over the real parsec_lifo_t with at most b preemptions "
        "(scheduling points = every instrumented access to the lifo head and the items' links); a schedule is "
        "non-trivial when it contains at least one preemption; states = nodes of the explored schedule tree")
QUICK = [('aba_pop_vs_pop_pop_push', 4), ('chain_order', 4), ('push_pop_push', 3), ('trypop_trypop_push', 3), ('chain_pop_push', 2), ('aba3', 2)]
THOROUGH = [('aba_pop_vs_pop_pop_push', 6), ('chain_order', 6), ('push_pop_push', 4), ('trypop_trypop_push', 4), ('aba3', 3), ('chain_pop_push', 3)]
def check(ctx):
    # one engine invocation per script: small scripts go deeper (the seeded "counter read after the item"
    # change needs 3 preemptions of a 2-thread script), cheapest first so a deadline cuts the biggest last
    exe = ctx.compile('hk-shm', 'lifo', ['lifo_h.c'], engine='cosched')
    plan = QUICK if ctx.tier == 'quick' else THOROUGH
    budget = 60 if ctx.tier == 'quick' else 1200
    ctx.set_budget(budget)
    for i, (sc, b) in enumerate(plan):
        share = max(5, ctx.remaining() / (len(plan) - i))
        ctx.run_cosched(exe, b, scenario=sc, deadline=share, label='lifo-%s-b%d' % (sc, b))
    return ctx.finish(RULE, ["sequential consistency at instrumented accesses (no weak-memory effects)",
                             "gcc -fsanitize=thread instrumentation reports every access to the watched objects"])
def replay(ctx, path, obj):
    import subprocess
    exe = ctx.compile('hk-shm', 'lifo', ['lifo_h.c'], engine='cosched')
    return subprocess.call([exe, '--replay', path])
