import os
META = dict(
    engine='cosched',
    technique='stateless model checking: preemption-bounded exhaustive schedule enumeration (CHESS) of the real dependency-release path (parsec_release_local_OUT_dependencies -> find_deps -> update_deps) on hand-built task classes',
    level_text='Every schedule with <= b preemptions (b=1..3 quick, 2..4 thorough, per configuration) of 2-3 predecessor threads releasing the 1..4 required inputs of one or two successor instances is executed on the real code, for 16 configurations: bitmask and counter mode, array (parsec_default_find_deps) and hash-table (parsec_hash_find_deps, concurrent first touch) storage, inputs read straight from a collection, an instance-dependent control input and control gathers. In each execution update_deps says "ready" exactly once per instance, not before all required releases have started, and the instance sits exactly once in exactly one ready ring with the data of the completing release.',
    level_note='Sequential consistency at instrumented accesses (dependency words, hash-bucket locks; chain links are only touched under the bucket lock); <= 3 threads, <= 3 releases per thread; the successor task class, execution streams and taskpool are built by hand (real mempools, real hash table); tc->update_deps is a thin recording wrapper around the real update functions.',
)
RULE = ("cosched: every schedule of 2-3 releasing threads over the real release path with at most b preemptions "
        "(scheduling points = every instrumented access to the dependency words of the successor instances and to the hash-bucket "
        "locks); non-trivial = at least one preemption; states = nodes of the explored schedule tree; outcomes = which thread/flow "
        "completed each instance and the ready/not-ready verdict sequence of every thread")
ASSUME = ["sequential consistency at instrumented accesses (no weak-memory effects)",
          "gcc -fsanitize=thread instrumentation reports every access to the watched words",
          "each required input is released exactly once (a control gather exactly n times), as the generated code does"]
SRC = ['deps_h.c']
def check(ctx):
    import vlib
    exe = ctx.compile('hk-shm', 'deps', SRC, engine='cosched')
    q = ctx.tier == 'quick'
    env = dict(os.environ); env['C07_QUICK'] = '1' if q else '0'
    deadline = 70 if q else 1080
    args = ['--bound', '4', '--scenario', 'all', '--jobs', str(vlib.NJOBS), '--outdir', vlib.OUT, '--deadline', str(deadline)]   # per-configuration caps are in deps_h.c
    ctx.run_engine(exe, args, label='deps', timeout=deadline + 600, env=env)
    return ctx.finish(RULE, ASSUME)
def replay(ctx, path, obj):
    import subprocess
    exe = ctx.compile('hk-shm', 'deps', SRC, engine='cosched')
    return subprocess.call([exe, '--replay', path])
