/* C11: four-counter distributed termination detection is safe and live (E3 / vranks).
 * The REAL parsec/mca/termdet/fourcounter/termdet_fourcounter_module.c is included below (so its private monitor
 * struct is visible); N virtual ranks (fake contexts + taskpools) share this address space; parsec_ce.send_am and
 * parsec_taskpool_lookup are harness stubs; no MPI call is ever made.
 *
 *   fc_h bfs <N> <T> <M> <L>
 *      N  number of processes (binary tree rooted at 0, as in the module)
 *      T  at most T initial local tasks per rank (every vector in {0..T}^N)
 *      M  at most M application messages in total (any running task may send one to any other rank)
 *      L  1: parsec_taskpool_lookup() returns NULL for a rank that is not ready yet (taskpool unknown), 0: returns the
 *            not-ready taskpool -- the two reasons for which the module parks a control message
 */
#include "parsec/parsec_config.h"
#include "parsec/parsec_internal.h"
#include "parsec/class/list.h"
#include "parsec/parsec_comm_engine.h"
#include "parsec/mca/termdet/fourcounter/termdet_fourcounter_module.c"
#include "vranks.h"

#define TPID 1u
#define MAXR 8
#define MAXD 4
#define CLS_CTL 0
#define CLS_APP 1
typedef parsec_termdet_fourcounter_monitor_t mon_t;
typedef parsec_termdet_fourcounter_delayed_msg_t dmsg_t;
typedef parsec_termdet_fourcounter_msg_up_t upmsg_t;      /* the larger of the two control messages */
static const parsec_termdet_base_module_t *M = &parsec_termdet_fourcounter_module.module;
#define ST_NOT_READY PARSEC_TERMDET_FOURCOUNTER_NOT_READY
#define ST_TERMINATED PARSEC_TERMDET_FOURCOUNTER_TERMINATED

typedef struct {
    uint8_t held;      /* the DSL's start-up runtime action is still pending (contract: held across taskpool_ready) */
    uint8_t added;     /* initial tasks added so far (only meaningful while held) */
    uint8_t rx;        /* receipt of an application message: 0 none, 1 incoming_message_start done, 2 its task counted */
    uint8_t cb;        /* termination callbacks seen */
    uint8_t nd;
    struct { uint8_t src, len; uint8_t m[sizeof(upmsg_t)]; } d[MAXD];   /* this rank's share of the global delayed list */
} rk_t;
static int N, T, MB, L, cur = -1, budget;
static parsec_context_t *ctxs[MAXR]; static parsec_taskpool_t *tps[MAXR]; static rk_t rk[MAXR];
static mon_t mon0; static int32_t nbt0, nbpa0;
static vr_net_t net;
static inline mon_t *MON(int r) { return (mon_t *)tps[r]->tdm.monitor; }
static const char *SN[] = { "NOT_READY", "BUSY_W_CHILDREN", "BUSY_W_PARENT", "IDLE_W_CHILDREN", "IDLE_W_PARENT", "TERMINATED", "?", "?" };

/* ---- stubs seen by the module ---- */
parsec_taskpool_t *parsec_taskpool_lookup(uint32_t id)
{
    if (id != TPID || cur < 0) return NULL;
    if (L && MON(cur)->state == ST_NOT_READY) return NULL;
    return tps[cur];
}
static int stub_send_am(parsec_comm_engine_t *ce, parsec_ce_tag_t tag, int remote, void *addr, size_t size)
{
    (void)ce;
    if (tag != PARSEC_TERMDET_FOURCOUNTER_MSG_TAG) vr_fail("rank %d sends on unexpected tag %lu", cur, (unsigned long)tag);
    if (remote < 0 || remote >= N || remote == cur) { vr_fail("rank %d sends a control message to rank %d (N=%d)", cur, remote, N); return 0; }
    vr_net_send(&net, cur, remote, CLS_CTL, addr, size);
    return 0;
}
/* the safety half of the property is evaluated at the very moment a rank declares termination */
static void term_cb(parsec_taskpool_t *tp)
{
    int r = tp->context->my_rank;
    if (r != cur) vr_fail("termination callback of rank %d fired while rank %d was executing", r, cur);
    if (++rk[r].cb > 1) { vr_fail("rank %d declares termination %d times", r, rk[r].cb); return; }
    for (int q = 0; q < N; q++) {
        if (tps[q]->nb_tasks != 0 || tps[q]->nb_pending_actions != 0) { vr_fail("rank %d declares termination while rank %d is not idle (nb_tasks=%d, pending actions=%d)", r, q, tps[q]->nb_tasks, tps[q]->nb_pending_actions); return; }
        if (rk[q].rx) { vr_fail("rank %d declares termination while rank %d is in the middle of receiving an application message", r, q); return; }
        if (MON(q)->state == ST_NOT_READY) { vr_fail("rank %d declares termination while rank %d is not ready yet", r, q); return; }
    }
    int a = vr_net_count_cls(&net, CLS_APP);
    if (a) vr_fail("rank %d declares termination while %d application message(s) are still in transit", r, a);
}

/* ---- delayed-message list virtualisation (the module's list is one process global keyed by taskpool id only) ---- */
#define POOLN 8
static dmsg_t pool[POOLN];
static void enter(int r)
{
    cur = r;
    for (int i = 0; i < rk[r].nd; i++) {
        dmsg_t *d = &pool[i]; memset(d, 0, sizeof(*d)); PARSEC_LIST_ITEM_SINGLETON(d);
        d->ce = &parsec_ce; d->module = NULL; d->tag = PARSEC_TERMDET_FOURCOUNTER_MSG_TAG; d->size = rk[r].d[i].len; d->src = rk[r].d[i].src;
        memcpy(d->msg, rk[r].d[i].m, rk[r].d[i].len);
        parsec_list_nolock_push_back(&parsec_termdet_fourcounter_delayed_messages, &d->list_item);
    }
    rk[r].nd = 0;
}
static void leave(int r)
{
    parsec_list_item_t *it;
    while (NULL != (it = parsec_list_nolock_pop_front(&parsec_termdet_fourcounter_delayed_messages))) {
        dmsg_t *d = (dmsg_t *)it;
        if (rk[r].nd >= MAXD) vr_fail("harness: more than %d parked control messages on rank %d", MAXD, r);
        else { rk[r].d[rk[r].nd].src = (uint8_t)d->src; rk[r].d[rk[r].nd].len = (uint8_t)d->size; memset(rk[r].d[rk[r].nd].m, 0, sizeof(upmsg_t)); memcpy(rk[r].d[rk[r].nd].m, d->msg, d->size); rk[r].nd++; }
        if (d < pool || d >= pool + POOLN) free(d);
    }
    cur = -1;
}

/* ---- world ---- */
static void world_create(int n)
{
    N = n;
    for (int r = 0; r < n; r++) {
        ctxs[r] = calloc(1, sizeof(parsec_context_t)); ctxs[r]->my_rank = r; ctxs[r]->nb_nodes = n;
        tps[r] = calloc(1, sizeof(parsec_taskpool_t)); tps[r]->taskpool_id = TPID; tps[r]->context = ctxs[r];
        tps[r]->tdm.module = M;
        M->monitor_taskpool(tps[r], term_cb);            /* real initialisation */
    }
    mon0 = *MON(0); nbt0 = tps[0]->nb_tasks; nbpa0 = tps[0]->nb_pending_actions;
}
static void clean_monitor(mon_t *m)
{   /* parts excluded from the canonical state: statistics, time stamps (never read by the protocol), the rwlock words
     * (monotone ticket counters; the lock is free at every state boundary) */
    parsec_atomic_rwlock_init(&m->rw_lock);
    m->stats_nb_busy_idle = m->stats_nb_idle_busy = m->stats_nb_sent_msg = m->stats_nb_recv_msg = m->stats_nb_sent_bytes = m->stats_nb_recv_bytes = 0;
}
static void b_init(void)
{
    for (int r = 0; r < N; r++) { *MON(r) = mon0; clean_monitor(MON(r)); tps[r]->nb_tasks = nbt0; tps[r]->nb_pending_actions = nbpa0; tps[r]->tdm.callback = term_cb; memset(&rk[r], 0, sizeof(rk[r])); }
    vr_net_reset(&net); budget = MB; cur = -1;
    /* contract: the DSL holds one pending runtime action across taskpool_ready (PTG: the start-up tasks) */
    for (int r = 0; r < N; r++) { cur = r; M->taskpool_addto_runtime_actions(tps[r], 1); rk[r].held = 1; cur = -1; }
}

/* ---- canonical encoding ---- */
static inline uint32_t zz(int32_t v) { return ((uint32_t)v << 1) ^ (uint32_t)(v >> 31); }
static inline int32_t unzz(uint32_t u) { return (int32_t)(u >> 1) ^ -(int32_t)(u & 1); }
static size_t b_encode(uint8_t *b, size_t cap)
{
    size_t o = 0; (void)cap;
    b[o++] = (uint8_t)budget;
    for (int r = 0; r < N; r++) {
        mon_t *m = MON(r);
        b[o++] = (uint8_t)(((unsigned)m->state & 7) | rk[r].held << 3 | (rk[r].rx & 3) << 4 | (rk[r].cb & 3) << 6);
        o += vr_put_u(b + o, m->messages_sent); o += vr_put_u(b + o, m->messages_received);
        o += vr_put_u(b + o, m->nb_child_left + 1); o += vr_put_u(b + o, m->acc_sent); o += vr_put_u(b + o, m->acc_received);
        o += vr_put_u(b + o, m->last_acc_sent_at_root + 1); o += vr_put_u(b + o, m->last_acc_received_at_root + 1);
        o += vr_put_u(b + o, zz(tps[r]->nb_tasks)); o += vr_put_u(b + o, zz(tps[r]->nb_pending_actions));
        b[o++] = (uint8_t)(rk[r].added | rk[r].nd << 4);
        for (int i = 0; i < rk[r].nd; i++) { b[o++] = rk[r].d[i].src; b[o++] = rk[r].d[i].len; memcpy(b + o, rk[r].d[i].m, rk[r].d[i].len); o += rk[r].d[i].len; }
    }
    o += vr_net_encode(&net, b + o);
    return o;
}
static void b_decode(const uint8_t *b, size_t len)
{
    size_t o = 0; uint32_t u; (void)len;
    budget = b[o++];
    for (int r = 0; r < N; r++) {
        mon_t *m = MON(r); uint8_t f = b[o++];
        clean_monitor(m);
        m->state = (parsec_termdet_fourcounter_state_t)(f & 7); rk[r].held = (f >> 3) & 1; rk[r].rx = (f >> 4) & 3; rk[r].cb = (f >> 6) & 3;
        o += vr_get_u(b + o, &m->messages_sent); o += vr_get_u(b + o, &m->messages_received);
        o += vr_get_u(b + o, &u); m->nb_child_left = u - 1; o += vr_get_u(b + o, &m->acc_sent); o += vr_get_u(b + o, &m->acc_received);
        o += vr_get_u(b + o, &u); m->last_acc_sent_at_root = u - 1; o += vr_get_u(b + o, &u); m->last_acc_received_at_root = u - 1;
        o += vr_get_u(b + o, &u); tps[r]->nb_tasks = unzz(u); o += vr_get_u(b + o, &u); tps[r]->nb_pending_actions = unzz(u);
        rk[r].added = b[o] & 15; rk[r].nd = b[o] >> 4; o++;
        for (int i = 0; i < rk[r].nd; i++) { rk[r].d[i].src = b[o++]; rk[r].d[i].len = b[o++]; memset(rk[r].d[i].m, 0, sizeof(upmsg_t)); memcpy(rk[r].d[i].m, b + o, rk[r].d[i].len); o += rk[r].d[i].len; }
    }
    o += vr_net_decode(&net, b + o);
    cur = -1;
}

/* ---- transitions ---- */
enum { T_ADD = 1, T_READY, T_REL, T_DONE, T_SEND, T_RSTART, T_RTASK, T_REND, T_CTL };
#define TR(k, a, b) (((uint32_t)(k) << 16) | ((uint32_t)(a) << 8) | (uint32_t)(b))
static int b_enabled(uint32_t *out, int cap)
{
    int k = 0, setup = 1; (void)cap;
    for (int r = 0; r < N; r++) setup &= MON(r)->state == ST_NOT_READY;
    for (int r = 0; r < N; r++) {
        mon_t *m = MON(r); int ready = m->state != ST_NOT_READY;
        /* initial tasks: adding one is a purely local change of nb_tasks on a rank that is busy anyway (it holds its start-up
         * action), so it commutes with every other transition and is invisible to the oracle; all vectors in {0..T}^N are still
         * produced, but only in one canonical order: before the first taskpool_ready, by increasing rank */
        if (setup && rk[r].added < T) { int later = 0; for (int q = r + 1; q < N; q++) later |= rk[q].added; if (!later) out[k++] = TR(T_ADD, r, 0); }
        if (!ready) out[k++] = TR(T_READY, r, 0);
        if (rk[r].held && ready) out[k++] = TR(T_REL, r, 0);
        if (ready && tps[r]->nb_tasks > 0) {
            out[k++] = TR(T_DONE, r, 0);
            if (budget > 0) for (int d = 0; d < N; d++) if (d != r) out[k++] = TR(T_SEND, r, d);
        }
        if (rk[r].rx == 1) out[k++] = TR(T_RTASK, r, 0);
        if (rk[r].rx == 2) out[k++] = TR(T_REND, r, 0);
    }
    for (int i = 0; i < net.n; i++) {
        if (!vr_net_is_head(&net, i)) continue;
        int d = net.m[i].dst;
        if (net.m[i].cls == CLS_CTL) out[k++] = TR(T_CTL, net.m[i].src, d);
        else if (MON(d)->state != ST_NOT_READY && rk[d].rx == 0) out[k++] = TR(T_RSTART, net.m[i].src, d);   /* the comm layer hands activations to ready taskpools only, one at a time */
    }
    return k;
}
static void b_fire(uint32_t tr)
{
    int k = tr >> 16, a = (tr >> 8) & 255, b = tr & 255;
    switch (k) {
    case T_ADD:   enter(a); rk[a].added++; M->taskpool_addto_nb_tasks(tps[a], 1); leave(a); break;
    case T_READY: for (int q = 0; q < N; q++) rk[q].added = 0; enter(a); M->taskpool_ready(tps[a]); leave(a); break;
    case T_REL:   enter(a); rk[a].held = 0; M->taskpool_addto_runtime_actions(tps[a], -1); leave(a); break;
    case T_DONE:  enter(a); M->taskpool_addto_nb_tasks(tps[a], -1); leave(a); break;
    case T_SEND:  enter(a); budget--;
                  if (1 != M->outgoing_message_start(tps[a], b, NULL)) vr_fail("outgoing_message_start asked to delay the message");
                  { uint8_t z = 0; vr_net_send(&net, a, b, CLS_APP, &z, 0); } leave(a); break;
    case T_RSTART: { int i = vr_net_find_head(&net, a, b, CLS_APP); (void)vr_net_take(&net, i);
                  if (MON(b)->state == ST_TERMINATED) { vr_fail("an application message from rank %d is delivered to rank %d, which has already declared termination", a, b); break; }
                  enter(b); rk[b].rx = 1; { int pos = 0; M->incoming_message_start(tps[b], a, NULL, &pos, 0, NULL); } leave(b); break; }
    case T_RTASK: enter(a); rk[a].rx = 2; M->taskpool_addto_nb_tasks(tps[a], 1); leave(a); break;
    case T_REND:  enter(a); rk[a].rx = 0; M->incoming_message_end(tps[a], NULL); leave(a); break;
    case T_CTL:   { int i = vr_net_find_head(&net, a, b, CLS_CTL); vr_msg_t m = vr_net_take(&net, i);
                  upmsg_t copy; memset(&copy, 0, sizeof(copy)); memcpy(&copy, m.data, m.len);
                  enter(b); parsec_termdet_fourcounter_msg_dispatch(&parsec_ce, PARSEC_TERMDET_FOURCOUNTER_MSG_TAG, &copy, m.len, a, NULL); leave(b); break; }
    }
}
/* auxiliary invariant that keeps the state space finite: a per-wave accumulator or a message counter can never exceed the
 * number of application messages sent so far (each rank contributes its counters once per wave). It holds in every reachable
 * state of the unchanged module (established by the exhaustive runs themselves); when a change breaks it the waves are
 * corrupted, the counters grow without bound and detection can no longer converge, which the closure-based liveness check
 * could never observe. */
static void b_invariant(void)
{
    uint32_t sent = (uint32_t)(MB - budget);
    for (int r = 0; r < N; r++) { mon_t *m = MON(r);
        if (m->acc_sent > sent || m->acc_received > sent) { vr_fail("wave accumulators of rank %d (sent %u / received %u) exceed the %u application message(s) ever sent: the per-wave sums are corrupted and keep growing, detection cannot converge", r, m->acc_sent, m->acc_received, sent); return; }
        if (m->messages_sent > sent || m->messages_received > sent) { vr_fail("message counters of rank %d (sent %u / received %u) exceed the %u application message(s) ever sent", r, m->messages_sent, m->messages_received, sent); return; } }
}
static int b_goal(void)
{
    if (net.n) return 0;
    for (int r = 0; r < N; r++) if (MON(r)->state != ST_TERMINATED || rk[r].cb != 1 || rk[r].nd || rk[r].rx || rk[r].held) return 0;
    return 1;
}
/* non-trivial: a detection wave (control message in flight or parked) coexists with application activity */
static int b_nontrivial(void)
{
    int ctl = vr_net_count_cls(&net, CLS_CTL), act = net.n - ctl;
    for (int r = 0; r < N; r++) { ctl += rk[r].nd; act += (tps[r]->nb_tasks != 0) || rk[r].rx; }
    return ctl && act;
}
static void b_trname(uint32_t tr, char *buf, size_t cap)
{
    int k = tr >> 16, a = (tr >> 8) & 255, b = tr & 255;
    switch (k) {
    case T_ADD: snprintf(buf, cap, "addtask(%d)", a); break;
    case T_READY: snprintf(buf, cap, "ready(%d)", a); break;
    case T_REL: snprintf(buf, cap, "release(%d)", a); break;
    case T_DONE: snprintf(buf, cap, "done(%d)", a); break;
    case T_SEND: snprintf(buf, cap, "send(%d>%d)", a, b); break;
    case T_RSTART: snprintf(buf, cap, "rstart(%d>%d)", a, b); break;
    case T_RTASK: snprintf(buf, cap, "rtask(%d)", a); break;
    case T_REND: snprintf(buf, cap, "rend(%d)", a); break;
    case T_CTL: snprintf(buf, cap, "ctl(%d>%d)", a, b); break;
    default: snprintf(buf, cap, "?"); }
}
static void b_describe(char *buf, size_t cap)
{
    size_t o = snprintf(buf, cap, "budget=%d;", budget);
    for (int r = 0; r < N && o + 96 < cap; r++) { mon_t *m = MON(r);
        o += snprintf(buf + o, cap - o, " r%d[%s t=%d pa=%d s/r=%u/%u left=%d acc=%u/%u%s%s cb=%d parked=%d]", r, SN[m->state & 7], tps[r]->nb_tasks, tps[r]->nb_pending_actions,
                      m->messages_sent, m->messages_received, (int)m->nb_child_left, m->acc_sent, m->acc_received, rk[r].held ? " held" : "", rk[r].rx ? " rx" : "", rk[r].cb, rk[r].nd); }
    o += snprintf(buf + o, cap - o, " net:");
    for (int i = 0; i < net.n && o + 32 < cap; i++) { const vr_msg_t *x = &net.m[i];
        if (x->cls == CLS_APP) o += snprintf(buf + o, cap - o, " app(%d>%d)", x->src, x->dst);
        else { const upmsg_t *u = (const upmsg_t *)x->data; if (u->msg_type == PARSEC_TERMDET_FOURCOUNTER_MSG_TYPE_UP) o += snprintf(buf + o, cap - o, " UP(%d>%d,%u/%u)", x->src, x->dst, u->nb_sent, u->nb_received);
               else o += snprintf(buf + o, cap - o, " DOWN(%d>%d,%u)", x->src, x->dst, ((const parsec_termdet_fourcounter_msg_down_t *)x->data)->result); } }
}
static void make_system(vr_system_t *s, int n, int t, int mb, int l)
{
    memset(s, 0, sizeof(*s)); snprintf(s->name, sizeof(s->name), "fc_N%d_T%d_M%d_L%d", n, t, mb, l);
    T = t; MB = mb; L = l; net.canonical = 1;
    s->init = b_init; s->encode = b_encode; s->decode = b_decode; s->enabled = b_enabled; s->fire = b_fire; s->is_goal = b_goal; s->invariant = b_invariant;
    s->nontrivial = b_nontrivial; s->trname = b_trname; s->describe = b_describe;
}

/* a handler was aborted (assertion / crash): the module may still hold the delayed-list lock and list items */
static void recover(void) { PARSEC_OBJ_CONSTRUCT(&parsec_termdet_fourcounter_delayed_messages, parsec_list_t); cur = -1; }

int main(int argc, char **argv)
{
    vr_recover = recover;
    sx_init(argc, argv, "C11");
    vr_install_guard();
    PARSEC_OBJ_CONSTRUCT(&parsec_termdet_fourcounter_delayed_messages, parsec_list_t);
    parsec_ce.send_am = stub_send_am;
    vr_system_t sys; int n, t, mb, l;
    if (sx_replay_file) {
        static char scen[128], kind[32], hist[1 << 15];
        if (vr_read_replay(sx_replay_file, scen, sizeof(scen), kind, sizeof(kind), hist, sizeof(hist))) { fprintf(stderr, "cannot read %s\n", sx_replay_file); return 2; }
        if (sscanf(scen, "fc_N%d_T%d_M%d_L%d", &n, &t, &mb, &l) != 4) return 2;
        world_create(n); make_system(&sys, n, t, mb, l);
        return vr_replay(&sys, kind, hist);
    }
    const char *pa[8]; int np = 0;
    for (int i = 1; i < argc; i++) {
        if (!strncmp(argv[i], "--", 2)) { if (strcmp(argv[i], "--thorough")) i++; continue; }
        if (np < 8) pa[np++] = argv[i];
    }
    if (np < 5 || strcmp(pa[0], "bfs")) { fprintf(stderr, "usage: fc_h [options] bfs N T M L [max_states]\n"); return 2; }
    n = atoi(pa[1]); t = atoi(pa[2]); mb = atoi(pa[3]); l = atoi(pa[4]);
    if (n < 1 || n > MAXR) return 2;
    world_create(n); make_system(&sys, n, t, mb, l);
    sys.max_states = 40000000;
    if (np >= 6) sys.max_states = (size_t)atol(pa[5]);
    vr_stats_t S; vr_search(&sys, 0, 1, &S);
    return sx_finish();
}
