import os, re, sys, json, shutil, hashlib, subprocess, time
from concurrent.futures import ThreadPoolExecutor

sys.path.insert(0, os.path.dirname(os.path.abspath(__file__)))
import jdfgen

META = dict(
    engine='seqx',
    technique='grammar-based exhaustive enumeration of a finite family of JDF texts (counts in {1,2,MAX-1,MAX,MAX+1} x flow kinds x dependency targets x guards x ranges x properties x parameter definitions x dependency back-end, plus one-edit mutations of valid texts), each run twice through the real parsec-ptgpp and, when accepted, through gcc -fsyntax-only with the build flags',
    level_text='For every enumerated JDF text: parsec-ptgpp terminates normally (no signal, no hang) and either exits non-zero with a diagnostic, or exits 0 and the generated C passes gcc -fsyntax-only with the include paths / defines of the build (a program that only the generated "#error Too many ..." guard refuses counts as NOT rejected: ptgpp itself must exit non-zero); texts that exceed MAX_LOCAL_COUNT (parameters + locals + local-definition iterators) / MAX_PARAM_COUNT (read, write and total flows) / MAX_DEP_IN_COUNT / MAX_DEP_OUT_COUNT are always rejected by ptgpp; two runs on the same input in different directories give byte-identical .c and .h.',
    level_note='The family is finite and generated (one subject task class + mirror peers); limits are read from the generated parsec_options.h of the build under test; acceptance of valid programs is measured and reported but, as in the property statement, not demanded. Failures that match the structural predicate of a finding listed in known_findings.json are reported as KNOWN-FINDING; everything else alarms.',
)
RULE = ("one execution = one JDF text pushed through parsec-ptgpp -E twice (+ gcc -fsyntax-only when accepted); states = distinct texts; transitions = tool invocations; "
        "distinct outcomes = distinct (exit status, normalised first diagnostic / compile verdict); non-trivial = texts at or over a limit, or mutated")

GCC_FLAGS = ['-fsyntax-only', '-std=gnu11', '-w']

# ---- genuine defects found by this check on the unchanged tree (see NOTES.md; a fifth one, fatal sanity errors not stopping ptgpp,
# ---- was repaired in /repo by the lead's fix commit a535b45 and is no longer attributed). A failing text is attributed to one of them
# ---- only by the structural predicate below AND only if the lead listed the id in known_findings.json; otherwise it is a VIOLATION.
F_TREMOTE = 'C24-type-remote-on-collection-input-asserts'
F_TERN2 = 'C24-ternary-two-collection-refs'
F_ARITY = 'C24-task-call-with-extra-arguments-crashes'
F_IADER = 'C24-ia-derived-param-followed-by-param'
F_IAKEY = 'C24-ia-user-make-key-fn'

RE_TERN2 = re.compile(r'(?:<-|->)[^\n]*\?\s*[A-Za-z_]\w*\s*\([^()\n]*\)\s*:\s*[A-Za-z_]\w*\s*\(')
RE_DECL = re.compile(r'^([A-Za-z_]\w*)\s*\(([^()\n]*)\)', re.M)
RE_CALL = re.compile(r'(?:<-|->|\?|:)\s*[A-Za-z_]\w*\s+([A-Za-z_]\w*)\s*\(([^()\n]*)\)')
RE_TREMOTE = re.compile(r'<-[^\n]*(?:<-|\?|:)\s*[A-Za-z_]\w*\s*\([^()\n]*\)[^\n]*\[[^\]\n]*type_remote')


def features(text, base_feats=()):
    f = set(base_feats)
    if RE_TERN2.search(text):
        f.add('tern2coll')
    if RE_TREMOTE.search(text):
        f.add('type_remote_on_collection_input')
    decl = {m.group(1): len([a for a in m.group(2).split(',') if a.strip()]) for m in RE_DECL.finditer(text)}
    for m in RE_CALL.finditer(text):
        n = len([a for a in m.group(2).split(',') if a.strip()])
        if m.group(1) in decl and n > decl[m.group(1)]:
            f.add('call_with_extra_args')
    return f


def attribute(t, r):
    """-> finding id or None, by structural predicate on the text + the failure signature"""
    out, msg, diag = r['outcome'], r.get('msg', ''), r.get('diag', '')
    if out == 'signal' and 'type_remote_on_collection_input' in t['feats'] and 'jdf_generate_code_reshape_input_from_desc' in diag:
        return F_TREMOTE
    if out == 'accepted-not-compilable' and 'tern2coll' in t['feats'] and 'direct_access' in msg and 'redefinition' in msg:
        return F_TERN2
    if out == 'accepted-not-compilable' and 'ia_derived' in t['feats'] and re.search(r'__\w+_(min|max)\W+undeclared', msg):
        return F_IADER
    if out == 'accepted-not-compilable' and 'index-array' in t.get('args', []) and re.search(r'\[[^\]]*make_key_fn', t['text']) and re.search(r'__\w+_(min|max)\W+undeclared', msg):
        return F_IAKEY
    if out == 'signal' and 'call_with_extra_args' in t['feats'] and ('Wrong number of arguments when calling' in diag or not diag.strip()):
        return F_ARITY
    return None


def listed_findings():
    p = os.environ.get('VERIF_KNOWN_FINDINGS') or os.path.join(os.environ.get('VERIF_ROOT', '/verif'), 'known_findings.json')
    try:
        return {f.get('id') for f in json.load(open(p)).get('findings', []) if f.get('property') == 'C24' or 'C24' in str(f.get('also', ''))}
    except Exception:
        return set()


def limits(build):
    txt = open(os.path.join(build, 'parsec/include/parsec/parsec_options.h')).read()
    lim = {}
    for k in ('MAX_LOCAL_COUNT', 'MAX_PARAM_COUNT', 'MAX_DEP_IN_COUNT', 'MAX_DEP_OUT_COUNT'):
        m = re.search(r'#define\s+%s\s+(\d+)' % k, txt)
        if not m:
            raise RuntimeError('limit %s not found in parsec_options.h' % k)
        lim[k] = int(m.group(1))
    return lim


def build_texts(lim, tier):
    """-> list of dict(name, text, cls, args, feats) ; cls in within / edge / over / mutant"""
    T = []
    specs = jdfgen.enumerate_specs(lim, tier)
    bases = []
    for name, sp in specs:
        text, info = jdfgen.render(sp)
        cls = jdfgen.classify(sp, lim)
        bf = {'ia_derived'} if (sp.get('derived') and sp['np'] >= 3 and '-M' in sp['args']) else set()
        T.append(dict(name=name, text=text, cls=cls, args=list(sp['args']), feats=features(text, bf)))
        if cls == 'within':
            bases.append((name, text, info, list(sp['args']), bf))
    # mutations: thorough = every operator on a spread of valid texts; quick = a rotating subset
    if tier == 'thorough':
        chosen = bases[::max(1, len(bases) // 34)]
        for name, text, info, args, bf in chosen:
            for mn, mt in jdfgen.mutations(text, info):
                T.append(dict(name='%s~%s' % (name, mn), text=mt, cls='mutant', args=args, feats=features(mt, bf)))
    else:
        chosen = bases[::max(1, len(bases) // 9)]
        for bi, (name, text, info, args, bf) in enumerate(chosen):
            ms = jdfgen.mutations(text, info)
            for mi, (mn, mt) in enumerate(ms):
                if (mi + bi) % 4 == 0:
                    T.append(dict(name='%s~%s' % (name, mn), text=mt, cls='mutant', args=args, feats=features(mt, bf)))
    seen = set(); R = []
    for t in T:
        h = hashlib.sha1((t['text'] + ' '.join(t['args'])).encode()).hexdigest()
        if h in seen:
            continue
        seen.add(h); R.append(t)
    # order: round-robin over (over-limit, at/near a limit, small feature programs, mutants, the rest) so that a deadline cut
    # leaves every class represented; inside a class the generation order is kept
    def klass(t):
        if t['cls'] == 'over':
            return 0
        if t['cls'] == 'mutant':
            return 3
        if t['args'] and not re.match(r'k[A-Z]', t['name']):
            return 1          # non-default back-end: early
        if re.match(r'(k[A-Z]|props|opts|derived)', t['name']):
            return 2
        if re.search(r'(%d|%d|%d|%d)(_|$|@)' % (lim['MAX_PARAM_COUNT'] - 1, lim['MAX_PARAM_COUNT'], lim['MAX_DEP_IN_COUNT'] - 1, lim['MAX_DEP_IN_COUNT']), t['name']):
            return 1
        return 4
    def spread(lst):
        """round-robin over the generator families (name prefix) inside a class"""
        fam = {}
        for t in lst:
            fam.setdefault(re.match(r'[a-zA-Z]+', t['name']).group(0), []).append(t)
        o = []
        while any(fam.values()):
            for k in list(fam):
                if fam[k]:
                    o.append(fam[k].pop(0))
        return o
    buckets = [spread([t for t in R if klass(t) == k]) for k in range(5)]
    out = []
    while any(buckets):
        for b in buckets:
            if b:
                out.append(b.pop(0))
    return out


def norm_diag(s):
    s = re.sub(r'\d+', 'N', s.strip().splitlines()[0] if s.strip() else '')
    s = re.sub(r'\b(Q[IO]N_Nb?|FN|CN|pN|lN)\b', 'X', s)
    return s[:110]


def _spawn(cmd, **kw):
    """subprocess.run that survives the tool binary being re-linked by a concurrent build"""
    for attempt in range(40):
        try:
            return subprocess.run(cmd, **kw)
        except (PermissionError, FileNotFoundError, OSError) as e:
            if isinstance(e, subprocess.TimeoutExpired):
                raise
            time.sleep(0.5)
    return subprocess.run(cmd, **kw)


def run_one(ptgpp, build, workdir, t, timeout=120):
    """returns dict(verdict='ok'|'violation', outcome=..., msg=..., diag=ptgpp output, runs=n, accepted, compiled, guard)"""
    res = dict(runs=0, accepted=False, compiled=False, guard=False, diag='')
    outs = []
    for sub in ('a', 'b'):
        d = os.path.join(workdir, sub)
        os.makedirs(d, exist_ok=True)
        with open(os.path.join(d, 't.jdf'), 'w') as f:
            f.write(t['text'])
        try:
            r = _spawn([ptgpp, '-E'] + list(t.get('args', [])) + ['-i', 't.jdf', '-o', 't', '-f', 't'], cwd=d, capture_output=True, text=True, errors='replace', timeout=timeout)
        except subprocess.TimeoutExpired:
            res.update(verdict='violation', outcome='hang', msg='parsec-ptgpp did not terminate within %d s' % timeout); return res
        res['runs'] += 1
        c = h = None
        if os.path.exists(os.path.join(d, 't.c')):
            c = open(os.path.join(d, 't.c'), 'rb').read()
        if os.path.exists(os.path.join(d, 't.h')):
            h = open(os.path.join(d, 't.h'), 'rb').read()
        outs.append((r.returncode, r.stdout + r.stderr, c, h))
    (rc1, diag1, c1, h1), (rc2, diag2, c2, h2) = outs
    res['diag'] = diag1[-3000:]
    if rc1 < 0 or rc2 < 0:
        res.update(verdict='violation', outcome='signal', msg='parsec-ptgpp was killed by signal %d (neither a diagnostic + status nor compilable output): %s' % (-min(rc1, rc2), diag1.strip()[-300:])); return res
    if rc1 != rc2:
        res.update(verdict='violation', outcome='nondeterministic-status', msg='two runs on the same input exit with %d and %d' % (rc1, rc2)); return res
    if rc1 != 0:
        if not diag1.strip():
            res.update(verdict='violation', outcome='silent-reject', msg='parsec-ptgpp exits with status %d without any diagnostic' % rc1); return res
        res.update(verdict='ok', outcome='reject: ' + norm_diag(diag1)); return res
    res['accepted'] = True
    if c1 is None or h1 is None:
        res.update(verdict='violation', outcome='no-output', msg='parsec-ptgpp exits 0 but did not write t.c / t.h'); return res
    if c1 != c2 or h1 != h2:
        which = 't.c' if c1 != c2 else 't.h'
        a, b = (c1, c2) if c1 != c2 else (h1, h2)
        la, lb = a.split(b'\n'), b.split(b'\n')
        ln = next((i for i, (x, y) in enumerate(zip(la, lb)) if x != y), min(len(la), len(lb)))
        res.update(verdict='violation', outcome='nondeterministic-output',
                   msg='two runs on the same input produce different %s (first difference at line %d: %r vs %r)' % (which, ln + 1, la[ln][:80] if ln < len(la) else b'', lb[ln][:80] if ln < len(lb) else b'')); return res
    inc = ['-I%s/parsec/include' % build, '-I%s' % build, '-I/repo/parsec/include', '-I/repo', '-I/repo/parsec']
    try:
        g = _spawn(['gcc'] + GCC_FLAGS + ['-DBUILDING_PARSEC', '-D_GNU_SOURCE', '-DPARSEC_VERIF_HOOKS'] + inc + ['t.c'], cwd=os.path.join(workdir, 'a'), capture_output=True, text=True, errors='replace', timeout=600)
    except subprocess.TimeoutExpired:
        res.update(verdict='violation', outcome='gcc-hang', msg='gcc -fsyntax-only on the generated C did not terminate'); return res
    res['runs'] += 1
    if g.returncode == 0:
        res['compiled'] = True
        if t['cls'] == 'over':
            res.update(verdict='violation', outcome='over-limit-accepted', msg='the program exceeds a limit of this build but parsec-ptgpp accepts it and the generated C compiles'); return res
        res.update(verdict='ok', outcome='accept+compile'); return res
    errs = [l for l in g.stderr.splitlines() if ' error: ' in l or 'fatal error' in l]
    if any('#error' in l and 'Too many' in l for l in errs):
        # ptgpp exits 0 and only the "#error Too many ..." guard it generated stops the C compiler.  The statement demands a rejection by
        # ptgpp itself ("rejects it with a diagnostic and non-zero exit status, or emits C that compiles"): since the fix: commit for the total flow count the unchanged
        # ptgpp refuses every over-limit program of the family itself, so a guard-only refusal is a violation (it was tolerated before:
        # the total flow count was checked only by the generated guard - found by making this strict, repaired in /repo).
        res['guard'] = True
        g1 = norm_diag(next(l for l in errs if '#error' in l).split('error:', 1)[1])
        res.update(verdict='violation', outcome='accept+limit-guard: ' + g1,
                   msg='parsec-ptgpp exits 0 on a program over a build limit; only the generated guard stops the C compiler: ' + g1); return res
    res.update(verdict='violation', outcome='accepted-not-compilable',
               msg='parsec-ptgpp exits 0 but the generated C does not compile: ' + ' | '.join(re.sub(r'^t\.[ch]:', '', l) for l in errs[:3]))
    return res


def _env(ctx):
    build = ctx.build('hk-shm')
    ptgpp = os.path.join(build, 'parsec/interfaces/ptg/ptg-compiler/parsec-ptgpp')
    if not os.path.exists(ptgpp):
        raise RuntimeError('parsec-ptgpp not built')
    return build, ptgpp


def check(ctx):
    build, ptgpp = _env(ctx)
    lim = limits(build)
    texts = build_texts(lim, ctx.tier)
    budget = 58 if ctx.tier == 'quick' else 1000
    t0 = time.time()
    root = '/tmp/c24-%d' % os.getpid()
    shutil.rmtree(root, ignore_errors=True)
    jobs = min(16, os.cpu_count() or 4)
    results = [None] * len(texts)
    cut = [False]

    def work(i):
        if time.time() - t0 > budget:
            cut[0] = True
            return
        wd = os.path.join(root, '%04d' % i)
        try:
            results[i] = run_one(ptgpp, build, wd, texts[i])
        finally:
            shutil.rmtree(wd, ignore_errors=True)

    with ThreadPoolExecutor(max_workers=jobs) as ex:
        list(ex.map(work, range(len(texts))))
    shutil.rmtree(root, ignore_errors=True)

    listed = listed_findings()
    legs = {}
    nviol = 0
    known_counts = {}
    valid_rejected = []
    for t, r in zip(texts, results):
        leg = {'within': 'valid', 'edge': 'valid', 'over': 'over-limit', 'mutant': 'near-valid'}[t['cls']]
        L = legs.setdefault(leg, dict(name=leg, engine='seqx', states=0, transitions=0, executions=0, nontrivial=0, outcomes=set(), exhaustive=True, violations=0, samples=[],
                                      accepted=0, compiled=0, rejected=0, limit_guard=0, known_finding_hits=0))
        if r is None:
            L['exhaustive'] = False
            continue
        L['states'] += 1; L['executions'] += 1; L['transitions'] += r['runs']
        L['outcomes'].add(r['outcome'])
        if t['cls'] != 'within' or re.search(r'(%d|%d|%d|%d)(_|$|@)' % (lim['MAX_PARAM_COUNT'] - 1, lim['MAX_PARAM_COUNT'], lim['MAX_DEP_IN_COUNT'] - 1, lim['MAX_DEP_IN_COUNT']), t['name']) or t['args']:
            L['nontrivial'] += 1
        L['accepted' if r['accepted'] else 'rejected'] += 1
        if r['compiled']:
            L['compiled'] += 1
        if r['guard']:
            L['limit_guard'] += 1
            L.setdefault('limit_guard_texts', []).append('%s: %s' % (t['name'], r['outcome']))
        if t['cls'] == 'within' and not r['compiled']:
            valid_rejected.append('%s -> %s' % (t['name'], r['outcome']))
        if len(L['samples']) < 4 and (L['executions'] % 7 == 1):
            L['samples'].append('%s => %s' % (t['name'] + (' ' + ' '.join(t['args']) if t['args'] else ''), r['outcome']))
        if r['verdict'] == 'violation':
            fid = attribute(t, r)
            if fid and fid in listed:
                L['known_finding_hits'] += 1
                known_counts[fid] = known_counts.get(fid, 0) + 1
                if known_counts[fid] == 1:
                    ctx.known_finding('id=%s first text=%s: %s' % (fid, t['name'], r['msg'][:300]))
                continue
            L['violations'] += 1; nviol += 1
            if nviol <= 3:
                rp = ctx.write_replay('%s-%d' % (leg, nviol), dict(engine='seqx', scenario=leg, name=t['name'], cls=t['cls'], args=t['args'], feats=sorted(t['feats']), text=t['text'], message=r['msg'], candidate_finding=fid, limits=lim))
                pre = ('GENUINE DEFECT CANDIDATE %s (not listed in known_findings.json): ' % fid) if fid else ''
                ctx.violation(rp, 'scenario=%s text=%s%s: %s%s' % (leg, t['name'], (' [ptgpp ' + ' '.join(t['args']) + ']') if t['args'] else '', pre, r['msg']))
    for fid, n in known_counts.items():
        ctx.notes.append('known finding %s matched %d texts' % (fid, n))
    for L in legs.values():
        L['distinct_outcomes'] = len(L['outcomes']); L['outcome_list'] = sorted(L['outcomes'])[:40]; del L['outcomes']
        if L['violations']:
            L['exhaustive'] = False
        ctx.add_leg(**L)
        sys.stderr.write('C24[%s]: texts=%d tool-runs=%d accepted=%d compiled=%d rejected=%d limit-guard=%d outcomes=%d known=%d violations=%d\n'
                         % (L['name'], L['executions'], L['transitions'], L['accepted'], L['compiled'], L['rejected'], L['limit_guard'], L['distinct_outcomes'], L['known_finding_hits'], L['violations']))
    ctx.notes.append('limits of the build: %s' % json.dumps(lim))
    if valid_rejected:
        ctx.notes.append('%d texts built as valid and within the limits were not accepted+compiled (only a violation when the C is not compilable or ptgpp crashes): %s' % (len(valid_rejected), '; '.join(valid_rejected[:12])))
    nvalid = sum(1 for t in texts if t['cls'] == 'within')
    ncomp = sum(1 for t, r in zip(texts, results) if r and t['cls'] == 'within' and r['compiled'])
    if not nviol and nvalid and ncomp * 2 < nvalid and not cut[0]:
        ctx.broken.append('fewer than half of the valid-by-construction texts are accepted and compile (%d of %d): the accept path is not exercised (generator or include paths broken?)' % (ncomp, nvalid))
    return ctx.finish(RULE, ['gcc -fsyntax-only with the build\'s include paths and defines stands for "compiles without errors"',
                             'over-limit programs must be rejected by ptgpp itself (a refusal by the generated "#error Too many ..." guard only is a violation)'])


def replay(ctx, path, obj):
    build, ptgpp = _env(ctx)
    wd = '/tmp/c24-replay-%d' % os.getpid()
    shutil.rmtree(wd, ignore_errors=True)
    t = dict(name=obj.get('name', '?'), text=obj['text'], cls=obj.get('cls', 'mutant'), args=obj.get('args', []), feats=set(obj.get('feats', [])))
    print('replay: text %s (%s), %d lines, ptgpp args %s' % (t['name'], t['cls'], t['text'].count('\n'), t['args']))
    r = run_one(ptgpp, build, wd, t)
    shutil.rmtree(wd, ignore_errors=True)
    print('  outcome: %s' % r['outcome'])
    if r['verdict'] == 'violation':
        fid = attribute(t, r)
        print('  ' + r['msg'])
        if fid and fid in listed_findings():
            print('KNOWN-FINDING: property=C24 id=%s' % fid)
            return 0
        print('VIOLATION property=C24 replay=%s' % path)
        return 1
    print('replay: property holds for this text')
    return 0
