META = dict(
    engine='seqx+cosched',
    technique='explicit-state model checking: BFS to closure over all register/unregister/array-init/destruct/set/get/test_and_set histories of the real info.c (tracking allocator, map model), plus preemption-bounded exhaustive schedule enumeration of concurrent set/get/test_and_set against array growth',
    level_text='All reachable states of an info registry with 3-4 names and 1-2 object arrays (values NULL/p1/p2/constructed defaults) are enumerated on the real code and compared with a map model after every operation (identifiers distinct, lookups, every slot, constructor/destructor calls, heap block sizes); every schedule with <= b preemptions of 6 two/three-thread scripts in which slot accesses race with array growth is executed and checked for linearizability.',
    level_note='Identifiers are used only while registered (API contract); 3 names (4 in the registry-only system), 2 arrays; E1: sequential consistency at instrumented accesses, 2-3 threads with 1-3 operations each; info.c is compiled into the harness TU with malloc/calloc/realloc/free routed to an exact-size poisoning allocator.',
)
RULE = ("seqx: BFS over operation histories on the real registry, deduplicated by canonical state (real list order, max_id, "
        "array sizes and slot contents + model); a state is non-trivial when its shortest history has >= 2 operations. "
        "cosched: every schedule with <= b preemptions; non-trivial = at least one preemption")


def build_seq(ctx):
    return ctx.compile('hk-shm', 'info_seq', ['info_seq.c'], instr=False)


def build_conc(ctx):
    return ctx.compile('hk-shm', 'info_conc', ['info_conc.c'], engine='cosched', memops=True)


def check(ctx):
    quick = ctx.tier == 'quick'
    ctx.run_engine(build_seq(ctx), ['--outdir', '/verif/out', '--deadline', '40' if quick else '600', '--depth2', '5' if quick else '0'],
                   label='info_seq', timeout=1200)
    # two-thread scripts: bound 2 (quick) / 3 (thorough); three-thread scripts: bound 1 (quick) / 2 (thorough)
    ctx.run_cosched(build_conc(ctx), 2 if quick else 3, deadline=(60 if quick else 700), label='info_conc',
                    extra=['--cap3', '1' if quick else '2'])
    return ctx.finish(RULE, ["identifiers are passed to set/get/test_and_set only while they are registered (API contract)",
                             "sequential consistency at instrumented accesses (no weak-memory effects) in the concurrent leg",
                             "when an info without destructor is unregistered, a stored value may survive or be cleared (the statement is silent)"])


def replay(ctx, path, obj):
    import subprocess
    if obj.get('engine') == 'cosched':
        return subprocess.call([build_conc(ctx), '--replay', path] + (['--observe'] if obj.get('scenario') == 'unregister_vs_grow' else []))
    return subprocess.call([build_seq(ctx), '--replay', path])
