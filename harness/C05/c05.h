/* C05: types shared by the generic MPI driver (drv.c) and the generated tables (gen.py) */
#ifndef C05_H
#define C05_H
#include <stdint.h>
#include <stddef.h>
#include "parsec.h"
#include "parsec/arena.h"
#include "parsec/data_distribution.h"
#define C05_MAXIN 4
typedef struct { int cls, k, tile, nin; uint64_t in[C05_MAXIN]; } c05_inst_t;
typedef struct {
    const char *family; int N, M, L, ninst; const c05_inst_t *inst; const uint64_t *final_a, *final_b; const int *dontcare_a;
    parsec_taskpool_t *(*make)(parsec_data_collection_t *A, parsec_data_collection_t *B, int N, int M, int L, int slot, size_t bytes, parsec_datatype_t dtt);
} c05_variant_t;
extern const c05_variant_t c05_variants[];
extern const int c05_nvariants;
#endif
