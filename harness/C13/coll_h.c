/* C13: collective activations reach each destination exactly once (E3 'vranks').
 *
 * The REAL parsec/remote_dep.c is compiled into this translation unit (so that its file-static
 * topology pointer and child predicates are reachable and so that every function of the
 * propagation logic is the working-tree code, mutants included):
 *   parsec_remote_dep_init (MCA parameter -> topology predicate), parsec_remote_dep_reconfigure,
 *   remote_deps_allocation_init / remote_deps_allocate / remote_deps_free (recycling),
 *   parsec_remote_dep_activate, parsec_remote_dep_propagate, parsec_gather_collective_pattern,
 *   remote_dep_complete_and_cleanup, remote_dep_rank_to_bit / remote_dep_bit_to_rank (remote_dep.h),
 * and the REAL parsec/remote_dep_mpi.c for its static remote_dep_mpi_pack_dep (which outputs travel to a given peer).
 * N virtual ranks live in one address space: one fake context whose my_rank is switched to the
 * rank that is "running"; the send path (remote_dep_dequeue_send, and the termination-detection
 * module's outgoing_message_start) is a harness stub that runs the real pack_dep on the command and appends
 * (sender, receiver, wire mask read back from the packed header, selected outputs) to a FIFO owned by the harness. Delivering a message = playing the receiver with the
 * real parsec_remote_dep_propagate (tc->iterate_successors is harness-owned and reports exactly
 * the (output, rank) pairs of the destination sets to the real gather callback).
 * No MPI call is made at run time (the library is only linked against MPI).
 */
#include "parsec/remote_dep.c"
/* The real message-packing code: remote_dep_mpi.c is compiled here too, for the static remote_dep_mpi_pack_dep (per-peer payload
 * selection). Its own send-path entry points are renamed so that remote_dep.c's calls reach the harness stubs below. */
#define remote_dep_dequeue_send real_remote_dep_dequeue_send
#define remote_dep_dequeue_init real_remote_dep_dequeue_init
#define remote_dep_dequeue_fini real_remote_dep_dequeue_fini
int real_remote_dep_dequeue_send(parsec_execution_stream_t *es, int rank, parsec_remote_deps_t *deps);
int real_remote_dep_dequeue_init(parsec_context_t *context);
int real_remote_dep_dequeue_fini(parsec_context_t *context);
#include "parsec/remote_dep_mpi.c"
#undef remote_dep_dequeue_send
#undef remote_dep_dequeue_init
#undef remote_dep_dequeue_fini
#include "parsec/mca/termdet/termdet.h"
#include "parsec/utils/mca_param.h"
#include <setjmp.h>
#include <time.h>
#include <sys/stat.h>

#define PROPERTY "C13"
#define MAXN 72
#define MAXOUT 3
#define MAXMSG 1024
/* ids of the known_findings.json entries that make lost pairs attributable, per topology (star: none) */
static const char *finding_id[3] = { "", "C13-chain-relay-missing-output", "C13-binomial-relay-missing-output" };

typedef unsigned __int128 set_t;                 /* set of ranks (bit r = rank r), N <= 72 */
#define BIT(r) (((set_t)1) << (r))
#define HAS(s, r) ((int)(((s) >> (r)) & 1))

/* ---------------- the fake world ---------------- */
static parsec_context_t *g_ctx;
static parsec_vp_t *g_vp;
static parsec_execution_stream_t *g_es;
static parsec_taskpool_t *g_tp;
static parsec_task_class_t g_tc;
static parsec_flow_t g_flow[MAXOUT];
static parsec_dep_t g_dep[2 * MAXOUT];
static parsec_task_t g_task;
static parsec_termdet_base_module_t g_tdm;
static long g_flying;                                /* runtime actions held by the real code (must return to 0) */

/* the case being run */
static int c_N, c_topo, c_root, c_nout, c_var;
static set_t c_S[MAXOUT];
/* variants of what iterate_successors reports (all are legal shapes of a PTG task class):
 * bit 0: every output has a second dep with the same dep_datatype_index that re-reports part of the set (dedup path)
 * bit 1: the root itself also consumes every output (local successor on the root: rank_bits gets bit 0 on relays) */
#define VAR_TWODEPS 1
#define VAR_ROOTLOCAL 2

typedef struct { int from, to; uint32_t wire, payload; } msg_t;
static msg_t q_msg[MAXMSG]; static int q_head, q_tail, q_overflow;
static int cur_sends;                               /* sends recorded during the current activate call */

/* ---- stubs of the send path (interposition: these definitions win over libparsec's) ---- */
static char g_pkbuf[8192] __attribute__((aligned(16)));
static int g_pack_bad; static char g_pack_msg[200];
static int ce_pack_size(parsec_comm_engine_t *ce, int incount, parsec_datatype_t type, int *size) { (void)ce; (void)type; *size = incount; return 0; }
static int ce_pack(parsec_comm_engine_t *ce, void *inbuf, int incount, parsec_datatype_t type, void *outbuf, int outsize, int *position)
{ (void)ce; (void)type; if (*position + incount > outsize) return -1; memcpy((char *)outbuf + *position, inbuf, incount); *position += incount; return 0; }
static int tdm_outgoing_pack(parsec_taskpool_t *tp, int dst, char *buf, int *pos, int size) { (void)tp; (void)dst; (void)buf; (void)pos; (void)size; return 0; }

int remote_dep_dequeue_send(parsec_execution_stream_t *es, int rank, parsec_remote_deps_t *deps)
{
    /* what the communication thread does with the command: the REAL remote_dep_mpi_pack_dep() selects the outputs whose data
     * travel to this peer and packs the wire header (deps->msg, whose output_mask is the propagation mask) */
    dep_cmd_item_t item; memset(&item, 0, sizeof(item));
    item.action = DEP_ACTIVATE; item.priority = deps->max_priority;
    item.cmd.activate.peer = rank; item.cmd.activate.task.source_deps = (remote_dep_datakey_t)deps;
    int position = 0; int32_t before = deps->pending_ack;
    uint32_t payload = 0, wire = (uint32_t)deps->msg.output_mask;
    if (rank >= 0 && rank < c_N) {
        memset(g_pkbuf, 0, 512);
        if (0 != remote_dep_mpi_pack_dep(rank, &item, g_pkbuf, (int)sizeof(g_pkbuf), &position)) { g_pack_bad = 1; snprintf(g_pack_msg, sizeof(g_pack_msg), "remote_dep_mpi_pack_dep could not pack the activation for peer %d", rank); }
        payload = (uint32_t)item.cmd.activate.task.output_mask;          /* no short messages: every selected output is listed here */
        remote_dep_wire_activate_t hdr; memcpy(&hdr, g_pkbuf, sizeof(hdr)); wire = (uint32_t)hdr.output_mask;
        uint32_t *data_sizes = (uint32_t *)(g_pkbuf + dep_count);
        if ((int)data_sizes[0] != __builtin_popcount(payload) && !g_pack_bad) { g_pack_bad = 1; snprintf(g_pack_msg, sizeof(g_pack_msg), "activation for peer %d announces %u data entries but selects outputs 0x%x", rank, data_sizes[0], payload); }
    }
    cur_sends += 1 + (deps->pending_ack - before);                        /* completions owed: the message + one per data transfer */
    if (q_tail < MAXMSG) { q_msg[q_tail].from = es->virtual_process->parsec_context->my_rank; q_msg[q_tail].to = rank;
        q_msg[q_tail].wire = wire; q_msg[q_tail].payload = payload; q_tail++; }
    else q_overflow = 1;
    return 1;
}
int remote_dep_dequeue_init(parsec_context_t *context) { (void)context; return 1; }      /* no communication engine is started */
int remote_dep_dequeue_fini(parsec_context_t *context) { (void)context; return 1; }

static int tdm_outgoing_start(parsec_taskpool_t *tp, int dst, parsec_remote_deps_t *d) { (void)tp; (void)dst; (void)d; return 1; }
static int tdm_addto_actions(parsec_taskpool_t *tp, int v) { (void)tp; g_flying += v; return 0; }

/* ---- harness-owned successor iterator: reports exactly the (output, rank) pairs of the sets ---- */
static void h_iterate(parsec_execution_stream_t *es, const parsec_task_t *task, uint32_t action_mask,
                      parsec_ontask_function_t *ontask, void *arg)
{
    parsec_task_t nc; parsec_dep_data_description_t data;
    memset(&nc, 0, sizeof(nc)); memset(&data, 0, sizeof(data));
    nc.taskpool = task->taskpool; nc.priority = 0;
    for (int k = 0; k < c_nout; k++) {
        for (int d = 0; d < 2; d++) {
            const parsec_dep_t *dep = &g_dep[2 * k + d];
            if (d == 1 && !(c_var & VAR_TWODEPS)) continue;
            if (!(action_mask & (1U << dep->dep_index))) continue;
            if ((c_var & VAR_ROOTLOCAL) && d == 0)
                if (PARSEC_ITERATE_STOP == ontask(es, &nc, task, dep, &data, c_root, c_root, 0, NULL, 0, arg)) return;
            for (int r = 0; r < c_N; r++) {
                if (!HAS(c_S[k], r)) continue;
                if (d == 1 && ((r + k) & 1)) continue;          /* the second dep covers part of the set again */
                if (PARSEC_ITERATE_STOP == ontask(es, &nc, task, dep, &data, c_root, r, 0, NULL, 0, arg)) return;
            }
        }
    }
}

/* ---------------- reporting ---------------- */
static char o_outdir[512] = "/verif/out";
static FILE *o_json; static int o_json_first = 1;
static double o_deadline; static const char *o_replay;
static int o_known_topos;                              /* bit t set: known_findings.json contains finding_id[t] */
#define o_known_entry ((o_known_topos >> c_topo) & 1)
static int o_verbose;
static int total_violations, total_broken;
static double now_s(void) { struct timespec ts; clock_gettime(CLOCK_MONOTONIC, &ts); return ts.tv_sec + ts.tv_nsec * 1e-9; }
static const char *topo_name(int t) { return t == 0 ? "star" : t == 1 ? "chain" : t == 2 ? "binomial" : "?"; }

static int set_str(set_t s, char *b, size_t cap)
{
    size_t o = 0; int first = 1; o += snprintf(b + o, cap - o, "{");
    for (int r = 0; r < MAXN && o + 8 < cap; r++) if (HAS(s, r)) { o += snprintf(b + o, cap - o, "%s%d", first ? "" : ",", r); first = 0; }
    o += snprintf(b + o, cap - o, "}"); return (int)o;
}
static void case_str(char *b, size_t cap)
{
    size_t o = snprintf(b, cap, "topology=%s N=%d root=%d outputs=%d variant=%d", topo_name(c_topo), c_N, c_root, c_nout, c_var);
    for (int k = 0; k < c_nout && o + 64 < cap; k++) { o += snprintf(b + o, cap - o, " S%d=", k); o += set_str(c_S[k], b + o, cap - o); }
}
static void write_replay(char *path, size_t cap, const char *scen, const char *msg)
{
    static int seq = 0; char dir[600];
    snprintf(dir, sizeof(dir), "%s/replay", o_outdir); mkdir(o_outdir, 0777); mkdir(dir, 0777);
    snprintf(path, cap, "%s/%s-%s-%d.json", dir, PROPERTY, scen, seq++);
    FILE *f = fopen(path, "w"); if (!f) return;
    fprintf(f, "{\"property\":\"%s\",\"engine\":\"vranks\",\"scenario\":\"%s\",\n \"topology\":%d,\"topology_name\":\"%s\",\"N\":%d,\"root\":%d,\"outputs\":%d,\"variant\":%d,\n \"sets\":[",
            PROPERTY, scen, c_topo, topo_name(c_topo), c_N, c_root, c_nout, c_var);
    for (int k = 0; k < c_nout; k++) { fprintf(f, "%s[", k ? "," : ""); int first = 1; for (int r = 0; r < c_N; r++) if (HAS(c_S[k], r)) { fprintf(f, "%s%d", first ? "" : ",", r); first = 0; } fprintf(f, "]"); }
    fprintf(f, "],\n \"message\":\"");
    for (const char *s = msg; *s; s++) { if (*s == '"' || *s == '\\') fputc('\\', f); if (*s == '\n') fputs("\\n", f); else fputc(*s, f); }
    fprintf(f, "\"}\n"); fclose(f);
}

/* ---------------- one case ---------------- */
typedef struct {
    int failing;            /* the oracle does not hold */
    int attributed;         /* failing, and every defect is a lost pair attributable to the known finding */
    int lost, lost_attr, dup, outside, silent; /* lost pairs, attributable ones, duplicate deliveries, deliveries outside S_k, ranks of the union never activated */
    int nmsg, relay_msgs, max_depth;
    uint64_t sig;           /* signature of the message set (sender, receiver, payload) in emission order */
    char why[600];
} verdict_t;

static jmp_buf g_assert_jmp; static int g_assert_armed; static char g_assert_msg[400];
/* assertions of the real code (remote_dep.c is compiled here with assertions enabled) end the case as a violation */
void __assert_fail(const char *expr, const char *file, unsigned int line, const char *func)
{
    snprintf(g_assert_msg, sizeof(g_assert_msg), "assertion of the real code failed: %s (%s:%u, %s)", expr, file, line, func);
    if (g_assert_armed) longjmp(g_assert_jmp, 1);
    fprintf(stderr, "%s\n", g_assert_msg); _exit(2);
}

static void finish_deps(parsec_remote_deps_t *deps, int n)
{   /* plays the completions the communication engine would deliver: one per send (+ the receiver's own reference) */
    if (n > 0) remote_dep_complete_and_cleanup(&deps, n);
}

static void run_case(verdict_t *v)
{
    static int recv[MAXN][MAXOUT], nact[MAXN], depth[MAXN]; static set_t actby[MAXN];
    memset(v, 0, sizeof(*v));
    for (int r = 0; r < c_N; r++) { nact[r] = 0; actby[r] = 0; depth[r] = 0; for (int k = 0; k < MAXOUT; k++) recv[r][k] = 0; }
    q_head = q_tail = q_overflow = 0; g_flying = 0; g_pack_bad = 0;
    set_t uni = 0; for (int k = 0; k < c_nout; k++) uni |= c_S[k];
    int cap = 2 * c_N * c_nout + 8; if (cap > MAXMSG) cap = MAXMSG;
    uint64_t sig = 1469598103934665603ULL;
    g_tc.nb_flows = c_nout;
    for (int k = 0; k < MAXOUT; k++) g_tc.out[k] = k < c_nout ? &g_flow[k] : NULL;
    for (int k = 0; k < c_nout; k++) g_flow[k].dep_out[1] = (c_var & VAR_TWODEPS) ? &g_dep[2 * k + 1] : NULL;

    g_assert_armed = 1;
    if (setjmp(g_assert_jmp)) {
        g_assert_armed = 0; v->failing = 1; v->attributed = 0; snprintf(v->why, sizeof(v->why), "%s", g_assert_msg);
        /* the interrupted call may have left a deps object half-used: rebuild the allocator */
        parsec_remote_dep_inited = 0; remote_deps_allocation_init(c_N, MAX_PARAM_COUNT);
        return;
    }
    /* ---- the root: what parsec_release_dep_fct builds for a task with these remote successors ---- */
    g_ctx->my_rank = c_root;
    parsec_remote_deps_t *deps = remote_deps_allocate(&parsec_remote_dep_context.freelist);
    for (int k = 0; k < c_nout; k++) for (int r = 0; r < c_N; r++) {
        if (!HAS(c_S[k], r)) continue;
        uint32_t pos, bit; remote_dep_rank_to_bit(r, &pos, &bit, c_root);
        struct remote_dep_output_param_s *o = &deps->output[k];
        deps->root = c_root; deps->outgoing_mask |= 1U << k;
        if (!(o->rank_bits[pos] & (1U << bit))) {
            o->rank_bits[pos] |= 1U << bit; o->deps_mask |= 1U << g_dep[2 * k].dep_index;
            if (0 == o->count_bits) { memset(&o->data, 0, sizeof(o->data)); o->data.remote.src_count = o->data.remote.dst_count = 1; o->data.remote.src_datatype = o->data.remote.dst_datatype = parsec_datatype_int8_t; }
            o->count_bits++;
        }
    }
    cur_sends = 0;
    if (o_verbose) printf("  rank %d (root): activate mask=0x%x\n", c_root, deps->outgoing_mask);
    parsec_remote_dep_activate(g_es, &g_task, deps, deps->outgoing_mask);
    finish_deps(deps, cur_sends);

    /* ---- deliver until quiescent (FIFO; the handlers of different messages do not share state) ---- */
    while (q_head < q_tail && q_tail <= cap && !q_overflow) {
        msg_t m = q_msg[q_head++];
        v->nmsg++; if (m.from != c_root) v->relay_msgs++;
        sig = (sig ^ (uint64_t)(m.from * 131 + m.to)) * 1099511628211ULL; sig = (sig ^ m.payload) * 1099511628211ULL;
        if (o_verbose) printf("  message %d -> %d  wire mask=0x%x payload outputs=0x%x\n", m.from, m.to, m.wire, m.payload);
        if (m.to < 0 || m.to >= c_N || m.to == c_root || m.to == m.from || !HAS(uni, m.to)) {
            v->outside++; if (!v->why[0]) snprintf(v->why, sizeof(v->why), "message %d->%d: the receiver is %s", m.from, m.to,
                m.to == c_root ? "the root" : m.to == m.from ? "the sender itself" : "not a destination of any output");
            continue;                        /* such a process would not know the task's successors: not propagated */
        }
        nact[m.to]++; actby[m.to] |= BIT(m.from);
        if (depth[m.from] + 1 > depth[m.to]) depth[m.to] = depth[m.from] + 1;
        if (depth[m.to] > v->max_depth) v->max_depth = depth[m.to];
        for (int k = 0; k < c_nout; k++) if (m.payload & (1U << k)) recv[m.to][k]++;
        if (m.payload >> c_nout) { v->outside++; if (!v->why[0]) snprintf(v->why, sizeof(v->why), "message %d->%d carries an output that does not exist (0x%x)", m.from, m.to, m.payload); }
        /* play the receiver: remote_dep_mpi_save_activate_cb/_release_incoming hand propagate a fresh deps with the wire message,
         * root = owner of the producer task, outgoing_mask = 0 and one reference held by the communication engine */
        g_ctx->my_rank = m.to;
        deps = remote_deps_allocate(&parsec_remote_dep_context.freelist);
        deps->msg.output_mask = m.wire; deps->from = m.from; deps->root = c_root; deps->outgoing_mask = 0; deps->taskpool = NULL;
        for (int k = 0; k < MAXOUT; k++) {            /* remote_dep_get_datatypes: data description of the outputs this rank consumes */
            memset(&deps->output[k].data, 0, sizeof(deps->output[k].data));
            if (k < c_nout && HAS(c_S[k], m.to)) { deps->output[k].data.remote.src_count = deps->output[k].data.remote.dst_count = 1;
                deps->output[k].data.remote.src_datatype = deps->output[k].data.remote.dst_datatype = parsec_datatype_int8_t; }
        }
        remote_dep_inc_flying_messages(g_tp); (void)parsec_atomic_fetch_inc_int32(&deps->pending_ack);
        cur_sends = 0;
        parsec_remote_dep_propagate(g_es, &g_task, deps);
        finish_deps(deps, 1 + cur_sends);
    }
    g_assert_armed = 0;
    v->sig = sig;
    if (q_head < q_tail || q_overflow) { v->failing = 1; v->dup++; if (!v->why[0]) snprintf(v->why, sizeof(v->why), "forwarding does not stop: more than %d messages", cap); }
    if (g_pack_bad) { v->failing = 1; v->outside++; if (!v->why[0]) snprintf(v->why, sizeof(v->why), "%s", g_pack_msg); }
    if (g_flying != 0 && !v->why[0]) { v->failing = 1; v->dup++; snprintf(v->why, sizeof(v->why), "runtime-action accounting of the activation is unbalanced (%ld)", g_flying); }

    /* ---- oracle ---- */
    for (int r = 0; r < c_N; r++) {
        if (HAS(uni, r) && r != c_root && nact[r] == 0) { v->silent++; if (!v->why[0]) snprintf(v->why, sizeof(v->why), "rank %d consumes an output but never receives an activation", r); }
        for (int k = 0; k < c_nout; k++) {
            int want = HAS(c_S[k], r);
            if (!want && recv[r][k] > 0) { v->outside++; if (!v->why[0]) snprintf(v->why, sizeof(v->why), "rank %d receives output %d which it does not consume", r, k); }
            if (want && recv[r][k] > 1) { v->dup++; if (!v->why[0]) snprintf(v->why, sizeof(v->why), "rank %d receives output %d %d times", r, k, recv[r][k]); }
            if (want && recv[r][k] == 0) {
                v->lost++;
                /* attribution to finding_id[topology]: a relaying topology, several outputs, r was activated, and every activation of r came
                 * from a relay q != root that does not itself consume k (q not in S_k) */
                int attr = (c_topo != 0 && c_nout > 1 && nact[r] > 0);
                for (int q = 0; attr && q < c_N; q++) if (HAS(actby[r], q) && (q == c_root || HAS(c_S[k], q))) attr = 0;
                if (attr) v->lost_attr++;
                else if (!v->why[0] || v->lost == 1) snprintf(v->why, sizeof(v->why), "rank %d never receives output %d (%s)", r, k,
                        nact[r] == 0 ? "never activated" : "activated, but not only by relays that lack the output");
                if (o_verbose) printf("  LOST (rank %d, output %d): %s\n", r, k, attr ? "attributable (activated only by relays that do not consume the output)" : "NOT attributable");
            }
        }
    }
    v->failing = v->failing || v->lost || v->dup || v->outside || v->silent;
    v->attributed = v->failing && v->lost > 0 && v->lost == v->lost_attr && !v->dup && !v->outside && !v->silent;
    if (v->attributed && !v->why[0]) snprintf(v->why, sizeof(v->why), "%d lost (rank, output) pair(s), all activated only by relays that do not consume the output", v->lost);
    if (v->attributed && v->why[0] == 0) v->why[0] = 0;
}

/* ---------------- set-up of the fake world (once per process; topology is a process-wide MCA parameter) ---------------- */
static void world_init(int topo)
{
    char val[8]; snprintf(val, sizeof(val), "%d", topo);
    setenv("PARSEC_MCA_runtime_comm_coll_bcast", val, 1);
    setenv("PARSEC_MCA_comm_verbose", "-1", 1);
    parsec_mca_param_init();
    g_ctx = calloc(1, sizeof(parsec_context_t) + 4 * sizeof(void *));
    g_vp = calloc(1, sizeof(parsec_vp_t) + 4 * sizeof(void *));
    g_es = calloc(1, sizeof(parsec_execution_stream_t));
    g_tp = calloc(1, sizeof(parsec_taskpool_t));
    g_ctx->nb_vp = 1; g_ctx->virtual_processes[0] = g_vp; g_vp->parsec_context = g_ctx; g_es->virtual_process = g_vp;
    /* the real initialisation: registers runtime_comm_coll_bcast and selects the child predicate */
    parsec_remote_dep_init(g_ctx);
    int (*want)(int, int) = topo == 0 ? remote_dep_bcast_star_child : topo == 1 ? remote_dep_bcast_chainpipeline_child : remote_dep_bcast_binomial_child;
    if (remote_dep_bcast_child != want || parsec_param_comm_coll_bcast != topo) {
        fprintf(stderr, "coll_h: runtime_comm_coll_bcast=%d did not select the %s predicate (parameter reads %d)\n", topo, topo_name(topo), parsec_param_comm_coll_bcast);
        exit(2);
    }
    memset(&g_tdm, 0, sizeof(g_tdm));
    g_tdm.outgoing_message_start = tdm_outgoing_start;
    g_tdm.taskpool_addto_runtime_actions = tdm_addto_actions;
    g_tdm.outgoing_message_pack = tdm_outgoing_pack; g_tdm.outgoing_message_piggyback_size = 0;
    parsec_ce.pack_size = ce_pack_size; parsec_ce.pack = ce_pack;
    parsec_param_short_limit = 0;                     /* data never rides inside the activation: one entry per selected output */
    g_tp->taskpool_id = 1; g_tp->taskpool_type = PARSEC_TASKPOOL_TYPE_PTG; g_tp->tdm.module = &g_tdm; g_tp->context = g_ctx;
    memset(&g_tc, 0, sizeof(g_tc));
    g_tc.name = "P"; g_tc.task_class_id = 0; g_tc.nb_locals = 1; g_tc.iterate_successors = h_iterate;
    for (int k = 0; k < MAXOUT; k++) {
        memset(&g_flow[k], 0, sizeof(g_flow[k]));
        g_flow[k].name = "F"; g_flow[k].flow_index = k; g_flow[k].flow_datatype_mask = 1U << k;
        for (int d = 0; d < 2; d++) {
            parsec_dep_t *dep = &g_dep[2 * k + d]; memset(dep, 0, sizeof(*dep));
            dep->dep_index = (uint8_t)(d == 0 ? k : MAXOUT + k); dep->dep_datatype_index = (uint8_t)k; dep->belongs_to = &g_flow[k]; dep->flow = &g_flow[k];
        }
        g_flow[k].dep_out[0] = &g_dep[2 * k];
    }
    memset(&g_task, 0, sizeof(g_task));
    g_task.taskpool = g_tp; g_task.task_class = &g_tc; g_task.locals[0].value = 0;
}
static void world_set_n(int N)
{
    remote_deps_allocation_fini();
    remote_deps_allocation_init(N, MAX_PARAM_COUNT);
    g_ctx->nb_nodes = N; g_ctx->my_rank = 0;
    parsec_remote_dep_reconfigure(g_ctx);             /* real code: size of the forwarded mask */
    c_N = N;
}

/* ---------------- enumeration of one scenario = (topology, outputs, N, variant, set-size cap) ---------------- */
typedef struct { uint64_t *v; size_t cap, n; } hset_t;
static int hset_add(hset_t *s, uint64_t h)
{
    if (!h) h = 1;
    if (s->n * 2 >= s->cap) { size_t nc = s->cap ? s->cap * 2 : 1024; uint64_t *nv = calloc(nc, sizeof(uint64_t));
        for (size_t i = 0; i < s->cap; i++) if (s->v[i]) { size_t j = (s->v[i] * 0x9E3779B97F4A7C15ULL) & (nc - 1); while (nv[j]) j = (j + 1) & (nc - 1); nv[j] = s->v[i]; }
        free(s->v); s->v = nv; s->cap = nc; }
    size_t j = (h * 0x9E3779B97F4A7C15ULL) & (s->cap - 1);
    while (s->v[j]) { if (s->v[j] == h) return 0; j = (j + 1) & (s->cap - 1); }
    s->v[j] = h; s->n++; return 1;
}

/* the family of non-empty destination sets: all subsets of the N-1 non-root ranks with at most maxsz members (0 = no cap) */
static set_t *fam; static long nfam;
static void fam_rec(int pos, int left, set_t cur, int N, int root)
{
    if (pos == N) { if (cur) fam[nfam++] = cur; return; }
    fam_rec(pos + 1, left, cur, N, root);
    if (pos != root && left > 0) fam_rec(pos + 1, left - 1, cur | BIT(pos), N, root);
}
static long fam_count(int N, int maxsz)
{
    long tot = 0; int m = N - 1; if (maxsz <= 0 || maxsz > m) maxsz = m;
    for (int s = 1; s <= maxsz; s++) { double c = 1; for (int i = 0; i < s; i++) c = c * (m - i) / (i + 1); tot += (long)(c + 0.5); }
    return tot;
}

static int run_scenario(int topo, int nout, int N, int var, int maxsz)
{
    char scen[96]; snprintf(scen, sizeof(scen), "%s_out%d_N%d%s%s", topo_name(topo), nout, N, var ? (var == 1 ? "_twodeps" : var == 2 ? "_rootlocal" : "_twodeps_rootlocal") : "", "");
    if (maxsz > 0 && maxsz < N - 1) snprintf(scen + strlen(scen), sizeof(scen) - strlen(scen), "_sets_le%d", maxsz);
    double t0 = now_s();
    world_set_n(N); c_topo = topo; c_nout = nout; c_var = var;
    long cases = 0, failing = 0, attributed = 0, viol = 0, states = 0, transitions = 0, nontrivial = 0, lost_pairs = 0, lost_attr = 0, relay_msgs = 0;
    int maxdepth = 0, exhaustive = 1; hset_t outcomes = {0};
    char samples[4][700]; int nsamples = 0; char firstknown[700] = "";
    long per = fam_count(N, maxsz);
    fam = malloc(sizeof(set_t) * (size_t)(per + 1));
    for (int root = 0; root < N && exhaustive; root++) {
        nfam = 0; fam_rec(0, (maxsz > 0 && maxsz < N) ? maxsz : N, 0, N, root);
        long idx[MAXOUT] = {0, 0, 0};
        c_root = root;
        for (;;) {
            for (int k = 0; k < nout; k++) c_S[k] = fam[idx[k]];
            verdict_t v; run_case(&v);
            cases++; states += 1 + v.nmsg; transitions += v.nmsg; relay_msgs += v.relay_msgs;
            if (v.relay_msgs > 0 || v.nmsg >= 2) nontrivial++;
            if (v.max_depth > maxdepth) maxdepth = v.max_depth;
            hset_add(&outcomes, v.sig ^ ((uint64_t)root << 56));
            lost_pairs += v.lost; lost_attr += v.lost_attr;
            if (nsamples < 3 && (cases == 2 || cases == per / 2 + 3 || (v.relay_msgs >= 2 && nsamples < 2))) {
                char cs[400]; case_str(cs, sizeof(cs)); snprintf(samples[nsamples++], sizeof(samples[0]), "%s: %d messages (%d by relays), tree depth %d%s", cs, v.nmsg, v.relay_msgs, v.max_depth, v.failing ? " FAILS" : "");
            }
            if (v.failing) {
                failing++;
                if (v.attributed && o_known_entry) {
                    attributed++;
                    if (!firstknown[0]) { char cs[400]; case_str(cs, sizeof(cs)); snprintf(firstknown, sizeof(firstknown), "%s: %s", cs, v.why); }
                } else {
                    viol++; total_violations++;
                    if (total_violations <= 3) {       /* replay files for the first three; the rest are counted */
                        char cs[400], path[800], m[1100]; case_str(cs, sizeof(cs));
                        snprintf(m, sizeof(m), "%s%s%s%s", v.why, v.attributed ? " [would match " : "", v.attributed ? finding_id[c_topo] : "", v.attributed ? " but known_findings.json has no such entry]" : "");
                        write_replay(path, sizeof(path), scen, m);
                        printf("VIOLATION property=%s replay=%s\n", PROPERTY, path);
                        printf("  %s: %s\n", cs, m); fflush(stdout);
                    }
                }
            }
            int k = 0; while (k < nout && ++idx[k] == nfam) { idx[k] = 0; k++; }
            if (k == nout) break;
            if ((cases & 4095) == 0 && o_deadline > 0 && now_s() > o_deadline) { exhaustive = 0; break; }
        }
    }
    free(fam);
    if (attributed) {
        static unsigned char printed[MAXOUT + 1][MAXN + 1];      /* one line per (topology, N, number of outputs) class */
        if (!printed[nout][N]) {
            printed[nout][N] = 1;
            printf("KNOWN-FINDING: property=%s id=%s topology=%s N=%d outputs=%d: %ld of %ld cases lose deliveries, all %ld lost (rank,output) pairs attributable; e.g. %s\n",
                   PROPERTY, finding_id[topo], topo_name(topo), N, nout, attributed, cases, lost_attr, firstknown);
            fflush(stdout);
        }
        if (nsamples < 4) snprintf(samples[nsamples++], sizeof(samples[0]), "known finding: %s", firstknown);
    }
    double wall = now_s() - t0;
    if (o_json) {
        fprintf(o_json, "%s{\"name\":\"%s\",\"engine\":\"vranks\",\"topology\":\"%s\",\"outputs\":%d,\"N\":%d,\"variant\":%d,\"max_set_size\":%d,"
                "\"states\":%ld,\"transitions\":%ld,\"executions\":%ld,\"cases\":%ld,\"nontrivial\":%ld,\"distinct_outcomes\":%zu,"
                "\"failing_cases\":%ld,\"failing_attributed_to_known_finding\":%ld,\"failing_unattributable\":%ld,\"lost_pairs\":%ld,\"lost_pairs_attributed\":%ld,"
                "\"relay_messages\":%ld,\"max_tree_depth\":%d,\"exhaustive\":%s,\"violations\":%ld,\"wall_s\":%.2f,\"samples\":[",
                o_json_first ? "" : ",\n", scen, topo_name(topo), nout, N, var, maxsz, states, transitions, cases, cases, nontrivial, outcomes.n,
                failing, attributed, failing - attributed, lost_pairs, lost_attr, relay_msgs, maxdepth, exhaustive ? "true" : "false", viol, wall);
        for (int i = 0; i < nsamples; i++) { fprintf(o_json, "%s\"", i ? "," : ""); for (char *s = samples[i]; *s; s++) { if (*s == '"' || *s == '\\') fputc('\\', o_json); fputc(*s, o_json); } fputc('"', o_json); }
        fprintf(o_json, "]}"); o_json_first = 0; fflush(o_json);
    }
    fprintf(stderr, "vranks[%s/%s]: cases=%ld messages=%ld (relay %ld) outcomes=%zu failing=%ld attributed=%ld violations=%ld exhaustive=%d %.2fs\n",
            PROPERTY, scen, cases, transitions, relay_msgs, outcomes.n, failing, attributed, viol, exhaustive, wall);
    free(outcomes.v);
    return exhaustive;
}

/* ---------------- replay ---------------- */
static long json_int(const char *buf, const char *key, long def)
{
    char pat[64]; snprintf(pat, sizeof(pat), "\"%s\":", key); const char *p = strstr(buf, pat);
    return p ? strtol(p + strlen(pat), NULL, 10) : def;
}
static int do_replay(const char *path)
{
    static char buf[1 << 16]; FILE *f = fopen(path, "r"); if (!f) { perror(path); return 2; }
    size_t n = fread(buf, 1, sizeof(buf) - 1, f); buf[n] = 0; fclose(f);
    int topo = (int)json_int(buf, "topology", -1), N = (int)json_int(buf, "N", -1), root = (int)json_int(buf, "root", -1), nout = (int)json_int(buf, "outputs", -1), var = (int)json_int(buf, "variant", 0);
    const char *p = strstr(buf, "\"sets\":");
    if (topo < 0 || topo > 2 || N < 2 || N > MAXN || root < 0 || root >= N || nout < 1 || nout > MAXOUT || !p) { fprintf(stderr, "bad replay file\n"); return 2; }
    p += 7; p = strchr(p, '['); if (!p) return 2; p++; memset(c_S, 0, sizeof(c_S));
    for (int k = 0; k < nout; k++) { p = strchr(p, '['); if (!p) return 2; p++; while (*p && *p != ']') { if (*p >= '0' && *p <= '9') { long r = strtol(p, (char **)&p, 10); if (r >= 0 && r < N) c_S[k] |= BIT(r); } else p++; } }
    world_init(topo); world_set_n(N); c_topo = topo; c_root = root; c_nout = nout; c_var = var; o_verbose = 1;
    char cs[400]; case_str(cs, sizeof(cs)); printf("replay: %s\n", cs);
    verdict_t v; run_case(&v);
    printf("  messages=%d (by relays %d) lost=%d (attributable %d) duplicate=%d outside=%d never-activated=%d\n", v.nmsg, v.relay_msgs, v.lost, v.lost_attr, v.dup, v.outside, v.silent);
    if (!v.failing) { printf("replay: the case passes\n"); return 0; }
    if (v.attributed && o_known_entry) { printf("KNOWN-FINDING: property=%s id=%s %s: %s\n", PROPERTY, finding_id[c_topo], cs, v.why); return 0; }
    printf("VIOLATION property=%s replay=%s\n  %s: %s\n", PROPERTY, path, cs, v.why);
    return 1;
}

/* usage: coll_h --topo T --plan "nout:Nmin-Nmax[:variant[:maxsetsize]],..." --known-topos MASK [--json f] [--outdir d] [--deadline s] | --replay f --known-topos MASK */
int main(int argc, char **argv)
{
    int topo = 1; const char *plan = "1:2-4", *json = NULL; double dl = 0;
    for (int i = 1; i < argc; i++) {
        if (!strcmp(argv[i], "--topo") && i + 1 < argc) topo = atoi(argv[++i]);
        else if (!strcmp(argv[i], "--plan") && i + 1 < argc) plan = argv[++i];
        else if (!strcmp(argv[i], "--known-topos") && i + 1 < argc) o_known_topos = atoi(argv[++i]) & 6;
        else if (!strcmp(argv[i], "--json") && i + 1 < argc) json = argv[++i];
        else if (!strcmp(argv[i], "--outdir") && i + 1 < argc) snprintf(o_outdir, sizeof(o_outdir), "%s", argv[++i]);
        else if (!strcmp(argv[i], "--deadline") && i + 1 < argc) dl = atof(argv[++i]);
        else if (!strcmp(argv[i], "--replay") && i + 1 < argc) o_replay = argv[++i];
    }
    setvbuf(stdout, NULL, _IOLBF, 0);
    if (o_replay) return do_replay(o_replay);
    if (topo < 0 || topo > 2) return 2;
    if (dl > 0) o_deadline = now_s() + dl;
    o_json = fopen(json ? json : "/dev/null", "w"); if (!o_json) { perror(json); return 2; }
    fprintf(o_json, "{\"engine\":\"vranks\",\"property\":\"%s\",\"scenarios\":[\n", PROPERTY);
    world_init(topo);
    char *dup = strdup(plan), *save = NULL; int cut = 0;
    for (char *tok = strtok_r(dup, ",", &save); tok; tok = strtok_r(NULL, ",", &save)) {
        int nout = 1, a = 2, b = 2, var = 0, maxsz = 0;
        if (sscanf(tok, "%d:%d-%d:%d:%d", &nout, &a, &b, &var, &maxsz) < 3) { fprintf(stderr, "bad plan item %s\n", tok); return 2; }
        if (nout < 1 || nout > MAXOUT || a < 2 || b > MAXN) { fprintf(stderr, "plan item out of range %s\n", tok); return 2; }
        for (int N = a; N <= b; N++) {
            if (cut || (o_deadline > 0 && now_s() > o_deadline)) { cut = 1; fprintf(stderr, "vranks[%s]: deadline reached, %s_out%d_N%d not started\n", PROPERTY, topo_name(topo), nout, N); continue; }
            if (!run_scenario(topo, nout, N, var, maxsz)) cut = 1;
        }
    }
    fprintf(o_json, "\n]%s}\n", cut ? ",\"deadline_cut\":true" : ""); fclose(o_json);
    return total_violations ? 1 : total_broken ? 2 : 0;
}
