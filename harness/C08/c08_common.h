/* C08 common part: the REAL scheduler modules on REAL execution streams created by parsec_init.
 *
 * One process hosts one scheduler module (the choice is global): --sched <name>, --streams k.
 * parsec_init(k) selects the module through the MCA parameter mca_sched like an application would and runs the
 * module's install()/flow_init() in the k stream threads; the k-1 worker threads then park at the context's start
 * barrier (parsec_context_start is never called), so the harness can borrow
 * context->virtual_processes[0]->execution_streams[i] and call module.schedule / module.select directly.
 * c08_reinstall() gives a pristine scheduler: module.remove() (only ever called on a drained scheduler),
 * module.install(), then module.flow_init() for every stream, all k calls sharing one barrier -- the protocol
 * __parsec_thread_init follows (the k calls run as coroutines, see c08_reinstall).
 *
 * Usage contract respected by all drivers (from scheduling.c / the llp module):
 *   - select(es_i) is only called by the (harness) thread that owns stream i;
 *   - schedule(es_i, ...) with i != 0 is only called by the owner of stream i;
 *   - schedule(es_0, ...) may be called by any thread (what __parsec_schedule_vp and the communication thread do).
 */
#ifndef C08_COMMON_H
#define C08_COMMON_H
#include "parsec/parsec_config.h"
#include "parsec/parsec_internal.h"
#include "parsec/runtime.h"
#include "parsec/execution_stream.h"
#include "parsec/class/barrier.h"
#include "parsec/class/list.h"
#include "parsec/class/dequeue.h"
#include "parsec/class/lifo.h"
#include "parsec/hbbuffer.h"
#include "parsec/maxheap.h"
#include "parsec/mca/sched/sched.h"
#include "parsec/scheduling.h"
/* The sources of ll, llp and spq are included only for their file-local queue TYPES (needed to find the shared
 * objects); the module objects that are driven are the ones libparsec installed (renamed here so that this
 * translation unit does not interpose them). */
#define parsec_sched_spq_module c08_unused_copy_of_spq_module
#include "parsec/mca/sched/spq/sched_spq_module.c"
#undef parsec_sched_spq_module
#define parsec_sched_ll_module c08_unused_copy_of_ll_module
#include "parsec/mca/sched/ll/sched_ll_module.c"
#undef parsec_sched_ll_module
#define parsec_sched_llp_module c08_unused_copy_of_llp_module
#include "parsec/mca/sched/llp/sched_llp_module.c"
#undef parsec_sched_llp_module
#include "parsec/mca/sched/sched_local_queues_utils.h"
#include <pthread.h>
#include <stdio.h>
#include <stdlib.h>
#include <string.h>

enum { S_AP, S_GD, S_IP, S_LFQ, S_LHQ, S_LL, S_LLP, S_LTQ, S_PBQ, S_RND, S_SPQ, S_N };
static const char *c08_names[S_N] = { "ap", "gd", "ip", "lfq", "lhq", "ll", "llp", "ltq", "pbq", "rnd", "spq" };
static int c08_mod = -1;
static const char *c08_modname = "?";
static int K = 2;                                   /* number of execution streams */
static parsec_context_t *c08_context;
static parsec_execution_stream_t *ES[8];
static int c08_installed = 0;

static parsec_taskpool_t c08_tp;
static parsec_task_class_t c08_tc_plain, c08_tc_high;

#define C08_SYNTHETIC_TOPOLOGY "pack:2 core:2 pu:1"  /* 4 cores in 2 packages: pins lfq/pbq/ltq neighbour order and the lhq hierarchy */

static int c08_init(const char *name, int k)
{
    c08_mod = -1; for (int i = 0; i < S_N; i++) if (!strcmp(name, c08_names[i])) c08_mod = i;
    if (c08_mod < 0 || k < 1 || k > 4) { fprintf(stderr, "c08: bad scheduler '%s' or stream count %d\n", name, k); return -1; }
    c08_modname = c08_names[c08_mod]; K = k;
    setenv("PARSEC_MCA_mca_sched", c08_modname, 1);
    setenv("PARSEC_MCA_bind_threads", "0", 1);
    setenv("HWLOC_SYNTHETIC", C08_SYNTHETIC_TOPOLOGY, 1);
    int pargc = 1; char *pargv_[] = { (char *)"c08", NULL }; char **pargv = pargv_;
    c08_context = parsec_init(k, &pargc, &pargv);
    if (!c08_context || !parsec_current_scheduler) { fprintf(stderr, "c08: parsec_init failed\n"); return -1; }
    if (strcmp(parsec_current_scheduler->component->base_version.mca_component_name, c08_modname)) {
        fprintf(stderr, "c08: scheduler %s requested, %s installed\n", c08_modname, parsec_current_scheduler->component->base_version.mca_component_name); return -1;
    }
    if (c08_context->nb_vp != 1 || c08_context->virtual_processes[0]->nb_cores != k) { fprintf(stderr, "c08: expected 1 vp with %d streams\n", k); return -1; }
    for (int i = 0; i < k; i++) {
        ES[i] = c08_context->virtual_processes[0]->execution_streams[i];
        if (!ES[i] || ES[i]->th_id != i || !ES[i]->scheduler_object) { fprintf(stderr, "c08: stream %d not initialised by parsec_init\n", i); return -1; }
    }
    c08_installed = 1;
    memset(&c08_tp, 0, sizeof(c08_tp)); memset(&c08_tc_plain, 0, sizeof(c08_tc_plain)); memset(&c08_tc_high, 0, sizeof(c08_tc_high));
    c08_tc_plain.name = "C08plain"; c08_tc_plain.nb_flows = 1;
    c08_tc_high.name = "C08high"; c08_tc_high.nb_flows = 1; c08_tc_high.flags = PARSEC_HIGH_PRIORITY_TASK;
    return 0;
}

/* ---- flow_init for all streams without creating threads --------------------------------------------------
 * The modules' flow_init() functions synchronise the streams with parsec_barrier_wait().  The harness executable
 * interposes that (exported) function: outside c08_reinstall() it forwards to the library's implementation; inside,
 * the K flow_init calls run as K coroutines on the calling thread and a barrier_wait parks the coroutine until all
 * K have arrived -- i.e. one legal schedule of the K stream threads, chosen deterministically (stream 0 first).
 * Thread creation + a mutex/condvar barrier cost several milliseconds per re-installation on this machine. */
#include <ucontext.h>
#include <dlfcn.h>
enum { CO_RUN, CO_WAIT, CO_DONE };
static int co_mode = 0, co_cur = -1, co_state[8];
static ucontext_t co_main, co_ctx[8];
static char *co_stack[8];
static parsec_barrier_t co_barrier;
#define CO_STACK (256 * 1024)
int parsec_barrier_wait(parsec_barrier_t *barrier)
{
    if (!co_mode) {
        static int (*real)(parsec_barrier_t *) = NULL;
        if (!real) real = (int (*)(parsec_barrier_t *))dlsym(RTLD_NEXT, "parsec_barrier_wait");
        return real(barrier);
    }
    if (barrier != &co_barrier) { fprintf(stderr, "c08: flow_init waits on an unexpected barrier\n"); abort(); }
    int me = co_cur; co_state[me] = CO_WAIT;
    swapcontext(&co_ctx[me], &co_main);
    return me == K - 1;      /* the library returns 1 to exactly one (the last) arriver */
}
static void co_entry(int i) { parsec_current_scheduler->module.flow_init(ES[i], &co_barrier); co_state[i] = CO_DONE; }
/* pristine scheduler; the current one (if any) must be empty */
static void c08_reinstall(void)
{
    if (c08_installed) parsec_current_scheduler->module.remove(c08_context);
    for (int i = 0; i < K; i++) ES[i]->scheduler_object = NULL;
    parsec_current_scheduler->module.install(c08_context);
    if (NULL != parsec_current_scheduler->module.flow_init) {
        for (int i = 0; i < K; i++) {
            if (!co_stack[i]) co_stack[i] = malloc(CO_STACK);
            getcontext(&co_ctx[i]); co_ctx[i].uc_stack.ss_sp = co_stack[i]; co_ctx[i].uc_stack.ss_size = CO_STACK; co_ctx[i].uc_link = &co_main;
            makecontext(&co_ctx[i], (void (*)(void))co_entry, 1, i); co_state[i] = CO_RUN;
        }
        co_mode = 1;
        for (;;) {
            int ndone = 0, nwait = 0;
            for (int i = 0; i < K; i++) if (co_state[i] == CO_RUN) { co_cur = i; swapcontext(&co_main, &co_ctx[i]); }
            for (int i = 0; i < K; i++) { ndone += co_state[i] == CO_DONE; nwait += co_state[i] == CO_WAIT; }
            if (ndone == K) break;
            if (nwait != K) { fprintf(stderr, "c08: flow_init barrier mismatch (%d waiting, %d done of %d)\n", nwait, ndone, K); abort(); }
            for (int i = 0; i < K; i++) co_state[i] = CO_RUN;
        }
        co_mode = 0; co_cur = -1;
    }
    c08_installed = 1;
}
/* forget the current scheduler objects without releasing them (used after a failure, when they may not be empty) */
static void c08_abandon(void) { c08_installed = 0; }

/* ---- fake tasks ---- */
static parsec_task_t *c08_new_task(int prio, int high, int group)
{
    parsec_task_t *t;
    if (posix_memalign((void **)&t, 64, sizeof(parsec_task_t))) abort();
    memset(t, 0, sizeof(parsec_task_t));
    PARSEC_OBJ_CONSTRUCT(&t->super, parsec_list_item_t);
    t->taskpool = &c08_tp; t->task_class = high ? &c08_tc_high : &c08_tc_plain; t->status = PARSEC_TASK_STATUS_NONE;
    t->priority = prio;
    t->data[0].data_in = (parsec_data_copy_t *)(uintptr_t)(0x1000 + 64 * group);   /* ltq groups consecutive tasks that share an input into one heap */
    return t;
}
/* ring in the given order, as the runtime hands rings to schedule() */
static parsec_task_t *c08_ring(parsec_task_t **t, int n)
{
    for (int i = 0; i < n; i++) PARSEC_LIST_ITEM_SINGLETON(&t[i]->super);
    for (int i = 1; i < n; i++) parsec_list_item_ring_push(&t[0]->super, &t[i]->super);
    return t[0];
}
#define C08_SCHEDULE(i, ring, d) parsec_current_scheduler->module.schedule(ES[i], (ring), (d))
static parsec_task_t *c08_select(int i) { int32_t d = -777; return parsec_current_scheduler->module.select(ES[i], &d); }

/* ---- the shared objects of the installed module instance (for cosched watching / state inspection) ---- */
typedef void (*c08_region_cb)(const volatile void *base, size_t len, const char *name);
static int c08_hbb_prefix = 0;      /* 0 = whole items[] array, else only the first n slots */
static void c08_hbb_region(parsec_hbbuffer_t *b, c08_region_cb cb, const char *nm)
{
    size_t n = b->size; if (c08_hbb_prefix && (size_t)c08_hbb_prefix < n) n = c08_hbb_prefix;
    cb(&b->items[0], n * sizeof(b->items[0]), nm);
}
static void c08_regions(c08_region_cb cb)
{
    switch (c08_mod) {
    case S_AP: case S_IP: case S_RND: {
        parsec_mca_sched_list_local_counter_t *sl = ES[0]->scheduler_object;
#if defined(PARSEC_PAPI_SDE)
        cb(sl->list, sizeof(parsec_list_t), "list");
#else
        cb(sl, sizeof(parsec_list_t), "list");
#endif
        break; }
    case S_GD: cb(ES[0]->scheduler_object, sizeof(parsec_dequeue_t), "dequeue"); break;
    case S_SPQ: {
        parsec_list_with_size_t *tl = ES[0]->scheduler_object;
        cb(tl, sizeof(*tl), "spq-lists");
        for (parsec_list_item_t *li = PARSEC_LIST_ITERATOR_FIRST(&tl->super); li != PARSEC_LIST_ITERATOR_END(&tl->super); li = PARSEC_LIST_ITERATOR_NEXT(li))
            cb(li, sizeof(parsec_spq_priority_list_t), "spq-plist");
        break; }
    case S_LL: for (int i = 0; i < K; i++) cb(&((parsec_lifo_with_local_counter_t *)ES[i]->scheduler_object)->lifo.lifo_head, sizeof(parsec_counted_pointer_t), "lifo-head"); break;
    case S_LLP: for (int i = 0; i < K; i++) cb(&((parsec_lifo_with_prio_t *)ES[i]->scheduler_object)->lifo.lifo_head, sizeof(parsec_counted_pointer_t), "lifo-head"); break;
    case S_LFQ: case S_PBQ: case S_LTQ:
        for (int i = 0; i < K; i++) c08_hbb_region(PARSEC_MCA_SCHED_LOCAL_QUEUES_OBJECT(ES[i])->task_queue, cb, "task-queue");
        cb(PARSEC_MCA_SCHED_LOCAL_QUEUES_OBJECT(ES[0])->system_queue, sizeof(parsec_dequeue_t), "system-queue");
        break;
    case S_LHQ: {
        parsec_hbbuffer_t *seen[64]; int ns = 0;
        for (int i = 0; i < K; i++) {
            parsec_mca_sched_local_queues_scheduler_object_t *so = PARSEC_MCA_SCHED_LOCAL_QUEUES_OBJECT(ES[i]);
            for (int q = 0; q < so->nb_hierarch_queues; q++) {
                int dup = 0; for (int s = 0; s < ns; s++) if (seen[s] == so->hierarch_queues[q]) dup = 1;
                if (!dup && ns < 64) { seen[ns++] = so->hierarch_queues[q]; c08_hbb_region(so->hierarch_queues[q], cb, q == 0 ? "hq-local" : "hq-upper"); }
            }
        }
        cb(PARSEC_MCA_SCHED_LOCAL_QUEUES_OBJECT(ES[0])->system_queue, sizeof(parsec_dequeue_t), "system-queue");
        break; }
    }
}
/* number of tasks sitting in the overflow (system) dequeue of the hbbuffer based modules, -1 for the others */
static int c08_overflow_count(void)
{
    if (c08_mod != S_LFQ && c08_mod != S_PBQ && c08_mod != S_LTQ && c08_mod != S_LHQ) return -1;
    parsec_dequeue_t *q = PARSEC_MCA_SCHED_LOCAL_QUEUES_OBJECT(ES[0])->system_queue; int n = 0;
    for (parsec_list_item_t *it = PARSEC_LIST_ITERATOR_FIRST(q); it != PARSEC_LIST_ITERATOR_END(q) && n < 100000; it = PARSEC_LIST_ITERATOR_NEXT(it))
        n += (c08_mod == S_LTQ) ? (int)((parsec_heap_t *)it)->size : 1;
    return n;
}
#endif
