/* C41 (E2): info registries return what was set.
 *
 * The real parsec/class/info.c is compiled into this translation unit (its static
 * parsec_ioa_resize_and_rdlock is the interesting part). Its malloc/calloc/realloc/free calls are
 * routed to a tracking allocator: blocks have exactly the requested size, fresh (non-calloc) memory
 * is filled with 0xA5, realloc always moves, every block has a red zone. This makes "the new slots
 * are left uninitialised" and "wrote outside the array" deterministic instead of depending on
 * what glibc happens to hand out.
 *
 * Three systems are searched breadth-first on the real code, each against a map model:
 *   registry : register(name) / unregister(id) over 4 names                 (to closure)
 *   slots1   : + one object array: init / destruct / set / get / test_and_set  (to closure)
 *   slots2   : + two object arrays                                           (depth bound or closure)
 */
#include "parsec/parsec_config.h"
#include <stdlib.h>
#include <string.h>
#include <stdio.h>
#include <signal.h>
#include <setjmp.h>
#include <assert.h>
#include "parsec/class/info.h"
#include "parsec/sys/atomic.h"
#include "seqx.h"

/* ------------------------------------------------------------------ tracking allocator */
#define HX_MAX 64
#define HX_RED 16
typedef struct { unsigned char *p; size_t n; } hx_ent_t;
static hx_ent_t hx_tab0[HX_MAX], *hx_tab = hx_tab0;     /* one table per object under test (seqx keeps two objects alive at times) */
static char hx_err[200];
static void hx_note(const char *m) { if (!hx_err[0]) snprintf(hx_err, sizeof(hx_err), "%s", m); }
static int hx_find(void *p) { if (p) for (int i = 0; i < HX_MAX; i++) if (hx_tab[i].p == (unsigned char *)p) return i; return -1; }
static void *hx_new(size_t n, int fill)
{
    unsigned char *p = malloc(n + HX_RED);
    memset(p, fill, n); memset(p + n, 0xA5, HX_RED);
    for (int i = 0; i < HX_MAX; i++) if (!hx_tab[i].p) { hx_tab[i].p = p; hx_tab[i].n = n; return p; }
    fprintf(stderr, "C41 harness: allocation table full\n"); exit(2);
}
static void hx_redzone(int i) { for (int k = 0; k < HX_RED; k++) if (hx_tab[i].p[hx_tab[i].n + k] != 0xA5) { hx_note("the code wrote past the end of a heap block it allocated"); return; } }
static void *hx_malloc(size_t n) { return hx_new(n, 0xA5); }
static void *hx_calloc(size_t a, size_t b) { return hx_new(a * b, 0); }
static void hx_free(void *p)
{
    int i = hx_find(p);
    if (i < 0) { free(p); return; }           /* strdup'ed names */
    hx_redzone(i); memset(hx_tab[i].p, 0xDD, hx_tab[i].n); hx_tab[i].p = NULL; free(p);
}
static void *hx_realloc(void *p, size_t n)
{
    if (!p) return hx_malloc(n);
    int i = hx_find(p); if (i < 0) { hx_note("realloc of a pointer that was not allocated by this code"); return realloc(p, n); }
    size_t old = hx_tab[i].n; unsigned char *q = hx_new(n, 0xA5);
    memcpy(q, p, old < n ? old : n); hx_free(p); return q;
}
static size_t hx_size(void *p) { int i = hx_find(p); return i < 0 ? 0 : hx_tab[i].n; }
static void hx_check_all(void) { for (int i = 0; i < HX_MAX; i++) if (hx_tab[i].p) hx_redzone(i); }
static void hx_reset(void) { for (int i = 0; i < HX_MAX; i++) if (hx_tab[i].p) { free(hx_tab[i].p); hx_tab[i].p = NULL; } hx_err[0] = 0; }

#define malloc(n)     hx_malloc(n)
#define calloc(a, b)  hx_calloc(a, b)
#define realloc(p, n) hx_realloc(p, n)
#define free(p)       hx_free(p)
#include "parsec/class/info.c"          /* the code under test, from /repo's working tree */
#undef malloc
#undef calloc
#undef realloc
#undef free

/* ------------------------------------------------------------------ crash/assert capture */
static sigjmp_buf hx_jb; static volatile int hx_armed = 0; static char hx_crash[300];
void __assert_fail(const char *e, const char *f, unsigned l, const char *fn)
{
    const char *b = strrchr(f, '/');
    snprintf(hx_crash, sizeof(hx_crash), "assertion `%s' failed in %s (%s:%u)", e, fn, b ? b + 1 : f, l);
    if (hx_armed) siglongjmp(hx_jb, 1);
    fprintf(stderr, "%s\n", hx_crash); _Exit(2);
}
static void hx_sig(int s) { snprintf(hx_crash, sizeof(hx_crash), "the real code crashed with signal %d (%s)", s, strsignal(s)); if (hx_armed) siglongjmp(hx_jb, 1); _Exit(2); }

/* ------------------------------------------------------------------ system description */
#define MAXN 4       /* names */
#define MAXA 2       /* object arrays */
#define MAXID 8
enum { A_CTOR = 1, A_CTORNULL = 2, A_DTOR = 4 };
typedef struct { const char *name; int nn, na, nid; int attr[MAXN]; int max_depth; } cfg_t;
static cfg_t cfg;
static const char *names[MAXN] = { "a", "b", "c", "d" };
#define P1 ((void *)0x1234567855aaULL)
#define P2 ((void *)0x2345678966bbULL)
static void *vals[3] = { NULL, P1, P2 };
#define DEFV(j, n)  ((void *)(0x7d0000000000ULL | (uint64_t)((j) + 1) << 12 | (uint64_t)((n) + 1) << 8 | 0xd5))
#define CONSOBJ(j)  ((void *)(uintptr_t)(0x0b10 + (j)))
#define CONSDATA(n) ((void *)(uintptr_t)(0xc0d0 + (n)))
#define DESDATA(n)  ((void *)(uintptr_t)(0xde50 + (n)))
#define CBDATA(n)   ((void *)(uintptr_t)(0xcb00 + (n)))

/* callback log */
typedef struct { char kind; void *a, *b; } ev_t;
static ev_t evlog[32]; static int nev;
static void *the_ctor(void *obj, void *cons_data)
{
    if (nev < 32) { evlog[nev].kind = 'C'; evlog[nev].a = obj; evlog[nev].b = cons_data; nev++; }
    int n = (int)((uintptr_t)cons_data - 0xc0d0), j = (int)((uintptr_t)obj - 0x0b10);
    if (n < 0 || n >= MAXN || j < 0 || j >= MAXA) return NULL;      /* wrong arguments: flagged by the log comparison */
    return (cfg.attr[n] & A_CTORNULL) ? NULL : DEFV(j, n);
}
static void the_dtor(void *elt, void *des_data) { if (nev < 32) { evlog[nev].kind = 'D'; evlog[nev].a = elt; evlog[nev].b = des_data; nev++; } }

typedef struct {
    parsec_info_t nfo;
    parsec_info_object_array_t oa[MAXA];
    int live[MAXA];
    int id_of[MAXN];              /* model: identifier of each registered name, -1 = not registered */
    void *val[MAXA][MAXID];       /* model: slot values */
    int dead;                     /* real object is in an unknown state (after a crash) */
    hx_ent_t tab[HX_MAX];         /* this object's heap blocks */
} obj_t;

static const char *sym(void *p, char *b)
{
    if (!p) return "NULL"; if (p == P1) return "p1"; if (p == P2) return "p2";
    for (int j = 0; j < MAXA; j++) for (int n = 0; n < MAXN; n++) if (p == DEFV(j, n)) { sprintf(b, "default(array%d,%s)", j, names[n]); return b; }
    sprintf(b, "%p", p); return b;
}
static int name_with_id(obj_t *o, int id) { for (int n = 0; n < cfg.nn; n++) if (o->id_of[n] == id) return n; return -1; }

/* op encoding */
enum { K_REG, K_UNREG, K_INIT, K_FINI, K_SET, K_GET, K_TAS };
typedef struct { int k, n, id, j, v, nw, old; } dop_t;
static int nops_total(void) { return cfg.nn + cfg.nid + 2 * cfg.na + cfg.na * cfg.nid * 3 + cfg.na * cfg.nid + cfg.na * cfg.nid * 6; }
static dop_t decode(int op)
{
    dop_t d = {0};
    if (op < cfg.nn) { d.k = K_REG; d.n = op; return d; } op -= cfg.nn;
    if (op < cfg.nid) { d.k = K_UNREG; d.id = op; return d; } op -= cfg.nid;
    if (op < cfg.na) { d.k = K_INIT; d.j = op; return d; } op -= cfg.na;
    if (op < cfg.na) { d.k = K_FINI; d.j = op; return d; } op -= cfg.na;
    if (op < cfg.na * cfg.nid * 3) { d.k = K_SET; d.j = op / (cfg.nid * 3); d.id = (op / 3) % cfg.nid; d.v = op % 3; return d; } op -= cfg.na * cfg.nid * 3;
    if (op < cfg.na * cfg.nid) { d.k = K_GET; d.j = op / cfg.nid; d.id = op % cfg.nid; return d; } op -= cfg.na * cfg.nid;
    d.k = K_TAS; d.j = op / (cfg.nid * 6); d.id = (op / 6) % cfg.nid; d.nw = 1 + (op % 6) / 3; d.old = op % 3; return d;
}
static const char *vname[3] = { "NULL", "p1", "p2" };
static void opname(int op, char *b, size_t cap)
{
    dop_t d = decode(op);
    switch (d.k) {
    case K_REG: snprintf(b, cap, "register(%s)", names[d.n]); break;
    case K_UNREG: snprintf(b, cap, "unregister(%d)", d.id); break;
    case K_INIT: snprintf(b, cap, "array_init(%d)", d.j); break;
    case K_FINI: snprintf(b, cap, "array_destruct(%d)", d.j); break;
    case K_SET: snprintf(b, cap, "set(%d,%d,%s)", d.j, d.id, vname[d.v]); break;
    case K_GET: snprintf(b, cap, "get(%d,%d)", d.j, d.id); break;
    case K_TAS: snprintf(b, cap, "test_and_set(%d,%d,%s,%s)", d.j, d.id, vname[d.nw], vname[d.old]); break;
    }
}

static void *fresh(void)
{
    obj_t *o = calloc(1, sizeof(obj_t));
    hx_tab = o->tab; hx_err[0] = 0;
    PARSEC_OBJ_CONSTRUCT(&o->nfo, parsec_info_t);
    for (int n = 0; n < MAXN; n++) o->id_of[n] = -1;
    return o;
}
static void destroy(void *p)
{
    obj_t *o = p;
    hx_tab = o->tab;
    if (!o->dead) {
        hx_armed = 1;
        if (!sigsetjmp(hx_jb, 0)) {
            for (int j = 0; j < MAXA; j++) if (o->live[j]) PARSEC_OBJ_DESTRUCT(&o->oa[j]);
            PARSEC_OBJ_DESTRUCT(&o->nfo);
        }
        hx_armed = 0;
    }
    hx_reset(); hx_tab = hx_tab0;
    free(o);
}
static int enabled(void *p, int op)
{
    obj_t *o = p; dop_t d = decode(op);
    switch (d.k) {
    case K_REG: case K_UNREG: return 1;
    case K_INIT: return !o->live[d.j];
    case K_FINI: return o->live[d.j];
    default: return o->live[d.j] && name_with_id(o, d.id) >= 0;   /* contract: only identifiers that are currently registered */
    }
}

/* expected callback multiset */
static ev_t expv[32]; static int nexp;
static void expect(char k, void *a, void *b) { expv[nexp].kind = k; expv[nexp].a = a; expv[nexp].b = b; nexp++; }
static int compare_events(char *err)
{
    int used[32] = {0}; char b1[64], b2[64];
    for (int i = 0; i < nev; i++) {
        int f = -1; for (int k = 0; k < nexp; k++) if (!used[k] && expv[k].kind == evlog[i].kind && expv[k].a == evlog[i].a && expv[k].b == evlog[i].b) { f = k; break; }
        if (f < 0) { snprintf(err, SX_ERRLEN, "unexpected %s call with (%s, %p)", evlog[i].kind == 'C' ? "constructor" : "destructor", sym(evlog[i].a, b1), evlog[i].b); return 1; }
        used[f] = 1;
    }
    for (int k = 0; k < nexp; k++) if (!used[k]) { snprintf(err, SX_ERRLEN, "missing %s call with (%s, %p)", expv[k].kind == 'C' ? "constructor" : "destructor", sym(expv[k].a, b2), expv[k].b); return 1; }
    return 0;
}

static int oracle(obj_t *o, char *err)
{
    char b1[64], b2[64];
    if (hx_err[0]) { snprintf(err, SX_ERRLEN, "%s", hx_err); return 1; }
    hx_check_all();
    if (hx_err[0]) { snprintf(err, SX_ERRLEN, "%s", hx_err); return 1; }
    /* names resolve to their identifiers; identifiers are distinct (by construction of the model + the check in register) */
    for (int n = 0; n <= cfg.nn; n++) {
        void *cb = (void *)0x5e17; const char *nm = n < cfg.nn ? names[n] : "never-registered";
        int want = n < cfg.nn ? o->id_of[n] : -1;
        int got = parsec_info_lookup(&o->nfo, nm, &cb);
        if (got != (want < 0 ? PARSEC_INFO_ID_UNDEFINED : want)) { snprintf(err, SX_ERRLEN, "lookup(%s) returned %d, expected %d", nm, got, want); return 1; }
        if (want >= 0 && cb != CBDATA(n)) { snprintf(err, SX_ERRLEN, "lookup(%s) returned cb_data %p, expected %p", nm, cb, CBDATA(n)); return 1; }
    }
    /* every existing slot of every live array holds what the model says (this is what parsec_info_get reads first) */
    for (int j = 0; j < cfg.na; j++) if (o->live[j]) {
        parsec_info_object_array_t *oa = &o->oa[j];
        if (oa->known_infos > 0 && hx_size(oa->info_objects) < (size_t)oa->known_infos * sizeof(void *)) { snprintf(err, SX_ERRLEN, "array %d claims %d slots but its storage has %zu bytes", j, oa->known_infos, hx_size(oa->info_objects)); return 1; }
        for (int id = 0; id < MAXID; id++) {
            if (id < oa->known_infos) {
                void *r = oa->info_objects[id];
                if (r != o->val[j][id]) { snprintf(err, SX_ERRLEN, "slot %d of array %d holds %s, but the last value set (or default) is %s", id, j, sym(r, b1), sym(o->val[j][id], b2)); return 1; }
            } else if (o->val[j][id]) { snprintf(err, SX_ERRLEN, "slot %d of array %d does not exist (array has %d slots) but a value %s was stored in it", id, j, oa->known_infos, sym(o->val[j][id], b1)); return 1; }
        }
    }
    return 0;
}

static int apply_inner(obj_t *o, int op, char *err)
{
    dop_t d = decode(op); char b1[64], b2[64];
    nev = 0; nexp = 0;
    switch (d.k) {
    case K_REG: {
        int a = cfg.attr[d.n];
        int id = parsec_info_register(&o->nfo, names[d.n], (a & A_DTOR) ? the_dtor : NULL, DESDATA(d.n), (a & (A_CTOR | A_CTORNULL)) ? the_ctor : NULL, CONSDATA(d.n), CBDATA(d.n));
        if (o->id_of[d.n] >= 0) {
            if (id != PARSEC_INFO_ID_UNDEFINED) { snprintf(err, SX_ERRLEN, "register(%s) of an already registered name returned %d instead of UNDEFINED", names[d.n], id); return 1; }
        } else {
            if (id < 0) { snprintf(err, SX_ERRLEN, "register(%s) failed (%d) although the name is not registered", names[d.n], id); return 1; }
            int other = name_with_id(o, id);
            if (other >= 0) { snprintf(err, SX_ERRLEN, "register(%s) returned identifier %d, which is still held by %s: identifiers are not distinct", names[d.n], id, names[other]); return 1; }
            if (id >= MAXID) { snprintf(err, SX_ERRLEN, "register(%s) returned identifier %d with only %d names in play", names[d.n], id, cfg.nn); return 1; }
            o->id_of[d.n] = id;
        }
    } break;
    case K_UNREG: {
        void *cb = (void *)0x5e17; int n = name_with_id(o, d.id);
        if (n >= 0) {
            for (int j = 0; j < cfg.na; j++) if (o->live[j] && o->val[j][d.id] && (cfg.attr[n] & A_DTOR)) { expect('D', o->val[j][d.id], DESDATA(n)); o->val[j][d.id] = NULL; }
        }
        int r = parsec_info_unregister(&o->nfo, d.id, &cb);
        if (n < 0) { if (r != PARSEC_INFO_ID_UNDEFINED) { snprintf(err, SX_ERRLEN, "unregister(%d) of an unknown identifier returned %d", d.id, r); return 1; } }
        else {
            if (r != d.id) { snprintf(err, SX_ERRLEN, "unregister(%d) returned %d", d.id, r); return 1; }
            if (cb != CBDATA(n)) { snprintf(err, SX_ERRLEN, "unregister(%d) returned cb_data %p, expected %p", d.id, cb, CBDATA(n)); return 1; }
            if (!(cfg.attr[n] & A_DTOR))      /* no destructor: the statement does not say whether the value survives; accept kept or cleared */
                for (int j = 0; j < cfg.na; j++) if (o->live[j] && d.id < o->oa[j].known_infos && o->oa[j].info_objects[d.id] == NULL) o->val[j][d.id] = NULL;
            o->id_of[n] = -1;
        }
    } break;
    case K_INIT:
        PARSEC_OBJ_CONSTRUCT(&o->oa[d.j], parsec_info_object_array_t);
        parsec_info_object_array_init(&o->oa[d.j], &o->nfo, CONSOBJ(d.j));
        o->live[d.j] = 1; memset(o->val[d.j], 0, sizeof(o->val[d.j]));
        break;
    case K_FINI:
        PARSEC_OBJ_DESTRUCT(&o->oa[d.j]); o->live[d.j] = 0; memset(o->val[d.j], 0, sizeof(o->val[d.j])); nev = 0;
        break;
    case K_SET: {
        void *r = parsec_info_set(&o->oa[d.j], d.id, vals[d.v]);
        if (r != o->val[d.j][d.id]) { snprintf(err, SX_ERRLEN, "set(%d,%d,%s) returned %s as the old value, expected %s", d.j, d.id, vname[d.v], sym(r, b1), sym(o->val[d.j][d.id], b2)); return 1; }
        o->val[d.j][d.id] = vals[d.v];
    } break;
    case K_GET: {
        int n = name_with_id(o, d.id); void *want = o->val[d.j][d.id];
        if (!want && (cfg.attr[n] & (A_CTOR | A_CTORNULL))) { expect('C', CONSOBJ(d.j), CONSDATA(n)); if (cfg.attr[n] & A_CTOR) want = DEFV(d.j, n); }
        void *r = parsec_info_get(&o->oa[d.j], d.id);
        if (r != want) { snprintf(err, SX_ERRLEN, "get(%d,%d) returned %s, expected %s", d.j, d.id, sym(r, b1), sym(want, b2)); return 1; }
        o->val[d.j][d.id] = want;
    } break;
    case K_TAS: {
        void *cur = o->val[d.j][d.id], *want = (cur == vals[d.old]) ? vals[d.nw] : cur;
        void *r = parsec_info_test_and_set(&o->oa[d.j], d.id, vals[d.nw], vals[d.old]);
        if (r != want) { snprintf(err, SX_ERRLEN, "test_and_set(%d,%d,new=%s,old=%s) on a slot holding %s returned %s, expected %s", d.j, d.id, vname[d.nw], vname[d.old], sym(cur, b1), sym(r, b2), want == cur ? "the unchanged value" : "the new value"); return 1; }
        o->val[d.j][d.id] = want;
    } break;
    }
    if (compare_events(err)) return 1;
    return oracle(o, err);
}
static int apply(void *p, int op, char *err)
{
    obj_t *o = p; int r;
    hx_tab = o->tab; hx_err[0] = 0;
    hx_armed = 1;
    if (sigsetjmp(hx_jb, 0)) { hx_armed = 0; o->dead = 1; snprintf(err, SX_ERRLEN, "%s", hx_crash); return 1; }
    r = apply_inner(o, op, err);
    hx_armed = 0;
    return r;
}
static size_t canon(void *p, char *b, size_t cap)
{
    obj_t *o = p; size_t off = 0; char t[64]; int guard = 0;
    for (parsec_list_item_t *it = PARSEC_LIST_ITERATOR_FIRST(&o->nfo.info_list); it != PARSEC_LIST_ITERATOR_END(&o->nfo.info_list) && guard < 2 * MAXID; it = PARSEC_LIST_ITERATOR_NEXT(it), guard++) {
        parsec_info_entry_t *ie = (parsec_info_entry_t *)it; off += snprintf(b + off, cap - off, "%s=%d,", ie->name, ie->iid);
    }
    off += snprintf(b + off, cap - off, "|max=%d|", o->nfo.max_id);
    for (int n = 0; n < cfg.nn; n++) off += snprintf(b + off, cap - off, "%d,", o->id_of[n]);
    for (int j = 0; j < cfg.na; j++) {
        off += snprintf(b + off, cap - off, "|A%d:", j);
        if (!o->live[j]) { off += snprintf(b + off, cap - off, "-"); continue; }
        off += snprintf(b + off, cap - off, "k=%d:", o->oa[j].known_infos);
        for (int id = 0; id < o->oa[j].known_infos && id < MAXID; id++) off += snprintf(b + off, cap - off, "%s,", sym(o->oa[j].info_objects[id], t));
        for (int id = 0; id < MAXID; id++) off += snprintf(b + off, cap - off, "%s;", sym(o->val[j][id], t));
    }
    return off;
}

static cfg_t configs[] = {
    /* name        names arrays ids  attributes of a,b,c,d                                             depth */
    { "registry",    4,   0,    4, { A_CTOR | A_DTOR, 0, A_CTOR, A_DTOR }, 0 },
    { "slots1",      3,   1,    3, { A_CTOR | A_DTOR, 0, A_CTORNULL | A_DTOR, 0 }, 0 },
    { "slots2",      3,   2,    3, { A_CTOR | A_DTOR, A_CTOR, A_DTOR, 0 }, 0 },
};
#define NCFG ((int)(sizeof(configs) / sizeof(configs[0])))

int main(int argc, char **argv)
{
    sx_init(argc, argv, "C41");
    int depth2 = 0; const char *only = NULL;
    for (int i = 1; i < argc; i++) { if (!strcmp(argv[i], "--depth2") && i + 1 < argc) depth2 = atoi(argv[++i]); else if (!strcmp(argv[i], "--scenario") && i + 1 < argc) only = argv[++i]; }
    struct sigaction sa; memset(&sa, 0, sizeof(sa)); sa.sa_handler = hx_sig; sa.sa_flags = SA_NODEFER;
    sigaction(SIGSEGV, &sa, NULL); sigaction(SIGBUS, &sa, NULL); sigaction(SIGABRT, &sa, NULL); sigaction(SIGFPE, &sa, NULL);
    if (sx_replay_file) {
        char sc[128], h[4096]; if (sx_read_replay(sx_replay_file, sc, sizeof(sc), h, sizeof(h))) return 2;
        for (int c = 0; c < NCFG; c++) if (!strcmp(configs[c].name, sc)) {
            cfg = configs[c];
            sx_system_t sys = { cfg.name, nops_total(), fresh, destroy, enabled, apply, canon, opname, 0, 0 };
            return sx_replay_named(&sys, h);
        }
        fprintf(stderr, "unknown scenario %s\n", sc); return 2;
    }
    for (int c = 0; c < NCFG; c++) {
        if (only && strcmp(only, configs[c].name)) continue;
        cfg = configs[c];
        if (cfg.na == 2) cfg.max_depth = depth2;
        sx_system_t sys = { cfg.name, nops_total(), fresh, destroy, enabled, apply, canon, opname, cfg.max_depth, 0 };
        sx_stats_t st; sx_bfs(&sys, &st);
    }
    return sx_finish();
}
