/* C37 (E5/mp leg): after parsec_taskpool_sync_ids() every process assigns the same identifier to its next taskpool.
 * Real parsec/parsec.c (hk-mpi flavour, DISTRIBUTED) compiled into this TU so that the file-static registry can be
 * reset between cases. Run under mpiexec -n N: every vector h in {0,1,3}^N (thorough: {0,1,2,3,5,8}^N) of prior reservation counts is one case
 * (rank r first reserves+registers h[r] taskpools), plus a cumulative pass without reset (unequal grown arrays). */
#include "parsec/parsec.c"
#include "seqx.h"
#include <setjmp.h>
#include <signal.h>
static sigjmp_buf jb; static volatile int jb_armed = 0;
static void on_abort(int sg) { (void)sg; if (jb_armed) siglongjmp(jb, 1); _exit(3); }

#define MAXN 4
static parsec_taskpool_t **pools; static int npools, cap_pools;
static parsec_taskpool_t *new_pool(const char *name)
{
    if (npools == cap_pools) { cap_pools = cap_pools ? 2 * cap_pools : 64; pools = realloc(pools, cap_pools * sizeof(*pools)); }
    parsec_taskpool_t *t = calloc(1, sizeof(*t)); t->taskpool_name = (char *)name; pools[npools++] = t; return t;
}
static int rank, nproc;

static int run_case(const int *h, int reset, char *msg, size_t cap, int *out_ids)
{
    int bad = 0; static int base = 0;     /* identifier every rank holds before this case (cumulative pass) */
    if (reset) { parsec_taskpool_release_resources(); npools = 0; base = 0; }
    int first = npools;
    for (int i = 0; i < h[rank]; i++) { parsec_taskpool_t *t = new_pool("h"); parsec_taskpool_reserve_id(t); parsec_taskpool_register(t); }
    parsec_taskpool_sync_ids();
    parsec_taskpool_t *nt = new_pool("n");
    volatile int id = -1;
    jb_armed = 1;
    if (0 == sigsetjmp(jb, 1)) { id = parsec_taskpool_reserve_id(nt); parsec_taskpool_register(nt); }
    else { id = -1; taskpool_array_lock = 0; nt->taskpool_id = 0; npools--; }     /* the registry's own assertion failed: reported below as identifier -1 */
    jb_armed = 0;
    int ids[MAXN], myid = id; MPI_Allgather(&myid, 1, MPI_INT, ids, 1, MPI_INT, MPI_COMM_WORLD);
    int mx = 0; for (int r = 0; r < nproc; r++) if (h[r] > mx) mx = h[r];
    int want = base + mx + 1;
    /* local: everything registered earlier still resolves, the new one resolves, ids between are empty */
    int lbad = 0;
    for (int i = (npools > 40 ? npools - 40 : 0); i < npools; i++) if (parsec_taskpool_lookup(pools[i]->taskpool_id) != pools[i]) lbad = 1;   /* the most recent 40 (all of them in the reset pass) */
    for (int k = base + h[rank] + 1; k < myid; k++) if (parsec_taskpool_lookup((uint32_t)k) != NULL) lbad = 2;
    if (myid > 0 && parsec_taskpool_lookup((uint32_t)myid + 1) != NULL) lbad = 3;
    int lb[MAXN]; MPI_Allgather(&lbad, 1, MPI_INT, lb, 1, MPI_INT, MPI_COMM_WORLD);
    for (int r = 0; r < nproc; r++) {
        if (ids[r] != want && !bad) { bad = 1; snprintf(msg, cap, "after sync_ids rank %d assigned identifier %d to its next taskpool (-1: the registry aborted on its own assertion), expected %d on every rank (ids:%d %d %d %d)", r, ids[r], want, ids[0], nproc > 1 ? ids[1] : -1, nproc > 2 ? ids[2] : -1, nproc > 3 ? ids[3] : -1); }
        if (lb[r] && !bad) { bad = 1; snprintf(msg, cap, "rank %d: %s", r, lb[r] == 1 ? "a taskpool registered before the synchronisation no longer resolves" : lb[r] == 2 ? "an identifier skipped by the synchronisation resolves to a taskpool" : "the identifier after the newest one resolves to a taskpool"); }
    }
    for (int r = 0; r < nproc; r++) out_ids[r] = ids[r];
    base = want; (void)first;
    return bad;
}

int main(int argc, char **argv)
{
    MPI_Init(&argc, &argv);
    { struct sigaction sa; memset(&sa, 0, sizeof(sa)); sa.sa_handler = on_abort; sa.sa_flags = SA_NODEFER; sigaction(SIGABRT, &sa, NULL); }
    MPI_Comm_rank(MPI_COMM_WORLD, &rank); MPI_Comm_size(MPI_COMM_WORLD, &nproc);
    if (nproc > MAXN) { MPI_Finalize(); return 2; }
    if (rank == 0) sx_init(argc, argv, "C37"); else { for (int i = 1; i < argc; i++) if (!strcmp(argv[i], "--replay") && i + 1 < argc) sx_replay_file = argv[i + 1]; }
    static const int vals_q[3] = { 0, 1, 3 }, vals_t[6] = { 0, 1, 2, 3, 5, 8 };
    int thorough = 0; for (int i = 1; i < argc; i++) if (!strcmp(argv[i], "--thorough")) thorough = 1;
    const int *vals = thorough ? vals_t : vals_q; int nv = thorough ? 6 : 3;
    char scen[64]; snprintf(scen, sizeof(scen), "sync_ids_%dranks", nproc);
    int total = 1; for (int i = 0; i < nproc; i++) total *= nv;
    long cases = 0, nontrivial = 0, viol = 0; char samples[3][128]; int ns = 0; double t0 = sx_now();
    unsigned long outcomes = 0; static int seen_out[65536];
    int only = -1, only_reset = 1;
    if (sx_replay_file) {
        char sc[128], hs[256]; if (sx_read_replay(sx_replay_file, sc, sizeof(sc), hs, sizeof(hs))) { MPI_Finalize(); return 2; }
        int pass, code; if (sscanf(hs, "pass%d case%d", &pass, &code) != 2) { MPI_Finalize(); return 2; }
        only = code; only_reset = (pass == 0);
    }
    for (int pass = 0; pass < 2; pass++) {            /* pass 0: fresh registry per case; pass 1: cumulative (no reset) */
        if (only >= 0 && pass != (only_reset ? 0 : 1)) continue;
        for (int code = 0; code < total; code++) {
            int h[MAXN] = {0}, c = code, distinct = 0;
            for (int r = 0; r < nproc; r++) { h[r] = vals[c % nv]; c /= nv; if (h[r] != h[0]) distinct = 1; }
            if (only >= 0 && pass == 0 && code != only) continue;
            if (only >= 0 && pass == 1 && code > only) break;       /* cumulative: replay the prefix up to the case */
            char msg[400] = ""; int ids[MAXN];
            int bad = run_case(h, pass == 0 || code == 0, msg, sizeof(msg), ids);
            cases++; nontrivial += distinct;
            if (rank == 0) {
                char cs[128]; snprintf(cs, sizeof(cs), "pass%d case%d h=(%d,%d,%d,%d) n=%d -> id %d", pass, code, h[0], nproc > 1 ? h[1] : -1, nproc > 2 ? h[2] : -1, nproc > 3 ? h[3] : -1, nproc, ids[0]);
                if (ids[0] >= 0 && ids[0] < 65536 && !seen_out[ids[0]]) { seen_out[ids[0]] = 1; outcomes++; }
                if (ns < 3 && distinct && (cases % 7 == 3 || ns == 0)) snprintf(samples[ns++], 128, "%s", cs);
                if (bad && (only < 0 || code == only)) { viol++; if (sx_replay_file) { printf("  %s: %s\nVIOLATION property=C37 replay=%s\n", cs, msg, sx_replay_file); sx_total_violations++; } else if (viol <= 3) sx_violation(scen, cs, msg); }
                else if (sx_replay_file && (only < 0 || code == only)) printf("  %s: ok\n", cs);
            }
        }
    }
    if (rank == 0 && !sx_replay_file) { const char *sp[3] = { samples[0], samples[1], samples[2] }; sx_report(scen, cases, cases, cases, nontrivial, (long)outcomes, viol == 0, (int)viol, sx_now() - t0, "", sp, ns); }
    int rc = 0; if (rank == 0) rc = sx_finish();
    MPI_Bcast(&rc, 1, MPI_INT, 0, MPI_COMM_WORLD);
    MPI_Finalize();
    return rank == 0 ? rc : 0;
}
