META = dict(
    engine='seqx+cosched+mp',
    technique='explicit-state BFS over reserve/register/unregister/sync histories of the real taskpool registry against a reference map; preemption-bounded exhaustive schedule enumeration of concurrent reservations/lookups; exhaustive box of prior-history vectors under mpiexec for identifier synchronisation',
    level_text='E2: all histories up to depth 7 (quick) / 9 (thorough) of reserve, register, unregister over 5 taskpools plus sync, lookups of every identifier >= 1 compared with a reference map after each step (three array doublings). E1: every schedule with <= 2 preemptions (quick; 3 thorough for the 2-thread scripts) of four 2-3 thread scripts: reserved identifiers distinct and dense, own lookups exact, foreign lookups never return a taskpool with another identifier, array growth inside the window. E5: for 1..3 (quick) / 1..4 (thorough) MPI processes every vector of prior reservation counts from {0,1,3}^n ({0,1,2,3,5,8}^n thorough for n <= 3), once on a fresh registry and once cumulatively: after parsec_taskpool_sync_ids all processes obtain the same next identifier max+1 and earlier registrations still resolve.',
    level_note='parsec.c is compiled into the harness TUs (#include) to reach the file-static registry. lookup(0) is outside the property (identifier 0 is never assigned; on a fresh registry it dereferences a NULL array) and is not in the alphabet. The MPI leg runs real processes (not instrumented): it is exhaustive over the prior-history box, not over schedules. Sequential consistency at instrumented accesses for E1.',
)
RULE = ("seqx: BFS over operation histories on the real registry, deduplicated by (pos, size, slots 1..pos, per-pool state/id); non-trivial = shortest history has >= 2 operations. "
        "cosched: every schedule with at most b preemptions, scheduling points = instrumented accesses to the registry lock, array pointer, size, pos and the array itself; non-trivial = at least one preemption. "
        "mp: one case per (number of processes, pass, vector of prior reservation counts); non-trivial = the processes' prior histories differ")
ASSUME = ["sequential consistency at instrumented accesses (E1)", "a taskpool is registered only after reserve_id gave it its identifier (usage contract)",
          "identifier 0 is never looked up", "MPI leg: Open MPI, processes on one node"]
MPIENV = {'OMPI_ALLOW_RUN_AS_ROOT': '1', 'OMPI_ALLOW_RUN_AS_ROOT_CONFIRM': '1'}


def b_seq(ctx): return ctx.compile('hk-shm', 'reg_seq', ['reg_seq.c'], instr=False)
def b_conc(ctx): return ctx.compile('hk-shm', 'reg_conc', ['reg_conc.c'], engine='cosched')
def b_mpi(ctx): return ctx.compile('hk-mpi', 'reg_mpi', ['reg_mpi.c'], instr=False, mpi=True)


def conc(ctx, exe, names, bound, deadline, label):
    import os
    from vlib import NJOBS, OUT
    env = dict(os.environ); env['C37_SET'] = ','.join(names)
    return ctx.run_engine(exe, ['--bound', str(bound), '--jobs', str(NJOBS), '--outdir', OUT, '--deadline', str(int(deadline))], label=label, timeout=deadline + 600, env=env)


def mpirun(ctx, exe, n, extra, label):
    import os, shutil
    env = dict(os.environ); env.update(MPIENV)
    return ctx.run_engine(shutil.which('mpiexec') or 'mpiexec', ['-n', str(n), '--oversubscribe', exe, '--outdir', '/verif/out'] + extra, label=label, timeout=1500, env=env)


def check(ctx):
    quick = ctx.tier == 'quick'
    ctx.run_engine(b_seq(ctx), ['--outdir', '/verif/out', '--depth', '7' if quick else '9', '--deadline', '30' if quick else '400'], label='reg_seq', timeout=900)
    exe = b_conc(ctx)
    if quick:
        # one invocation per script (the engine's deadline is per invocation): every script completes bound 1 even on a loaded machine
        for s in ['reserve_register_lookup', 'two_by_two_growth', 'reserve3_fresh']:
            conc(ctx, exe, [s], 2, 10, 'b2_' + s)
        conc(ctx, exe, ['reserve_unregister_lookup'], 1, 8, 'b1_reserve_unregister_lookup')
    else:
        conc(ctx, exe, ['reserve_register_lookup', 'two_by_two_growth'], 3, 200, 'conc2_b3')
        conc(ctx, exe, ['reserve3_fresh', 'reserve_unregister_lookup'], 2, 300, 'conc3_b2')
    mexe = b_mpi(ctx)
    for n in ([1, 2, 3] if quick else [1, 2, 3, 4]):
        mpirun(ctx, mexe, n, [] if (quick or n == 4) else ['--thorough'], 'sync_n%d' % n)     # 4 ranks: the {0,1,3} box also in thorough (2 592 cases cost 8 min on the loaded VM)
    return ctx.finish(RULE, ASSUME)


def replay(ctx, path, obj):
    import subprocess, re, os
    sc = obj.get('scenario', '')
    if obj.get('engine') == 'cosched':
        return subprocess.call([b_conc(ctx), '--replay', path])
    m = re.match(r'sync_ids_(\d)ranks', sc)
    if m:
        env = dict(os.environ); env.update(MPIENV)
        return subprocess.call(['mpiexec', '-n', m.group(1), '--oversubscribe', b_mpi(ctx), '--replay', path], env=env)
    return subprocess.call([b_seq(ctx), '--replay', path])
