"""E5 'mp' engine helpers: run an ENUMERATED finite box of real multi-process launches.

    import sys; sys.path.insert(0, '/verif/engine/mp'); import mp

    launches = [mp.Launch(key='n2-p1', n=2, argv=[exe, '--x', '1'], env={'PARSEC_MCA_...': '1'}), ...]
    results  = mp.run_box(launches, jobs=8, timeout=30, deadline=time.time()+80)

Every launch is `mpiexec -n N --oversubscribe --bind-to none <argv> --outdir <dir>` in its own
process group with a private result directory (the program writes one file per rank there:
`r<rank>.json`).  A launch that exceeds `timeout` (or exits non-zero / loses a rank file) is
re-run ALONE (nothing else in flight) with `4 x timeout` before its failure is believed
(`Result.confirmed`).  Message timing is NOT controlled by this engine: the box is exhaustive
over programs x configurations only.

Nothing here decides a property: the caller's oracle inspects `Result.ranks` (parsed rank files).
"""
import json, os, shutil, signal, subprocess, time

BASE_ENV = {
    'OMPI_ALLOW_RUN_AS_ROOT': '1', 'OMPI_ALLOW_RUN_AS_ROOT_CONFIRM': '1',
    # one transport, always the same one: shared memory + self (no probing of ucx/ofi/openib: faster start-up,
    # and the eager/rendezvous switch is the documented 4096 bytes of btl/vader)
    'OMPI_MCA_pml': 'ob1', 'OMPI_MCA_btl': 'vader,self',
    'OMPI_MCA_rmaps_base_oversubscribe': '1',
    'OMPI_MCA_mpi_yield_when_idle': '1',          # many more ranks than cores are in flight
    'OMPI_MCA_btl_base_warn_component_unused': '0',
    'PARSEC_MCA_bind_threads': '0',               # PaRSEC must not pin every rank of every launch on core 0
    'PARSEC_MCA_runtime_warn_slow_binding': '0',
}


class Launch:
    def __init__(self, key, n, argv, env=None, meta=None, timeout=None, kill_at=None):
        self.key, self.n, self.argv, self.env, self.meta, self.timeout = key, int(n), list(argv), dict(env or {}), meta, timeout
        self.kill_at = kill_at        # absolute time.time() after which the launch is killed whatever its own timeout says


class Result:
    """status: 'ok' (exit 0, all rank files parsed), 'exit' (non-zero exit), 'timeout', 'norank' (exit 0 but a rank file is
    missing/unreadable).  confirmed: the failure was reproduced (or first seen) by the solitary 4x re-run."""
    def __init__(self, launch):
        self.launch = launch
        self.status = None; self.rc = None; self.elapsed = 0.0
        self.ranks = {}; self.stdout = ''; self.stderr = ''
        self.attempts = 0; self.confirmed = False; self.first_status = None; self.dir = None

    def ok(self):
        return self.status == 'ok'

    def brief(self):
        return dict(key=self.launch.key, status=self.status, rc=self.rc, elapsed=round(self.elapsed, 2), attempts=self.attempts,
                    first_status=self.first_status, stderr=self.stderr[-1500:], stdout=self.stdout[-1500:])


def command(launch, outdir):
    return ['mpiexec', '-n', str(launch.n), '--oversubscribe', '--bind-to', 'none'] + launch.argv + ['--outdir', outdir]


def environment(launch):
    env = dict(os.environ)
    env.update(BASE_ENV)
    env.update(launch.env)
    return env


def _start(launch, root):
    d = os.path.join(root, launch.key)
    shutil.rmtree(d, ignore_errors=True)
    os.makedirs(d)
    so = open(os.path.join(d, 'stdout'), 'w+'); se = open(os.path.join(d, 'stderr'), 'w+')
    p = subprocess.Popen(command(launch, d), env=environment(launch), stdout=so, stderr=se, stdin=subprocess.DEVNULL,
                         start_new_session=True, cwd=d)
    return dict(p=p, d=d, so=so, se=se, t0=time.time())


def _kill(h):
    try:
        os.killpg(h['p'].pid, signal.SIGKILL)
    except Exception:
        pass
    try:
        h['p'].wait(timeout=10)
    except Exception:
        pass


def _collect(launch, h, res, timed_out):
    res.elapsed = time.time() - h['t0']
    res.dir = h['d']
    for f, name in ((h['so'], 'stdout'), (h['se'], 'stderr')):
        f.flush(); f.seek(0); setattr(res, name, f.read()[-20000:]); f.close()
    res.rc = h['p'].returncode
    res.ranks = {}
    for r in range(launch.n):
        fn = os.path.join(h['d'], 'r%d.json' % r)
        try:
            res.ranks[r] = json.load(open(fn))
        except Exception:
            pass
    if timed_out:
        res.status = 'timeout'
    elif res.rc != 0:
        res.status = 'exit'
    elif len(res.ranks) != launch.n:
        res.status = 'norank'
    else:
        res.status = 'ok'


def run_one(launch, root, timeout):
    res = Result(launch)
    h = _start(launch, root)
    to = False
    try:
        h['p'].wait(timeout=timeout)
    except subprocess.TimeoutExpired:
        to = True
        _kill(h)
    _collect(launch, h, res, to)
    return res


def run_box(launches, root, jobs=8, timeout=30.0, deadline=None, confirm=True, on_result=None, keep_dirs=False, max_ranks=None):
    """Run all launches, `jobs` at a time.  Returns (results, skipped): `skipped` are launches not started because the
    deadline passed (the caller reports exhaustive=false).  Failures are re-run alone with 4x the timeout (confirm=True);
    max_ranks bounds the total number of MPI processes in flight (in addition to `jobs`)."""
    os.makedirs(root, exist_ok=True)
    todo = list(launches)[::-1]
    running = []
    results = []
    suspects = []
    skipped = []

    def reap(block):
        for item in list(running):
            l, h, res = item
            lim = l.timeout or timeout
            rc = h['p'].poll()
            to = rc is None and (time.time() - h['t0'] > lim or (getattr(l, 'kill_at', None) is not None and time.time() > l.kill_at))
            if rc is None and not to:
                continue
            if to:
                _kill(h)
            _collect(l, h, res, to)
            res.attempts = 1
            running.remove(item)
            if res.ok() or not confirm:
                results.append(res)
                if on_result:
                    on_result(res)
                if res.ok() and not keep_dirs:
                    shutil.rmtree(res.dir, ignore_errors=True)
            else:
                suspects.append(res)

    while todo or running:
        while todo and len(running) < jobs:
            if deadline is not None and time.time() > deadline:
                skipped.extend(todo[::-1]); todo = []
                break
            if max_ranks is not None and running and sum(x[0].n for x in running) + todo[-1].n > max_ranks:
                break
            l = todo.pop()
            running.append((l, _start(l, root), Result(l)))
        reap(False)
        time.sleep(0.01)
    # solitary confirmation runs (nothing else in flight), 4x the limit
    for s in suspects:
        l = s.launch
        r2 = run_one(l, root, 4 * (l.timeout or timeout))
        r2.attempts = 2
        r2.first_status = s.status
        r2.confirmed = not r2.ok()
        if r2.ok():
            r2.first_failure = s.brief()
            if not keep_dirs:
                shutil.rmtree(r2.dir, ignore_errors=True)
        results.append(r2)
        if on_result:
            on_result(r2)
    return results, skipped
