/* C05 generic MPI driver: runs cases (variant x placement x tile size) of the generated PTG family as real taskpools on the
 * real runtime and compares, on rank 0, what happened on all ranks with the sequential reference computed by gen.py:
 *   - every task instance ran exactly once, on the rank its placement names,
 *   - every instance read, on each flow, the value the reference reads (and the tile was well-formed),
 *   - the final contents of both collections equal the reference (gathered from the owners),
 *   - every rank terminated (a watchdog turns a stall into a 'hang' record and exit code 3).
 * One launch = one (process count, MCA settings, thread count); many cases per launch.  Up to --batch cases (independent
 * taskpools on their own collections) are added to the context and run together by one parsec_context_start/wait, then
 * gathered with one MPI_Reduce.
 *   drv --outdir D --threads T [--batch B] [--case-timeout S] (--only v:p:e,v:p:e,... | --variants a,b,c [--skip v:p:e,...])
 * Placement p of a variant with N tiles on n ranks: owner[i] = (p / n^i) % n  (both collections share it).
 * Result: D/r<rank>.json (rewritten after every batch). */
#define _GNU_SOURCE
#include <mpi.h>
#include <stdio.h>
#include <stdlib.h>
#include <string.h>
#include <stdarg.h>
#include <unistd.h>
#include <pthread.h>
#include <time.h>
#include "c05.h"
#include "vdc.h"
#include "parsec/utils/mca_param.h"

#define MAXC 3
#define MAXK 5
#define MAXB 32
#define MAXT 4
static int rank, nproc;
static char outdir[1024] = ".";
static double case_timeout = 8.0;

static double now(void) { struct timespec ts; clock_gettime(CLOCK_MONOTONIC, &ts); return ts.tv_sec + 1e-9 * ts.tv_nsec; }
static inline uint64_t mix(uint64_t x) { x += 0x9e3779b97f4a7c15ull; x = (x ^ (x >> 30)) * 0xbf58476d1ce4e5b9ull; x = (x ^ (x >> 27)) * 0x94d049bb133111ebull; return x ^ (x >> 31); }
static uint64_t Hf(int cls, int k, int j, int n, const uint64_t *in)
{
    uint64_t h = mix(0xC05ull ^ ((uint64_t)cls << 8) ^ ((uint64_t)k << 16) ^ ((uint64_t)j << 24));
    for (int i = 0; i < n; i++) h = mix(h ^ in[i]);
    return h;
}
static void tile_write(uint64_t *t, uint64_t v, int E) { t[0] = v; for (int e = 1; e < E; e++) t[e] = mix(v + (uint64_t)e); }
static int tile_ok(const uint64_t *t, int E) { for (int e = 1; e < E; e++) if (t[e] != mix(t[0] + (uint64_t)e)) return 0; return 1; }

/* ---- what the bodies record (per slot of the batch, per rank); everything is summed over the ranks by ONE reduce: every
 * field is contributed by exactly one rank when the run is correct (a count of 2 or a doubled value shows otherwise) ---- */
typedef struct {
    uint64_t count[MAXC][MAXK], bad[MAXC][MAXK], wrong_rank[MAXC][MAXK], in[MAXC][MAXK][C05_MAXIN];
    uint64_t fin[2][MAXT], malformed[2][MAXT];
} slotlog_t;
static slotlog_t lg[MAXB], all[MAXB];
static int slot_E[MAXB]; static uint32_t slot_owner[MAXB][16]; static const c05_variant_t *slot_V[MAXB];
static pthread_mutex_t lg_mtx = PTHREAD_MUTEX_INITIALIZER;
void c05_body(int slot, int cls, int k, int nin, void **in, int nout, void **out)
{
    uint64_t v[C05_MAXIN]; int bad = 0;
    if (slot < 0 || slot >= MAXB || cls < 0 || cls >= MAXC || k < 0 || k >= MAXK || nin > C05_MAXIN) { fprintf(stderr, "c05_body: instance out of range\n"); abort(); }
    int E = slot_E[slot];
    for (int i = 0; i < nin; i++) {
        const uint64_t *t = (const uint64_t *)in[i];
        if (!t) { v[i] = 0; bad |= 1 << i; continue; }
        v[i] = t[0];
        if (!tile_ok(t, E)) bad |= 1 << (8 + i);
    }
    for (int j = 0; j < nout; j++) tile_write((uint64_t *)out[j], Hf(cls, k, j, nin, v), E);
    pthread_mutex_lock(&lg_mtx);
    lg[slot].count[cls][k]++;
    lg[slot].bad[cls][k] |= (uint64_t)bad;
    for (int i = 0; i < nin; i++) lg[slot].in[cls][k][i] = v[i];
    pthread_mutex_unlock(&lg_mtx);
}

/* ---- results ---- */
static char *acc; static size_t acc_len, acc_cap;
static void acc_printf(const char *fmt, ...)
{
    va_list ap; char tmp[4096];
    va_start(ap, fmt); int k = vsnprintf(tmp, sizeof(tmp), fmt, ap); va_end(ap);
    if (k < 0) return;
    if ((size_t)k >= sizeof(tmp)) k = sizeof(tmp) - 1;
    if (acc_len + k + 1 > acc_cap) { acc_cap = 2 * (acc_cap + k) + 4096; acc = (char *)realloc(acc, acc_cap); }
    memcpy(acc + acc_len, tmp, k); acc_len += k; acc[acc_len] = 0;
}
typedef struct { int v, p, e; } caseid_t;
static long cases_done, tasks_checked, inputs_checked, tiles_checked, nfail, batches;
static int cur_n; static caseid_t cur_first; static volatile double cur_deadline; static const char *cur_stage = "idle";
static int eff_bcast = -1, eff_threads; static long eff_short = -1;
static pthread_mutex_t out_mtx = PTHREAD_MUTEX_INITIALIZER;
static void flush_results(const char *status)
{
    char fn[1200], fn2[1200];
    pthread_mutex_lock(&out_mtx);
    snprintf(fn, sizeof(fn), "%s/r%d.json.tmp", outdir, rank); snprintf(fn2, sizeof(fn2), "%s/r%d.json", outdir, rank);
    FILE *f = fopen(fn, "w");
    if (f) {
        fprintf(f, "{\"rank\": %d, \"n\": %d, \"status\": \"%s\", \"bcast\": %d, \"short_limit\": %ld, \"threads\": %d, \"cases_done\": %ld, \"batches\": %ld, \"tasks_checked\": %ld, "
                   "\"inputs_checked\": %ld, \"tiles_checked\": %ld, \"current\": [%d, %d, %d], \"current_batch\": %d, \"stage\": \"%s\", \"failures\": [%s]}\n",
                rank, nproc, status, eff_bcast, eff_short, eff_threads, cases_done, batches, tasks_checked, inputs_checked, tiles_checked, cur_first.v, cur_first.p, cur_first.e, cur_n, cur_stage, acc ? acc : "");
        fclose(f); rename(fn, fn2);
    }
    pthread_mutex_unlock(&out_mtx);
}
static void case_fail(const caseid_t *c, const char *fmt, ...)
{
    char msg[1500]; va_list ap; va_start(ap, fmt); vsnprintf(msg, sizeof(msg), fmt, ap); va_end(ap);
    for (char *p = msg; *p; p++) if (*p == '"' || *p == '\\' || (unsigned char)*p < 32) *p = '\'';
    acc_printf("%s{\"case\": [%d, %d, %d], \"message\": \"%s\"}", nfail ? ", " : "", c->v, c->p, c->e, msg);
    nfail++;
}
static void *watchdog(void *arg)
{
    (void)arg;
    for (;;) {
        usleep(50000);
        double d = cur_deadline;
        if (d > 0 && now() > d) {
            /* this rank did not get out of the batch in time: record and leave; mpiexec takes the other ranks down */
            flush_results("hang");
            _exit(3);
        }
    }
    return NULL;
}
static int parse_cases(const char *s, caseid_t *out, int max)
{
    int n = 0;
    while (s && *s && n < max) {
        if (sscanf(s, "%d:%d:%d", &out[n].v, &out[n].p, &out[n].e) == 3) n++;
        s = strchr(s, ','); if (s) s++;
    }
    return n;
}

static void run_batch(parsec_context_t *parsec, const caseid_t *cs, int nb)
{
    vdc_t *A[MAXB], *B[MAXB]; parsec_taskpool_t *tp[MAXB]; parsec_datatype_t dtt[MAXB];
    cur_first = cs[0]; cur_n = nb; cur_stage = "setup";
    memset(lg, 0, sizeof(slotlog_t) * nb);
    for (int s = 0; s < nb; s++) {
        const c05_variant_t *V = &c05_variants[cs[s].v];
        int N = V->N, E = cs[s].e;
        { int q = cs[s].p; for (int i = 0; i < N; i++) { slot_owner[s][i] = (uint32_t)(q % nproc); q /= nproc; } }
        slot_E[s] = E; slot_V[s] = V;
        size_t bytes = (size_t)E * sizeof(uint64_t);
        parsec_type_create_contiguous(E, parsec_datatype_int64_t, &dtt[s]);
        A[s] = vdc_new(N, bytes, nproc, rank, slot_owner[s]); B[s] = vdc_new(N, bytes, nproc, rank, slot_owner[s]);
        A[s]->super.default_dtt = dtt[s]; B[s]->super.default_dtt = dtt[s];
        for (int i = 0; i < N; i++) if ((int)slot_owner[s][i] == rank) { tile_write((uint64_t *)vdc_elem(A[s], i), mix(1000 + (uint64_t)i), E); tile_write((uint64_t *)vdc_elem(B[s], i), mix(2000 + (uint64_t)i), E); }
        tp[s] = V->make(&A[s]->super, &B[s]->super, N, V->M, V->L, s, bytes, dtt[s]);
    }
    cur_deadline = now() + case_timeout + 0.5 * nb;
    cur_stage = "run";
    for (int s = 0; s < nb; s++) parsec_context_add_taskpool(parsec, tp[s]);
    parsec_context_start(parsec);
    parsec_context_wait(parsec);
    cur_stage = "gather";
    for (int s = 0; s < nb; s++) {
        const c05_variant_t *V = slot_V[s]; int E = slot_E[s];
        for (int i = 0; i < V->ninst; i++) { const c05_inst_t *t = &V->inst[i]; if (lg[s].count[t->cls][t->k] && (int)slot_owner[s][t->tile] != rank) lg[s].wrong_rank[t->cls][t->k] = 1; }
        for (int i = 0; i < V->N; i++) if ((int)slot_owner[s][i] == rank) {
            const uint64_t *a = (const uint64_t *)vdc_elem(A[s], i), *b = (const uint64_t *)vdc_elem(B[s], i);
            lg[s].fin[0][i] = a[0]; lg[s].fin[1][i] = b[0];
            if (!tile_ok(a, E) && !V->dontcare_a[i]) lg[s].malformed[0][i] = 1;
            if (!tile_ok(b, E)) lg[s].malformed[1][i] = 1;
        }
    }
    MPI_Reduce(lg, all, (int)(sizeof(slotlog_t) / sizeof(uint64_t)) * nb, MPI_UINT64_T, MPI_SUM, 0, MPI_COMM_WORLD);
    cur_deadline = 0;
    cur_stage = "check";
    if (rank == 0) for (int s = 0; s < nb; s++) {
        const c05_variant_t *V = slot_V[s]; int N = V->N, E = slot_E[s]; const caseid_t *c = &cs[s]; const slotlog_t *a = &all[s];
        char ow[64] = ""; for (int i = 0; i < N; i++) sprintf(ow + strlen(ow), "%s%u", i ? "," : "", slot_owner[s][i]);
        int seen[MAXC][MAXK]; memset(seen, 0, sizeof(seen));
        for (int i = 0; i < V->ninst; i++) {
            const c05_inst_t *t = &V->inst[i];
            seen[t->cls][t->k] = 1;
            tasks_checked++;
            if (a->count[t->cls][t->k] != 1) { case_fail(c, "%s N=%d M=%d L=%d owner=[%s] elems=%d: task class %d instance %d executed %ld times", V->family, N, V->M, V->L, ow, E, t->cls, t->k, (long)a->count[t->cls][t->k]); continue; }
            if (a->wrong_rank[t->cls][t->k]) case_fail(c, "%s N=%d M=%d L=%d owner=[%s] elems=%d: task class %d instance %d ran on a rank other than the owner of its placement tile %d", V->family, N, V->M, V->L, ow, E, t->cls, t->k, t->tile);
            if (a->bad[t->cls][t->k]) case_fail(c, "%s N=%d M=%d L=%d owner=[%s] elems=%d: task class %d instance %d received a malformed or NULL tile (mask 0x%lx)", V->family, N, V->M, V->L, ow, E, t->cls, t->k, (unsigned long)a->bad[t->cls][t->k]);
            for (int f = 0; f < t->nin; f++) {
                inputs_checked++;
                if (a->in[t->cls][t->k][f] != t->in[f]) case_fail(c, "%s N=%d M=%d L=%d owner=[%s] elems=%d: task class %d instance %d read 0x%016lx on its input %d, the sequential reference reads 0x%016lx", V->family, N, V->M, V->L, ow, E, t->cls, t->k, (unsigned long)a->in[t->cls][t->k][f], f, (unsigned long)t->in[f]);
            }
        }
        for (int cc = 0; cc < MAXC; cc++) for (int k = 0; k < MAXK; k++) if (!seen[cc][k] && a->count[cc][k]) case_fail(c, "%s N=%d owner=[%s]: task class %d instance %d does not exist but ran %ld times", V->family, N, ow, cc, k, (long)a->count[cc][k]);
        for (int i = 0; i < N; i++) {
            tiles_checked += 2;
            if (!V->dontcare_a[i] && a->fin[0][i] != V->final_a[i]) case_fail(c, "%s N=%d M=%d L=%d owner=[%s] elems=%d: final A(%d) = 0x%016lx, reference 0x%016lx", V->family, N, V->M, V->L, ow, E, i, (unsigned long)a->fin[0][i], (unsigned long)V->final_a[i]);
            if (a->fin[1][i] != V->final_b[i]) case_fail(c, "%s N=%d M=%d L=%d owner=[%s] elems=%d: final B(%d) = 0x%016lx, reference 0x%016lx", V->family, N, V->M, V->L, ow, E, i, (unsigned long)a->fin[1][i], (unsigned long)V->final_b[i]);
            if (a->malformed[0][i] || a->malformed[1][i]) case_fail(c, "%s N=%d owner=[%s] elems=%d: final tile %d is malformed", V->family, N, ow, E, i);
        }
    }
    for (int s = 0; s < nb; s++) { parsec_taskpool_free(tp[s]); vdc_free(A[s]); vdc_free(B[s]); parsec_type_free(&dtt[s]); }
    cases_done += nb; batches++;
    cur_stage = "idle";
}

int main(int argc, char **argv)
{
    int provided, threads = 1, nvar = 0, vars[128], nelems = 0, elems[4], batch = 16;
    const char *only = NULL, *skip = NULL;
    for (int i = 1; i < argc; i++) {
        if (!strcmp(argv[i], "--outdir") && i + 1 < argc) snprintf(outdir, sizeof(outdir), "%s", argv[++i]);
        else if (!strcmp(argv[i], "--threads") && i + 1 < argc) threads = atoi(argv[++i]);
        else if (!strcmp(argv[i], "--batch") && i + 1 < argc) batch = atoi(argv[++i]);
        else if (!strcmp(argv[i], "--case-timeout") && i + 1 < argc) case_timeout = atof(argv[++i]);
        else if (!strcmp(argv[i], "--only") && i + 1 < argc) only = argv[++i];
        else if (!strcmp(argv[i], "--skip") && i + 1 < argc) skip = argv[++i];
        else if (!strcmp(argv[i], "--variants") && i + 1 < argc) { const char *s = argv[++i]; while (s && *s && nvar < 128) { vars[nvar++] = atoi(s); s = strchr(s, ','); if (s) s++; } }
        else if (!strcmp(argv[i], "--elems") && i + 1 < argc) { const char *s = argv[++i]; while (s && *s && nelems < 4) { elems[nelems++] = atoi(s); s = strchr(s, ','); if (s) s++; } }
    }
    if (batch < 1) batch = 1;
    if (batch > MAXB) batch = MAXB;
    if (!nelems) { elems[0] = 8; elems[1] = 256; nelems = 2; }     /* 64 B (below the 1 KiB short limit) and 2 KiB (above it) */
    MPI_Init_thread(&argc, &argv, MPI_THREAD_SERIALIZED, &provided);
    MPI_Comm_rank(MPI_COMM_WORLD, &rank); MPI_Comm_size(MPI_COMM_WORLD, &nproc);
    int pargc = 1; char *pargv_[2] = { argv[0], NULL }; char **pargv = pargv_;
    parsec_context_t *parsec = parsec_init(threads, &pargc, &pargv);
    if (!parsec) { fprintf(stderr, "drv: parsec_init failed\n"); return 2; }
    eff_threads = threads;
    { int idx = parsec_mca_param_find("runtime", NULL, "comm_coll_bcast"); if (idx >= 0) parsec_mca_param_lookup_int(idx, &eff_bcast);
      size_t sl = 0; idx = parsec_mca_param_find("runtime", NULL, "comm_short_limit"); if (idx >= 0) { parsec_mca_param_lookup_sizet(idx, &sl); eff_short = (long)sl; } }
    cur_first.v = -1;
    flush_results("running");
    MPI_Barrier(MPI_COMM_WORLD);      /* start-up skew between the ranks must not count against the first batch */
    pthread_t wd; pthread_create(&wd, NULL, watchdog, NULL);
    static caseid_t sk[8192], list[65536]; int nsk = parse_cases(skip, sk, 8192), nl = 0;
    if (only) nl = parse_cases(only, list, 65536);
    else for (int a = 0; a < nvar; a++) {
        int vi = vars[a]; if (vi < 0 || vi >= c05_nvariants) { fprintf(stderr, "drv: no variant %d\n", vi); return 2; }
        int np = 1; for (int i = 0; i < c05_variants[vi].N; i++) np *= nproc;
        for (int p = 0; p < np; p++) for (int ei = 0; ei < nelems; ei++) {
            int skipit = 0;
            for (int s = 0; s < nsk; s++) if (sk[s].v == vi && sk[s].p == p && sk[s].e == elems[ei]) skipit = 1;
            if (!skipit && nl < 65536) { list[nl].v = vi; list[nl].p = p; list[nl].e = elems[ei]; nl++; }
        }
    }
    for (int i = 0; i < nl; i++) if (list[i].v < 0 || list[i].v >= c05_nvariants || c05_variants[list[i].v].N > MAXT || list[i].e < 1) { fprintf(stderr, "drv: bad case\n"); return 2; }
    for (int i = 0; i < nl; i += batch) {
        run_batch(parsec, &list[i], nl - i < batch ? nl - i : batch);
        flush_results("running");
    }
    cur_first.v = -1; cur_n = 0;
    flush_results(nfail ? "violation" : "ok");
    parsec_fini(&parsec);
    MPI_Finalize();
    return 0;
}
